#!/usr/bin/env python3
"""Confirm a seeded change independently: in a scratch worktree of /repo,
  (1) with the patch: the existing suite passes and the demonstration fails,
  (2) without the patch: the demonstration passes.
Then store it as /verif/seeded/<name>/{patch.diff,demo.rs,meta.json}.
usage: confirm_seed.py <property> <src dir with patch.diff demo.rs notes.md> <name> "<needs>" """
import sys, os, subprocess, json, shutil, re
prop, src, name, needs = sys.argv[1:5]
wt = "/tmp/confirm-" + name
tgt = "/tmp/confirm-target"
env = dict(os.environ, CARGO_NET_OFFLINE="true", CARGO_TARGET_DIR=tgt)
def sh(cmd, cwd=None):
    p = subprocess.run(cmd, shell=True, cwd=cwd, stdout=subprocess.PIPE, stderr=subprocess.STDOUT, text=True, env=env)
    return p.returncode, p.stdout
sh(f"git -C /repo worktree remove --force {wt}")
rc, out = sh(f"git -C /repo worktree add -q --detach {wt} HEAD"); assert rc == 0, out
try:
    rc, out = sh(f"git apply {src}/patch.diff", wt); assert rc == 0, "patch does not apply: " + out
    rc, suite = sh("cargo test --offline --lib 2>&1 | tail -5", wt)
    m = re.search(r"test result: (\w+)\. (\d+) passed; (\d+) failed", suite)
    suite_ok = bool(m) and m.group(1) == "ok" and m.group(3) == "0"
    os.makedirs(wt + "/tests", exist_ok=True)
    shutil.copy(src + "/demo.rs", wt + "/tests/seed_demo.rs")
    rc1, demo_with = sh("cargo test --offline --test seed_demo 2>&1 | tail -15", wt)
    fails_with = "test result: FAILED" in demo_with
    sh("git checkout -- src", wt)
    rc2, demo_without = sh("cargo test --offline --test seed_demo 2>&1 | tail -8", wt)
    passes_without = "test result: ok" in demo_without and "FAILED" not in demo_without
    ok = suite_ok and fails_with and passes_without
    print(name, "suite_ok", suite_ok, "demo_fails_with_patch", fails_with, "demo_passes_without", passes_without)
    if ok:
        d = f"/verif/seeded/{name}"
        os.makedirs(d, exist_ok=True)
        shutil.copy(src + "/patch.diff", d + "/patch.diff")
        shutil.copy(src + "/demo.rs", d + "/demo.rs")
        if os.path.exists(src + "/notes.md"):
            shutil.copy(src + "/notes.md", d + "/notes.md")
        meta = {"property": prop, "needs_to_manifest": needs,
                "confirmed": {"existing_suite_with_patch": m.group(0), "demo_with_patch": "FAILED", "demo_without_patch": "ok"},
                "commands": ["git apply patch.diff", "cargo test --offline --lib", "cargo test --offline --test seed_demo (with patch: fails)",
                             "git checkout -- src; cargo test --offline --test seed_demo (passes)"],
                "detected_by": None}
        json.dump(meta, open(d + "/meta.json", "w"), indent=1)
    else:
        print(suite[-600:], demo_with[-800:], demo_without[-600:])
finally:
    sh(f"git -C /repo worktree remove --force {wt}")
