#!/usr/bin/env python3
"""Apply every seeded change under /verif/seeded to /repo in turn, run the quick check of the
property it breaks (and any extra checks given), undo it, and record which check reported it.
usage: run_seeded.py [name-substring] [--checks C01,C02]"""
import sys, os, subprocess, json, glob
ROOT = os.path.dirname(os.path.dirname(os.path.abspath(__file__)))
flt = sys.argv[1] if len(sys.argv) > 1 and not sys.argv[1].startswith("--") else ""
extra = []
if "--checks" in sys.argv:
    extra = sys.argv[sys.argv.index("--checks") + 1].split(",")
assert subprocess.run("git -C /repo status --porcelain", shell=True, capture_output=True, text=True).stdout.strip() == "", "/repo not clean"
rows = []
for d in sorted(glob.glob(ROOT + "/seeded/*/")):
    name = os.path.basename(d.rstrip("/"))
    if ("--exact" in sys.argv and flt != name) or flt not in name: continue
    meta = json.load(open(d + "meta.json"))
    checks = [meta["property"]] + [c for c in extra if c != meta["property"]] + [c for c in meta.get("also_check", []) if c != meta["property"]]
    r = subprocess.run(f"git -C /repo apply {d}patch.diff", shell=True, capture_output=True, text=True)
    if r.returncode != 0:
        print(name, "PATCH DOES NOT APPLY", r.stderr[:200]); continue
    det = []
    try:
        for c in checks:
            if not os.path.exists(f"{ROOT}/lib/props/{c}.py"): continue
            p = subprocess.run([ROOT + "/check", c, "--tier", "quick"], cwd=ROOT, capture_output=True, text=True)
            v = [l for l in p.stdout.split("\n") if l.startswith("VIOLATION")]
            if p.returncode == 1 and v:
                det.append({"check": c, "line": v[0]})
            elif p.returncode == 2:
                det.append({"check": c, "line": "MACHINERY-ERROR " + p.stdout[-300:]})
    finally:
        subprocess.run("git -C /repo checkout -- . && git -C /repo clean -fdq", shell=True)
        # evidence files written while a seeded change was applied describe the changed tree: put the committed ones back
        subprocess.run(f"git -C {ROOT} checkout -- evidence", shell=True)
    meta["detected_by"] = det
    json.dump(meta, open(d + "meta.json", "w"), indent=1)
    print(name, "->", [x["check"] + (" (no-failing-input)" if "no-failing-input-found" in x["line"] else "") + (" !!MACHINERY-ERROR" if x["line"].startswith("MACHINERY") else "") for x in det] or "MISSED")
subprocess.run(f"rm -rf {ROOT}/replays", shell=True)
