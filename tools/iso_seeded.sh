#!/bin/bash
# Run seeded changes without touching /repo or /verif: private copies of both, bind-mounted over the real paths inside a
# private mount namespace (so cargo's absolute paths and the check's constants stay valid).
# usage: tools/iso_seeded.sh <tag> <run_seeded args...>      results: /var/tmp/iso-<tag>/verif/seeded/*/meta.json, log in /var/tmp/iso-<tag>/log
set -e
tag=$1; shift
d=/var/tmp/iso-$tag
rm -rf $d; mkdir -p $d
git clone -q /repo $d/repo
rsync -a --exclude work --exclude replays /verif/ $d/verif/
unshare -m bash -c "mount --bind $d/repo /repo && mount --bind $d/verif /verif && cd /verif && python3 tools/run_seeded.py $* " > $d/log 2>&1
echo done >> $d/log
