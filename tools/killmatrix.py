#!/usr/bin/env python3
"""print the markdown kill matrix of the seeded changes (seeded/*/meta.json, written by tools/run_seeded.py)"""
import json, glob, os
ROOT = os.path.dirname(os.path.dirname(os.path.abspath(__file__)))
print("| seeded change (`seeded/<name>/patch.diff`) | property | needs, to manifest | reported by |")
print("|---|---|---|---|")
for d in sorted(glob.glob(ROOT + "/seeded/*/")):
    m = json.load(open(d + "meta.json"))
    det = m.get("detected_by")
    if det is None: how = "not run yet"
    elif not det: how = "**missed**"
    else: how = ", ".join(x["check"] + (" (proof/correspondence broken, no failing input found)" if "no-failing-input-found" in x["line"] else " (replay)") for x in det)
    print("| %s | %s | %s | %s |" % (os.path.basename(d.rstrip("/")), m["property"], str(m.get("needs_to_manifest", "")).replace("|", "/")[:160], how))
