#!/usr/bin/env python3
"""Confirm a seeded change whose demonstration is a Python script (bindings): in a scratch worktree of /repo,
with the patch: the existing suite passes, the Rust reference test (if any) passes, the Python demo fails;
without the patch: the Python demo passes. Then store it under /verif/seeded/<name>/.
usage: confirm_seed_py.py <property> <src dir with patch.diff demo.py [demo_ref.rs] notes.md> <name> "<needs>" """
import sys, os, subprocess, json, shutil, re
prop, src, name, needs = sys.argv[1:5]
wt = "/tmp/confirm-" + name
tgt = "/tmp/confirm-target-py"
pyd = "/tmp/confirm-pymod"
env = dict(os.environ, CARGO_NET_OFFLINE="true", CARGO_TARGET_DIR=tgt, PYO3_PYTHON=sys.executable)
def sh(cmd, cwd=None):
    p = subprocess.run(cmd, shell=True, cwd=cwd, stdout=subprocess.PIPE, stderr=subprocess.STDOUT, text=True, env=env)
    return p.returncode, p.stdout
def build_module():
    rc, out = sh("cargo build --offline --lib 2>&1 | tail -3", wt); assert "Finished" in out, out
    os.makedirs(pyd, exist_ok=True); shutil.copy(tgt + "/debug/libsimilari.so", pyd + "/similari.so")
sh(f"git -C /repo worktree remove --force {wt}")
rc, out = sh(f"git -C /repo worktree add -q --detach {wt} HEAD"); assert rc == 0, out
try:
    rc, out = sh(f"git apply {src}/patch.diff", wt); assert rc == 0, "patch does not apply: " + out
    rc, suite = sh("cargo test --offline --lib 2>&1 | tail -5", wt)
    m = re.search(r"test result: (\w+)\. (\d+) passed; (\d+) failed", suite)
    suite_ok = bool(m) and m.group(1) == "ok" and m.group(3) == "0"
    ref_ok = True
    if os.path.exists(src + "/demo_ref.rs"):
        os.makedirs(wt + "/tests", exist_ok=True); shutil.copy(src + "/demo_ref.rs", wt + "/tests/seed_demo_ref.rs")
        rc, r = sh("cargo test --offline --test seed_demo_ref 2>&1 | tail -5", wt); ref_ok = "test result: ok" in r
    build_module()
    rc1, with_p = sh(f"{sys.executable} {src}/demo.py {pyd} 2>&1"); with_p = with_p[-1200:]
    sh("git checkout -- src", wt)
    build_module()
    rc2, without_p = sh(f"{sys.executable} {src}/demo.py {pyd} 2>&1"); without_p = without_p[-600:]
    ok = suite_ok and ref_ok and rc1 != 0 and rc2 == 0
    print(name, "suite_ok", suite_ok, "rust_ref_ok", ref_ok, "demo_fails_with_patch", rc1 != 0, "demo_passes_without", rc2 == 0)
    if ok:
        d = f"/verif/seeded/{name}"; os.makedirs(d, exist_ok=True)
        for f in ("patch.diff", "demo.py", "demo_ref.rs", "notes.md"):
            if os.path.exists(src + "/" + f): shutil.copy(src + "/" + f, d + "/" + f)
        meta = {"property": prop, "needs_to_manifest": needs,
                "confirmed": {"existing_suite_with_patch": m.group(0), "demo_with_patch": "exit %d" % rc1, "demo_without_patch": "exit 0"},
                "commands": ["git apply patch.diff", "cargo test --offline --lib", "cargo build --offline --lib; cp target/debug/libsimilari.so <dir>/similari.so; python3 demo.py <dir> (with patch: exit 1)",
                             "git checkout -- src; rebuild; python3 demo.py <dir> (exit 0)"],
                "detected_by": None}
        json.dump(meta, open(d + "/meta.json", "w"), indent=1)
    else:
        print(suite[-600:], with_p[-800:], without_p[-600:])
finally:
    sh(f"git -C /repo worktree remove --force {wt}")
    shutil.rmtree(pyd, ignore_errors=True)
