#!/bin/bash
# Run any command against private copies of /repo and /verif (bind-mounted over the real paths in a private mount namespace).
# usage: tools/iso_run.sh <tag> '<shell command run in /verif>'     log: /var/tmp/iso-<tag>/log
set -e
tag=$1; shift
d=/var/tmp/iso-$tag
rm -rf $d; mkdir -p $d
git clone -q /repo $d/repo
rsync -a --exclude work --exclude replays /verif/ $d/verif/
unshare -m bash -c "mount --bind $d/repo /repo && mount --bind $d/verif /verif && cd /verif && $*" > $d/log 2>&1
echo "iso-done rc=$?" >> $d/log
