"""C11 — atomic track updates under callback failure; merge history."""
from storegen import *
import itertools

ID = "C11"
THEOREM_MODULE = "SimVerif.Props.C11"
THEOREM_MODULES = ["SimVerif.Props.C11", "SimVerif.Tie.Track", "SimVerif.Props.C11s"]
NONTRIVIAL_FLAGS = {"fails", "fails-after-update", "fails-multi-class", "history-on", "no-class-present", "multi-class", "dup-class", "truncation",
                    "merge-CB", "merge-NOTFOUND", "merge-SAME", "add-missing"}
RULE = ("cases = `track new` (tracks with 0..3 feature classes built through the builder), then `track add` / `track merge dst src classes flag` sequences, and `store add|mext|mextnb|mown` sequences; "
        "callback failures are placed by the inputs: update with fail flag (apply), source attribute value a mod 7 = 6 (attribute merge), an observation with oa=-1 (optimise on add) or oa=13 in the k-th requested class (optimise on merge, after it has already mutated state); "
        "class lists present in both / one / neither track, duplicates, both history flags; the thorough tier enumerates every failure position for 1..3 classes; "
        "non-trivial = the model flagged a failing op, a failure after a successful attribute update or at a later class, history on, no requested class present, multi/duplicate classes, truncation by optimise; distinct = distinct request line")
TRUSTED_BASE = ["Lean 4.33 kernel", "axioms: propext, Quot.sound, Classical.choice (at most)",
                "model SimVerif/Model/Track.lean, Model/Store.lean (parametric in all callbacks) tied to src/track.rs, src/track/store.rs by the differential run with scriptable callbacks mirrored in Driver/Store.lean",
                "full state (attributes, observations per class, merge history, notifier count; metric state via its effect on the attributes) compared after every operation"]
ASSUMPTIONS = ["callbacks are deterministic functions of their arguments (failure positions are chosen through the inputs)", "HashMap iteration order of feature classes does not matter for the scripted callbacks (their effects commute)"]
LEVEL_TEXT = ("Lean 4 theorems for EVERY family of callbacks (apply, attribute merge, optimise as arbitrary functions returning errors), hence for every failure position: add_observation and Track::merge either succeed with exactly one "
              "notification or return an error with the track equal to the input in all five parts and no notification; after a successful merge the history is old ++ source's (flag on and some requested class present) or unchanged, never anything else; "
              "failing store.add / merge_external / merge_owned leave the store's abstract map unchanged. Differential run of the real Track / TrackStore with scripted failing callbacks.")
LEVEL_NOTE = "Trusted: Lean kernel; model<->code tie sampled with full-state comparison after every op; worker threads exercised, their interleaving modelled in C10."
TECHNIQUE = "Lean 4 proof (case analysis over arbitrary callbacks, induction over the class loop) with differential correspondence check under scripted faults"


def track_case(rng, nops=6):
    lines = []
    for slot in range(3):
        lines.append("track new %d %s" % (slot, trackspec(rng, 10 + slot, clean=rng.random() < 0.8)))
    for _ in range(nops):
        if rng.random() < 0.5:
            lines.append("track add %d %s" % (rng.randint(0, 2), obs(rng)))
        else:
            d, s = rng.sample([0, 1, 2], 2)
            lines.append("track merge %d %d %s %d" % (d, s, classes(rng) if rng.random() < .9 else "0", rng.randint(0, 1)))
    return lines


def fault_enum_cases():
    """every failure position of Track::merge for 1..3 requested classes, both flags"""
    cases = []
    for ncls in (1, 2, 3):
        for fail_at in list(range(ncls)) + [None, "attr"]:
            for flag in (0, 1):
                for present in ("both", "src", "dst", "none"):
                    dst_obs, src_obs = [], []
                    for c in range(ncls):
                        poison = (fail_at == c)
                        if present in ("both", "dst"): dst_obs.append("%d %d 1 -" % (c, 5 + c))
                        if present in ("both", "src") or poison: src_obs.append("%d %d 2 -" % (c, 13 if poison else 7 + c))
                    a_src = 6 if fail_at == "attr" else 2
                    lines = ["track new 0 20 1 0 %d %s" % (len(dst_obs), " ".join(dst_obs)),
                             "track new 1 21 %d 0 %d %s" % (a_src, len(src_obs), " ".join(src_obs)),
                             "track merge 0 1 %d %s %d" % (ncls, " ".join(str(c) for c in range(ncls)), flag),
                             "track add 0 0 9 9 1:0"]
                    cases.append(lines)
    return cases


def store_case(rng, nops=8):
    lines = ["store new %d %d 0" % (rng.randint(1, 4), rng.randint(0, 3))]
    ids = [1, 2, 3, 4]
    for _ in range(nops):
        r = rng.random()
        if r < 0.25:
            lines.append("store addt %s" % trackspec(rng, rng.choice(ids), clean=rng.random() < .8))
        elif r < 0.5:
            lines.append("store add %d %s" % (rng.choice(ids), obs(rng)))
        elif r < 0.7:
            lines.append("store %s %d %s %s %d" % (rng.choice(["mext", "mextnb"]), rng.choice(ids), trackspec(rng, rng.choice(ids + [9]), clean=True), classes(rng), rng.randint(0, 1)))
        else:
            lines.append("store mown %d %d %s %d %d" % (rng.choice(ids), rng.choice(ids), classes(rng), rng.randint(0, 1), rng.randint(0, 1)))
    return lines


def generate(rng, tier):
    n = {"quick": 400, "thorough": 3000, "search": 1000}.get(tier, 150)
    cases = fault_enum_cases() if tier != "search" else []
    for _ in range(n):
        cases.append(track_case(rng))
        cases.append(store_case(rng))
    return cases


def shape_key(case, results):
    for r in results:
        if not r.o or not r.k or r.bad:
            t = r.req.split()
            key = t[0] + "-" + t[1]
            if t[0] == "track" and t[1] == "merge":
                key += "-flag" + t[-1] + ("-fails" if "fails" in r.flags else "") + ("-noclass" if "no-class-present" in r.flags else "") + ("-multi" if "multi-class" in r.flags else "")
            if t[0] == "store":
                key += "-" + "-".join(f for f in r.flags if f.startswith("merge-") or f.startswith("add-missing"))
            return key
    return "none"

SOURCE_TIE = "Source-level tie by proof (Tie/Track, Props/C11s): Track::add_observation and Track::merge as regenerated from the source equal the model's functions for every family of callbacks and whatever a failing callback leaves in the places it was given; atomicity and the history rule are restated for the generated functions."
LEVEL_TEXT = LEVEL_TEXT + " " + SOURCE_TIE
TRUSTED_BASE = TRUSTED_BASE + ["translator/kernels.py + rustexpr.py (reader of the Rust subset, per-function tables) for the functions named in SOURCE_TIE; generated definitions are proof obligations (Tie modules) on every run"]
TECHNIQUE = TECHNIQUE + "; model regenerated from the source by a translator for the functions of SOURCE_TIE, tied by proof"
