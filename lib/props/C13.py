"""C13 — bounded galleries and histories."""
from trkgen import *

ID = "C13"
THEOREM_MODULES = ["SimVerif.Props.C13", "SimVerif.Props.C13b", "SimVerif.Tie.Attr", "SimVerif.Tie.Gallery", "SimVerif.Tie.VMetric", "SimVerif.Props.C13s", "SimVerif.Tie.Record", "SimVerif.Props.C01s", "SimVerif.Tie.OptimizeV"]
THEOREM_MODULE = "SimVerif.Props.C13"
NONTRIVIAL_FLAGS = {"gallery-full", "feature-not-collectable", "continuation", "visual-attachment", "handed-out"}
RULE = ("VisualSORT / BatchVisualSORT (and SORT kinds for the box histories) lifetimes of up to several hundred updates with history lengths 1..10, visual_max_observations 1..8 (minimal track length <= it), "
        "quality sequences increasing / decreasing / equal / around the collect threshold (including qualities that differ in the third decimal), features present or absent, minimal-area and own-area collect thresholds; "
        "after every call the executor dumps, per track, the three bounded histories (as tokens of the submitted boxes / features), the collected-feature count and the whole gallery (quality, feature token, box flag per entry), compared exactly with the model; "
        "wasted tracks are converted and their histories compared; non-trivial = an update on a full gallery (eviction), a feature refused by the collect thresholds, continuations, hand-outs; distinct = distinct request line; the record's predicted box must echo, bit for bit, the last entry of the stored history of predicted boxes (read back from the store after the call), as the observed box echoes the detection")
TRUSTED_BASE = ["Lean 4.33 kernel", "axioms: propext, Quot.sound, Classical.choice (at most)",
                "model SimVerif/Model/Tracker.lean (`galleryUpdate`, `pushBounded`, collected count) tied to src/trackers/visual_sort/metric.rs (optimize / optimize_observations), visual_sort/track_attributes.rs and sort.rs (update_history) by the differential run with full gallery dumps",
                "the collect decision (quality / area / own-area share against the thresholds) is taken by the driver from the implementation-reported area and share; qualities compared as exact rationals"]
ASSUMPTIONS = ["visual_max_observations >= 1 and minimal track length <= it (asserted by the options builder)", "history length > 0"]
LEVEL_TEXT = ("Lean 4 theorems by induction over the update sequence, for all quality sequences: a gallery never exceeds visual_max_observations entries; the collected count is the number of stored features; only entries carrying a feature survive an update, the newest entry is first and the only one with a box; "
              "when the gallery is full the evicted entry has minimal quality among the stored features; a continuing update stores the new feature iff the detection meets the collect thresholds (a track's first feature is exempt); "
              "after k pushes a bounded history holds exactly the last min(k, H) entries in arrival order, the last one being the entry echoed in the record. Differential run with full gallery / history dumps after every call. In every reachable state of a VisualSORT tracker — any sequence of predict, batch predict, skip, wasted, clear_wasted, set_auto_waste calls from the empty tracker — every stored track holds between 1 and visual_max_observations observations, at most one of them with a box, reports the number of stored features as its collected count, and keeps histories of at most kept_history_length entries (C13_reachable, by induction over the calls).")
LEVEL_NOTE = "Trusted: Lean kernel; model<->code tie sampled with complete gallery/history dumps."
TECHNIQUE = "Lean 4 proof (invariants by induction over updates, stable-sort lemmas) with differential correspondence check"


def lifetime(rng, kind, steps, hist):
    """one long-lived object, so that galleries fill up and evictions happen"""
    lines = [new_line(rng, kind, hist=hist, max_idle=3)]
    vis = kind in VISUAL
    x, y = 50.0, 50.0
    emb = [rng.uniform(-1, 1) for _ in range(4)]
    mode = rng.choice(["inc", "dec", "equal", "around", "close", "random"])
    # box sizes straddling the minimal-area thresholds (100, 400) while still overlapping enough to continue the track
    # positionally: the detection's own box and the track's smoothed box then fall on different sides of the collect gate
    base = rng.choice([10.5, 21.0, 30.0])
    for k in range(steps):
        x += rng.uniform(-2, 2); y += rng.uniform(-2, 2)
        q = {"inc": 0.1 + 0.8 * k / steps, "dec": 0.9 - 0.8 * k / steps, "equal": 0.75, "around": rng.choice([0.49, 0.5, 0.51, 0.69, 0.7, 0.71]),
             "close": 0.8 + rng.choice([0.001, 0.004, 0.007, 0.002]), "random": rng.uniform(0, 1)}[mode]
        feat = None if rng.random() < 0.15 else [f32(v + rng.uniform(-0.02, 0.02)) for v in emb]
        d = (x, y, None, 1.0, rng.choice([base, base, f32(base * 0.9), 8.0]), 1.0, None)
        tok = det_tok(*d, vis=((q if rng.random() < 0.9 else None, feat) if vis else None))
        lines.append("trk predict 1 0 1 " + tok)
        if rng.random() < 0.03: lines.append("trk wasted")
    lines.append("trk skip 0 5"); lines.append("trk wasted")
    return lines


def generate(rng, tier):
    n, steps = {"quick": (32, 60), "thorough": (200, 300), "search": (60, 80)}.get(tier, (16, 60))
    cases = []
    for i in range(n):
        kind = ["visual", "bvisual", "visual", "sort"][i % 4]
        cases.append(lifetime(rng, kind, steps, hist=1 + (i % 10) if i % 3 else 1 + (i // 3) % 3))
    # several objects per scene occluding one another, mostly with own-area thresholds (set independently for `use` and
    # `collect`): whether a continuing detection's feature enters the gallery then depends on its exclusively owned share
    for i in range(n):
        cases.append(history(rng, ["visual", "bvisual"][i % 2], 30, api_mix=False, own_p=0.9))
    return cases


def shape_key(case, results):
    for r in results:
        if not r.o or not r.k or r.bad:
            return "trk-" + r.req.split()[1] + ("-gallery-full" if "gallery-full" in r.flags else "")
    return "none"

SOURCE_TIE = "Source-level tie by proof (Tie/Attr, Tie/Gallery, Tie/VMetric, Tie/Record, Props/C13s): the gallery maintenance and the collect gate of VisualMetric::optimize, the bounded histories and the record conversions, regenerated from the source, equal the model's; bound, count and eviction are restated for the generated functions. Also by proof (Tie/OptimizeV): VisualMetric::optimize as a whole (Kalman step, the three bounded histories, the collect gate on merge, the gallery step and the recount, in the order the source has them)."
LEVEL_TEXT = LEVEL_TEXT + " " + SOURCE_TIE
TRUSTED_BASE = TRUSTED_BASE + ["translator/kernels.py + rustexpr.py (reader of the Rust subset, per-function tables) for the functions named in SOURCE_TIE; generated definitions are proof obligations (Tie modules) on every run"]
TECHNIQUE = TECHNIQUE + "; model regenerated from the source by a translator for the functions of SOURCE_TIE, tied by proof"
