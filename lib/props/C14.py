"""C14 — NMS: generator, non-triviality rule, shape key."""
from wiregen import *
import math

ID = "C14"
THEOREM_MODULE = "SimVerif.Props.C14"
THEOREM_MODULES = ["SimVerif.Props.C14", "SimVerif.Tie.Nms", "SimVerif.Props.C14s", "SimVerif.Tie.Cache"]
NONTRIVIAL_FLAGS = {"dropped", "multi-kept", "rank-tie", "filtered"}
RULE = ("requests `nms n (aspect height score xc yc angle stale)*n thr sthr`: 0..40 boxes (10% of them with a vertex cache generated under another geometry, clustered, sparse, duplicated, nested, "
        "rotated, invalid mixed in), nms threshold in (0,1), score threshold none/below/inside/above the score range; "
        "a request is non-trivial when the model flags one of: a candidate dropped by suppression, >=2 boxes kept, "
        "a rank tie, a box removed by the score/validity filter; distinct = distinct request line")
TRUSTED_BASE = ["Lean 4.33 kernel", "axioms: propext, Quot.sound, Classical.choice (at most)",
                "hand-written model SimVerif/Model/Nms.lean tied to src/utils/nms.rs by the differential run (vh | simdrv)",
                "coverage predicate inter(a,b)/area(b) > thr: the model run uses the bits computed by the executor with the implementation's own intersection/area; the oracle additionally recomputes every bit from the exact rational intersection of the model polygons (cos/sin of the angles from the executor, guard band 2e-4 around the threshold) and rejects a disagreement",
                "f32 ranks and thresholds are compared as exact rationals (NaN/inf never generated)"]
ASSUMPTIONS = ["scores, heights and thresholds are finite floats (the code unwraps partial_cmp)",
               "idempotence is stated for re-application with the same scores"]


def box_line(rng, n, mode):
    boxes = []
    centers = [(rng.uniform(0, 200), rng.uniform(0, 200)) for _ in range(max(1, n // 4))]
    for i in range(n):
        r = rng.random()
        if boxes and r < 0.15:
            b = list(rng.choice(boxes))           # exact duplicate
            if rng.random() < 0.5:
                b[2] = f32(rng.uniform(0, 1))      # other score
            boxes.append(tuple(b)); continue
        if mode == "tiny":
            # frame-normalised coordinates: box areas of the order of 1e-5 (the coverage fraction is scale free)
            cx, cy = rng.choice(centers)
            xc, yc = cx / 2000.0 + rng.uniform(-0.004, 0.004), cy / 2000.0 + rng.uniform(-0.004, 0.004)
        elif mode == "cluster":
            cx, cy = rng.choice(centers)
            xc, yc = cx + rng.uniform(-15, 15), cy + rng.uniform(-15, 15)
        else:
            xc, yc = rng.uniform(0, 2000), rng.uniform(0, 2000)
        if boxes and r < 0.3:                      # nested in an earlier one
            p = rng.choice(boxes)
            xc, yc = p[3], p[4]
        aspect = rng.choice([0.5, 1.0, 2.0, rng.uniform(0.2, 3)])
        height = rng.choice([10.0, 20.0, 40.0, rng.uniform(2, 60)])
        if mode == "tiny":
            height = rng.choice([0.003, 0.004, 0.006, rng.uniform(0.002, 0.01)])
        if rng.random() < 0.07:
            if rng.random() < 0.5: aspect = rng.choice([0.0, -1.0])
            else: height = rng.choice([0.0, -5.0])
        angle = None if rng.random() < 0.5 else rng.choice([0.0, math.pi / 2, rng.uniform(-7, 7)])
        sm = rng.random()
        score = None if mode == "noscore" or sm < 0.1 else (rng.choice([0.25, 0.5, 0.75]) if sm < 0.35 else rng.uniform(0, 1))
        boxes.append((f32(aspect), f32(height), None if score is None else f32(score), f32(xc), f32(yc),
                      None if angle is None else f32(angle), 1 if rng.random() < 0.1 else 0))
    thr = f32(rng.choice([0.05, 0.3, 0.5, 0.8, 0.95, rng.uniform(0.01, 0.99)]))
    sm = rng.random()
    sthr = None if sm < 0.4 else f32(rng.choice([-1.0, 0.25, 0.5, 0.9, 2.0, rng.uniform(0, 1)]))
    toks = ["nms", str(len(boxes))]
    for a, h, s, x, y, ang, st in boxes:
        toks += [f32tok(a), f32tok(h), optf32(s), f32tok(x), f32tok(y), optf32(ang), str(st)]
    toks += [f32tok(thr), optf32(sthr)]
    return " ".join(toks)


def generate(rng, tier):
    n = {"quick": 800, "thorough": 12000, "search": 4000}.get(tier, 400)
    cases = []
    for i in range(n):
        k = rng.choice([0, 1, 2, 3, 5, 8, 12, 20, 40]) if i % 3 == 0 else rng.randint(0, 40)
        cases.append([box_line(rng, k, rng.choice(["cluster", "cluster", "sparse", "noscore", "tiny"]))])
    return cases


def reduce_line(line):
    """candidate smaller requests: drop one box"""
    t = line.split()
    n = int(t[1])
    for i in range(n):
        yield " ".join(["nms", str(n - 1)] + t[2:2 + 7 * i] + t[2 + 7 * (i + 1):])


def shape_key(case, results):
    t = (case[0].split() if case else []) + ["?", "?", "?"]
    return "nms-n%s" % t[1]

LEVEL_TEXT = ("Lean 4 theorems, for every coverage predicate, score threshold and input list, about a model of nms() that mirrors the code "
              "(filter, enumerate, stable descending sort, excluded-set double loop): result is a sub-sequence of the rank-sorted filtered input, top kept, "
              "pairwise independent, exact keep/drop rule and maximality, idempotent. The model is tied to src/utils/nms.rs by a differential run on generated box sets; "
              "the executable statement of the theorems is also evaluated on the implementation's own output.")
LEVEL_NOTE = ("Trusted: Lean kernel; model<->code tie is sampled (seeded differential run), not proved; the geometric coverage predicate is taken from the implementation "
              "(C08 covers it); floats compared as exact rationals, NaN/inf excluded.")
TECHNIQUE = "Lean 4 proof (loop-to-walk refinement + induction) with differential correspondence check"

SOURCE_TIE = "Source-level tie by proof (Tie/Nms, Props/C14s): nms() as regenerated from the source (whole function) equals the model's nms with covers = intersection/area > threshold; the theorems are restated for the generated function."
LEVEL_TEXT = LEVEL_TEXT + " " + SOURCE_TIE
TRUSTED_BASE = TRUSTED_BASE + ["translator/kernels.py + rustexpr.py (reader of the Rust subset, per-function tables) for the functions named in SOURCE_TIE; generated definitions are proof obligations (Tie modules) on every run"]
TECHNIQUE = TECHNIQUE + "; model regenerated from the source by a translator for the functions of SOURCE_TIE, tied by proof"
