"""C04 — scene isolation."""
from trkgen import *

ID = "C04"
THEOREM_MODULES = ["SimVerif.Props.C04", "SimVerif.Props.Ren", "SimVerif.Props.Hist", "SimVerif.Tie.Compat", "SimVerif.Tie.Shares"]
THEOREM_MODULE = "SimVerif.Props.C04"
NONTRIVIAL_FLAGS = {"multi-scene-store", "multi-scene-batch", "compared-nonempty", "competition", "continuation"}
KINDS = ["sort", "bsort", "visual", "bvisual", "bsort", "bvisual"]
RULE = ("multi-scene histories (2..3 scenes whose objects share one image region, spatio-temporal constraints configured in 40% of the cases) run on the real tracker once interleaved and once projected onto each single scene "
        "(separate tracker instances in one executor); for every scene the record streams of the two runs are compared up to renaming of ids by first appearance (`trk cmp`), and every call of both runs is compared with the model and its choice validated; "
        "non-trivial = a call made while tracks of several scenes are stored / a multi-scene batch / a non-empty comparison / competing detections; distinct = distinct request line")
TRUSTED_BASE = ["Lean 4.33 kernel", "axioms: propext, Quot.sound, Classical.choice (at most)",
                "model SimVerif/Model/Tracker.lean tied to the trackers by the differential run (see C01)",
                "the interleaved-vs-projected comparison is made on the implementation; a difference is accepted only when the model reports an exact weight tie in that scene (both resolutions are then valid outcomes)"]
ASSUMPTIONS = ["threshold > 0"]
LEVEL_TEXT = ("Lean 4 theorems for every table and valid choice: a detection is never attached to a track of another scene; a scene step leaves the epochs and tracks of every other scene untouched; the validity of a choice and its effect on the scene's own tracks "
              "depend only on the scene's own tracks (so a scene's steps are the same with or without other scenes' calls in between). On the implementation the interleaved history and its per-scene projections are run side by side and compared up to id renaming. Over whole histories (Props/Ren.lean, Props/Hist.lean): a scene job commutes with an injective renaming of track ids between two trackers holding the same unexpired tracks of the selected scenes (scene_job_rename, other_scene_job, rel_collect — including invariance of the assignment optimum, enumeration and dynamic programme, under renaming), hence C04_projection: the answers to a scene's calls in an interleaved history of a simple SORT tracker are those of a tracker given only that scene's calls, up to renaming of ids.")
LEVEL_NOTE = "Trusted: Lean kernel; model<->code tie sampled; the full projection theorem (bisimulation with the per-scene factored tracker) is proved at the level of one step (frame + restriction), its lift to histories is by the driver-validated runs."
TECHNIQUE = "Lean 4 proof (frame and restriction lemmas for the relational step) with differential correspondence check and an interleaved-vs-projected run comparison"
PARTIAL = ["C04_projection (Props/Hist.lean) is proved for the simple SORT tracker over histories of predict calls from the empty tracker: the answers to the calls of a scene in an interleaved history are, up to an injective renaming of ids, the answers of a tracker given only that scene's calls (built on the one-step renaming theorems of Props/Ren.lean, which hold for every configuration and id discipline). Not restated as theorems: the same for VisualSORT and for histories that also contain skip / wasted / idle calls (compared by the run: interleaved history vs per-scene projections, all four trackers)"]


def generate(rng, tier):
    n, steps = {"quick": (70, 25), "thorough": (500, 50), "search": (150, 30)}.get(tier, (30, 25))
    cases = []
    for i in range(n):
        kind = KINDS[i % len(KINDS)]
        h = history(rng, kind, steps, nscenes=rng.randint(2, 3), api_mix=(i % 3 == 0))
        cases.append(with_projections(h))
    # a crowded neighbour scene: one frame of > 1000 detections in scene 1 between two frames of scene 0 whose second one is a
    # contested assignment (best-first and optimal differ): anything that makes a scene's association depend on the size of the
    # whole store (a fallback for "large" problems, a capacity computed over all scenes) shows against the projection onto scene 0
    for j in range({"quick": 2, "thorough": 6, "search": 3}.get(tier, 2)):
        kind = ("sort", "bsort")[j % 2]
        ox, oy = rng.uniform(0, 50), rng.uniform(0, 50)
        box = lambda x, y: (x, y, None, 1.0, 20.0, 1.0, None)
        h = [new_line(rng, kind, shards=rng.randint(1, 4), hist=3, max_idle=5, method=("iou", 0.3), minconf=0.05, constraints=[])]
        h.append(predict_line([(0, [box(ox, oy), box(ox + 12.0, oy)])]))
        crowd = [box(1000.0 + 100.0 * (k % 40), 1000.0 + 100.0 * (k // 40)) for k in range(1100)]
        h.append(predict_line([(1, crowd)]))
        h.append(predict_line([(0, [box(ox + 4.0, oy), box(ox - 5.0, oy)])]))
        h.append(predict_line([(0, [box(ox + 4.5, oy + 0.5), box(ox - 5.5, oy + 0.5)])]))      # (never the same box twice: the executor tells detections apart by their centre)
        cases.append(with_projections(h))
    return cases


def shape_key(case, results):
    for r in results:
        if not r.o or not r.k or r.bad:
            t = r.req.split()
            return "trk-" + t[1] + ("-invalid-choice" if "invalid-choice" in r.flags else "")
    return "none"

SOURCE_TIE = "Source-level tie by proof (Tie/Compat, Tie/Shares): the compatibility rule of both attribute types as regenerated from the source requires the same scene (and the epoch gap within max_idle, and the constraint table); the own-area shares of a call's detections are computed among the boxes of that scene and call only (simple and batch VisualSORT)."
LEVEL_TEXT = LEVEL_TEXT + " " + SOURCE_TIE
TRUSTED_BASE = TRUSTED_BASE + ["translator/kernels.py + rustexpr.py (reader of the Rust subset, per-function tables) for the functions named in SOURCE_TIE; generated definitions are proof obligations (Tie modules) on every run"]
TECHNIQUE = TECHNIQUE + "; model regenerated from the source by a translator for the functions of SOURCE_TIE, tied by proof"
