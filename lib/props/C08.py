"""C08 — oriented-box intersection, IoU, too-far pre-filter."""
from wiregen import *
from geomgen import *

ID = "C08"
THEOREM_MODULE = "SimVerif.Props.C08"
THEOREM_MODULES = ["SimVerif.Props.C08", "SimVerif.Props.C08b", "SimVerif.Props.C08c", "SimVerif.Tie.Radius", "SimVerif.Tie.Inter", "SimVerif.Tie.Clip", "SimVerif.Tie.Cache"]
NONTRIVIAL_FLAGS = {"overlap", "rotated", "nested", "identical", "near-disjoint", "axis-aligned"}
RULE = ("`geom inter u1 u2` (10% as `interstale`: both boxes carry a vertex cache generated under another geometry): pairs in general position, overlapping, nested, identical, touching (shared edge/corner, exact coordinates), edge-sharing in a rotated frame, far apart, "
        "large coordinates, tiny boxes; angles None, 0, k*pi/2, |angle|>2pi; the executor evaluates too_far, intersection and IoU in both argument orders and dist_in_2r; "
        "non-trivial = overlapping / rotated / nested / identical / near-disjoint-but-not-too-far / axis-aligned pair; distinct = distinct request line")
TRUSTED_BASE = ["Lean 4.33 kernel", "axioms: propext, Quot.sound, Classical.choice (at most)",
                "model SimVerif/Model/Geom.lean (vertices, is_inside, compute_intersection, Sutherland-Hodgman loops, shoelace, too_far) tied to src/utils/clipping.rs, src/utils/bbox.rs by the differential run",
                "cos/sin are the implementation's f64 values used as exact rationals; areas compared under tolerance 1e-6 of the smaller box area; decisions exact outside a 1e-5 guard band around the too-far boundary",
                "independent exact reference in the driver (convex polygon intersection by vertex/edge-crossing enumeration + monotone-chain hull, over Rat) — executable, unproved"]
ASSUMPTIONS = ["positive aspect and height; finite values", "exactness / symmetry / range for arbitrary rotated pairs are decided by comparison with the exact reference (C08_full is stated, not proved): the convex-region semantics of Sutherland-Hodgman is not formalised"]
PARTIAL = ["C08_full (reported area = measure of the set intersection, hence symmetry and range, for arbitrary rotated pairs) is NOT proved; proved: axis-aligned closed-form laws, too_far sqrt-free equivalence and soundness, invariance of the whole clipping pipeline / intersection under common rigid motions (C08_rigid_invariant, C08_intersection_rigid), identical boxes give IoU 1 (C08_identical), soundness of the clip (C08_clip_sound, Props/C08c: every vertex of the polygon whose area is reported lies in both closed rectangles — the inclusion result ⊆ A ∩ B; the half-planes of a box's edges are shown to cut out exactly the rectangle, inBox_iff); the converse inclusion and shoelace = measure remain open"]
LEVEL_TEXT = ("Lean 4 theorems over ordered fields: axis-aligned closed form (0<=I<=min area, 0<=IoU<=1, symmetric, 1 on identical boxes, I=0 iff interiors disjoint, translation invariant); "
              "too_far in sqrt-free form equals the code's test and never rejects two boxes sharing a point; the whole Sutherland-Hodgman pipeline (clip passes, shoelace, too_far, intersection) is invariant under a common translation+rotation of both boxes; identical boxes have IoU exactly 1; every vertex of the Sutherland-Hodgman result lies in both closed rectangles for every pair of boxes (clip soundness: intersection points are convex combinations of consecutive vertices and lie on the clip edge); "
              "IoU absent iff intersection 0. For rotated pairs the implementation is compared with an exact rational polygon-intersection reference (partial: see DESIGN).")
LEVEL_NOTE = "Trusted: Lean kernel; model<->code tie sampled; float rounding under tolerance; rotated-pair exactness rests on the unproved exact reference."
TECHNIQUE = "Lean 4 proof (ordered-field algebra, linear_combination with c^2+s^2=1) with differential correspondence check against an exact rational reference"


def generate(rng, tier):
    n = {"quick": 2000, "thorough": 20000, "search": 6000}.get(tier, 600)
    cases = []
    for _ in range(n):
        a, b = pair(rng)
        cases.append(["geom %s %s %s" % ("interstale" if rng.random() < 0.1 else "inter", utok(*a), utok(*b))])
    return cases


def shape_key(case, results):
    flags = results[0].flags if results else []
    return "inter-" + ("rot" if "rotated" in flags else "aa")

SOURCE_TIE = "Source-level tie by proof (Tie/Radius, Tie/Inter, Tie/Clip, Tie/Cache): get_radius, area, too_far, is_inside, compute_intersection, both loops of sutherland_hodgman_clip, the IoU formulas, and Universal2DBox::intersection with its clone / vertex-cache handling as regenerated from the source equal the model's functions; the reported intersection never reads the caches of its arguments."
LEVEL_TEXT = LEVEL_TEXT + " " + SOURCE_TIE
TRUSTED_BASE = TRUSTED_BASE + ["translator/kernels.py + rustexpr.py (reader of the Rust subset, per-function tables) for the functions named in SOURCE_TIE; generated definitions are proof obligations (Tie modules) on every run"]
TECHNIQUE = TECHNIQUE + "; model regenerated from the source by a translator for the functions of SOURCE_TIE, tied by proof"
