"""C18 — the Python bindings are a faithful projection of the Rust API."""
from geomgen import *
import math, os, shutil, json

ID = "C18"
THEOREM_MODULE = "SimVerif.Props.C18"
NONTRIVIAL_FLAGS = {"objects-compared", "nested-objects", "defaults-used", "err-branch", "multi-element-list"}
RULE = ("API scripts `py …` (harness/PY_PROTOCOL.md) executed twice: by the Rust executor through the wrapped Rust API, and by lib/pyexec.py through the `similari` Python module built from the current tree "
        "(cargo build of the cdylib on every run): boxes (constructors, every getter and setter, as_xyaah / as_ltwh incl. the error branch, rotate, vertices, radius, area), nms, clipping and intersection area, "
        "the three Kalman filters with default and explicit weights, constraints, every VisualSortOptions setter, and histories on the four trackers over several scenes "
        "(constructor called with 0..all arguments given explicitly so that the binding's defaults apply to the rest; predict / predict_with_scene / batch requests and results; skip_epochs(_for_scene), current_epoch(_with_scene), "
        "idle tracks, wasted, clear_wasted, shard_stats); every returned object is dumped through all getters the generated table lists for its class and compared field by field with the Rust value, floats by exact bits; "
        "non-trivial = a request comparing objects, nested objects, using defaults, reaching an error branch or a list of several elements; distinct = distinct request line")
TRUSTED_BASE = ["Lean 4.33 kernel", "axioms: propext, Quot.sound, Classical.choice (at most)",
                "translator/pytable.py (regex reading of #[pyclass] / #[pymethods] / #[pyfunction] into the wrapper calculus; bodies it cannot classify are hashed and must be on the reviewed list of spec/pyspec.json)",
                "spec/pyspec.json: the hand-written specification (aliases, reviewed bodies, documented defaults, exposed surface)",
                "the differential run: Rust executor harness/src/fam_py.rs vs Python executor lib/pyexec.py over the module built from the current tree; pyo3 marshalling, the GIL release and the `transmute` layout assumptions are only observed through it",
                "dunder methods (__repr__, __str__) are outside the table"]
ASSUMPTIONS = ["arguments are valid for both sides (positive counts, thresholds inside their asserted ranges): panics on invalid arguments are not compared",
               "floats are finite"]
LEVEL_TEXT = ("Lean 4 theorems: for every table and specification, a well-wired getter returns the field it names, a well-wired setter writes the field it names, a well-wired delegating method passes every parameter once and in signature order "
              "to the method of the same name (or a reviewed alias), and the Python view of an object is the projection of the wrapped value (C18_projection, C18_denote); and, by kernel evaluation over the table regenerated from the current source, "
              "every exposed method and function is well wired, with the documented defaults, and the exposed surface is exactly the documented one (C18_table, C18_complete, C18_no_extra). "
              "The translator's reading is tied to run-time behaviour by the two-executor differential run.")
LEVEL_NOTE = ("Trusted: Lean kernel; translator (regex) and the reviewed-body hashes; marshalling / transmute observed only. A harmless rewrite of a binding body changes its hash or shape and is reported as "
              "a broken proof obligation (no-failing-input-found) until the specification is reviewed again.")
TECHNIQUE = "Lean 4 proof (kernel-evaluated wiring rule over a table regenerated from the source by a translator, generic projection theorems) with a two-executor differential correspondence check"

DOC_SORT = {"shards": 4, "bbox_history": 1, "max_idle_epochs": 5, "min_confidence": 0.05, "kpw": 1.0 / 20.0, "kvw": 1.0 / 160.0}


def prepare(eng):
    """build the Python module from /repo's working tree and return the middle-stage command"""
    tgt = os.path.join(eng.WORK, "pytarget")
    env = dict(eng.ENV, CARGO_TARGET_DIR=tgt, PYO3_PYTHON=eng.sys.executable)
    with eng.Lock("pycargo"):
        rc, out, err = eng.sh(["cargo", "build", "--offline", "--lib"], cwd=eng.REPO, timeout=7200, env=env)
        if rc != 0:
            raise eng.MachineryError("cargo build of the similari cdylib failed:\n" + (out + err)[-3000:])
        d = os.path.join(eng.WORK, "py")
        os.makedirs(d, exist_ok=True)
        src = os.path.join(tgt, "debug", "libsimilari.so")
        dst = os.path.join(d, "similari.so")
        if not os.path.exists(dst) or os.path.getmtime(dst) < os.path.getmtime(src):
            shutil.copy(src, dst + ".tmp"); os.replace(dst + ".tmp", dst)
    return [eng.sys.executable, os.path.join(eng.ROOT, "lib", "pyexec.py"), "--module-dir", d, "--table", eng.PYTABLE_JSON]


# ------------------------------------------------------------------ request builders
def u5(b):
    return "%s %s %s %s %s" % (f32tok(b[0]), f32tok(b[1]), optf32(b[2]), f32tok(b[3]), f32tok(b[4]))


def u6(b, conf=None):
    return u5(b) + " " + optf32(conf)


def box_ops(rng):
    out = []
    b = rand_box(rng)
    conf = None if rng.random() < 0.4 else f32(rng.uniform(0.05, 1.0))
    out.append("py ubox " + u6(b, conf))
    out.append("py bbox %s %s %s %s %s" % (f32tok(f32(rng.uniform(-50, 200))), f32tok(f32(rng.uniform(-50, 200))), f32tok(f32(rng.uniform(1, 80))), f32tok(f32(rng.uniform(1, 80))),
                                          optf32(None if rng.random() < 0.5 else f32(rng.uniform(0.05, 1.0)))))
    k = rng.randint(1, 5)
    sets = " ".join("%s %s" % (f, f32tok(f32(rng.uniform(0.1, 1.0) if f == "confidence" else rng.uniform(1, 90)))) for f in [rng.choice(["left", "top", "width", "height", "confidence"]) for _ in range(k)])
    out.append("py bboxset %s %s %s %s %d %s" % (f32tok(1.0), f32tok(2.0), f32tok(f32(rng.uniform(1, 30))), f32tok(f32(rng.uniform(1, 30))), k, sets))
    ops = []
    for _ in range(rng.randint(1, 6)):
        op = rng.choice(["xc", "yc", "angle", "aspect", "height", "confidence", "rotate", "genv"])
        if op == "angle": v = optf32(None if rng.random() < 0.3 else f32(rng.uniform(-3, 3)))
        elif op == "genv": v = "-"
        elif op == "confidence": v = f32tok(f32(rng.uniform(0.0, 1.0)))
        elif op == "rotate": v = f32tok(f32(rng.uniform(-3, 3)))
        else: v = f32tok(f32(rng.uniform(0.5, 60)))
        ops.append("%s %s" % (op, v))
    out.append("py uboxset %s %d %s" % (u5(rand_box(rng)), len(ops), " ".join(ops)))
    out.append("py ltwh %s %s %s %s %s" % (f32tok(f32(rng.uniform(0, 100))), f32tok(f32(rng.uniform(0, 100))), f32tok(f32(rng.uniform(1, 50))), f32tok(f32(rng.uniform(1, 50))),
                                          optf32(None if rng.random() < 0.5 else f32(rng.uniform(0.1, 1.0)))))
    a, c = pair(rng)
    out.append("py clip %s %s" % (u5(a), u5(c)))
    n = rng.randint(0, 7)
    bs = []
    base = rand_box(rng, region=60)
    for i in range(n):
        q = rand_box(rng, region=60) if rng.random() < 0.5 else [f32(base[0] + rng.uniform(-5, 5)), f32(base[1] + rng.uniform(-5, 5)), base[2], base[3], base[4]]
        if rng.random() < 0.25: q[4] = f32(rng.uniform(0.05, 1.0))      # normalised-coordinate sized boxes
        bs.append(u5(q) + " " + optf32(None if rng.random() < 0.35 else f32(rng.uniform(0, 1))))
    out.append("py nms %d %s %s %s" % (n, " ".join(bs), f32tok(f32(rng.choice([0.3, 0.5, 0.7]))),
                                       optf32(None if rng.random() < 0.3 else f32(rng.choice([0.0, 0.3, 0.6, 0.9, 5.0, 30.0])))))
    return [" ".join(l.split()) for l in out]


def kalman_ops(rng):
    out = []
    def weights():
        return ("- -" if rng.random() < 0.5 else "%s %s" % (f32tok(f32(rng.choice([0.05, 0.1, 0.02]))), f32tok(f32(rng.choice([0.00625, 0.01])))))
    n = rng.randint(2, 6)
    b = rand_box(rng, region=100, smin=5, smax=40)
    if rng.random() < 0.6: b[2] = None
    seq = []
    for i in range(n):
        seq.append(u5([f32(b[0] + 2.0 * i + rng.uniform(-.5, .5)), f32(b[1] + 1.0 * i + rng.uniform(-.5, .5)), b[2], b[3], f32(b[4] * (1 + 0.01 * i))]))
    out.append("py kfbox %s %s %d %s" % (weights(), rng.choice(["true", "false"]), n, " ".join(seq)))
    n = rng.randint(2, 6)
    pts = " ".join("%s %s" % (f32tok(f32(10 + 3 * i + rng.uniform(-1, 1))), f32tok(f32(20 - 2 * i + rng.uniform(-1, 1)))) for i in range(n))
    out.append("py kfpt %s %s %d %s" % (weights(), rng.choice(["true", "false"]), n, pts))
    p, n = rng.randint(1, 4), rng.randint(2, 4)
    pts = " ".join("%s %s" % (f32tok(f32(10 * j + 3 * i + rng.uniform(-1, 1))), f32tok(f32(5 * j - 2 * i + rng.uniform(-1, 1)))) for i in range(n) for j in range(p))
    out.append("py kfvec %s %s %d %d %s" % (weights(), rng.choice(["true", "false"]), p, n, pts))
    return out


def constr_tokens(rng):
    k = rng.randint(1, 3)
    return "%d %s" % (k, " ".join("%d %s" % (e, f32tok(f32(rng.choice([0.5, 1.0, 2.0, 5.0])))) for e in sorted(rng.sample(range(1, 8), k))))


def constr_op(rng):
    q = rng.randint(1, 5)
    return "py constr %s %d %s" % (constr_tokens(rng), q, " ".join("%d %s" % (rng.randint(0, 9), f32tok(f32(rng.uniform(0, 6)))) for _ in range(q)))


OPTS = ["max_idle_epochs", "kept_history_length", "visual_min_votes", "visual_metric", "positional_metric", "visual_minimal_track_length", "visual_minimal_area",
        "visual_minimal_quality_use", "positional_min_confidence", "visual_max_observations", "visual_minimal_quality_collect",
        "visual_minimal_own_area_percentage_use", "visual_minimal_own_area_percentage_collect", "kalman_position_weight", "kalman_velocity_weight", "spatio_temporal_constraints"]


def opt_tokens(rng, names):
    out = []
    for n in names:
        if n in ("max_idle_epochs", "kept_history_length", "visual_min_votes", "visual_minimal_track_length", "visual_max_observations"):
            v = str(rng.randint(1, 6))
        elif n == "visual_metric": v = "%s %s" % (rng.choice(["euclid", "cosine"]), f32tok(f32(rng.choice([0.3, 0.5, 0.8]))))
        elif n == "positional_metric": v = "maha" if rng.random() < 0.4 else "iou %s" % f32tok(f32(rng.choice([0.2, 0.3, 0.5])))
        elif n == "spatio_temporal_constraints": v = constr_tokens(rng)
        elif n == "visual_minimal_area": v = f32tok(f32(rng.choice([0.0, 50.0, 300.0])))
        elif n in ("kalman_position_weight", "kalman_velocity_weight"): v = f32tok(f32(rng.choice([0.05, 0.1, 0.00625, 0.02])))
        elif n == "positional_min_confidence": v = f32tok(f32(rng.choice([0.01, 0.05, 0.1, 0.45])))     # the Rust builder asserts [0.01, 1]
        else: v = f32tok(f32(rng.choice([0.0, 0.1, 0.45, 0.7])))
        out.append("%s %s" % (n, v))
    return "%d %s" % (len(names), " ".join(out))


def tracker_history(rng, kind, steps):
    out = []
    visual = kind in ("visual", "bvisual")
    batch = kind in ("bsort", "bvisual")
    nsc = rng.randint(1, 3)
    if not visual:
        nargs = 9 if batch else 8
        nexpl = rng.choice([0, nargs, rng.randint(0, nargs)])
        # values for the explicit positions; the documented defaults in the omitted ones
        vals = []
        if batch: vals += [rng.randint(1, 3), rng.randint(1, 3)]
        else: vals += [rng.randint(1, 3)]
        vals += [rng.randint(1, 4), rng.randint(1, 4)]
        method = rng.choice(["none", "maha", "iou %s" % f32tok(f32(rng.choice([0.2, 0.3, 0.5])))])
        minconf = f32(rng.choice([0.05, 0.1, 0.3]))
        constr = "none" if rng.random() < 0.6 else "c " + constr_tokens(rng)
        kpw, kvw = f32(rng.choice([0.05, 0.1])), f32(rng.choice([0.00625, 0.01]))
        docs = ([4, 4] if batch else [4]) + [1, 5]
        toks = []
        full = vals + [method, minconf, constr, kpw, kvw]
        dfl = docs + ["none", f32(0.05), "none", f32(1.0 / 20.0), f32(1.0 / 160.0)]
        for i, (v, d) in enumerate(zip(full, dfl)):
            x = v if i < nexpl else d
            toks.append(f32tok(x) if isinstance(x, float) else str(x))
        out.append("py trk new %s %d %s" % (kind, nexpl, " ".join(toks)))
        max_idle = (full if nexpl > (3 if batch else 2) else dfl)[3 if batch else 2]
    else:
        names = [n for n in OPTS if rng.random() < 0.5 and n not in ("visual_minimal_track_length", "visual_max_observations")]
        rng.shuffle(names)
        sh = "%d %d" % (rng.randint(1, 3), rng.randint(1, 3)) if batch else "%d" % rng.randint(1, 3)
        toks = opt_tokens(rng, names).split(" ", 1)
        # build() asserts 0 < visual_minimal_track_length <= visual_max_observations: set the two together
        mo = rng.randint(1, 6); tl = rng.randint(1, mo)
        out.append("py trk new %s %s %d %s visual_max_observations %d visual_minimal_track_length %d" % (kind, sh, len(names) + 2, toks[1] if len(toks) > 1 else "", mo, tl))
        max_idle = 5
    objs = {s: [[f32(rng.uniform(0, 300)), f32(rng.uniform(0, 300)), None if rng.random() < 0.7 else f32(rng.uniform(-1, 1)), f32(rng.choice([0.5, 1.0, 2.0])), f32(rng.uniform(10, 40)),
                 rng.uniform(-4, 4), rng.uniform(-4, 4), [f32(rng.gauss(0, 1)) for _ in range(rng.choice([4, 8, 16]))]] for _ in range(rng.randint(1, 4))] for s in range(nsc)}
    def dets(s):
        ds = []
        for o in objs[s]:
            o[0] = f32(o[0] + o[5]); o[1] = f32(o[1] + o[6])
            if rng.random() < 0.15: continue
            d = u6(o[:5], None if rng.random() < 0.6 else f32(rng.uniform(0.3, 1.0))) + " " + ("-" if rng.random() < 0.5 else str(rng.randint(-5, 50)))
            if visual:
                feat = None if rng.random() < 0.2 else [f32(x + rng.gauss(0, 0.02)) for x in o[7]]
                ftok = "0" if feat is None else "%d %s" % (len(feat), " ".join(f32tok(x) for x in feat))
                if rng.random() < 0.06: ftok = "e"          # a feature vector that is present but empty
                d += " %s %s" % (optf32(None if rng.random() < 0.3 else f32(rng.uniform(0.2, 1.0))), ftok)
            ds.append(d)
        return ds
    for _ in range(steps):
        r = rng.random()
        if r < 0.55:
            if batch:
                ss = [s for s in range(nsc) if rng.random() < 0.7] or [0]
                parts = []
                for s in ss:
                    d = dets(s)
                    if d: parts.append("%d %d %s" % (s, len(d), " ".join(d)))
                if parts: out.append("py trk bpredict %d %s" % (len(parts), " ".join(parts)))
            else:
                s = rng.randrange(nsc)
                d = dets(s)
                if s == 0 and rng.random() < 0.5: out.append("py trk predict %d %s" % (len(d), " ".join(d)))
                else: out.append("py trk predicts %d %d %s" % (s, len(d), " ".join(d)))
        elif r < 0.65: out.append("py trk skip %d" % rng.choice([1, 2, max_idle + 1]))
        elif r < 0.72: out.append("py trk skipscene %d %d" % (rng.randrange(nsc), rng.choice([1, 2, max_idle + 1])))
        elif r < 0.77: out.append("py trk epoch")
        elif r < 0.82: out.append("py trk epochscene %d" % rng.randrange(nsc))
        elif r < 0.86 and not batch: out.append("py trk idle")
        elif r < 0.91: out.append("py trk idlescene %d" % rng.randrange(nsc))
        elif r < 0.96: out.append("py trk wasted")
        elif r < 0.98: out.append("py trk clearw")
        else: out.append("py trk stats")
    out += ["py trk skip %d" % (max_idle + 2), "py trk wasted", "py trk stats"]
    return [" ".join(l.split()) for l in out]


def generate(rng, tier):
    n, steps = {"quick": (48, 14), "thorough": (400, 30), "search": (120, 20)}.get(tier, (24, 14))
    cases = []
    for i in range(n):
        k = i % 8
        if k == 0: cases.append(box_ops(rng) + box_ops(rng))
        elif k == 1: cases.append(kalman_ops(rng) + [constr_op(rng), constr_op(rng)])
        elif k == 2:
            names = list(OPTS); rng.shuffle(names)
            cases.append(["py opts " + opt_tokens(rng, names), "py opts " + opt_tokens(rng, names[:rng.randint(0, 5)])])
        else:
            cases.append(tracker_history(rng, ["sort", "bsort", "visual", "bvisual", "sort"][k - 3], steps))
    return cases


def shape_key(case, results):
    for r in results:
        if not r.o or not r.k or r.bad:
            t = r.req.split()
            return "py-" + t[1] + ("-" + t[2] if t[1] == "trk" else "")
    return "none"
