"""C19 — box representations and equality."""
from wiregen import *
from geomgen import *
import math

ID = "C19"
THEOREM_MODULES = ["SimVerif.Props.C19", "SimVerif.Tie.Radius", "SimVerif.Tie.Box", "SimVerif.Tie.Cache"]
THEOREM_MODULE = "SimVerif.Props.C19"
NONTRIVIAL_FLAGS = {"rotate-after-gen", "rotated", "large", "small", "wide", "far", "close", "negative-diff", "negative", "multi-turn"}
RULE = ("`box conv` (ltwh -> universal -> ltwh), `box poly` (vertices, area, radius), `box eq`/`box beq` on pairs differing in exactly one coordinate by +-delta for delta "
        "across the EPS boundary (both argument orders are evaluated by the executor), `box norm` over angles in [-50,50]; magnitudes 1e-2..1e4; "
        "non-trivial = rotated / large / small / wide box, pair with a coordinate clearly beyond or clearly within EPS, a negative difference, negative or multi-turn angle; distinct = distinct request line")
TRUSTED_BASE = ["Lean 4.33 kernel", "axioms: propext, Quot.sound, Classical.choice (at most)",
                "model SimVerif/Model/Geom.lean tied to src/utils/bbox.rs by the differential run; cos/sin values are taken from the implementation (f64) and used as exact rationals",
                "f32/f64 rounding not modelled: conversions compared under relative tolerance 1e-6, equality decisions exactly outside a guard band of EPS/500 around EPS"]
ASSUMPTIONS = ["positive sizes, finite values", "polygon facts proved for c^2+s^2=1 over an ordered field; the implementation's cos/sin satisfy it to 1e-16"]
LEVEL_TEXT = ("Lean 4 theorems over any linear ordered field: ltwh->universal->ltwh is the identity (height != 0); the generated polygon is the w x h rectangle rotated by (c,s) about the centre "
              "(vertex formula, shoelace area w*h, vertex mean = centre, every vertex at the bounding radius); box equality is reflexive, symmetric, true when all coordinates are within EPS and false when any "
              "(angle, aspect, width, height included) is beyond EPS; normalize_angle returns an equivalent angle in [0, 2pi). Differential run of conversions, vertices, both equality operators (both argument orders) and normalisation.")
LEVEL_NOTE = "Trusted: Lean kernel; model<->code tie sampled; float rounding observed under tolerance / guard band."
TECHNIQUE = "Lean 4 proof (field arithmetic, case analysis on the tolerance predicate) with differential correspondence check"

EPS = 1e-5


def eq_pairs(rng, n):
    out = []
    for _ in range(n):
        mag = rng.choice([1e-2, 1.0, 50.0, 1e3, 1e4])
        # coordinates chosen so that +-delta is representable: magnitudes <= 64 for sub-EPS deltas
        fine = mag <= 50
        base = [f32(rng.uniform(0, mag)), f32(rng.uniform(0, mag)), None if rng.random() < .4 else f32(rng.uniform(0, 3)),
                f32(rng.uniform(0.3, 3)), f32(rng.uniform(0.5, min(mag, 60.0) + 0.5))]
        other = list(base)
        i = rng.randrange(5)
        deltas = [0.0, 0.3 * EPS, 0.9 * EPS, 1.1 * EPS, 3 * EPS, 1e-3, 0.5] if fine else [0.0, 1e-2, 0.5, 5.0]
        d = rng.choice(deltas) * rng.choice([1, -1])
        if i == 2:
            v = (base[2] or 0.0) + d
            other[2] = f32(v) if (base[2] is not None or d != 0.0) else None
        else:
            other[i] = f32(base[i] + d)
        if other[3] <= 0 or other[4] <= 0: continue
        out.append(["box eq %s %s" % (utok(*base), utok(*other))])
        # BoundingBox flavour
        bb = [f32(rng.uniform(0, mag)), f32(rng.uniform(0, mag)), f32(rng.uniform(0.5, 60)), f32(rng.uniform(0.5, 60)), f32(rng.uniform(0.1, 0.9))]
        ob = list(bb)
        j = rng.randrange(5)
        ob[j] = f32(bb[j] + (d if j < 4 else max(-0.05, min(0.05, d))))
        if ob[2] <= 0 or ob[3] <= 0 or not (0 <= ob[4] <= 1): continue
        out.append(["box beq %s %s" % (" ".join(f32tok(x) for x in bb), " ".join(f32tok(x) for x in ob))])
    return out


def generate(rng, tier):
    n = {"quick": 800, "thorough": 6000, "search": 2000}.get(tier, 300)
    cases = []
    for _ in range(n):
        mag = rng.choice([1e-2, 1.0, 100.0, 1e4])
        l, t = rng.uniform(-mag, mag), rng.uniform(-mag, mag)
        w, h = rng.uniform(0.01, 1) * rng.choice([1, 10, 1000]), rng.uniform(0.01, 1) * rng.choice([1, 10, 1000])
        cases.append(["box conv %s" % " ".join(f32tok(x) for x in [l, t, w, h, rng.choice([1.0, 0.5])])])
        b = rand_box(rng, region=mag, smin=0.01, smax=rng.choice([1, 60, 1000]))
        r_ = rng.random()
        cases.append(["box %s %s" % ("polystale" if r_ < 0.25 else "polyregen" if r_ < 0.4 else "poly", utok(*b))])
        # gen_vertices() then the consuming rotate(): the box must not carry / clip with the polygon of the old angle
        cases.append(["box polyrot %s %s" % (utok(*b), f32tok(rng.choice([rng.uniform(-3.2, 3.2), math.pi / 2, 0.0, 1.0])))])
        cases.append(["box norm %s" % f32tok(rng.choice([rng.uniform(-50, 50), rng.uniform(-7, 7), 0.0, 2 * math.pi, -2 * math.pi, rng.uniform(0, 6.28)]))])
    cases += eq_pairs(rng, n)
    return cases


def shape_key(case, results):
    t = (case[0].split() if case else []) + ["?", "?", "?"]
    return "box-%s" % t[1]
