"""C16 — feature packing and distance functions."""
from wiregen import *
import math

ID = "C16"
THEOREM_MODULES = ["SimVerif.Props.C16", "SimVerif.Tie.Feat"]
THEOREM_MODULE = "SimVerif.Props.C16"
NONTRIVIAL_FLAGS = {"partial-block", "multi-block", "diff-len", "diff-blocks", "small-magnitude", "negative-dot", "empty"}
RULE = ("`feat pack` for every length 0..130 (several value sets each) and `feat dist a b` for pairs of lengths over every residue mod 8 "
        "(equal lengths, different lengths in the same and in different block counts), magnitudes 1e-3..1e3, parallel / opposite / scaled / orthogonal pairs; "
        "non-trivial = trailing partial block, >1 block, different lengths/block counts, small magnitude, negative dot, empty vector; distinct = distinct request line")
TRUSTED_BASE = ["Lean 4.33 kernel", "axioms: propext, Quot.sound, Classical.choice (at most)",
                "model SimVerif/Model/Feature.lean (the packing loop state machine; block-wise sums) tied to src/track/utils.rs and src/distance.rs by the differential run",
                "f32 rounding is NOT modelled: the implementation's float result is compared with the exact rational value under relative tolerance 2e-4; packing is compared exactly"]
ASSUMPTIONS = ["finite inputs; cosine only for vectors that are non-zero on the common prefix", "metric laws (triangle inequality, Cauchy-Schwarz range) are theorems over the reals, not over f32"]
LEVEL_TEXT = ("Lean 4 theorems: the packing loop (state machine of Feature::from_vec) returns the vector zero-padded to a multiple of 8 (one zero block for the empty vector), "
              "block-wise SIMD accumulation equals the flat sums over the common packed prefix (any commutative ring); over the reals: Euclidean distance symmetric / zero on identical / triangle inequality, "
              "cosine symmetric, in [-1,1], +-1 on positive/negative multiples, invariant under positive scaling. Differential run for every length 0..130; the implementation's values are compared with exact rational evaluation.")
LEVEL_NOTE = "Trusted: Lean kernel; model<->code tie sampled; floating-point rounding observed under tolerance, not proved."
TECHNIQUE = "Lean 4 proof (loop invariant induction; Mathlib inner-product space for the metric laws) with differential correspondence check"


def rvec(rng, n, mag):
    mode = rng.random()
    if mode < 0.2:
        return [f32(rng.choice([-1, 1, 0.5, 2, 0]) * mag) for _ in range(n)]
    return [f32(rng.uniform(-1, 1) * mag) for _ in range(n)]


def vtok(v):
    return " ".join([str(len(v))] + [f32tok(x) for x in v])


def generate(rng, tier):
    reps = {"quick": 4, "thorough": 25, "search": 8}.get(tier, 2)
    cases = []
    mags = [1e-6, 1e-5, 1e-4, 1e-3, 1e-2, 1.0, 30.0, 1e3]     # small magnitudes: scale invariance of the cosine down to ~1e-9
    for n in range(0, 131):
        for r in range(reps):
            cases.append(["feat pack " + vtok(rvec(rng, n, rng.choice(mags)))])
    lens = list(range(0, 131))
    for n in lens:
        for r in range(reps):
            mag = rng.choice(mags)
            a = rvec(rng, n, mag)
            kind = rng.random()
            if kind < 0.35:
                m = n
            elif kind < 0.6:
                m = max(0, n + rng.randint(-7, 7))
            else:
                m = rng.randint(0, 130)
            if kind < 0.1 and n > 0:
                k = rng.choice([2.0, 0.5, -1.0, -3.0, 1.0])
                b = [f32(k * x) for x in a]           # parallel / opposite
            else:
                b = rvec(rng, m, rng.choice([mag, mag, rng.choice(mags)]))
            if n > 0 and all(x == 0 for x in a): a[0] = f32(mag)
            if len(b) > 0 and all(x == 0 for x in b): b[0] = f32(mag)
            cases.append(["feat dist %s %s" % (vtok(a), vtok(b))])
    return cases


def shape_key(case, results):
    t = (case[0].split() if case else []) + ["?", "?", "?"]
    return "feat-%s-n%s" % (t[1], t[2])
