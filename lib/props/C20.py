"""C20 — spatio-temporal constraints (table level; tracker level is added with the tracker model)."""
from wiregen import *
from geomgen import *
import itertools

ID = "C20"
THEOREM_MODULE = "SimVerif.Props.C20"
NONTRIVIAL_FLAGS = {"overlap", "near-disjoint", "rejected", "admitted-under-limit", "at-limit", "larger-gap-entry", "dup-gap", "assert"}
RULE = ("cases = `constr new`, one or more `constr add k (gap limit)*` calls (gaps 0..8, limits from a grid, duplicates within and across calls, "
        "occasional non-positive limit = expected assert), `geom inter` pairs of boxes of different sizes (the executor also evaluates dist_in_2r, compared with centre distance / (r1+r2)), then `constr val gap dist` probes for every gap 0..10 and distances at/around every limit; "
        "thorough tier enumerates all tables of <=3 entries over gaps {0,1,3,8} x limits {0.5,1,2}; non-trivial = the model flagged a rejection, an admission under a "
        "binding limit, a probe exactly at the limit, an entry with a strictly larger gap being used, a duplicate gap, or an assert; distinct = distinct request line")
TRUSTED_BASE = ["Lean 4.33 kernel", "axioms: propext, Quot.sound, Classical.choice (at most)",
                "model SimVerif/Model/Constraints.lean tied to src/trackers/spatio_temporal_constraints.rs by the differential run",
                "the oracle recomputes the applicable limit from the configuration history alone (smallest configured gap >= d, first configured limit)"]
ASSUMPTIONS = ["limits and distances are finite f32 (compared as exact rationals)",
               "a table object on which add_constraints asserted is not used again (its partial state is unspecified)"]
LEVEL_TEXT = ("Lean 4 theorems over the model of add_constraints/validate: after any sequence of successful adds the table is strictly gap-sorted and keeps the first limit per gap "
              "(stability of the sort + dedup), validate uses the smallest configured gap >= d, admission iff dist <= that limit, monotone in dist and in gap, constraints only remove. "
              "Differential run against the real struct on exhaustive small tables and random ones.")
LEVEL_NOTE = "Trusted: Lean kernel; model<->code tie sampled, not proved. Tracker-level clauses (non-binding table == no table; binding limit respected) are decided with the tracker model (see C02/C04 checks) once registered."
TECHNIQUE = "Lean 4 proof (sort stability + dedup invariants by induction) with differential correspondence check"

LIMS = [0.5, 1.0, 2.0, 0.25, 3.5]


def probes(entries):
    out = []
    lims = sorted(set(l for _, l in entries if l > 0)) or [1.0]
    for g in range(0, 11):
        ds = set([0.0])
        for l in lims:
            ds |= {l, f32(l * 0.999), f32(l * 1.001), l / 2}
        ds.add(max(lims) * 2)
        for d in sorted(ds):
            out.append("constr val %d %s" % (g, f32tok(d)))
    return out


def case_of(calls, rng=None, neg=False):
    lines = ["constr new"]
    allent = []
    for c in calls:
        lines.append("constr add %d %s" % (len(c), " ".join("%d %s" % (g, f32tok(l)) for g, l in c)))
        allent += c
        if any(l <= 0 for _, l in c):
            return lines          # expected assert ends the case
    ps = probes(allent)
    if rng is not None and len(ps) > 60:
        ps = rng.sample(ps, 60)
    if neg:
        ps.append("constr val 1 %s" % f32tok(-0.5))
    return lines + ps


def generate(rng, tier):
    cases = []
    if tier in ("thorough",):
        gaps, lims = [0, 1, 3, 8], [0.5, 1.0, 2.0]
        ents = [(g, l) for g in gaps for l in lims]
        for k in range(0, 4):
            for combo in itertools.product(ents, repeat=k):
                cases.append(case_of([list(combo)], rng))
                if k >= 2:
                    cases.append(case_of([list(combo[:1]), list(combo[1:])], rng))
    n = {"quick": 150, "thorough": 1500, "search": 800}.get(tier, 150)
    for i in range(n):
        ncalls = rng.choice([1, 1, 2, 3])
        calls = []
        for _ in range(ncalls):
            k = rng.randint(0, 5)
            c = []
            for _ in range(k):
                g = rng.choice([0, 1, 2, 3, 5, 8, rng.randint(0, 8)])
                l = rng.choice(LIMS + [f32(rng.uniform(0.05, 4))])
                if rng.random() < 0.02:
                    l = rng.choice([0.0, -1.0])
                c.append((g, f32(l)))
            calls.append(c)
        cases.append(case_of(calls, rng, neg=rng.random() < 0.05))
    # the distance the constraints are applied to: dist_in_2r = centre distance / sum of the two bounding radii
    for i in range({"quick": 150, "thorough": 3000, "search": 1000}.get(tier, 150)):
        a, b = pair(rng)
        cases.append(["geom inter %s %s" % (utok(*a), utok(*b))])
    return cases


def shape_key(case, results):
    return "constr-%d-lines" % len(case)
