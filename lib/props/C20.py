"""C20 — spatio-temporal constraints: table level and tracker level."""
from wiregen import *
from geomgen import *
from trkgen import history, scenes_of, VISUAL
import itertools

ID = "C20"
THEOREM_MODULES = ["SimVerif.Props.C20", "SimVerif.Props.C20b", "SimVerif.Tie.Dist", "SimVerif.Tie.Constr", "SimVerif.Tie.Compat", "SimVerif.Props.C20s"]
THEOREM_MODULE = "SimVerif.Props.C20"
NONTRIVIAL_FLAGS = {"constraint-checked-pairs", "constraint-near-limit", "compared-nonempty", "overlap", "near-disjoint", "rejected", "admitted-under-limit", "at-limit", "larger-gap-entry", "dup-gap", "assert"}
RULE = ("cases = `constr new`, one or more `constr add k (gap limit)*` calls (gaps 0..8, limits from a grid, duplicates within and across calls, "
        "occasional non-positive limit = expected assert), `geom inter` pairs of boxes of different sizes (the executor also evaluates dist_in_2r, compared with centre distance / (r1+r2)), then `constr val gap dist` probes for every gap 0..10 and distances at/around every limit; "
        "tracker level: histories with fast-moving and re-appearing objects on the four trackers under random binding tables — before every predict the executor reports, for every (detection, track) pair of the distance table, the epoch gap and the centre distance in units of the two bounding radii (measured between the last predicted boxes, read through public API), and every pair must be admitted by the model of the table; "
        "and the same history on a tracker with a table no pair can violate and on a tracker without constraints, compared record by record; "
        "thorough tier enumerates all tables of <=3 entries over gaps {0,1,3,8} x limits {0.5,1,2}; non-trivial = the model flagged a rejection, an admission under a "
        "binding limit, a probe exactly at the limit, an entry with a strictly larger gap being used, a duplicate gap, or an assert; distinct = distinct request line")
TRUSTED_BASE = ["Lean 4.33 kernel", "axioms: propext, Quot.sound, Classical.choice (at most)",
                "model SimVerif/Model/Constraints.lean tied to src/trackers/spatio_temporal_constraints.rs by the differential run",
                "the oracle recomputes the applicable limit from the configuration history alone (smallest configured gap >= d, first configured limit)"]
ASSUMPTIONS = ["limits and distances are finite f32 (compared as exact rationals)",
               "a table object on which add_constraints asserted is not used again (its partial state is unspecified)"]
LEVEL_TEXT = ("Lean 4 theorems over the model of add_constraints/validate: after any sequence of successful adds the table is strictly gap-sorted and keeps the first limit per gap "
              "(stability of the sort + dedup), validate uses the smallest configured gap >= d, admission iff dist <= that limit, monotone in dist and in gap, constraints only remove. "
              "Tracker level (Props/C20b): a valid choice over the constrained table attaches a detection only through an admitted pair (C20_binding), the constrained table is a sub-list of the unconstrained one (C20_only_remove), a table no pair violates leaves the distance table and hence the set of valid choices unchanged (C20_nonbinding, C20_empty). "
              "Differential run against the real struct on exhaustive small tables and random ones, and of the four trackers under binding and non-binding tables.")
LEVEL_NOTE = "Trusted: Lean kernel; model<->code tie sampled, not proved. At tracker level the constraints act only as a filter of the distance table (Props/C20b): the theorems are about that filter, the run checks on every call that the implementation's table contains admitted pairs only (distance between the last predicted boxes, as `compatible()` measures it)."
TECHNIQUE = "Lean 4 proof (sort stability + dedup invariants by induction) with differential correspondence check"

LIMS = [0.5, 1.0, 2.0, 0.25, 3.5]


def probes(entries):
    out = []
    lims = sorted(set(l for _, l in entries if l > 0)) or [1.0]
    for g in range(0, 11):
        ds = set([0.0])
        for l in lims:
            ds |= {l, f32(l * 0.999), f32(l * 1.001), l / 2}
        ds.add(max(lims) * 2)
        for d in sorted(ds):
            out.append("constr val %d %s" % (g, f32tok(d)))
    return out


def case_of(calls, rng=None, neg=False):
    lines = ["constr new"]
    allent = []
    for c in calls:
        lines.append("constr add %d %s" % (len(c), " ".join("%d %s" % (g, f32tok(l)) for g, l in c)))
        allent += c
        if any(l <= 0 for _, l in c):
            return lines          # expected assert ends the case
    ps = probes(allent)
    if rng is not None and len(ps) > 60:
        ps = rng.sample(ps, 60)
    if neg:
        ps.append("constr val 1 %s" % f32tok(-0.5))
    return lines + ps


def generate(rng, tier):
    cases = []
    if tier in ("thorough",):
        gaps, lims = [0, 1, 3, 8], [0.5, 1.0, 2.0]
        ents = [(g, l) for g in gaps for l in lims]
        for k in range(0, 4):
            for combo in itertools.product(ents, repeat=k):
                cases.append(case_of([list(combo)], rng))
                if k >= 2:
                    cases.append(case_of([list(combo[:1]), list(combo[1:])], rng))
    n = {"quick": 400, "thorough": 1500, "search": 800}.get(tier, 150)
    for i in range(n):
        ncalls = rng.choice([1, 1, 2, 3])
        calls = []
        for _ in range(ncalls):
            k = rng.randint(0, 5)
            c = []
            for _ in range(k):
                g = rng.choice([0, 1, 2, 3, 5, 8, rng.randint(0, 8)])
                l = rng.choice(LIMS + [f32(rng.uniform(0.05, 4))])
                if rng.random() < 0.02:
                    l = rng.choice([0.0, -1.0])
                c.append((g, f32(l)))
            calls.append(c)
        cases.append(case_of(calls, rng, neg=rng.random() < 0.05))
    # tracker level: binding tables, every pair of every call's distance table must be admitted
    nt, steps = {"quick": (40, 22), "thorough": (300, 45), "search": (80, 30)}.get(tier, (16, 22))
    kinds = ["sort", "bsort", "visual", "bvisual"]
    for i in range(nt):
        cons = [(g, rng.choice([0.2, 0.4, 0.8, 1.5])) for g in sorted(rng.sample(range(1, 5), rng.randint(1, 3)))]
        cases.append(history(rng, kinds[i % 4], steps, api_mix=(i % 5 == 0), constraints=cons, max_idle=rng.randint(1, 4)))
    # a table no pair can violate vs no table: same records (ids included for the simple trackers)
    loose = " 1 8 %s" % f32tok(100000.0)
    for i in range(nt // 2):
        kind = kinds[i % 4]
        h = history(rng, kind, steps, api_mix=False, constraints=[(8, 100000.0)], max_idle=rng.randint(1, 4))
        assert loose in h[0], h[0]
        h0 = [h[0].replace(loose, " 0", 1)] + h[1:]
        out = ["trk sel 0"] + h + ["trk sel 1"] + h0
        for sc in scenes_of(h):
            out.append("trk %s 0 1 %d" % ("cmp" if kind.startswith("b") else "cmpids", sc))
        cases.append(out)
    # the distance the constraints are applied to: dist_in_2r = centre distance / sum of the two bounding radii
    for i in range({"quick": 400, "thorough": 3000, "search": 1000}.get(tier, 150)):
        a, b = pair(rng)
        cases.append(["geom inter %s %s" % (utok(*a), utok(*b))])
    return cases


def shape_key(case, results):
    for r in results:
        if not r.o or not r.k or r.bad:
            t = r.req.split()
            return "%s-%s" % (t[0], t[1]) + ("-constraint-violated" if "constraint-violated" in r.flags else "")
    return "constr-%d-lines" % len(case)

SOURCE_TIE = "Source-level tie by proof (Tie/Constr, Tie/Dist, Tie/Compat, Props/C20s): add_constraints, validate, dist_in_2r and the compatibility rule as regenerated from the source equal the model's."
LEVEL_TEXT = LEVEL_TEXT + " " + SOURCE_TIE
TRUSTED_BASE = TRUSTED_BASE + ["translator/kernels.py + rustexpr.py (reader of the Rust subset, per-function tables) for the functions named in SOURCE_TIE; generated definitions are proof obligations (Tie modules) on every run"]
TECHNIQUE = TECHNIQUE + "; model regenerated from the source by a translator for the functions of SOURCE_TIE, tied by proof"
