"""C05 — tracking results are independent of shard count and thread schedule."""
from trkgen import *
import importlib

ID = "C05"
SCHEDULE_DEPENDENT = True     # a failure that does not recur when the case is re-run is still reported (engine: report())
THEOREM_MODULES = ["SimVerif.Props.C05", "SimVerif.Props.C05b", "SimVerif.Props.C05c"]
THEOREM_MODULE = "SimVerif.Props.C05"
NONTRIVIAL_FLAGS = {"fallback", "multi-cand", "multi-query", "shards-interleaved", "jittered-commands", "compared-nonempty", "competition", "continuation", "compare-with-ids"}
RULE = ("each random multi-object history is run on the real tracker with 1 shard (reference) and with 2..8 shards under seeded random delays of the store workers (similari_verif hook at every command begin, several seeds), "
        "in separate tracker instances of one executor; per scene the record streams are compared with the reference — including the raw track ids for the simple trackers (`trk cmpids`), up to renaming for the batch trackers; "
        "every call of every run is also compared with the model and its choice validated; the executor reports how many store commands ran under each plan and how often consecutive commands ran on different shards; "
        "the voting engines are additionally fed the same distance stream in several arrival orders (permuted, reversed); non-trivial = a run in which the workers' commands were actually interleaved, a non-empty comparison, competing detections, continuations; distinct = distinct request line")
TRUSTED_BASE = ["Lean 4.33 kernel", "axioms: propext, Quot.sound, Classical.choice (at most)",
                "models SimVerif/Model/Store.lean (sharded query), Model/Tracker.lean (the step does not mention the shard count) tied to the code by the differential runs",
                "real OS scheduling is only sampled (seeded delays through the hook); the theorems are about the interleaving model at command granularity (every arrival order of the per-shard chunks)"]
ASSUMPTIONS = ["inputs without exact weight ties (a difference is accepted only when the model found more than one optimal choice in that scene)"]
PARTIAL = []
LEVEL_TEXT = ("Lean 4 theorems: for every shard count n>0 the shards partition the store (concatenation in any order is a permutation); a distance query collects, for every n and every arrival order of the workers' chunks, a permutation of the sequential single-shard result (C10_schedule_independent); "
              "admissibility, gating and one-to-one-ness of a choice depend on the distance table only as a multiset; the optimum of the assignment and the set of optimal assignments are invariant under permutation of a table with distinct pairs (C05_best_perm, C05_optimal_transport); the whole validity predicate of an association — admissibility, gating, one-to-one-ness and maximality, with the optimum certified for tables of every size — gives the same verdict on every permutation of a table with distinct pairs (C05_validChoice_perm, Props/C05c); the tracker step itself never reads the shard count. "
              "The real trackers are run with 1..8 shards under seeded worker delays and compared record by record (ids included for the simple trackers).")
LEVEL_NOTE = "Trusted: Lean kernel; interleaving model at command granularity; real scheduling sampled, not enumerated, at tracker level (enumerated at store level in C10)."
TECHNIQUE = "Lean 4 proof (permutation arguments) with differential correspondence check under hook-perturbed schedules"


def reshard(lines, shards, vshards):
    t = lines[0].split()
    t[3] = str(shards); t[4] = str(vshards)
    return [" ".join(t)] + lines[1:]


def generate(rng, tier):
    n, steps = {"quick": (30, 20), "thorough": (150, 40), "search": (40, 25)}.get(tier, (12, 20))
    cases = []
    for i in range(n):
        kind = ["sort", "bsort", "visual", "bvisual"][i % 4]
        h = history(rng, kind, steps, api_mix=(i % 3 == 0))
        out = ["trk sel 0"] + reshard(h, 1, 1)
        variants = rng.sample([2, 3, 4, 5, 8], 3)
        for k, sh in enumerate(variants):
            out.append("trk sel %d" % (k + 1))
            out.append("trk sched jitter %d" % rng.randrange(1 << 30))
            out += reshard(h, sh, rng.randint(1, 4))
            out.append("trk sched off")
        for k in range(len(variants)):
            for s in scenes_of(h):
                out.append("trk %s 0 %d %d" % ("cmpids" if kind in ("sort", "visual") else "cmp", k + 1, s))
        cases.append(out)
    # the order in which the workers' chunks arrive is the order of the distance stream the voting engines read:
    # the same stream in several orders (permutations, reversed) must give the model's (order independent) answer
    c17 = importlib.import_module("props.C17")
    votes = [c for c in c17.generate(rng, tier) if c[0].startswith("vote best") or c[0].startswith("vote topn")]
    cases += votes[:{"quick": 800, "thorough": 6000, "search": 1500}.get(tier, 300)]
    return cases


def shape_key(case, results):
    for r in results:
        if not r.o or not r.k or r.bad:
            t = r.req.split()
            return t[0] + "-" + t[1]
    return "none"
