"""C09 — the track store is a faithful id -> track map and reports merge failures."""
from storegen import *
import itertools

ID = "C09"
THEOREM_MODULE = "SimVerif.Props.C09"
THEOREM_MODULES = ["SimVerif.Props.C09", "SimVerif.Tie.Track", "SimVerif.Tie.StoreCmd", "SimVerif.Tie.StoreMap", "SimVerif.Tie.FanOut"]
NONTRIVIAL_FLAGS = {"dup", "add-missing", "fetch-missing", "fetch-hit", "merge-CB", "merge-NOTFOUND", "merge-SAME", "remove-src", "lookup", "usable", "fails", "clear"}
RULE = ("operation sequences over a 5-id / 3-class alphabet on stores with 1..5 shards: add_track (externally built tracks, duplicates), add (existing and missing ids, empty observation, failing update/optimise), "
        "fetch_tracks (existing, missing, repeated ids), merge_owned / merge_external / merge_external_noblock (missing destination or source, same id, failing attribute merge or optimise, remove flag), lookup, find_usable, clear, shard_stats; "
        "thorough tier enumerates all sequences of <=3 operations from a 14-operation alphabet per shard count; after EVERY operation the executor dumps all shards (get_store) and the notifier count, compared with the model; "
        "non-trivial = the model flagged one of the interesting branches (duplicate, add on a missing id, fetch hit/miss, every merge error kind, source removal, lookup/usable, failing add, clear); distinct = distinct request line")
TRUSTED_BASE = ["Lean 4.33 kernel", "axioms: propext, Quot.sound, Classical.choice (at most)",
                "model SimVerif/Model/Store.lean tied to src/track/store.rs (+ builder.rs, track.rs) by the differential run with scriptable callbacks (optimise = sort+truncate with state, attribute-dependent compatibility and status, scripted failures)",
                "worker threads are exercised (every command goes through the real executors) but each operation is modelled as atomic; interleavings are C10's subject"]
ASSUMPTIONS = ["shard count > 0", "ids < 2^64 (Nat in the model)"]
LEVEL_TEXT = ("Lean 4 theorems for every shard count n>0, callback family and reachable store (invariant WF: every key in shard key%n, keys distinct): the store refines the map find : id -> track — add_track rejects duplicates and otherwise "
              "binds exactly that id; fetch_tracks removes and returns exactly the requested existing tracks in order; clear empties; per-shard counts sum to the number of stored tracks; the enumerated tracks are exactly the map's entries, so lookup / find_usable "
              "return exactly the satisfying tracks with status (Pending dropped); add on a missing id = build externally + add_track (failures included); merge_external errs iff destination missing / same id / the track merge fails and then changes nothing, "
              "else changes only the destination; merge_owned also errs on a missing source, keeps both tracks on failure, removes the source iff asked. Differential run with full shard dumps after every op.")
LEVEL_NOTE = "Trusted: Lean kernel; model<->code tie sampled with full-state comparison; atomicity of each store command w.r.t. the worker threads is assumed here (C10)."
TECHNIQUE = "Lean 4 proof (refinement to a finite map; invariant by induction over operations) with differential correspondence check"

IDS = [1, 2, 3, 4, 6]


def rand_op(rng):
    r = rng.random()
    if r < 0.2: return "store addt %s" % trackspec(rng, rng.choice(IDS), clean=rng.random() < .85)
    if r < 0.4: return "store add %d %s" % (rng.choice(IDS), obs(rng))
    if r < 0.5:
        k = rng.randint(0, 3)
        return "store fetch %d %s" % (k, " ".join(str(rng.choice(IDS + [9])) for _ in range(k)))
    if r < 0.62: return "store %s %d %s %s %d" % (rng.choice(["mext", "mextnb"]), rng.choice(IDS), trackspec(rng, rng.choice(IDS + [9]), clean=True), classes(rng), rng.randint(0, 1))
    if r < 0.78: return "store mown %d %d %s %d %d" % (rng.choice(IDS), rng.choice(IDS), classes(rng), rng.randint(0, 1), rng.randint(0, 1))
    if r < 0.86: return "store lookup %d" % rng.randint(1, 4)
    if r < 0.92: return "store usable"
    if r < 0.97: return "store stats"
    return "store clear"


ALPHABET = [
    "store addt 1 0 0 1 0 5 1 -", "store addt 2 6 0 1 0 13 2 -", "store addt 1 3 0 2 0 4 - - 1 7 3 2:0",
    "store add 1 0 9 2 1:0", "store add 3 1 - - -", "store add 2 0 -1 1 -", "store add 3 0 4 4 2:1",
    "store fetch 2 1 3", "store mown 1 2 - 1 1", "store mown 2 1 1 0 0 0", "store mext 1 9 2 0 1 0 8 1 - - 1",
    "store mext 5 9 2 0 1 0 8 1 - - 1", "store lookup 2", "store usable",
]


def generate(rng, tier):
    cases = []
    if tier == "thorough":
        for n in (1, 2, 3):
            for L in (1, 2, 3):
                for seq in itertools.product(ALPHABET, repeat=L):
                    cases.append(["store new %d 1 0" % n] + list(seq) + ["store stats"])
    ncase, nops = {"quick": (400, 25), "thorough": (400, 400), "search": (600, 30)}.get(tier, (150, 25))
    for _ in range(ncase):
        lines = ["store new %d %d 0" % (rng.randint(1, 5), rng.randint(0, 3))]
        for _ in range(nops):
            lines.append(rand_op(rng))
        cases.append(lines)
    return cases


def shape_key(case, results):
    for r in results:
        if not r.o or not r.k or r.bad:
            t = r.req.split()
            return "store-" + t[1] + "-" + "-".join(f for f in r.flags if f.startswith("merge-") or f in ("dup", "add-missing", "fetch-missing"))
    return "none"

SOURCE_TIE = "Source-level tie by proof (Tie/Track, Tie/StoreCmd, Tie/StoreMap): Track::add_observation, Track::merge, the Merge command of the store worker the map operations add_track / fetch_tracks / shard_stats / get_executor and TrackStore::add (an observation by track id: a missing id goes through the builder, an existing track through add_observation; equal to the model's add as a map, i.e. up to lookup), regenerated from the source, equal the model's addObservation / merge / per-shard mergeExternal step / addTrack / fetchTracks / shardStats / shardOf."
LEVEL_TEXT = LEVEL_TEXT + " " + SOURCE_TIE
TRUSTED_BASE = TRUSTED_BASE + ["translator/kernels.py + rustexpr.py (reader of the Rust subset, per-function tables) for the functions named in SOURCE_TIE; generated definitions are proof obligations (Tie modules) on every run"]
TECHNIQUE = TECHNIQUE + "; model regenerated from the source by a translator for the functions of SOURCE_TIE, tied by proof"
