"""C01 — tracker output contract."""
from trkgen import *

ID = "C01"
THEOREM_MODULES = ["SimVerif.Props.C01", "SimVerif.Tie.Attr", "SimVerif.Tie.Record", "SimVerif.Props.C01s", "SimVerif.Tie.Apply", "SimVerif.Props.C01t", "SimVerif.Tie.ApplyModel"]
THEOREM_MODULE = "SimVerif.Props.C01"
NONTRIVIAL_FLAGS = {"multi-det", "competition", "continuation", "multi-scene-batch", "multi-scene-store", "expired-uncollected", "gc-runs"}
KINDS = ["sort", "bsort", "visual", "bvisual"]
RULE = ("random multi-scene histories for every tracker kind (Sort, BatchSort, VisualSort, BatchVisualSort), both metrics, shards 1..4, history 1..5, idle 0..3: 0..n detections per call "
        "(moving objects, missed detections, sudden jumps, near-duplicate detections of one object, clutter, rotated and axis-aligned boxes, confidences below and above the minimum, custom ids); "
        "every record is compared with the model (id, epoch, scene, length, custom id, voting type, token of the echoed box; the executor additionally compares the echoed box bit-for-bit with the submitted one) and the live/wasted stores are dumped after every call; "
        "non-trivial = a call with >=2 detections, with two detections gated for the same track, with a continuation, a multi-scene batch, tracks of several scenes stored, an expired-but-uncollected track present, or a periodic collection; distinct = distinct request line; the record's predicted box must equal the last stored predicted box of its track")
TRUSTED_BASE = ["Lean 4.33 kernel", "axioms: propext, Quot.sound, Classical.choice (at most)",
                "model SimVerif/Model/Tracker.lean tied to the four predict implementations by the differential run; the distance table of each call is obtained from the tracker's own store through public API and the association choice is read off the implementation's records and validated (admissible, gated, one-to-one, maximum weight, fresh ids)",
                "random candidate ids colliding with a live id or 0 (probability ~2^-64 per call) are not modelled"]
ASSUMPTIONS = ["history length > 0", "threshold > 0"]
LEVEL_TEXT = ("Lean 4 theorems for every distance table and every valid association choice: a predict call returns exactly one record per detection in submission order, each echoing the detection's box token and custom id and carrying the scene's new epoch; "
              "the record ids of one call are pairwise distinct; ids of newly started tracks exceed every id the tracker has ever held (invariant IdsBelow, preserved by every operation; batch trackers: drawn from the batch's own id range, distinct from all live ids). "
              "Differential run of the real trackers with validated choices; the statement of the theorems is also evaluated on the implementation's records (length, order, echo bit-for-bit, distinctness, freshness against all ids seen in the run).")
LEVEL_NOTE = "Trusted: Lean kernel; model<->code tie sampled; numeric kernel abstracted (its table is taken from the implementation)."
TECHNIQUE = "Lean 4 proof (relational step over validated choices, invariant by induction) with differential correspondence check"


def generate(rng, tier):
    n, steps = {"quick": (100, 25), "thorough": (800, 50), "search": (200, 30)}.get(tier, (40, 25))
    cases = []
    for i in range(n):
        kind = KINDS[i % len(KINDS)]
        cases.append(history(rng, kind, steps, api_mix=(i % 4 == 0)))
    return cases


def shape_key(case, results):
    for r in results:
        if not r.o or not r.k or r.bad:
            t = r.req.split()
            return "trk-" + t[1] + ("-invalid-choice" if "invalid-choice" in r.flags else "")
    return "none"

SOURCE_TIE = "Source-level tie by proof (Tie/Attr, Tie/Record): the attribute updates (update_history, merge, apply) and the record conversions of the trackers, regenerated from the source on every run, equal the model's. Also by proof (Tie/Apply, Tie/ApplyModel, Props/C01t): the loop at the end of the four predict functions that turns the winners into store operations and records, and gen_track_id, as regenerated from the source, are a left-to-right fold that returns one record per detection in submission order and gives new tracks counter values never issued before; on the list store of the tracker model the Sort, BatchSort and VisualSort loops are applyPicks itself."
LEVEL_TEXT = LEVEL_TEXT + " " + SOURCE_TIE
TRUSTED_BASE = TRUSTED_BASE + ["translator/kernels.py + rustexpr.py (reader of the Rust subset, per-function tables) for the functions named in SOURCE_TIE; generated definitions are proof obligations (Tie modules) on every run"]
TECHNIQUE = TECHNIQUE + "; model regenerated from the source by a translator for the functions of SOURCE_TIE, tied by proof"
