"""C06 — batch trackers refine the simple trackers; one result per scene; no deadlock."""
from trkgen import *

ID = "C06"
SCHEDULE_DEPENDENT = True     # a failure that does not recur when the case is re-run is still reported (engine: report())
THEOREM_MODULES = ["SimVerif.Props.C06", "SimVerif.Props.C06b", "SimVerif.Props.Hist", "SimVerif.Tie.BatchReq", "SimVerif.Tie.Apply", "SimVerif.Tie.Shares"]
THEOREM_MODULE = "SimVerif.Props.C06"
NONTRIVIAL_FLAGS = {"pipelined-batches", "pipeline-overlap", "multi-scene-batch", "trace-validated", "slow-consumer-probe", "compared-nonempty", "competition", "shards-interleaved"}
RULE = ("batch sequences over 1..4 scenes on the real batch tracker (distance shards 1..4, voting workers 1..4, seeded delays of the store workers, a consumer that retrieves immediately or only after a delay), "
        "and the same per-scene detection lists on the corresponding simple tracker in a second instance (a scene gets a call exactly when the batch contains it); per scene the two record streams are compared up to renaming of ids; "
        "for every batch the events logged through the similari_verif hooks (batch begin, dispatch, job taken, result sent, monitor decremented) plus the executor's own receive / probe events are replayed, thread by thread, as a path of the protocol model; "
        "the same batches are also submitted pipelined (each as soon as the previous predict returned, results retrieved by another thread, immediately or lagging) and compared with the simple tracker as well; a watchdog in the engine turns a hang into a failure; non-trivial = multi-scene batches, validated traces, slow-consumer probes, non-empty comparisons; distinct = distinct request line")
TRUSTED_BASE = ["Lean 4.33 kernel", "axioms: propext, Quot.sound, Classical.choice (at most)",
                "models SimVerif/Model/BatchProtocol.lean (one batch: dispatch / take / send on a bounded(1) channel / monitor decrement / receive) and Model/Tracker.lean (data: a batch = the per-scene steps in any order, ids drawn per candidate) tied to src/trackers/{sort,visual_sort}/batch_api.rs and src/trackers/batch.rs by the differential run and by trace validation",
                "interleaving semantics at the granularity of the logged events; crossbeam channel and Condvar behaviour are assumed (bounded(1): a send completes only into an empty slot)",
                "event logs give each thread's own order exactly; the cross-thread order is reconstructed (any interleaving of the per-thread sequences that is a path of the model is accepted)"]
ASSUMPTIONS = ["results of a batch are retrieved before the next batch is submitted or from another thread (the property's proviso)", "scenes of one batch are distinct (HashMap keys)"]
LEVEL_TEXT = ("Lean 4 theorems about the protocol model, for every number of scenes and workers and every schedule (induction over traces): the monitor always equals the number of jobs of the batch not yet decremented; "
              "when nothing is left to do exactly one result per scene has been delivered; in every reachable non-final state some transition is enabled (the consumer's receive being the proviso), and with an empty channel one of the tracker's own threads can move; "
              "every transition strictly decreases a weighted count of outstanding work, so every schedule terminates. Data refinement (Props/C06b, a simulation proof): a scene job is the step the simple trackers take, it gives the same records from states that agree up to order (predictScene_congr), two jobs of different scenes commute (predictScene_comm), hence for any two orders of the jobs of a batch every scene gets the same records and the final states agree up to order (C06_scene_order, C06_batch_order); and over whole histories the batch SORT tracker refines the simple SORT tracker up to an injective renaming of ids (C06_refines_simple, Props/Hist.lean). "
              "The real batch trackers are compared scene by scene with the simple trackers, and every logged event trace is replayed as a path of the protocol model.")
LEVEL_NOTE = "Trusted: Lean kernel; protocol model<->code tie by validated traces (sampled schedules); channel/condvar semantics assumed."
PARTIAL = ["C06_refines_simple (Props/Hist.lean) is proved for the SORT pair (batch tracker vs simple tracker configured alike) over histories of predict batches from the empty tracker: the batch tracker's answers are the simple tracker's answers to the same calls served one by one, up to an injective renaming of ids. Not restated as theorems: the VisualSORT pair and histories with skip / wasted calls (compared by the run). The protocol theorems (monitor, one result, progress, termination) are about one batch; pipelined submission is covered by the run and by the monitor wait being part of the model's `predictBatch` precondition"]
TECHNIQUE = "Lean 4 proof (invariant by induction over traces, progress by case analysis, decreasing measure) with trace validation against the implementation and a batch-vs-simple differential run"


def generate(rng, tier):
    n, steps = {"quick": (24, 20), "thorough": (200, 40), "search": (50, 25)}.get(tier, (14, 20))
    cases = []
    for i in range(n):
        kind = "bvisual" if i % 5 in (1, 3) else "bsort"
        # the batch VisualSORT computes the own-area shares per scene inside the batch loop: most of its cases carry
        # own-area thresholds and several scenes, so that a share taken from another scene of the batch is noticed
        extra = {}
        if kind == "bvisual" and i % 10 == 3:
            # appearance voting under a low cosine threshold: objects that jump (no positional match) and are seen again with a
            # similarity between the threshold and one minus the threshold; tracks vote from their first stored feature
            extra = dict(vkind=("cosine", rng.choice([0.2, 0.3])), easy_votes=True, world_kw=dict(jump_p=0.3, noises=(0.3, 0.8, 0.5, 0.05)))
        h = history(rng, kind, steps, nscenes=(rng.randint(2, 4) if kind == "bvisual" else rng.randint(1, 4)), api_mix=(i % 4 == 0),
                    shards=rng.randint(1, 4), vshards=rng.randint(1, 4), own_p=(0.2 if extra else 0.85), **extra)
        out = ["trk sel 0", "trk sched jitter %d" % rng.randrange(1 << 30)]
        body = []
        for l in h:
            if l.split()[1] == "predict" and rng.random() < 0.3:
                body.append("trk consumer %d" % rng.choice([0, 300, 2000]))
            body.append(l)
        out += body + ["trk sched off", "trk sel 1"] + unbatch(h)
        for s in scenes_of(h):
            out.append("trk cmp 0 1 %d" % s)
        if i % 4 != 0:
            # the same batches once more, pipelined: each batch is submitted as soon as the previous predict
            # returned, the results are retrieved by another thread (immediately or lagging)
            out += ["trk sel 2", "trk sched jitter %d" % rng.randrange(1 << 30)] + pipe_lines(h, rng.choice([0, 0, 500, 3000])) + ["trk sched off"]
            for s in scenes_of(h):
                out.append("trk cmp 2 1 %d" % s)
        cases.append(out)
    # pipeline stress: every batch holds all of 3..4 crowded scenes, ONE voting worker, the retrieving thread lags:
    # the next batch is submitted while the previous one is still being voted, so a monitor wait that lets `predict`
    # through early, or bookkeeping done before that wait, shows as a grouping that differs from the simple tracker's
    for j in range({"quick": 8, "thorough": 40, "search": 12}.get(tier, 5)):
        ns = rng.randint(3, 4)
        world = World(rng, ns, rotated=False, dense=True)
        h = [new_line(rng, "bsort", shards=rng.randint(1, 2), vshards=1, max_idle=rng.randint(1, 3), constraints=[])]
        for _ in range(steps):
            sc = [(s_, world.step(s_)) for s_ in range(ns)]
            sc = [(s_, d) for s_, d in sc if d]
            if sc: h.append(predict_line(sc))
        out = ["trk sel 1"] + unbatch(h)
        out += ["trk sel 2", "trk sched jitter %d" % rng.randrange(1 << 30), "trk sched slowvote %d" % rng.choice([1500, 4000])] + \
               pipe_lines(h, rng.choice([2000, 5000])) + ["trk sched off"]
        for s_ in scenes_of(h):
            out.append("trk cmp 2 1 %d" % s_)
        cases.append(out)
    return cases


def shape_key(case, results):
    for r in results:
        if not r.o or not r.k or r.bad:
            t = r.req.split()
            return "trk-" + t[1] + ("-trace" if "TRACE-INVALID" in r.detail else "")
    return "none"

SOURCE_TIE = "Source-level tie by proof (Tie/BatchReq, Tie/Apply): PredictionBatchRequest::add as regenerated from the source groups the detections of a batch per scene in submission order with one entry per scene (batch_size counts them); the apply loop in the voting threads of both batch trackers is a left-to-right fold returning one record per detection (the same theorem as for the simple trackers, an id being drawn for every candidate); the own-area shares a scene of a batch gets are the ones the simple tracker computes for the same detections (Tie/Shares)."
LEVEL_TEXT = LEVEL_TEXT + " " + SOURCE_TIE
TRUSTED_BASE = TRUSTED_BASE + ["translator/kernels.py + rustexpr.py (reader of the Rust subset, per-function tables) for the functions named in SOURCE_TIE; generated definitions are proof obligations (Tie modules) on every run"]
TECHNIQUE = TECHNIQUE + "; model regenerated from the source by a translator for the functions of SOURCE_TIE, tied by proof"
