"""C17 — voting engines (TopN, BestFit, Hungarian): generator and metadata."""
from wiregen import *
import itertools

ID = "C17"
THEOREM_MODULE = "SimVerif.Props.C17"
THEOREM_MODULES = ["SimVerif.Props.C17", "SimVerif.Tie.Voting", "SimVerif.Props.C17s", "SimVerif.Tie.SortVoting"]
NONTRIVIAL_FLAGS = {"multi-cand", "truncated", "fallback", "tie", "greedy-suboptimal", "multi", "over-max", "multi-vote-or-dropped"}
RULE = ("requests `vote topn|best|hung …`: result streams over <=6 queries x <=6 tracks x 0..5 distances per pair on a 1/64 grid (so f32 sums are exact), "
        "None distances mixed in, every N/min_votes/max_distance regime; each base stream is also submitted in several random permutations "
        "(all permutations of streams of <=5 elements in the thorough tier); Hungarian matrices up to 5x5 (2x2,2x3,3x2 exhaustive over a 6-point grid around the threshold in the thorough tier). "
        "non-trivial = model flagged >=2 candidates, a top-N cut, a best-fit fallback, a weight tie, a distance above max_distance, or a matrix where row-greedy is suboptimal; distinct = distinct request line")
TRUSTED_BASE = ["Lean 4.33 kernel", "axioms: propext, Quot.sound, Classical.choice (at most)",
                "models SimVerif/Model/Voting.lean, Model/Assign.lean tied to src/track/voting/{topn,best}.rs and src/trackers/sort/voting.rs by the differential run",
                "pathfinding::kuhn_munkres is a contract parameter (returns a maximum-weight perfect matching of rows to distinct columns); every observed answer is validated by exhaustive enumeration in the driver",
                "HashMap group order is modelled as first-appearance order; theorems show independence of it for tie-free streams; ties accepted either way by the oracle"]
ASSUMPTIONS = ["distances/weights finite f32; grid values so that f32/f64 sums are exact", "query ids and track ids are disjoint and > 0 (asserted by SortVoting)",
               "SortVoting: threshold > 0, candidate_num >= distinct queries, track_num >= distinct tracks (the code indexes on them)"]
LEVEL_TEXT = ("Lean 4 theorems for every stream and parameter: candidate list = one element per (query,track) with >= min_votes distances <= max_distance and weight sum(maxSeen-d); "
              "TopN = at most N of a query's candidates by decreasing weight, nothing heavier excluded; BestFit = exact greedy rule, each track to at most one query, the heaviest claimant; "
              "both independent of stream order for tie-free streams (permutation theorems); Hungarian = every optimal solution decodes to own column or a gated track, no track twice. "
              "Differential run of the three real engines against the models on generated and permuted streams; the theorem statements are evaluated on the implementation's own answers.")
LEVEL_NOTE = "Trusted: Lean kernel; model<->code tie sampled; kuhn_munkres contract checked on every observed call by enumeration; f32 arithmetic exact on the generated grid."
TECHNIQUE = "Lean 4 proof (permutation invariance, greedy-pass characterisation, exchange argument) with differential correspondence check"

G = 1.0 / 64


def stream(rng, nq, nt, maxper, none_p=0.1, lo=0, hi=256):
    s = []
    for q in range(1, nq + 1):
        for w in range(101, 101 + nt):
            if rng.random() < 0.35:
                continue
            for _ in range(rng.randint(0, maxper)):
                d = None if rng.random() < none_p else G * rng.randint(lo, hi)
                s.append((q, w, d))
    rng.shuffle(s)
    return s


def toks(s):
    return " ".join([str(len(s))] + ["%d %d %s" % (q, w, optf32(d)) for q, w, d in s])


def feat_lines(rng, s, perms):
    n = rng.choice([0, 1, 2, 3, 10])
    maxd = G * rng.choice([16, 64, 128, 300, rng.randint(0, 256)])
    mv = rng.choice([0, 1, 1, 2, 3])
    out = []
    for p in perms:
        out.append(["vote topn %d %s %d %s" % (n, f32tok(maxd), mv, toks(p))])
        out.append(["vote best %s %d %s" % (f32tok(maxd), mv, toks(p))])
    return out


def hung_line(rng, thr, W, cextra=0, textra=0, dup=False):
    """W: dict (q,t)->weight or None(absent)"""
    ent = [(q, t, w) for (q, t), w in W.items() if w != "absent"]
    rng.shuffle(ent)
    if dup and ent:
        q, t, w = rng.choice(ent)
        ent.insert(0, (q, t, G * rng.randint(0, 64)))   # an earlier entry for the same pair: overwritten
    nq = len(set(q for q, _, _ in ent)); nt = len(set(t for _, t, _ in ent))
    return ["vote hung %s %d %d %s" % (f32tok(thr), nq + cextra, nt + textra, toks(ent))]


def generate(rng, tier):
    cases = []
    nbase = {"quick": 300, "thorough": 2500, "search": 1000}.get(tier, 120)
    for i in range(nbase):
        nq, nt = rng.randint(1, 6), rng.randint(1, 6)
        s = stream(rng, nq, nt, rng.choice([1, 2, 5]), lo=rng.choice([0, 0, 100]))
        perms = [s]
        if tier == "thorough" and len(s) <= 5 and i % 10 == 0:
            perms = [list(p) for p in itertools.permutations(s)]
        else:
            for _ in range(3):
                p = s[:]; rng.shuffle(p); perms.append(p)
        cases += feat_lines(rng, s, perms)
    # weight-distinct streams (unique answers) with competing claims
    for i in range(nbase):
        nq, nt = rng.randint(2, 5), rng.randint(1, 3)
        s = stream(rng, nq, nt, 3, none_p=0.0, lo=0, hi=120)
        cases += feat_lines(rng, s, [s, s[::-1]])
    # a contested track whose heaviest claimant has too few votes to qualify (min_votes >= 2): the filter must come
    # before the award, the track goes to the heaviest QUALIFYING claimant
    for i in range(nbase // 2):
        mv = rng.choice([2, 2, 3])
        s = []
        for w in range(101, 101 + rng.randint(1, 2)):
            for _ in range(mv - 1):
                s.append((1, w, G * rng.randint(0, 10)))                 # under-voted, close (heavy)
            for q in range(2, 2 + rng.randint(1, 2)):
                for _ in range(mv + rng.randint(0, 1)):
                    s.append((q, w, G * rng.randint(60, 200)))           # qualified, far (light)
        for _ in range(rng.randint(0, 3)):
            s.append((rng.randint(1, 4), 100 + rng.randint(1, 3), G * rng.randint(0, 256)))
        rng.shuffle(s)
        maxd = G * 300
        for p_ in (s, s[::-1]):
            cases.append(["vote best %s %d %s" % (f32tok(maxd), mv, toks(p_))])
            cases.append(["vote topn %d %s %d %s" % (rng.choice([1, 2, 10]), f32tok(maxd), mv, toks(p_))])
    # Hungarian
    nh = {"quick": 1000, "thorough": 6000, "search": 3000}.get(tier, 400)
    for i in range(nh):
        c, t = rng.randint(1, 5), rng.randint(1, 5)
        thr = G * rng.choice([19, 20, 32, 64, rng.randint(1, 70)])
        W = {}
        for q in range(1, c + 1):
            for tt in range(101, 101 + t):
                r = rng.random()
                if r < 0.25: W[(q, tt)] = "absent"
                elif r < 0.3: W[(q, tt)] = None
                elif r < 0.45: W[(q, tt)] = thr
                elif r < 0.55: W[(q, tt)] = thr - G
                else: W[(q, tt)] = G * rng.randint(0, 64 if thr <= 1 else 256)
        if all(v == "absent" for v in W.values()):
            W[(1, 101)] = G * 40
        cases.append(hung_line(rng, thr, W, rng.choice([0, 0, 1, 2]), rng.choice([0, 0, 1]), dup=rng.random() < 0.1))
    if tier == "thorough":
        for (c, t) in [(2, 2), (2, 3), (3, 2)]:
            thr = G * 20
            grid = [0.0, thr - G, thr, thr + G, G * 40, 1.0]
            for combo in itertools.product(grid, repeat=c * t):
                W = {}
                k = 0
                for q in range(1, c + 1):
                    for tt in range(101, 101 + t):
                        W[(q, tt)] = combo[k]; k += 1
                cases.append(hung_line(rng, thr, W))
    return cases


def reduce_line(line):
    t = line.split()
    # find the stream: count token position depends on op
    pos = {"topn": 5, "best": 4, "hung": 5}[t[1]]
    k = int(t[pos])
    body = t[pos + 1:]
    for i in range(k):
        nb = body[:3 * i] + body[3 * (i + 1):]
        yield " ".join(t[:pos] + [str(k - 1)] + nb)


def shape_key(case, results):
    t = (case[0].split() if case else []) + ["?", "?", "?"]
    return "vote-%s" % t[1]

SOURCE_TIE = "Source-level tie by proof (Tie/Voting, Props/C17s): TopNVoting::winners and BestFitVoting::winners as regenerated from the source (hash order of into_group_map a parameter) equal the model's topn / bestfit."
LEVEL_TEXT = LEVEL_TEXT + " " + SOURCE_TIE
TRUSTED_BASE = TRUSTED_BASE + ["translator/kernels.py + rustexpr.py (reader of the Rust subset, per-function tables) for the functions named in SOURCE_TIE; generated definitions are proof obligations (Tie modules) on every run"]
TECHNIQUE = TECHNIQUE + "; model regenerated from the source by a translator for the functions of SOURCE_TIE, tied by proof"
