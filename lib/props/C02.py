"""C02 — gated, maximum-weight one-to-one positional association."""
from wiregen import *
from geomgen import *
from trkgen import *
import importlib

ID = "C02"
THEOREM_MODULES = ["SimVerif.Props.C02", "SimVerif.Props.C02b", "SimVerif.Tie.Inter", "SimVerif.Tie.Kalman", "SimVerif.Tie.SMetric", "SimVerif.Tie.SortVoting", "SimVerif.Props.C02s", "SimVerif.Tie.Optimize", "SimVerif.Tie.VoteParams"]
THEOREM_MODULE = "SimVerif.Props.C02"
NONTRIVIAL_FLAGS = {"gated-in", "below-gate", "confidence-raised", "beyond-chi2-gate", "greedy-suboptimal", "competition", "multi", "at-threshold", "too-far"}
RULE = ("(a) `smetric`: SortMetric through Track::distances on a track built from 1..6 observations and a one-observation candidate — overlapping / near / far pairs, confidences below and above the configured minimum, default and non-default Kalman position / velocity weights of the track (the Mahalanobis gate must be computed with the track's own filter) "
        "(non-default minima included), IoU thresholds and Mahalanobis; the executor reports the boxes the metric actually sees, cos/sin of their angles and the track's raw filter state, the model recomputes IoU*max(conf,min) / the chi-square gate exactly; "
        "(b) `vote hung`: SortVoting::winners on weight matrices up to 5x5 on a 1/64 grid straddling the threshold (2x2, 2x3, 3x2 exhaustive in the thorough tier) — the answer must be a valid maximum-weight gated one-to-one assignment (checked by enumeration), equal to the model's when unique; "
        "(c) tracker histories with approaching / crossing objects (see C01), every choice validated as maximum weight; non-trivial = pairs inside / below the gate, raised confidence, beyond the chi-square gate, matrices where row-greedy is suboptimal, competing detections; distinct = distinct request line")
TRUSTED_BASE = ["Lean 4.33 kernel", "axioms: propext, Quot.sound, Classical.choice (at most)",
                "models SimVerif/Model/SortMetric.lean, Model/Assign.lean, Model/Tracker.lean tied to src/trackers/sort/{metric,voting,simple_api,batch_api}.rs by the differential run",
                "pathfinding::kuhn_munkres is a contract parameter (maximum-weight perfect matching of rows to distinct columns); every observed answer is validated by enumeration (<=5x5) or by the dynamic programme (larger; cross-checked against the enumeration on every small instance, not proved equal)",
                "IoU and chi-square values are recomputed exactly from the f32 inputs; decisions compared exactly outside a guard band of relative width 5e-5 around the thresholds"]
ASSUMPTIONS = ["threshold > 0 (hypothesis of C02_decode; the Python constructors enforce it, Rust does not)", "0 < min_confidence <= 1, confidence <= 1 for the Mahalanobis gate"]
LEVEL_TEXT = ("Lean 4 theorems: the metric yields a weight iff the pair is not too far, overlaps and IoU*max(conf,min_conf) >= threshold (IoU mode); in Mahalanobis mode the weight reaches the voting threshold iff the squared distance is within the 95% chi-square gate (5 dof) and the pair is not too far; "
              "for EVERY maximum-weight perfect matching of the code's cost matrix (threshold on the diagonal, 0 on other own columns) with threshold > 0, no row sits on another row's own column or on a column below the threshold, and the decoded map is one-to-one and maximises sum(matched weight) + threshold*#unmatched over ALL one-to-one partial maps (exchange argument); "
              "the enumeration optimum bounds every one-to-one partial assignment; a valid tracker choice is gated, one-to-one and of that maximum weight; a concrete instance shows greedy is strictly worse. Differential run of SortMetric, SortVoting and the trackers.")
LEVEL_NOTE = "Trusted: Lean kernel; model<->code tie sampled; solver contract checked per call; float rounding under guard bands."
TECHNIQUE = "Lean 4 proof (exchange argument over Finset sums, enumeration completeness by induction) with differential correspondence check"


def box6(b, conf):
    return "%s %s %s %s %s %s" % (f32tok(b[0]), f32tok(b[1]), optf32(b[2]), f32tok(b[3]), f32tok(b[4]), f32tok(conf))


def smetric_line(rng):
    a, b = pair(rng)
    if rng.random() < 0.5:
        a[2] = None; b[2] = None
    k = rng.choice([1, 1, 2, 3, 6])
    track = []
    x, y = a[0], a[1]
    for i in range(k):
        track.append(box6([f32(x - (k - 1 - i) * 2.0), f32(y - (k - 1 - i) * 1.0), a[2], a[3], a[4]], rng.choice([1.0, 0.8])))
    minconf = rng.choice([0.05, 0.05, 0.3, 0.5, 0.6])
    conf = rng.choice([1.0, 0.9, 0.04, 0.06, 0.2, 0.45, 0.55, rng.uniform(0.01, 1.0)])
    if rng.random() < 0.6:
        m = "iou %s" % f32tok(rng.choice([0.3, 0.3, 0.1, 0.5, 0.05]))
    else:
        m = "maha"
        if rng.random() < 0.7:     # keep the candidate near the track so that the chi-square gate is exercised
            b = [f32(a[0] + rng.uniform(-1, 1) * a[4] * a[3] * rng.choice([0.02, 0.1, 0.5])), f32(a[1] + rng.uniform(-1, 1) * a[4] * rng.choice([0.02, 0.1, 0.5])),
                 a[2], f32(a[3] * rng.uniform(0.9, 1.1)), f32(a[4] * rng.uniform(0.9, 1.1))]
    if rng.random() < 0.4:
        # non-default Kalman weights of the track options: the gate must be computed with the track's own filter
        wp, wv = rng.choice([0.02, 0.1, 0.25, 0.5]), rng.choice([1 / 160, 0.01, 0.05])
        return "smetricw %s %s %s %s %d %s %s" % (m, f32tok(minconf), f32tok(wp), f32tok(wv), k, " ".join(track), box6(b, conf))
    return "smetric %s %s %d %s %s" % (m, f32tok(minconf), k, " ".join(track), box6(b, conf))


def generate(rng, tier):
    n = {"quick": 1500, "thorough": 15000, "search": 4000}.get(tier, 500)
    cases = [[smetric_line(rng)] for _ in range(n)]
    c17 = importlib.import_module("props.C17")
    cases += [c for c in c17.generate(rng, tier) if c[0].startswith("vote hung")]
    nh, steps = {"quick": (40, 25), "thorough": (300, 50), "search": (80, 30)}.get(tier, (16, 25))
    for i in range(nh):
        cases.append(history(rng, ["sort", "bsort"][i % 2], steps, api_mix=False))
    return cases


def shape_key(case, results):
    t = (case[0].split() if case else []) + ["?", "?", "?"]
    if t[0] in ("smetric", "smetricw"): return "smetric-" + t[1]
    if t[0] == "vote": return "vote-hung"
    for r in results:
        if not r.o or not r.k or r.bad:
            return "trk-" + r.req.split()[1] + ("-invalid-choice" if "invalid-choice" in r.flags else "")
    return "trk"

SOURCE_TIE = 'Source-level tie by proof (Tie/Inter, Tie/Kalman, Tie/SMetric, Tie/SortVoting, Props/C02s): SortMetric::metric (both gates) and SortVoting::winners as regenerated from the source: the cost matrix handed to kuhn_munkres is Assign.M thr W (own column = threshold, track columns = the quantised weights of the stream, first-appearance order), so every optimal solution of it decodes to a gated one-to-one association that is maximal among all partial associations; kuhn_munkres itself stays a contract checked per call. Also by proof (Tie/Optimize, Tie/VoteParams): SortMetric::optimize with make_prediction and the state-to-box conversion (what a track keeps after an observation is one Kalman step on it, the stored box is the posterior position), and the parameters handed to SortVoting (the matrix threshold is the quantised configured threshold).'
LEVEL_TEXT = LEVEL_TEXT + " " + SOURCE_TIE
TRUSTED_BASE = TRUSTED_BASE + ["translator/kernels.py + rustexpr.py (reader of the Rust subset, per-function tables) for the functions named in SOURCE_TIE; generated definitions are proof obligations (Tie modules) on every run"]
TECHNIQUE = TECHNIQUE + "; model regenerated from the source by a translator for the functions of SOURCE_TIE, tied by proof"
