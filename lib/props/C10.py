"""C10 — distance queries are exact and schedule independent."""
from storegen import *
import itertools

ID = "C10"
SCHEDULE_DEPENDENT = True     # a failure that does not recur when the case is re-run is still reported (engine: report())
THEOREM_MODULE = "SimVerif.Props.C10"
THEOREM_MODULES = ["SimVerif.Props.C10", "SimVerif.Tie.Track", "SimVerif.Tie.StoreCmd", "SimVerif.Tie.FanOut", "SimVerif.Props.C10s"]
NONTRIVIAL_FLAGS = {"iterator", "results", "errors", "multi-cand", "owned-multi", "interleaved-shards", "only-baked", "plan-workersfirst", "plan-callerfirst", "plan-order"}
RULE = ("cases = a store with 1..4 shards filled with tracks of 0..3 observations in 1..3 classes (mixed compatibility and status through the attribute values), then `store fdist` (1..4 external candidates) and `store odist` (stored candidates) "
        "with both only_baked settings, the results read either with all() or through the streaming iterators (`fdisti` / `odisti`); before a query a schedule plan is installed through the similari_verif hook: `order` = an explicit interleaving of the per-shard command executions (all interleavings for <=6 commands in the thorough tier, random otherwise), "
        "`workersfirst` = every queued command runs before the caller leaves the owned-query window, `callerfirst` = workers held until the call has returned; the executor returns the sorted result multiset, the error count, the shard dump and the observed execution trace; "
        "non-trivial = a query with results / errors / several candidates / a forced interleaving; distinct = distinct request line")
TRUSTED_BASE = ["Lean 4.33 kernel", "axioms: propext, Quot.sound, Classical.choice (at most)",
                "models SimVerif/Model/Store.lean (queryOne / foreignDistances / ownedDistances) and Model/ShardedQuery.lean (per-shard FIFO, arbitrary arrival order) tied to src/track/store.rs, store/track_distance.rs by the differential run under forced schedules",
                "interleaving semantics with atomic steps at command granularity (one command under the shard lock); OS scheduling inside a command is outside the model; the hook forces / logs real schedules and each trace is validated as a path of the model"]
ASSUMPTIONS = ["callbacks deterministic", "crossbeam channels deliver every sent chunk exactly once (FIFO per sender)"]
LEVEL_TEXT = ("Lean 4 theorems for every callback family, shard count n>0 and arrival order of the per-shard chunks: a query returns, for each candidate, exactly the postprocessed distances of every stored track with a different id that is compatible "
              "(and Ready when only_baked), one result per observation pair for which the metric yields a value, class-missing pairs counted on the error stream; the collected multiset is a permutation of the single-shard sequential result for EVERY n and EVERY arrival order; "
              "owned queries equal foreign queries with the stored candidates on the unchanged store. The real store is driven under forced worker schedules (hook) and compared as multisets; each observed trace is checked to be a path of the protocol model.")
LEVEL_NOTE = "Trusted: Lean kernel; model<->code tie sampled under forced schedules; atomicity of a command under the shard mutex relied on (Rust's type system), OS-level timing not modelled."
TECHNIQUE = "Lean 4 proof (permutation argument over shards and arrival orders) with differential correspondence check under hook-forced schedules"


def fill(rng, nshards):
    lines = ["store new %d %d 0" % (nshards, rng.randint(0, 3))]
    ids = rng.sample(range(1, 12), rng.randint(1, 6))
    for i in ids:
        lines.append("store addt %s" % trackspec(rng, i, clean=True))
    return lines, ids


def interleavings(counts):
    """all sequences with counts[s] occurrences of s"""
    items = [s for s, c in enumerate(counts) for _ in range(c)]
    return sorted(set(itertools.permutations(items)))


def generate(rng, tier):
    cases = []
    n = {"quick": 300, "thorough": 1500, "search": 500}.get(tier, 120)
    for i in range(n):
        nsh = rng.randint(1, 4)
        lines, ids = fill(rng, nsh)
        for q in range(rng.randint(1, 4)):
            cls = rng.randint(0, 2)
            ob = rng.randint(0, 1)
            if rng.random() < 0.5:
                k = rng.randint(1, 4)
                if rng.random() < 0.7:
                    seq = [s for s in range(nsh) for _ in range(k)]
                    rng.shuffle(seq)
                    lines.append("store sched order %d %s" % (len(seq), " ".join(map(str, seq))))
                cands = " ".join(trackspec(rng, rng.choice([20, 21, 22, 23] + ids), clean=True) for _ in range(k))
                lines.append("store %s %d %d %d %s" % (rng.choice(["fdist", "fdisti"]), cls, ob, k, cands))
            else:
                k = rng.randint(1, 4)
                sel = [rng.choice(ids + [99]) for _ in range(k)]
                sel = list(dict.fromkeys(sel))
                r = rng.random()
                if r < 0.35: lines.append("store sched workersfirst")
                elif r < 0.7: lines.append("store sched callerfirst")
                lines.append("store %s %d %d %d %s" % (rng.choice(["odist", "odisti"]), cls, ob, len(sel), " ".join(map(str, sel))))
        cases.append(lines)
    if tier == "thorough":
        for nsh, k in [(2, 1), (2, 2), (3, 1), (2, 3), (3, 2)]:
            for seq in interleavings([k] * nsh):
                lines, ids = fill(rng, nsh)
                lines.append("store sched order %d %s" % (len(seq), " ".join(map(str, seq))))
                cands = " ".join(trackspec(rng, 20 + j, clean=True) for j in range(k))
                lines.append("store fdist %d 0 %d %s" % (rng.randint(0, 1), k, cands))
                cases.append(lines)
    return cases


def shape_key(case, results):
    for r in results:
        if not r.o or not r.k or r.bad:
            t = r.req.split()
            return "store-" + t[1] + "-" + "-".join(f for f in r.flags if f.startswith("plan-") or f in ("owned-multi",))
    return "none"

SOURCE_TIE = "Source-level tie by proof (Tie/Track, Tie/StoreCmd): Track::distances and the Distances command of the store worker, regenerated from the source, equal the model's distances / distPair / queryOne per shard. Also by proof (Tie/FanOut): the caller's side of foreign_track_distances sends one Distances command per candidate and executor, candidate-major, and expects executors x candidates chunks, so the hypothesis of C10_schedule_independent holds for what the real code sends (C10_source_fanout)."
LEVEL_TEXT = LEVEL_TEXT + " " + SOURCE_TIE
TRUSTED_BASE = TRUSTED_BASE + ["translator/kernels.py + rustexpr.py (reader of the Rust subset, per-function tables) for the functions named in SOURCE_TIE; generated definitions are proof obligations (Tie modules) on every run"]
TECHNIQUE = TECHNIQUE + "; model regenerated from the source by a translator for the functions of SOURCE_TIE, tied by proof"
