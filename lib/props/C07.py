"""C07 — Kalman filters."""
from wiregen import *
import math

ID = "C07"
THEOREM_MODULES = ["SimVerif.Props.C07", "SimVerif.Props.C07b", "SimVerif.Tie.Kalman", "SimVerif.Tie.KalmanMat", "SimVerif.Props.C07s"]
THEOREM_MODULE = "SimVerif.Props.C07"
NONTRIVIAL_FLAGS = {"multi-step", "long", "stationary", "rotated", "beyond-gate", "between-2dof-and-5dof-gates", "multi-point", "inverted"}
RULE = ("`kf box|point|vec traj`: measurement sequences of 1..300 steps (moving, accelerating, jittering, shrinking/growing, rotated boxes, stationary objects; coordinates 1..1e4; position/velocity weights over the documented range); "
        "after every initiate/predict/update the executor reports the raw mean and covariance (hook H2) and the distance; each step is compared with the exact rational model step taken from the implementation's own previous state "
        "(tolerance 2e-4 relative), the covariance is checked to be SPD with zero off-pattern entries, stationary trajectories to stay put, the vector filter to equal one point filter per point bit for bit, also when a point joins the state vector later (elements with different histories); "
        "`kf cost box|point|vec d inverted` over d around both gates; non-trivial = multi-step / long / stationary / rotated trajectories, distances beyond or between the gates, inverted cost; distinct = distinct request line")
TRUSTED_BASE = ["Lean 4.33 kernel", "axioms: propext, Quot.sound, Classical.choice (at most)",
                "model SimVerif/Model/Kalman.lean (one constant-velocity filter per coordinate; noise constants and gate indices regenerated from the Rust source by translator/translate.py into Gen/Consts.lean) tied to src/utils/kalman/*.rs by one-step differential comparison on raw states (hook H2)",
                "the reduction of the 2n x 2n matrix recursion to independent coordinates is a theorem (Props/C07b: the textbook matrix filter on a covariance with four diagonal blocks is predict1 / update1 / dist1 per coordinate, and the pattern is invariant under every sequence of steps); that the implementation's matrices have that shape is checked on every reported state (off-pattern covariance entries must be 0 up to rounding)",
                "f32 rounding and `cholesky().unwrap()` / `solve_lower_triangular` not panicking are observed, not proved"]
ASSUMPTIONS = ["positive weights and heights", "finite measurements"]
LEVEL_TEXT = ("Lean 4 theorems over every linear ordered field. Matrix level (Mathlib Matrix, any number n of coordinates, state = positions then velocities, F=[[1,1],[0,1]], H=[1 0], diagonal Q and R): on a covariance whose four n x n blocks are diagonal the standard filter's prediction m'=Fm, P'=FPF^T+Q, innovation covariance S=HPH^T+R (diagonal), gain K with KS=PH^T, update m+K(z-Hm), P-KSK^T and squared Mahalanobis distance (z-Hm)^T S^-1 (z-Hm) are exactly the per-coordinate recursions of the model, and the block pattern is invariant under every sequence of predict/update steps from initiate (C07_blockdiag_inv), so the filter is n independent constant-velocity filters. Per coordinate: prediction is m'=Fm, P'=FPF^T+Q; the update is the textbook posterior in closed form (precision-weighted mean, P - PH^T S^-1 HP); the covariance stays symmetric positive definite through predict and update; "
              "with constant measurements the mean stays at the measurement with zero velocity for every step and every noise sequence; the distance is the squared Mahalanobis distance (Cholesky route = sum d_i^2/s_i over the reals); the vector filter is the point filter per component; "
              "inverted cost = upper bound - direct cost for every distance, and both branches of each calculate_cost use one gate, the 95% chi-square quantile of the filter's measurement dimension (indices regenerated from the source: a changed index or table breaks the theorem). "
              "One-step differential run on raw filter states.")
LEVEL_NOTE = "Trusted: Lean kernel; translator (regex over the Rust source) for the constants; model<->code tie sampled; floating-point rounding observed under tolerance."
TECHNIQUE = "Lean 4 proof (field algebra, nlinarith for positive-definiteness, induction over steps; generated constant table checked by decide) with one-step differential correspondence check"


def box_traj(rng, n):
    wp = rng.choice([1 / 20, 1 / 20, rng.uniform(0.01, 0.2)]); wv = rng.choice([1 / 160, 1 / 160, rng.uniform(0.001, 0.05)])
    mag = rng.choice([1.0, 50.0, 500.0, 5000.0])
    x, y = rng.uniform(1, mag), rng.uniform(1, mag)
    h, a = rng.uniform(2, 100), rng.uniform(0.3, 3)
    ang = None if rng.random() < 0.5 else rng.uniform(-1, 1)
    vx, vy = rng.uniform(-5, 5), rng.uniform(-5, 5)
    mode = rng.choice(["move", "accel", "jitter", "shrink", "still", "still"])
    boxes = []
    for k in range(n):
        boxes.append((x, y, ang, a, h))
        if mode == "still": continue
        x += vx; y += vy
        if mode == "accel": vx *= 1.05; vy *= 1.05
        if mode == "jitter": x += rng.uniform(-2, 2); y += rng.uniform(-2, 2)
        if mode == "shrink": h = max(1.0, h * rng.choice([0.97, 1.03]))
        if ang is not None: ang += rng.uniform(-0.05, 0.05)
    toks = ["kf box traj", f32tok(wp), f32tok(wv), str(n)]
    for b in boxes:
        toks.append("%s %s %s %s %s" % (f32tok(b[0]), f32tok(b[1]), optf32(b[2]), f32tok(b[3]), f32tok(b[4])))
    return " ".join(toks)


def pt_traj(rng, n, npts=None):
    wp = rng.choice([1 / 20, rng.uniform(0.01, 0.2)]); wv = rng.choice([1 / 160, rng.uniform(0.001, 0.05)])
    k = npts or 1
    pts = [(rng.uniform(0, 100), rng.uniform(0, 100), rng.uniform(-2, 2), rng.uniform(-2, 2)) for _ in range(k)]
    still = rng.random() < 0.3
    rows = []
    for _ in range(n):
        rows.append(" ".join("%s %s" % (f32tok(p[0]), f32tok(p[1])) for p in pts))
        if not still:
            pts = [(p[0] + p[2] + rng.uniform(-.3, .3), p[1] + p[3] + rng.uniform(-.3, .3), p[2], p[3]) for p in pts]
    if npts and npts >= 2 and n >= 3 and rng.random() < 0.4:
        # the last point joins the state vector later: elements with different histories
        return "kf vec trajl %s %s %d %d %d %s" % (f32tok(wp), f32tok(wv), k, n, rng.randint(1, n - 2), " ".join(rows))
    if npts:
        return "kf vec traj %s %s %d %d %s" % (f32tok(wp), f32tok(wv), k, n, " ".join(rows))
    return "kf point traj %s %s %d %s" % (f32tok(wp), f32tok(wv), n, " ".join(rows))


def generate(rng, tier):
    n = {"quick": 150, "thorough": 1500, "search": 300}.get(tier, 60)
    cases = []
    for i in range(n):
        steps = rng.choice([1, 2, 5, 20, 60, 300 if (tier != "quick" or i % 20 == 0) else 40])
        cases.append([box_traj(rng, steps)])
        cases.append([pt_traj(rng, rng.choice([1, 3, 30]))])
        cases.append([pt_traj(rng, rng.choice([2, 10]), npts=rng.randint(1, 5))])
    ds = [0.0, 1.0, 5.9, 5.99, 6.0, 8.0, 11.0, 11.07, 11.08, 12.0, 50.0, 99.0, 150.0] + [rng.uniform(0, 20) for _ in range(20)]
    # distances a few float steps around both gates: the two conversions must gate at the same distance, also where
    # `upper - d` rounds (stepping from the f32 nearest to the tabulated quantile; step 0 is left out: the f32 gate and
    # the exact quantile differ by less than one step, so only there could model and implementation legitimately differ)
    import struct as _st
    def _step(x, k):
        b = _st.unpack(">I", _st.pack(">f", x))[0] + k
        return _st.unpack(">f", _st.pack(">I", b))[0]
    for g in (5.9915, 11.070):
        g32 = _st.unpack(">f", _st.pack(">f", g))[0]
        ds += [_step(g32, k) for k in (-3, -2, -1, 1, 2, 3, 5, 8, 12)]
    for kind in ("box", "point", "vec"):
        for d in ds:
            for inv in (0, 1):
                cases.append(["kf %s cost %s %d" % (kind, f32tok(d), inv)])
    return cases


def shape_key(case, results):
    t = (case[0].split() if case else []) + ["?", "?", "?"]
    key = "kf-%s-%s" % (t[1], t[2])
    if t[2] == "cost":
        r = results[0] if results else None
        if r and "between-2dof-and-5dof-gates" in r.flags and t[1] in ("point", "vec"):
            key += "-between-gates"
    return key

SOURCE_TIE = 'Source-level tie by proof (Tie/Kalman, Tie/KalmanMat, Props/C07s): new / initiate / predict / project / update / distance of the box and point filters, read from the nalgebra code as Mathlib matrices, are the textbook filter of Props/C07b on independent-coordinate states; Vec2DKalmanFilter maps the point filter over its elements; solve_lower_triangular / cholesky are contract parameters.'
LEVEL_TEXT = LEVEL_TEXT + " " + SOURCE_TIE
TRUSTED_BASE = TRUSTED_BASE + ["translator/kernels.py + rustexpr.py (reader of the Rust subset, per-function tables) for the functions named in SOURCE_TIE; generated definitions are proof obligations (Tie modules) on every run"]
TECHNIQUE = TECHNIQUE + "; model regenerated from the source by a translator for the functions of SOURCE_TIE, tied by proof"
