"""C03 — track lifecycle."""
from trkgen import *

ID = "C03"
THEOREM_MODULES = ["SimVerif.Props.C03", "SimVerif.Props.C03b", "SimVerif.Props.C03c", "SimVerif.Tie.Epoch", "SimVerif.Tie.AutoWaste", "SimVerif.Props.C03s", "SimVerif.Tie.Gc"]
THEOREM_MODULE = "SimVerif.Props.C03"
NONTRIVIAL_FLAGS = {"expired-uncollected", "expired-uncollected-in-scene", "handed-out", "gc-runs", "clear-nonempty", "skip", "idle-nonempty", "multi-scene-store"}
RULE = ("random interleavings of predict (possibly empty), skip_epochs, wasted, idle_tracks, clear_wasted, set_auto_waste (0,1,3,100), epoch over 1..3 scenes, max_idle 0..3, shards 1..4, Sort and BatchSort (IoU / Mahalanobis); "
        "after every call the executor dumps the live store, the wasted store and both shard statistics, compared exactly with the model; non-trivial = a step at which an expired track is still physically in the live store, "
        "a hand-out, a periodic collection, a non-empty clear / idle answer, a skip, tracks of several scenes stored; distinct = distinct request line")
TRUSTED_BASE = ["Lean 4.33 kernel", "axioms: propext, Quot.sound, Classical.choice (at most)",
                "model SimVerif/Model/Tracker.lean (epochs, expiry, auto-waste countdown, wasted store, hand-out, idle lookup, statistics) tied to src/trackers/{tracker_api,epoch_db,sort,sort/simple_api,sort/batch_api}.rs by the differential run with full store dumps after every call",
                "the numeric kernel is abstracted: the distance table of every predict is taken from the implementation (public API) and the association choice is validated, not recomputed"]
ASSUMPTIONS = ["history length > 0 (asserted by the constructors)", "ids/epochs below 2^64"]
LEVEL_TEXT = ("Lean 4 theorems, for every distance table and every valid association choice, by induction over the operation sequence: live / wasted / handed / cleared id lists are pairwise disjoint and together hold every id ever issued; "
              "a track expires exactly when last_update + max_idle < epoch(scene); predict advances only its scene by one, skip by n; an expired track is never continued; an id is handed out at most once and was expired; idle = unexpired tracks of the scene not updated in its current epoch; "
              "statistics count the live and the wasted store per shard; two histories of the simple tracker that differ only in their set_auto_waste calls are indistinguishable (C03_gc_unobservable, a simulation proof over predict / skip / wasted / idle / epoch); the same one-call simulation holds for VisualSORT and the two batch trackers (Props/C03c). Differential run of the real trackers against the model with full dumps after every call.")
LEVEL_NOTE = "Trusted: Lean kernel; model<->code tie sampled; kernel values observed, not modelled; GC-timing independence is proved for the observable projection (see theorems)."
PARTIAL = ["GC timing unobservable: proved over whole histories (predict / skip / wasted / idle / epoch, set_auto_waste calls differing arbitrarily) for the simple SORT tracker (C03_gc_unobservable, Props/C03b) and as a one-call simulation step for the other three trackers (predictV_equiv, predictBatch_equiv, predictBatchV_equiv, Props/C03c: indistinguishable states give the same records and stay indistinguishable); the history-level corollary for those three is the same induction and is not restated. Histories containing clear_wasted are excluded on purpose: what clear_wasted drops does depend on whether the collection has already run (DESIGN section 7, C03 note)"]
TECHNIQUE = "Lean 4 proof (invariants by induction over operations, relational step with validated choice) with differential correspondence check"


def generate(rng, tier):
    n, steps = {"quick": (100, 30), "thorough": (600, 60), "search": (150, 40)}.get(tier, (40, 30))
    cases = []
    for i in range(n):
        kind = "sort" if i % 3 else "bsort"
        cases.append(history(rng, kind, steps))
    return cases


def shape_key(case, results):
    for r in results:
        if not r.o or not r.k or r.bad:
            t = r.req.split()
            return "trk-" + t[1] + ("-expired-uncollected" if any(f.startswith("expired-uncollected") for f in r.flags) else "")
    return "none"

SOURCE_TIE = "Source-level tie by proof (Tie/Epoch, Tie/AutoWaste, Props/C03s): the collection countdown at the head of the four predict functions and set_auto_waste equal the model's awStep / setAutoWaste; EpochDb::baked, next_epoch, skip_epochs_for_scene, current_epoch_with_scene as regenerated from the source equal the model's expiry rule and epoch counters (one scene changes, by exactly 1 / n). Also by proof (Tie/Gc): the TrackerAPI default methods auto_waste, wasted, skip_epochs_for_scene and get_main_store_wasted, instantiated with the list store of the tracker model, are the model's collect, wastedOp and skip."
LEVEL_TEXT = LEVEL_TEXT + " " + SOURCE_TIE
TRUSTED_BASE = TRUSTED_BASE + ["translator/kernels.py + rustexpr.py (reader of the Rust subset, per-function tables) for the functions named in SOURCE_TIE; generated definitions are proof obligations (Tie modules) on every run"]
TECHNIQUE = TECHNIQUE + "; model regenerated from the source by a translator for the functions of SOURCE_TIE, tied by proof"
