"""C15 — exclusively-owned area share = uncovered fraction of the box."""
from geomgen import *
import math

ID = "C15"
SCHEDULE_DEPENDENT = True     # a failure that does not recur when the case is re-run is still reported (engine: report())
THEOREM_MODULE = "SimVerif.Props.C15"
THEOREM_MODULES = ["SimVerif.Props.C15", "SimVerif.Tie.Own", "SimVerif.Tie.Inter", "SimVerif.Props.C15s", "SimVerif.Tie.Cache"]
NONTRIVIAL_FLAGS = {"partial-overlap", "covered-box", "multi-cover", "isolated-box", "identical-pair"}
RULE = ("requests `own n (xc yc angle|- aspect height)*n`, sets of 1..8 boxes: integer-coordinate axis-aligned boxes on a small lattice (many shared edges, corners, nestings, duplicates), random axis-aligned, "
        "random rotated, and near-degenerate sets (identical boxes, boxes one ulp apart, boxes sharing an edge in a rotated frame, right-angle rotations, nested boxes), each set also in a shuffled order; "
        "the implementation's polygons, owned areas and shares are compared with the model polygons, with the exact inclusion-exclusion reference over Sutherland-Hodgman intersections, and on axis-aligned sets "
        "the proved grid model must coincide exactly with that reference; non-trivial = a partially overlapped box, a covered box, a point covered by two other boxes, an isolated box in a set of several, an identical pair; distinct = distinct request line")
TRUSTED_BASE = ["Lean 4.33 kernel", "axioms: propext, Quot.sound, Classical.choice (at most)",
                "hand-written model SimVerif/Model/OwnArea.lean tied to src/utils/clipping/bbox_own_areas.rs by the differential run (vh | simdrv)",
                "rotated sets: the inclusion-exclusion reference is exact rational arithmetic over the model polygons but not itself proved (its clipping step is the Sutherland-Hodgman model of C08); on axis-aligned sets it is cross-checked against the proved grid model on every request",
                "cos / sin of the box angle are taken from the executor (Rust libm), checked for cos^2+sin^2=1; geo::BooleanOps is observed through the result only",
                "tolerances: owned area 1e-6 of the box area, share 2e-5"]
ASSUMPTIONS = ["boxes have positive aspect and height (the code asserts it)", "coordinates are finite floats"]
LEVEL_TEXT = ("Lean 4 theorems about the grid model of axis-aligned sets, for every set: the cells inside a box tile it; 0 <= own <= area and 0 <= share <= 1; a box overlapping nothing owns its whole area (share within EPS/area of 1); "
              "a covered box owns nothing (share 0); the owned area depends on the other boxes only as a multiset and the shares of a permuted input are the permuted shares; a point strictly inside a grid cell lies in a box iff the cell does. "
              "Differential run: model polygons, owned areas and shares against the implementation on generated sets, rotated sets against the exact inclusion-exclusion reference.")
LEVEL_NOTE = ("Trusted: Lean kernel; model<->code tie sampled; for rotated sets the reference is executable, not proved (partial); 'completes without failing' is observed by the run only — "
              "and is false for sets containing two identical rotated boxes (known finding F9).")
TECHNIQUE = "Lean 4 proof (telescoping sums over the coordinate grid, permutation invariance) with differential correspondence check against an exact reference"
PARTIAL = ["rotated sets: agreement with the uncovered area is checked against the executable inclusion-exclusion reference, no theorem (would need C08_full for every intersection of convex polygons)",
           "completion without failure cannot be a theorem about the model: geo's sweep is outside it; observed by the differential run"]


def ulp_up(x):
    import struct
    b = struct.unpack("<I", struct.pack("<f", x))[0]
    return struct.unpack("<f", struct.pack("<I", b + 1 if x >= 0 else b - 1))[0]


def gen_set(rng, mode, n):
    boxes = []
    if mode == "lattice":
        for _ in range(n):
            w = rng.choice([1, 2, 3, 4, 6]); h = rng.choice([1, 2, 3, 4, 6])
            x0 = rng.randint(0, 8); y0 = rng.randint(0, 8)
            boxes.append([x0 + w / 2, y0 + h / 2, None, w / h, float(h)])
    elif mode == "aligned":
        for _ in range(n):
            b = rand_box(rng, region=rng.choice([40.0, 120.0]), smin=2.0, smax=40.0); b[2] = None
            boxes.append(b)
    elif mode == "rotated":
        for _ in range(n):
            boxes.append(rand_box(rng, region=rng.choice([40.0, 120.0]), smin=2.0, smax=40.0))
    elif mode == "spread":     # clusters far apart: the pre-filter matters
        centres = [(rng.uniform(0, 3000), rng.uniform(0, 3000)) for _ in range(3)]
        for _ in range(n):
            cx, cy = rng.choice(centres)
            b = rand_box(rng, region=30.0, smin=4.0, smax=30.0)
            b[0] = f32(b[0] + cx); b[1] = f32(b[1] + cy)
            boxes.append(b)
    elif mode == "chain":      # A far from B, C overlapping both (placed last or first)
        a = rand_box(rng, region=50.0, smin=10.0, smax=20.0); a[2] = None if rng.random() < 0.5 else a[2]
        wa = a[4] * a[3]
        b = [f32(a[0] + wa * 2.6), a[1], a[2], a[3], a[4]]
        c = [f32(a[0] + wa * 1.3), a[1], None, f32(3.2 * a[3]), f32(a[4] * 0.8)]
        boxes = [a, b, c]
        for _ in range(max(0, n - 3)):
            boxes.append(rand_box(rng, region=150.0, smin=5.0, smax=20.0))
        if rng.random() < 0.5: rng.shuffle(boxes)
    elif mode == "parallel":   # elongated boxes with one common non-trivial angle, overlapping far along their long axis
        ang = f32(rng.choice([0.3, -0.7, 1.1, 2.5, rng.uniform(-3, 3)]))
        hgt = rng.uniform(2.0, 6.0); asp = rng.choice([4.0, 6.0, 8.0])
        length = hgt * asp
        x, y = rng.uniform(20, 60), rng.uniform(20, 60)
        for i in range(max(2, min(n, 4))):
            t = i * rng.choice([0.3, 0.5, 0.7]) * length            # along the long axis
            u = i * rng.choice([0.2, 0.35]) * hgt                   # a little across it: no collinear edges
            cx = x + t * math.cos(ang) - u * math.sin(ang); cy = y + t * math.sin(ang) + u * math.cos(ang)
            if i == 2 and rng.random() < 0.5:                      # a small parallel box inside the first long one
                boxes.append([f32(x + 0.2 * length * math.cos(ang)), f32(y + 0.2 * length * math.sin(ang)), ang, 1.0, f32(hgt * 0.4)])
            else:
                boxes.append([f32(cx), f32(cy), ang, f32(asp), f32(hgt)])
    else:  # degenerate
        for _ in range(n):
            r = rng.random()
            if boxes and r < 0.3:
                boxes.append(list(rng.choice(boxes)))                       # identical
            elif boxes and r < 0.45:
                b = list(rng.choice(boxes)); k = rng.choice([0, 1, 4]); b[k] = ulp_up(b[k]); boxes.append(b)   # one ulp apart
            elif boxes and r < 0.6:
                a = rng.choice(boxes); ang = a[2] or 0.0; w = a[4] * a[3]  # shares an edge in a's frame
                boxes.append([f32(a[0] + w * math.cos(ang)), f32(a[1] + w * math.sin(ang)), a[2], a[3], a[4]])
            elif boxes and r < 0.75:
                a = rng.choice(boxes)                                       # nested, same frame
                boxes.append([a[0], a[1], a[2], a[3], f32(a[4] * rng.choice([0.5, 0.25]))])
            elif r < 0.9:
                b = rand_box(rng, region=30.0, smin=4.0, smax=20.0)
                b[2] = f32(rng.choice([1, 2, 3, -1, -3]) * math.pi / 2); b[3] = rng.choice([0.5, 2.0, 1.0])
                boxes.append(b)
            else:
                boxes.append(rand_box(rng, region=30.0, smin=4.0, smax=20.0))
    return boxes


def line_of(boxes):
    return "own %d %s" % (len(boxes), " ".join(utok(*b) for b in boxes))


def generate(rng, tier):
    n = {"quick": 500, "thorough": 6000, "search": 1500}.get(tier, 260)
    cases = []
    modes = ["lattice", "lattice", "aligned", "rotated", "rotated", "spread", "chain", "degenerate", "degenerate", "parallel"]
    for i in range(n):
        mode = modes[i % len(modes)]
        k = rng.randint(1, 8) if mode != "chain" else rng.randint(3, 6)
        boxes = gen_set(rng, mode, k)
        sh = list(boxes); rng.shuffle(sh)
        case = [line_of(boxes), line_of(sh)]
        if i % 5 == 3:           # the same set, every box moved to this geometry after its vertex cache was generated elsewhere
            case.append("ownc" + line_of(boxes)[3:])
        cases.append(case)
    return cases


def reduce_line(line):
    t = line.split()
    n = int(t[1])
    for i in range(n):
        yield " ".join([t[0], str(n - 1)] + t[2:2 + 5 * i] + t[2 + 5 * (i + 1):])


def _bits(tok):
    return int(tok[1:], 16)


def coincident_rotated_pair(req):
    """two boxes of the set carry an angle and agree in every parameter up to one ulp"""
    t = req.split(); n = int(t[1])
    bs = [t[2 + 5 * i:7 + 5 * i] for i in range(n)]
    for i in range(n):
        for j in range(i + 1, n):
            if bs[i][2] == "-" or bs[j][2] == "-": continue
            if all(abs(_bits(a) - _bits(b)) <= 1 for a, b in zip(bs[i], bs[j])):
                return True
    return False


def shape_key(case, results):
    for r in results:
        if r.bad or not r.o or not r.k:
            n = int(r.req.split()[1])
            if coincident_rotated_pair(r.req):
                return "coincident-rotated-pair"
            if r.impl.startswith("PANIC"):
                return "panic-n%d" % n
            return "own-mismatch-n%d" % n
    return "none"

SOURCE_TIE = "Source-level tie by proof (Tie/Own, Tie/Inter, Props/C15s): exclusively_owned_areas as regenerated from the source clips box i, in index order, against exactly the boxes that are not too_far from it; with C08_toofar_sound every other box sharing a point with box i is subtracted; geo's difference / area are contract parameters."
LEVEL_TEXT = LEVEL_TEXT + " " + SOURCE_TIE
TRUSTED_BASE = TRUSTED_BASE + ["translator/kernels.py + rustexpr.py (reader of the Rust subset, per-function tables) for the functions named in SOURCE_TIE; generated definitions are proof obligations (Tie modules) on every run"]
TECHNIQUE = TECHNIQUE + "; model regenerated from the source by a translator for the functions of SOURCE_TIE, tied by proof"
