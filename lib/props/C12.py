"""C12 — VisualSORT: appearance votes first, positional fallback, truthful voting type."""
from trkgen import *

ID = "C12"
THEOREM_MODULES = ["SimVerif.Props.C12", "SimVerif.Tie.VMetric", "SimVerif.Tie.Voting", "SimVerif.Tie.VisVoting", "SimVerif.Props.C12s", "SimVerif.Tie.OptimizeV", "SimVerif.Tie.VoteParams"]
THEOREM_MODULE = "SimVerif.Props.C12"
NONTRIVIAL_FLAGS = {"appearance-votes", "track-below-minimal-length", "feature-not-usable", "all-features-over-threshold", "visual-attachment", "appearance-contest-lost", "appearance-and-positional", "competition", "feature-not-collectable", "gallery-full"}
RULE = ("VisualSORT and BatchVisualSORT histories with crossing objects, look-alike objects (embeddings within the visual threshold of each other), missing and low-quality features, occlusions and clutter, over option combinations "
        "(Euclidean / cosine thresholds, IoU / Mahalanobis, min votes 1..3, minimal track length 1..3, max observations 1..8, use / collect quality, minimal area, own-area shares); the distance table of every call (positional weights and feature distances) "
        "is taken from the tracker's own store and the choice read off the records is validated against the cascade model: appearance stage = best-fit over the feature distances, then positional stage = maximum-weight assignment over the remaining detections and tracks; "
        "non-trivial = a call with a visual attachment, a lost appearance contest, both stages active, competing detections; distinct = distinct request line")
TRUSTED_BASE = ["Lean 4.33 kernel", "axioms: propext, Quot.sound, Classical.choice (at most)",
                "models SimVerif/Model/Tracker.lean (`visualDecided`, `positionalRest`, `validVisualChoice`) and Model/Voting.lean (best-fit) tied to src/trackers/visual_sort/{voting,simple_api,batch_api}.rs, src/track/voting/best.rs by the differential run",
                "the per-pair appearance gate of VisualMetric (feature usable: area, quality, own-area share >= the use thresholds; track has >= visual_minimal_track_length collected features; one vote per stored feature within the visual threshold, weight = distance / 1 - cosine) is recomputed by the driver from the request's feature vectors and the model's galleries and compared with the implementation's table on every call (guard band 5e-4 around the threshold; with spatio-temporal constraints configured, completeness only for pairs the table mentions)",
                "positional weights (IoU / Mahalanobis, confidence scaling) are taken from the implementation's table (C02, C07, C08 cover them)"]
ASSUMPTIONS = ["no exact ties between appearance vote weights (ties: the implementation's resolution is accepted when consistent)", "threshold > 0"]
LEVEL_TEXT = ("Lean 4 theorems about the cascade model, for every distance table: the record reports visual voting exactly for detections attached by the appearance stage; a detection whose heaviest appearance claim loses the contest is never attached to the contested track and starts a new track; "
              "a track is awarded by appearance to at most one detection, the heaviest claimant; detections without an appearance claim are resolved by a valid (gated, one-to-one, maximum-weight) positional choice over exactly the distances whose detection was not decided and whose track was not taken by appearance; "
              "a detection with no claim and no gated positional pair starts a new track. Differential run of the real VisualSORT trackers with validated choices.")
LEVEL_NOTE = "Trusted: Lean kernel; model<->code tie sampled; the appearance gate (use thresholds, minimal track length, threshold test) is recomputed by the driver, the positional weights are observed through the implementation's own distance table."
TECHNIQUE = "Lean 4 proof (case analysis over the cascade, best-fit greedy characterisation) with differential correspondence check"


def generate(rng, tier):
    n, steps = {"quick": (100, 25), "thorough": (600, 50), "search": (150, 30)}.get(tier, (40, 25))
    cases = []
    for i in range(n):
        cases.append(history(rng, ["visual", "bvisual"][i % 2], steps, api_mix=(i % 5 == 0)))
    return cases


def shape_key(case, results):
    for r in results:
        if not r.o or not r.k or r.bad:
            return "trk-" + r.req.split()[1] + ("-invalid-choice" if "invalid-choice" in r.flags else "")
    return "none"

SOURCE_TIE = "Source-level tie by proof (Tie/VMetric, Tie/Voting, Tie/VisVoting, Props/C12s): the decision kernels of VisualMetric, BestFitVoting::winners and the cascade VisualVoting::winners (appearance first, positional stage on exactly the remaining distances) as regenerated from the source equal the model's / the cascade specification. Also by proof (Tie/OptimizeV): VisualMetric::metric as a whole (the appearance distance exists only if the candidate's feature passes the use thresholds, both observations carry a feature and the track has collected enough)."
LEVEL_TEXT = LEVEL_TEXT + " " + SOURCE_TIE
TRUSTED_BASE = TRUSTED_BASE + ["translator/kernels.py + rustexpr.py (reader of the Rust subset, per-function tables) for the functions named in SOURCE_TIE; generated definitions are proof obligations (Tie modules) on every run"]
TECHNIQUE = TECHNIQUE + "; model regenerated from the source by a translator for the functions of SOURCE_TIE, tied by proof"
