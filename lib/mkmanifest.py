#!/usr/bin/env python3
"""Regenerate MANIFEST.json from the per-property modules in lib/props (run by hand after adding a property)."""
import json, os, sys, importlib, subprocess
ROOT = os.path.dirname(os.path.dirname(os.path.abspath(__file__)))
sys.path.insert(0, os.path.join(ROOT, "lib"))
ALL = ["C%02d" % i for i in range(1, 21)]
have = sorted(f[:-3] for f in os.listdir(os.path.join(ROOT, "lib", "props")) if f.startswith("C") and f.endswith(".py"))
checks = []
for pid in have:
    p = importlib.import_module("props." + pid)
    checks.append({
        "property_id": pid,
        "quick_cmd": f"./check {pid} --tier quick",
        "thorough_cmd": f"./check {pid} --tier thorough",
        "evidence_file": f"evidence/{pid}.json",
        "replay_cmd_template": f"./check {pid} --replay {{path}}",
        "engine": "simverif",
        "level_claimed": {"category": "proof", "text": p.LEVEL_TEXT, "design_ref": "DESIGN.md section 7, " + pid},
        "level_note": p.LEVEL_NOTE,
        "technique": p.TECHNIQUE,
    })
hooks_commits = []
hc = os.path.join(ROOT, "HOOK_COMMITS.txt")
if os.path.exists(hc):
    hooks_commits = [l.split()[0] for l in open(hc) if l.strip() and not l.startswith("#")]
m = {
    "version": 1,
    "setup_cmd": "./check --setup",
    "hooks": {"guard": "similari_verif",
              "enable": "cargo feature: harness/Cargo.toml depends on /repo by path with features = [\"similari_verif\"] (a feature, not --cfg, so that .cargo/config.toml's target-cpu rustflags stay in force)",
              "baseline_off_cmd": "cd /repo && cargo test --workspace --no-fail-fast --offline",
              "source_commits": hooks_commits, "add_only": True},
    "engines": [{"name": "simverif", "path": "check", "serves_properties": have,
                 "kind_free_text": "Lean 4 theorems (kernel-checked, axiom-audited) over a hand-written executable model; model tied to /repo by a differential correspondence run (Rust executor harness/vh calling the real code | compiled Lean driver simdrv) and by a translator regenerating the tabular parts (lean/SimVerif/Gen) from the Rust source on every run"}],
    "checks": checks,
    "notes": "See DESIGN.md. A check exits 1 only with a VIOLATION line; machinery failures exit 2 with MACHINERY-ERROR.",
    "not_applicable": [{"property_id": pid, "reason": "no check registered yet in this tree: model/theorems for it are still being built (plan: DESIGN.md section 7); not a claim that the technique cannot apply"} for pid in ALL if pid not in have],
}
json.dump(m, open(os.path.join(ROOT, "MANIFEST.json"), "w"), indent=1)
print("claimed:", have)
