"""shared generators for boxes"""
from wiregen import *
import math

def utok(xc, yc, angle, aspect, height):
    return "%s %s %s %s %s" % (f32tok(xc), f32tok(yc), optf32(angle), f32tok(aspect), f32tok(height))

def rand_angle(rng):
    r = rng.random()
    if r < 0.3: return None
    if r < 0.4: return 0.0
    if r < 0.55: return rng.choice([1, 2, 3, -1]) * math.pi / 2
    if r < 0.7: return rng.uniform(-20, 20)
    return rng.uniform(-math.pi, math.pi)

def rand_box(rng, region=200.0, smin=0.5, smax=60.0):
    xc = rng.uniform(0, region); yc = rng.uniform(0, region)
    h = rng.uniform(smin, smax); a = rng.choice([0.5, 1.0, 2.0, rng.uniform(0.2, 4)])
    return [f32(xc), f32(yc), rand_angle(rng), f32(a), f32(h)]

def pair(rng):
    """a pair of boxes in one of several configurations"""
    kind = rng.choice(["general", "general", "overlap", "overlap", "nested", "identical", "touching", "edge-share", "far", "big-coords", "tiny"])
    a = rand_box(rng)
    if kind == "big-coords":
        a[0] = f32(rng.uniform(5000, 10000)); a[1] = f32(rng.uniform(5000, 10000)); a[4] = f32(rng.uniform(100, 1000))
    if kind == "tiny":
        a[4] = f32(rng.uniform(0.1, 0.5))
    w = a[4] * a[3]
    if kind == "general":
        b = rand_box(rng, region=200)
    elif kind in ("overlap", "big-coords", "tiny"):
        b = [f32(a[0] + rng.uniform(-1, 1) * w), f32(a[1] + rng.uniform(-1, 1) * a[4]), rand_angle(rng),
             f32(rng.uniform(0.3, 3)), f32(a[4] * rng.uniform(0.3, 2))]
    elif kind == "nested":
        b = [f32(a[0] + rng.uniform(-.1, .1) * w), f32(a[1] + rng.uniform(-.1, .1) * a[4]), a[2] if rng.random() < .5 else rand_angle(rng),
             a[3], f32(a[4] * rng.uniform(0.1, 0.5))]
    elif kind == "identical":
        b = list(a)
    elif kind == "touching":       # axis aligned, sharing an edge or a corner exactly
        a[2] = None if rng.random() < .5 else 0.0
        a[0] = float(round(a[0])); a[1] = float(round(a[1])); a[3] = rng.choice([1.0, 2.0]); a[4] = float(rng.choice([4, 8, 16]))
        b = [a[0] + a[3] * a[4], a[1] + rng.choice([0.0, a[4], a[4] / 2]), a[2], a[3], a[4]]
    elif kind == "edge-share":     # same rotated frame, shifted along one axis by exactly the width
        ang = rng.uniform(-3, 3); a[2] = f32(ang)
        b = [f32(a[0] + w * math.cos(ang)), f32(a[1] + w * math.sin(ang)), a[2], a[3], a[4]]
    else:
        b = rand_box(rng, region=5000)
    return a, b
