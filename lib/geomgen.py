"""shared generators for boxes"""
from wiregen import *
import math

def utok(xc, yc, angle, aspect, height):
    return "%s %s %s %s %s" % (f32tok(xc), f32tok(yc), optf32(angle), f32tok(aspect), f32tok(height))

def rand_angle(rng):
    r = rng.random()
    if r < 0.3: return None
    if r < 0.4: return 0.0
    if r < 0.55: return rng.choice([1, 2, 3, -1]) * math.pi / 2
    if r < 0.7: return rng.uniform(-20, 20)
    return rng.uniform(-math.pi, math.pi)

def rand_box(rng, region=200.0, smin=0.5, smax=60.0):
    xc = rng.uniform(0, region); yc = rng.uniform(0, region)
    h = rng.uniform(smin, smax); a = rng.choice([0.5, 1.0, 2.0, rng.uniform(0.2, 4)])
    return [f32(xc), f32(yc), rand_angle(rng), f32(a), f32(h)]

def pair(rng):
    """a pair of boxes in one of several configurations"""
    kind = rng.choice(["general", "general", "overlap", "overlap", "nested", "identical", "touching", "edge-share", "nested-shared-edges", "far", "big-coords", "tiny"])
    a = rand_box(rng)
    if kind == "big-coords":
        a[0] = f32(rng.uniform(5000, 10000)); a[1] = f32(rng.uniform(5000, 10000)); a[4] = f32(rng.uniform(100, 1000))
    if kind == "tiny":
        a[4] = f32(rng.uniform(0.1, 0.5))
    w = a[4] * a[3]
    if kind == "general":
        b = rand_box(rng, region=200)
    elif kind in ("overlap", "big-coords", "tiny"):
        b = [f32(a[0] + rng.uniform(-1, 1) * w), f32(a[1] + rng.uniform(-1, 1) * a[4]), rand_angle(rng),
             f32(rng.uniform(0.3, 3)), f32(a[4] * rng.uniform(0.3, 2))]
    elif kind == "nested":
        b = [f32(a[0] + rng.uniform(-.1, .1) * w), f32(a[1] + rng.uniform(-.1, .1) * a[4]), a[2] if rng.random() < .5 else rand_angle(rng),
             a[3], f32(a[4] * rng.uniform(0.1, 0.5))]
    elif kind == "identical":
        b = list(a)
    elif kind == "nested-shared-edges":
        # one common rotated frame, the same centre, and one extent in common: the smaller box is nested in the larger one and
        # shares two whole edges' lines with it (collinear, exactly parallel edges — F11: rounding puts a vertex on the outer
        # side of a parallel clipping edge). Also the variant that shares one edge only (shifted along the common axis).
        if a[2] is None or rng.random() < 0.5:
            a[2] = f32(rng.choice([math.pi / 2, -math.pi / 2, rng.uniform(-3, 3), 1.0]))
        k = rng.choice([0.5, 0.25, 0.75])
        if rng.random() < 0.5:
            b = [a[0], a[1], a[2], f32(a[3] * k), a[4]]                    # same height, narrower
        else:
            b = [a[0], a[1], a[2], f32(a[3] / k), f32(a[4] * k)]           # same width, lower
        if rng.random() < 0.4:
            d = (1 - k) * w / 2 * rng.choice([1, -1, 0.5])
            b[0] = f32(a[0] + d * math.cos(a[2])); b[1] = f32(a[1] + d * math.sin(a[2]))
        if rng.random() < 0.5: a, b = b, a
    elif kind == "touching":       # axis aligned, sharing an edge or a corner exactly
        a[2] = None if rng.random() < .5 else 0.0
        a[0] = float(round(a[0])); a[1] = float(round(a[1])); a[3] = rng.choice([1.0, 2.0]); a[4] = float(rng.choice([4, 8, 16]))
        b = [a[0] + a[3] * a[4], a[1] + rng.choice([0.0, a[4], a[4] / 2]), a[2], a[3], a[4]]
    elif kind == "edge-share":     # same rotated frame, shifted along one axis by exactly the width
        ang = rng.uniform(-3, 3); a[2] = f32(ang)
        b = [f32(a[0] + w * math.cos(ang)), f32(a[1] + w * math.sin(ang)), a[2], a[3], a[4]]
    else:
        b = rand_box(rng, region=5000)
    return a, b
