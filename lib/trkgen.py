"""generator of tracker histories (`trk …` family)"""
from wiregen import *
import math

def det_tok(xc, yc, angle, aspect, height, conf, custom, vis=None):
    base = "%s %s %s %s %s %s %s" % (f32tok(xc), f32tok(yc), optf32(angle), f32tok(aspect), f32tok(height), f32tok(conf),
                                     "-" if custom is None else str(custom))
    if vis is None:
        return base
    q, feat = vis
    return base + " %s %d%s" % (optf32(q), len(feat or []), "".join(" " + f32tok(x) for x in (feat or [])))


VISUAL = ("visual", "bvisual")


class World:
    """a few objects per scene moving around a shared image region"""
    def __init__(self, rng, nscenes, rotated, region=120.0, dense=False, visual=False, jump_p=0.05, noises=(0.01, 0.01, 0.05, 0.3, 0.8)):
        self.rng = rng
        self.jump_p, self.noises = jump_p, noises
        self.visual = visual
        self.dim = rng.choice([4, 4, 8, 12, 20, 3])     # feature dimension (also > 8 and not a multiple of 8: partial last block)
        self.bases = []
        self.rotated = rotated
        self.region = region
        self.scenes = {s: [] for s in range(nscenes)}
        self.dense = dense
        for s in self.scenes:
            for _ in range(rng.randint(1, 5 if dense else 3)):
                self.scenes[s].append(self.new_obj())
        self.next_custom = 1

    def new_emb(self):
        r = self.rng
        if self.bases and r.random() < 0.25:          # a look-alike of an existing object
            b = r.choice(self.bases)
            e = [v + r.uniform(-0.05, 0.05) for v in b]
        else:
            e = [r.uniform(-1, 1) for _ in range(self.dim)]
        self.bases.append(e)
        return e

    def new_obj(self):
        r = self.rng
        return {"emb": self.new_emb() if self.visual else None, "x": r.uniform(0, self.region), "y": r.uniform(0, self.region), "vx": r.uniform(-6, 6), "vy": r.uniform(-6, 6),
                "h": r.uniform(15, 40), "a": r.choice([0.5, 1.0, 1.5]), "ang": (r.uniform(-1, 1) if self.rotated and r.random() < .7 else None),
                "alive": True}

    def step(self, scene):
        r = self.rng
        dets = []
        objs = self.scenes[scene]
        if r.random() < 0.15: objs.append(self.new_obj())
        for o in objs:
            o["x"] += o["vx"] + r.uniform(-1, 1); o["y"] += o["vy"] + r.uniform(-1, 1)
            if r.random() < self.jump_p: o["vx"], o["vy"] = r.uniform(-25, 25), r.uniform(-25, 25)     # sudden fast move
            if self.visual and r.random() < 0.06:                                                  # sudden change of size: the detection's own box and the
                o["h"] = min(60.0, max(5.0, o["h"] * r.choice([0.35, 0.5, 2.0])))                  # track's smoothed box fall on different sides of the area threshold
            if r.random() < 0.2: continue                                                          # missed detection
            conf = r.choice([1.0, 0.9, 0.5, 0.04, r.uniform(0.05, 1.0)])
            cu = None if r.random() < 0.5 else self.next_custom
            self.next_custom += 1
            dets.append((o["x"], o["y"], o["ang"], o["a"], o["h"] * r.uniform(0.95, 1.05), conf, cu) + self.vis_part(o))
            if r.random() < 0.08:                                                                  # near-duplicate detection of the same object
                dets.append((o["x"] + r.uniform(-2, 2), o["y"] + r.uniform(-2, 2), o["ang"], o["a"], o["h"], r.uniform(0.3, 1.0), None) + self.vis_part(o))
        if dets and r.random() < (0.2 if self.visual else 0.06):
            # an EXACT duplicate (detector without NMS): same feature and quality, slightly shifted box -> exactly tied vote weights
            withf = [x for x in dets if self.visual and x[7][1] is not None and (x[7][0] is None or x[7][0] > 0.7)]
            d = r.choice(withf or dets)
            dets.append(((d[0] + r.choice([0.25, 0.5, 1.5]), d[1]) + d[2:6] + (None,) + d[7:]))   # shifted: the executor tells detections apart by their centre
        if r.random() < 0.1:
            dets.append((r.uniform(0, self.region), r.uniform(0, self.region), None, 1.0, r.uniform(10, 30), 1.0, None) + self.vis_part(None))  # clutter
        if r.random() < 0.05 and objs:
            objs.pop(r.randrange(len(objs)))
        r.shuffle(dets)
        return dets

    def vis_part(self, o):
        """(quality, feature) of a detection of object o — empty tuple for the SORT kinds"""
        if not self.visual:
            return ()
        r = self.rng
        q = r.choice([None, 0.2, 0.45, 0.55, 0.69, 0.71, 0.9, r.uniform(0, 1)])
        if r.random() < 0.15:
            return ((q, None),)
        emb = o["emb"] if o is not None else [r.uniform(-1, 1) for _ in range(self.dim)]
        noise = r.choice(self.noises)        # 0.8: the same object seen with a similarity well below 1
        return ((q, [f32(v + r.uniform(-noise, noise)) for v in emb]),)


def new_line(rng, kind, shards=None, vshards=None, hist=None, max_idle=None, method=None, minconf=None, constraints=None, own_p=0.4, vkind=None, easy_votes=False):
    shards = shards or rng.randint(1, 4)
    vshards = vshards or rng.randint(1, 3)
    hist = hist or rng.randint(1, 5)
    max_idle = rng.randint(0, 3) if max_idle is None else max_idle
    if method is None:
        method = ("iou", rng.choice([0.3, 0.3, 0.1, 0.5])) if rng.random() < 0.65 else ("maha",)
    m = "iou %s" % f32tok(method[1]) if method[0] == "iou" else "maha"
    if minconf is None:
        minconf = rng.choice([0.05, 0.05, 0.3, 0.6])
    if constraints is None:
        constraints = [] if rng.random() < 0.6 else [(g, rng.choice([0.3, 0.6, 1.0, 2.0])) for g in sorted(rng.sample(range(1, 5), rng.randint(1, 2)))]
    cons = constraints or []
    c = " ".join([str(len(cons))] + ["%d %s" % (g, f32tok(l)) for g, l in cons])
    line = "trk new %s %d %d %d %d %s %s %s" % (kind, shards, vshards, hist, max_idle, m, f32tok(minconf), c)
    if kind in VISUAL:
        vk = vkind or rng.choice([("euclid", rng.choice([0.15, 0.3, 0.6])), ("cosine", rng.choice([0.9, 0.98, 0.3, 0.2]))])
        max_obs = rng.randint(1, 8)
        min_len = 1 if easy_votes else rng.randint(1, min(3, max_obs))
        own = rng.random() < own_p
        # the two own-area thresholds are set independently: both, only `use`, only `collect`
        own_use, own_col = rng.choice([(0.3, 0.6), (0.6, 0.3), (0.5, 0.0), (0.0, 0.5), (0.7, 0.0), (0.0, 0.7)]) if own else (0.0, 0.0)
        line += " V %s %s %d %d %d %s %s %s %s %s" % (vk[0], f32tok(vk[1]), 1 if easy_votes else rng.randint(1, 3), min_len, max_obs,
                                                      f32tok(rng.choice([0.0, 0.3, 0.5])), f32tok(rng.choice([0.0, 0.5, 0.7])),
                                                      f32tok(rng.choice([0.0, 100.0, 400.0])),
                                                      f32tok(own_use), f32tok(own_col))
    return line


def predict_line(scenes):
    """scenes: list of (scene, dets)"""
    parts = ["trk predict %d" % len(scenes)]
    for s, dets in scenes:
        parts.append("%d %d" % (s, len(dets)))
        parts += [det_tok(*d[:7], vis=(d[7] if len(d) > 7 else None)) for d in dets]
    return " ".join(parts)


def history(rng, kind, nsteps, nscenes=None, api_mix=True, world_kw=None, **kw):
    nscenes = nscenes or rng.randint(1, 3)
    world = World(rng, nscenes, rotated=rng.random() < 0.4, dense=rng.random() < 0.3, visual=kind in VISUAL, **(world_kw or {}))
    lines = [new_line(rng, kind, **kw)]
    batch = kind.startswith("b")
    for _ in range(nsteps):
        r = rng.random()
        if not api_mix or r < 0.6:
            if batch:
                ss = [s for s in range(nscenes) if rng.random() < 0.7] or [0]
                sc = [(s, world.step(s)) for s in ss]
                sc = [(s, d) for s, d in sc if d]
                if not sc: continue
                lines.append(predict_line(sc))
            else:
                s = rng.randrange(nscenes)
                dets = world.step(s) if rng.random() < 0.9 else []
                lines.append(predict_line([(s, dets)]))
        elif r < 0.7: lines.append("trk skip %d %d" % (rng.randrange(nscenes), rng.choice([0, 1, 2, 5])))
        elif r < 0.8: lines.append("trk wasted")
        elif r < 0.9: lines.append("trk idle %d" % rng.randrange(nscenes))
        elif r < 0.93: lines.append("trk clearw")
        elif r < 0.98: lines.append("trk setaw %d" % rng.choice([0, 1, 3, 100]))
        else: lines.append("trk epoch %d" % rng.randrange(nscenes))
    return lines


def is_visual(lines):
    for l in lines:
        t = l.split()
        if t[1] == "new":
            return t[2] in VISUAL
    return False


def split_predict(t, visual):
    """tokens of a `trk predict` line -> [(scene, [det token lists])]"""
    ns = int(t[2]); pos = 3; out = []
    for _ in range(ns):
        sc = int(t[pos]); n = int(t[pos + 1]); pos += 2
        dets = []
        for _ in range(n):
            k = 7
            if visual:
                k = 9 + int(t[pos + 8])
            dets.append(t[pos:pos + k]); pos += k
        out.append((sc, dets))
    return out


def join_predict(scenes):
    parts = ["trk predict %d" % len(scenes)]
    for sc, dets in scenes:
        parts.append("%d %d" % (sc, len(dets)))
        for d in dets:
            parts.append(" ".join(d))
    return " ".join(parts)


def project(lines, scene):
    """the sub-history that concerns `scene` only (global operations kept)"""
    vis = is_visual(lines)
    out = []
    for l in lines:
        t = l.split()
        if t[1] == "new" or t[1] in ("wasted", "clearw", "setaw"):
            out.append(l)
        elif t[1] in ("skip", "idle", "epoch"):
            if int(t[2]) == scene: out.append(l)
        elif t[1] == "predict":
            keep = [(sc, d) for sc, d in split_predict(t, vis) if sc == scene]
            if keep:
                out.append(join_predict(keep))
    return out


def scenes_of(lines):
    vis = is_visual(lines)
    s = set()
    for l in lines:
        t = l.split()
        if t[1] == "predict":
            for sc, _ in split_predict(t, vis):
                s.add(sc)
    return sorted(s)


def with_projections(lines):
    """slot 0: the interleaved history; slot 1+i: its projection onto scene i; then the comparisons"""
    out = ["trk sel 0"] + lines
    sc = scenes_of(lines)
    for i, s in enumerate(sc):
        out.append("trk sel %d" % (i + 1))
        out += project(lines, s)
    for i, s in enumerate(sc):
        out.append("trk cmp 0 %d %d" % (i + 1, s))
    return out


def unbatch(lines):
    """the same history for the corresponding simple tracker: every scene of a batch gets its own call"""
    vis = is_visual(lines)
    out = []
    for l in lines:
        t = l.split()
        if t[1] == "new":
            t[2] = {"bsort": "sort", "bvisual": "visual"}.get(t[2], t[2])
            out.append(" ".join(t))
        elif t[1] == "predict":
            for sc, dets in split_predict(t, vis):
                out.append(join_predict([(sc, dets)]))
        elif t[1] == "consumer":
            continue
        else:
            out.append(l)
    return out


def pipe_lines(lines, delay):
    """the batch history as ONE pipelined submission: `trk new …`, then `trk pipe delay nb (ns (scene n det*)*)*`
    (only the predict lines; histories with other API calls are not pipelined)"""
    vis = is_visual(lines)
    out = [l for l in lines if l.split()[1] == "new"]
    batches = []
    for l in lines:
        t = l.split()
        if t[1] == "predict":
            sc = split_predict(t, vis)
            parts = ["%d" % len(sc)]
            for s_, dets in sc:
                parts.append("%d %d" % (s_, len(dets)))
                parts += [" ".join(d) for d in dets]
            batches.append(" ".join(parts))
    out.append("trk pipe %d %d %s" % (delay, len(batches), " ".join(batches)))
    return out
