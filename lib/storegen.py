"""generators for the track / store families (scriptable callbacks, see harness/src/fam_store.rs)"""

def opt(x):
    return "-" if x is None else str(x)

def upd(rng, fail_p=0.1):
    if rng.random() < 0.5: return "-"
    return "%d:%d" % (rng.randint(-3, 6), 1 if rng.random() < fail_p else 0)

def obs(rng, cls=None, poison_add=0.05, poison_merge=0.1, fail_p=0.1):
    c = rng.randint(0, 2) if cls is None else cls
    r = rng.random()
    if r < 0.1: oa, f = None, None               # "both None": no observation stored
    elif r < 0.2: oa, f = None, rng.randint(0, 9)
    else:
        oa = rng.randint(0, 20)
        if rng.random() < poison_merge: oa = 13
        if rng.random() < poison_add: oa = -1
        f = None if rng.random() < 0.3 else rng.randint(0, 9)
    return "%d %s %s %s" % (c, opt(oa), opt(f), upd(rng, fail_p))

def trackspec(rng, tid, nobs=None, a=None, clean=False):
    """`id a b nobs (cls oa feat upd)*`; clean=True avoids observations/updates that make the build fail"""
    n = rng.randint(0, 4) if nobs is None else nobs
    a = rng.randint(0, 12) if a is None else a
    parts = []
    for _ in range(n):
        parts.append(obs(rng, poison_add=0.0 if clean else 0.03, fail_p=0.0 if clean else 0.05))
    return "%d %d %d %d %s" % (tid, a, rng.randint(0, 3), n, " ".join(parts))

def classes(rng):
    r = rng.random()
    if r < 0.2: return "-"
    k = rng.choice([0, 1, 1, 2, 2, 3])
    return " ".join([str(k)] + [str(rng.randint(0, 3)) for _ in range(k)])
