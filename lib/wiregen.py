"""Generator-side helpers: exact float tokens."""
import struct, math

def f32(x):
    """round a python float to binary32 and return it as python float"""
    return struct.unpack("<f", struct.pack("<f", x))[0]

def f32tok(x):
    return "f%08x" % struct.unpack("<I", struct.pack("<f", x))[0]

def f64tok(x):
    return "d%016x" % struct.unpack("<Q", struct.pack("<d", x))[0]

def optf32(x):
    return "-" if x is None else f32tok(x)

def tok2f32(t):
    return struct.unpack("<f", struct.pack("<I", int(t[1:], 16)))[0]

def natlist(l):
    return " ".join([str(len(l))] + [str(x) for x in l])

def grid(rng, lo, hi, step):
    """value on a binary grid (exact in f32)"""
    n = int((hi - lo) / step)
    return lo + step * rng.randint(0, n)
