"""Engine behind ./check — see DESIGN.md sections 3, 4 and 10."""
import sys, os, re, json, time, subprocess, random, fcntl, importlib, hashlib, shutil

ROOT = os.path.dirname(os.path.dirname(os.path.abspath(__file__)))
LEAN = os.path.join(ROOT, "lean")
HARNESS = os.path.join(ROOT, "harness")
WORK = os.path.join(ROOT, "work")
REPO = "/repo"
ALLOWED_AXIOMS = {"propext", "Classical.choice", "Quot.sound"}
FORBIDDEN = re.compile(r"\b(sorry|admit|native_decide|bv_decide|implemented_by|unsafe)\b|^axiom\s|maxHeartbeats\s+0\b")
ENV = dict(os.environ, CARGO_NET_OFFLINE="true")


class MachineryError(Exception):
    pass


def log(*a):
    print(*a, flush=True)


def sh(cmd, cwd=None, timeout=3600, inp=None, env=None):
    p = subprocess.run(cmd, cwd=cwd, input=inp, stdout=subprocess.PIPE, stderr=subprocess.PIPE,
                       text=True, timeout=timeout, env=env or ENV)
    return p.returncode, p.stdout, p.stderr


class Lock:
    def __init__(self, name):
        os.makedirs(WORK, exist_ok=True)
        self.path = os.path.join(WORK, name + ".lock")

    def __enter__(self):
        self.f = open(self.path, "w")
        fcntl.flock(self.f, fcntl.LOCK_EX)

    def __exit__(self, *a):
        fcntl.flock(self.f, fcntl.LOCK_UN)
        self.f.close()


# ------------------------------------------------------------------ builds

PYTABLE_JSON = os.path.join(ROOT, "work", "py", "table.json")


def run_translator():
    """Regenerate lean/SimVerif/Gen/*.lean from /repo/src (DESIGN 3.2)."""
    tr = os.path.join(ROOT, "translator", "translate.py")
    if not os.path.exists(tr):
        return
    failures = []
    rc, out, err = sh([sys.executable, tr, REPO, os.path.join(LEAN, "SimVerif", "Gen")])
    if rc != 0:
        # the source no longer has the shape the translator reads: the generated constants cannot be refreshed.
        # The previously generated file stays (so that the machinery still builds) and every property is
        # reported with a broken proof obligation: its theorems no longer speak about the current source.
        failures.append("translator/translate.py cannot regenerate Gen/Consts.lean from the current source: " + (out + err).strip()[-600:])
    # straight-line numeric / decision kernels (DESIGN 14.8): a function that can no longer be read becomes an
    # `-- UNREADABLE` stub, so that its tie theorem (lean/SimVerif/Tie/*.lean) fails: a broken obligation, not a pass
    kt = os.path.join(ROOT, "translator", "kernels.py")
    # the reader is part of the trusted base of those ties: its self-test (translator/selftest.py: one small function per
    # reader feature against a reviewed expectation) runs first; a difference means the machinery changed, not the code
    stst = os.path.join(ROOT, "translator", "selftest.py")
    if os.path.exists(stst):
        rc, out, err = sh([sys.executable, stst])
        if rc != 0:
            raise MachineryError("translator self-test failed: " + (out + err).strip()[-1500:])
    rc, out, err = sh([sys.executable, kt, REPO, os.path.join(LEAN, "SimVerif", "Gen")])
    if rc != 0:
        failures.append("translator/kernels.py failed: " + (out + err).strip()[-600:])
    # the Python-binding table (C18). If the bindings can no longer be read into the wrapper calculus the
    # table is emptied, so that C18's completeness theorem fails and the check reports it (no machinery error)
    pt = os.path.join(ROOT, "translator", "pytable.py")
    rc, out, err = sh([sys.executable, pt, REPO, os.path.join(LEAN, "SimVerif", "Gen"), os.path.join(ROOT, "spec", "pyspec.json"), PYTABLE_JSON])
    if rc != 0:
        stub = ("/- GENERATED stub: translator/pytable.py could not read the bindings: %s -/\nimport SimVerif.Model.PyBind\nnamespace SimVerif.Gen\n"
                "open SimVerif.PyBind\ndef pyTable : List Entry := []\ndef pyClasses : List Name := []\nend SimVerif.Gen\n" % (out + err)[-400:].replace("-/", "- /"))
        path = os.path.join(LEAN, "SimVerif", "Gen", "PyTable.lean")
        if not os.path.exists(path) or open(path).read() != stub:
            open(path, "w").write(stub)
    return failures


def lake_build(targets):
    with Lock("lake"):
        rc, out, err = sh(["lake", "build"] + targets, cwd=LEAN, timeout=7200)
    return rc, out + err


def cargo_build():
    lock_src = os.path.join(REPO, "Cargo.lock")
    dst = os.path.join(HARNESS, "Cargo.lock")
    with Lock("cargo"):
        if not os.path.exists(dst):
            shutil.copy(lock_src, dst)
        rc, out, err = sh(["cargo", "build", "--release", "--offline"], cwd=HARNESS, timeout=7200)
    if rc != 0:
        raise MachineryError("cargo build of the harness against /repo failed:\n" + (out + err)[-4000:])


VH = os.path.join(HARNESS, "target", "release", "vh")
SIMDRV = os.path.join(LEAN, ".lake", "build", "bin", "simdrv")


# ------------------------------------------------------------------ proof obligations (P)

def theorem_names(module):
    path = os.path.join(LEAN, *module.split(".")) + ".lean"
    src = open(path).read()
    ns = re.findall(r"^namespace\s+(\S+)", src, re.M)
    prefix = ns[0] + "." if ns else ""
    return [prefix + n for n in re.findall(r"^theorem\s+([A-Za-z0-9_'.]+)", src, re.M)], path


def strip_comments(src):
    # remove block comments (nested) and line comments
    out, depth, i = [], 0, 0
    while i < len(src):
        if src.startswith("/-", i):
            depth += 1; i += 2; continue
        if src.startswith("-/", i) and depth > 0:
            depth -= 1; i += 2; continue
        if depth == 0:
            if src.startswith("--", i):
                j = src.find("\n", i)
                i = len(src) if j < 0 else j
                continue
            out.append(src[i])
        elif src[i] == "\n":
            out.append("\n")
        i += 1
    return "".join(out)


def audit_sources():
    bad = []
    for dp, dn, fn in os.walk(LEAN):
        if ".lake" in dp:
            continue
        for f in fn:
            if f.endswith(".lean"):
                p = os.path.join(dp, f)
                for k, line in enumerate(strip_comments(open(p).read()).split("\n"), 1):
                    if FORBIDDEN.search(line):
                        bad.append(f"{os.path.relpath(p, ROOT)}:{k}: {line.strip()}")
    return bad


def proof_obligations(prop, tier="quick"):
    """Build the property's theorem module and audit the axioms of each theorem.
    Returns dict(obligations, discharged, failures[list of str], theorems[list])."""
    modules = getattr(prop, "THEOREM_MODULES", None) or [prop.THEOREM_MODULE]
    names = []
    for module in modules:
        names += theorem_names(module)[0]
    res = {"obligations": len(names), "discharged": 0, "failures": [], "theorems": names}
    rc, out = lake_build(modules + ["simdrv"])
    if rc != 0:
        errs = [l for l in out.split("\n") if "error" in l][:10]
        # which layer broke?
        res["failures"].append("lake build failed: " + " | ".join(errs))
        res["build_log"] = out[-6000:]
        return res
    bad = audit_sources()
    if bad:
        res["failures"].append("forbidden constructs: " + "; ".join(bad[:5]))
        return res
    os.makedirs(os.path.join(WORK, prop.ID), exist_ok=True)
    aud = os.path.join(WORK, prop.ID, "Audit.lean")
    with open(aud, "w") as f:
        for module in modules:
            f.write(f"import {module}\n")
        for n in names:
            f.write(f"#print axioms {n}\n")
    rc, out, err = sh(["lake", "env", "lean", aud], cwd=LEAN, timeout=1800)
    if rc != 0:
        res["failures"].append("axiom audit failed: " + (out + err)[-1500:])
        return res
    # parse: "'name' depends on axioms: [a, b]" or "'name' does not depend on any axioms"
    txt = out.replace("\n", " ")
    axioms_used = set()
    for n in names:
        m = re.search(r"'" + re.escape(n) + r"' (does not depend on any axioms|depends on axioms: \[([^\]]*)\])", txt)
        if not m:
            res["failures"].append(f"no axiom report for {n}")
            continue
        ax = set(a.strip() for a in (m.group(2) or "").split(",") if a.strip())
        axioms_used |= ax
        if ax - ALLOWED_AXIOMS:
            res["failures"].append(f"{n} depends on {sorted(ax - ALLOWED_AXIOMS)}")
        else:
            res["discharged"] += 1
    res["axioms"] = sorted(axioms_used)
    if tier == "thorough" and not res["failures"]:
        # independent re-check of the compiled theorem modules by the toolchain's leanchecker (replays every
        # declaration of the .olean files through the kernel)
        rc, out, err = sh(["lake", "env", "leanchecker"] + modules, cwd=LEAN, timeout=3600)
        res["leanchecker"] = "accepted" if rc == 0 else "rejected"
        if rc != 0:
            res["failures"].append("leanchecker rejects the theorem modules: " + (out + err)[-800:])
            res["discharged"] = 0
    return res


# ------------------------------------------------------------------ correspondence (K) and oracle (O)

class LineRes:
    __slots__ = ("req", "impl", "raw", "k", "o", "flags", "detail", "bad")

    def __init__(self, implline, resline):
        if " => " in implline:
            self.req, self.impl = implline.split(" => ", 1)
        else:
            self.req, self.impl = implline.rstrip(" =>"), ""
        self.raw = resline
        self.bad = False
        self.k = self.o = True
        self.flags = []
        self.detail = ""
        if resline.startswith("R "):
            m = re.match(r"R K=(\d) O=(\d) F=(.*?) \| ?(.*)", resline)
            if not m:
                self.bad = True; self.detail = resline
                return
            self.k = m.group(1) == "1"; self.o = m.group(2) == "1"
            self.flags = [f for f in m.group(3).split(",") if f]
            self.detail = m.group(4)
        elif resline == "C":
            pass
        else:
            self.bad = True; self.detail = resline


def has_nonfinite(impl):
    """True when the implementation's answer contains a NaN / infinite float token."""
    for t in impl.split():
        try:
            if len(t) == 9 and t[0] == "f":
                if (int(t[1:], 16) >> 23) & 0xFF == 0xFF: return True
            elif len(t) == 17 and t[0] == "d":
                if (int(t[1:], 16) >> 52) & 0x7FF == 0x7FF: return True
        except ValueError:
            pass
    return False


def run_cases_isolated(lines, imp, why):
    cases, cur = [], []
    for l in lines:
        if l.startswith("case") and cur:
            cases.append(cur); cur = []
        cur.append(l)
    if cur: cases.append(cur)
    out = []
    died = 0
    for c in cases:
        if died >= 5:
            out += [l + " => " + ("" if l.startswith("case") else "PANIC skipped: the executor died on 5 earlier cases of this run") for l in c]
            continue
        p = subprocess.run([VH], input="\n".join(c) + "\n", stdout=subprocess.PIPE, stderr=subprocess.PIPE, text=True, timeout=3600)
        got = p.stdout.split("\n")
        if got and got[-1] == "": got.pop()
        if p.returncode == 0 and len(got) == len(c):
            out += got; continue
        died += 1
        got = got[:len(c)]
        # a partially written last line cannot be trusted
        if got and " => " not in got[-1] and not got[-1].startswith("case"): got.pop()
        msg = (p.stderr.strip().split("\n") or [""])[-1][:200].replace(" ", "_")
        for k, l in enumerate(c[len(got):]):
            if k == 0:
                got.append(l + f" => PANIC abort:_the_executor_process_died_(rc={p.returncode})_{msg}")
            else:
                got.append(l + " => PANIC skipped_after_abort")
        out += got
    with open(imp, "w") as f:
        f.write("\n".join(out) + "\n")


MIDDLE_STAGE = None


def run_pipeline(lines, tag, wdir):
    """lines: request lines (including `case` separators). Returns list[LineRes]."""
    os.makedirs(wdir, exist_ok=True)
    req = os.path.join(wdir, tag + ".req")
    imp = os.path.join(wdir, tag + ".impl")
    res = os.path.join(wdir, tag + ".res")
    with open(req, "w") as f:
        f.write("\n".join(lines) + "\n")
    with open(req) as fi, open(imp, "w") as fo:
        p = subprocess.run([VH], stdin=fi, stdout=fo, stderr=subprocess.PIPE, text=True, timeout=7200)
    if p.returncode != 0:
        # the executor process died (abort: panic while panicking / in a destructor, allocation failure, …). That is
        # a failure of the code under test on some request, not of the machinery: re-run case by case, each in its own
        # process, and answer the request on which the process dies with `PANIC abort …` (the rest of that case: skipped)
        run_cases_isolated(lines, imp, p.stderr[-300:])
    if MIDDLE_STAGE:
        # an extra executor between the Rust executor and the model driver (C18: the Python module)
        imp2 = os.path.join(wdir, tag + ".impl2")
        with open(imp) as fi, open(imp2, "w") as fo:
            p = subprocess.run(MIDDLE_STAGE, stdin=fi, stdout=fo, stderr=subprocess.PIPE, text=True, timeout=7200)
        if p.returncode != 0:
            raise MachineryError(f"middle stage crashed (rc={p.returncode}): {p.stderr[-2000:]}")
        imp = imp2
    with open(imp) as fi, open(res, "w") as fo:
        p = subprocess.run([SIMDRV], stdin=fi, stdout=fo, stderr=subprocess.PIPE, text=True, timeout=7200)
    if p.returncode != 0:
        raise MachineryError(f"simdrv crashed (rc={p.returncode}): {p.stderr[-2000:]}")
    il = open(imp).read().split("\n")
    rl = open(res).read().split("\n")
    if il and il[-1] == "": il.pop()
    if rl and rl[-1] == "": rl.pop()
    if len(il) != len(lines) or len(rl) != len(lines):
        raise MachineryError(f"protocol desync: {len(lines)} requests, {len(il)} impl lines, {len(rl)} model lines")
    return [LineRes(a, b) for a, b in zip(il, rl)]


def flatten(cases):
    lines = []
    for i, c in enumerate(cases):
        lines.append(f"case {i}")
        lines.extend(c)
    return lines


def split_results(cases, results):
    out, pos = [], 0
    for c in cases:
        pos += 1
        out.append(results[pos:pos + len(c)])
        pos += len(c)
    return out


def case_status(rs):
    """(kind, index) of the first problem in a case's results; kind in {None,'O','K','BAD'}"""
    for i, r in enumerate(rs):
        if r.bad:
            return "BAD", i
        if not r.o:
            return "O", i
        if not r.k:
            return "K", i
    return None, -1


def shrink_case(prop, case, kind, wdir, budget=60):
    """delta-debug the request lines of a failing case, preserving the failure kind."""
    def sig(rs):
        k, at = case_status(rs)
        if k is None:
            return None
        t = rs[at].req.split()
        return (k, tuple(t[:2]))
    orig_sig = sig(run_pipeline(flatten([case]), "shrink", wdir)[1:])

    def fails(c):
        if not c:
            return False
        try:
            rs = run_pipeline(flatten([c]), "shrink", wdir)[1:]
        except MachineryError:
            return False
        return sig(rs) == orig_sig and orig_sig is not None
    cur = list(case)
    t0 = time.time()
    # line-level ddmin
    n = 2
    while len(cur) >= 2 and time.time() - t0 < budget:
        chunk = max(1, len(cur) // n)
        reduced = False
        for s in range(0, len(cur), chunk):
            if time.time() - t0 >= budget: break
            cand = cur[:s] + cur[s + chunk:]
            if cand and fails(cand):
                cur = cand; n = max(n - 1, 2); reduced = True
                break
        if not reduced:
            if chunk == 1:
                break
            n = min(len(cur), n * 2)
    # property-specific in-line reducers
    red = getattr(prop, "reduce_line", None)
    if red:
        changed = True
        while changed and time.time() - t0 < budget:
            changed = False
            for i, l in enumerate(cur):
                for cand_line in red(l):
                    if time.time() - t0 >= budget: break
                    cand = cur[:i] + [cand_line] + cur[i + 1:]
                    if fails(cand):
                        cur = cand; changed = True
                        break
                if changed:
                    break
    return cur


def load_known():
    kf = {"finding": [], "fixed": []}
    p = os.path.join(ROOT, "KNOWN_FINDINGS.txt")
    if os.path.exists(p):
        for line in open(p):
            line = line.strip()
            m = re.match(r"(finding|fixed): property=(\S+) (.*)", line)
            if m:
                d = {"property": m.group(2), "rest": m.group(3)}
                km = re.search(r"key=(\S+)", m.group(3))
                d["key"] = km.group(1) if km else None
                kf[m.group(1)].append(d)
    return kf


def load_corpus(pid):
    d = os.path.join(ROOT, "corpus", pid)
    cases = []
    if os.path.isdir(d):
        for f in sorted(os.listdir(d)):
            if f.endswith(".case"):
                lines = [l.strip() for l in open(os.path.join(d, f)) if l.strip() and not l.startswith("#")]
                if lines:
                    cases.append(lines)
    return cases


def write_replay(pid, seed, tag, header, lines):
    d = os.path.join(ROOT, "replays")
    os.makedirs(d, exist_ok=True)
    p = os.path.join(d, f"{pid}-{seed}-{tag}.case")
    with open(p, "w") as f:
        for h in header:
            f.write("# " + h + "\n")
        f.write("\n".join(lines) + "\n")
    return os.path.relpath(p, ROOT)


def write_evidence(pid, ev):
    d = os.path.join(ROOT, "evidence")
    os.makedirs(d, exist_ok=True)
    with open(os.path.join(d, pid + ".json"), "w") as f:
        json.dump(ev, f, indent=1)


def check_property(pid, tier, seed, replay=None):
    t0 = time.time()
    prop = importlib.import_module("props." + pid)
    wdir = os.path.join(WORK, pid)
    os.makedirs(wdir, exist_ok=True)
    violations = []   # (replay path, suffix)
    known_printed = []
    kf = load_known()
    known_keys = {d["key"]: d for d in kf["finding"] if d["property"] == pid and d["key"]}

    tr_failures = run_translator()
    pres = proof_obligations(prop, tier)
    pres["failures"] = tr_failures + pres["failures"]
    proof_broken = bool(pres["failures"])
    if proof_broken and "build_log" in pres and not os.path.exists(SIMDRV):
        raise MachineryError("simdrv does not build:\n" + pres["build_log"])
    # is the driver itself buildable? (needed for K/O)
    rc, out = lake_build(["simdrv"])
    if rc != 0:
        raise MachineryError("simdrv does not build:\n" + out[-3000:])
    cargo_build()
    global MIDDLE_STAGE
    MIDDLE_STAGE = prop.prepare(sys.modules[__name__]) if hasattr(prop, "prepare") else None

    rng = random.Random(seed)
    if replay:
        lines = [l.strip() for l in open(replay) if l.strip() and not l.startswith("#")]
        cases = []
        for l in lines:
            if l.startswith("case"):
                cases.append([])
            else:
                if not cases: cases.append([])
                cases[-1].append(l)
        n_corpus = 0
    else:
        corpus = load_corpus(pid)
        n_corpus = len(corpus)
        cases = corpus + prop.generate(rng, tier)
    results = run_pipeline(flatten(cases), "main", wdir)
    per_case = split_results(cases, results)

    # ---- statistics
    evals = sum(len(c) for c in cases)
    nontriv = set()
    flagcount = {}
    for c, rs in zip(cases, per_case):
        for r in rs:
            for f in r.flags:
                flagcount[f] = flagcount.get(f, 0) + 1
            if any(f in prop.NONTRIVIAL_FLAGS for f in r.flags):
                nontriv.add(r.req)
    samples = []
    for c, rs in zip(cases[n_corpus:n_corpus + 3], per_case[n_corpus:n_corpus + 3]):
        samples.append({"requests_with_impl_answers": [(r.req + " => " + r.impl)[:600] for r in rs[:6]],
                        "model_verdicts": [r.raw[:300] for r in rs[:6]]})

    # ---- failures
    failing = []
    for idx, (c, rs) in enumerate(zip(cases, per_case)):
        kind, at = case_status(rs)
        if kind:
            failing.append((idx, kind, at))
    k_breaks = [f for f in failing if f[1] == "K"]
    o_breaks = [f for f in failing if f[1] == "O"]
    bad = [f for f in failing if f[1] == "BAD"]
    for idx, kind, at in bad:
        r = per_case[idx][at]
        if r.impl.startswith("PANIC") or has_nonfinite(r.impl):
            o_breaks.append((idx, "BAD", at))   # implementation failed (panic / NaN / inf) where the model expects an answer
        else:
            raise MachineryError(f"driver rejected a request: {r.req[:300]} => {r.impl[:200]} :: {r.detail}")

    reported_keys = set()
    unreproduced = []

    def report(idx, kind, suffix=""):
        case = cases[idx]
        try:
            small = shrink_case(prop, case, kind, wdir)
        except MachineryError:
            small = case
        rs = run_pipeline(flatten([small]), "final", wdir)[1:]
        if kind in ("O", "K", "BAD") and not getattr(prop, "SCHEDULE_DEPENDENT", False) and case_status(rs)[0] is None:
            # the failure seen in the main run does not show when the case is run again on its own. For a property about
            # a deterministic function of the inputs a real violation reproduces; re-run the unshrunk case twice more,
            # each time in fresh executor processes, and report only what fails again (DESIGN 14.5). Properties that
            # quantify over schedules (C05, C06, C10) and C15 (F9: answers that vary from run to run) never take this path.
            again = [case_status(run_pipeline(flatten([case]), "final", wdir)[1:])[0] for _ in range(2)]
            if not any(again):
                unreproduced.append({"case_index": idx, "kind": kind, "first_request": case[0][:200] if case else ""})
                log(f"UNREPRODUCED: property={pid} a {kind}-failure of case {idx} in the main run did not recur in 3 isolated re-runs; not reported")
                return
            rs = run_pipeline(flatten([case]), "final", wdir)[1:]
            small = case
        key = prop.shape_key(small, rs) if hasattr(prop, "shape_key") else None
        if key in reported_keys:
            return
        reported_keys.add(key)
        if key and key in known_keys and kind in ("O", "BAD"):
            if key not in known_printed:
                log(f"KNOWN-FINDING: property={pid} {known_keys[key]['rest']}")
                known_printed.append(key)
            return
        header = [f"property {pid}; failure kind {kind} ({'oracle false on the implementation output' if kind in ('O','BAD') else 'model/implementation disagreement'}); shape key {key}",
                  "re-run: ./check %s --replay <this file>" % pid]
        header += [("%s => %s :: %s" % (r.req, r.impl, r.raw))[:1500] for r in rs if (not r.k or not r.o or r.bad)][:3]
        path = write_replay(pid, seed, f"{kind}{idx}", header, small)
        violations.append((path, suffix))

    # failures whose (unshrunk) shape is a listed known finding are named once and not shrunk again;
    # everything else is reported (at most 5 distinct shapes per run)
    pending = []
    for idx, kind, at in o_breaks:
        pre = prop.shape_key(cases[idx], per_case[idx]) if hasattr(prop, "shape_key") else None
        if pre and pre in known_keys and kind in ("O", "BAD"):
            if pre not in known_printed:
                log(f"KNOWN-FINDING: property={pid} {known_keys[pre]['rest']}")
                known_printed.append(pre)
            continue
        pending.append((idx, kind, at))
    for idx, kind, at in pending:
        if len(violations) >= 5: break
        report(idx, kind)
    if not violations and k_breaks and not proof_broken and not getattr(prop, "SCHEDULE_DEPENDENT", False):
        # disagreements that do not recur when their case is run again on its own are not counted (see report())
        confirmed = []
        for kb in k_breaks:
            if len(confirmed) >= 1: break
            if any(case_status(run_pipeline(flatten([cases[kb[0]]]), "final", wdir)[1:])[0] for _ in range(2)):
                confirmed.append(kb)
            else:
                unreproduced.append({"case_index": kb[0], "kind": "K", "first_request": cases[kb[0]][0][:200] if cases[kb[0]] else ""})
                log(f"UNREPRODUCED: property={pid} a K-disagreement of case {kb[0]} in the main run did not recur in 2 isolated re-runs; not reported")
            if len(unreproduced) >= 4: break
        if not confirmed and len(unreproduced) < 4:
            k_breaks = []
    if not violations and (k_breaks or proof_broken):
        # a correspondence or a proof obligation broke but no oracle failure seen yet: search (DESIGN 4.2)
        found = False
        if not replay:
            srng = random.Random(seed + 7919)
            search_cases = prop.generate(srng, "search") if "search" in getattr(prop, "TIERS", ()) else prop.generate(srng, "thorough")
            sres = split_results(search_cases, run_pipeline(flatten(search_cases), "search", wdir))
            base = len(cases)
            for j, rs in enumerate(sres):
                kind, at = case_status(rs)
                if kind in ("O", "BAD"):
                    # a failing input that is a listed known finding (or does not recur) is not the reason the obligation
                    # broke: keep searching, and fall through to `no-failing-input-found` if nothing else turns up
                    pre = prop.shape_key(search_cases[j], rs) if hasattr(prop, "shape_key") else None
                    if pre and pre in known_keys:
                        continue
                    before = len(violations)
                    cases.append(search_cases[j]); per_case.append(rs)
                    report(len(cases) - 1, kind)
                    if len(violations) > before:
                        found = True
                        break
        if not found:
            what = []
            if proof_broken:
                what.append("proof obligation no longer checks: " + "; ".join(pres["failures"])[:1500])
            lines = []
            if k_breaks:
                idx = k_breaks[0][0]
                try:
                    small = shrink_case(prop, cases[idx], "K", wdir)
                except MachineryError:
                    small = cases[idx]
                rs = run_pipeline(flatten([small]), "final", wdir)[1:]
                what.append(f"correspondence model<->implementation for {pid} no longer checks; minimal disagreeing case below")
                what += [("%s => %s :: %s" % (r.req, r.impl, r.raw))[:1500] for r in rs if not r.k][:3]
                lines = small
            path = write_replay(pid, seed, "nofail", what + ["no failing input found by the search"], lines)
            violations.append((path, " no-failing-input-found"))

    ev = {
        "property_id": pid, "tier": tier if tier in ("quick", "thorough") else "quick", "seed": seed, "level": "proof",
        "coverage": {
            "obligations": pres["obligations"], "discharged": pres["discharged"],
            "theorems": pres["theorems"], "axioms_used": pres.get("axioms", []),
            "proof_failures": pres["failures"], "leanchecker": pres.get("leanchecker", "not run (thorough tier only)"),
            "checker_cmd": f"cd lean && lake build {' '.join(getattr(prop, 'THEOREM_MODULES', None) or [prop.THEOREM_MODULE])} && lake env lean ../work/{pid}/Audit.lean   # #print axioms of every theorem",
            "trusted_base": prop.TRUSTED_BASE,
            "evaluations": evals, "distinct_nontrivial": len(nontriv),
            "rule": prop.RULE, "samples": samples,
            "corpus_cases": n_corpus, "generated_cases": len(cases) - n_corpus,
            "branch_flags_hit": flagcount,
            "traces_validated_against_impl": flagcount.get("trace-validated", 0) + flagcount.get("plan-orderplan", 0) + flagcount.get("jittered-commands", 0),
            "correspondence_disagreements": len(k_breaks), "oracle_failures": len(o_breaks),
            "known_findings_seen": known_printed, "unreproduced_failures": unreproduced,
            "partial_theorems": getattr(prop, "PARTIAL", []),
        },
        "assumptions": prop.ASSUMPTIONS,
        "wall_s": round(time.time() - t0, 2),
        "violations": len(violations),
    }
    write_evidence(pid, ev)
    for path, suffix in violations:
        log(f"VIOLATION property={pid} replay={path}{suffix}")
    log(f"{pid}: tier={tier} seed={seed} theorems={pres['discharged']}/{pres['obligations']} "
        f"requests={evals} nontrivial={len(nontriv)} K-breaks={len(k_breaks)} O-breaks={len(o_breaks)} "
        f"violations={len(violations)} wall={ev['wall_s']}s")
    return 1 if violations else 0


def setup():
    run_translator()
    rc, out = lake_build([])
    if rc != 0:
        log(out[-5000:]); raise MachineryError("lake build failed")
    cargo_build()
    log("setup ok")
    return 0


def main(argv):
    try:
        if not argv or argv[0] in ("-h", "--help"):
            print(__doc__ if __doc__ else "see ./check"); return 2
        if argv[0] == "--setup":
            return setup()
        pid = argv[0]
        tier = os.environ.get("VERIF_TIER", "quick")
        replay = None
        i = 1
        while i < len(argv):
            if argv[i] == "--tier": tier = argv[i + 1]; i += 2
            elif argv[i] == "--replay": replay = argv[i + 1]; i += 2
            else: raise MachineryError("unknown argument " + argv[i])
        seed = int(os.environ.get("VERIF_SEED", "1"))
        return check_property(pid, tier, seed, replay)
    except MachineryError as e:
        log("MACHINERY-ERROR " + str(e))
        return 2
