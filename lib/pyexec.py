#!/usr/bin/env python3
"""Python executor of the `py ...` request family (harness/PY_PROTOCOL.md, property C18).

    python3 pyexec.py --module-dir DIR --table table.json  < "request => rust answer" lines
                                                           > "request => rust answer => python answer" lines

Every `py ...` request is executed through the Python module built from the current tree (`import similari`
from DIR). Lines that are not `py ` requests pass through unchanged; a `case` line resets the tracker slot.
Objects are dumped by reflection: the getter names come from the table file, never from this program.
"""
import argparse
import os
import json
import struct
import sys


# ---------------------------------------------------------------------------------------------- tokens

class Toks:
    def __init__(self, line):
        self.t = line.split()
        self.i = 0

    def next(self):
        r = self.t[self.i]
        self.i += 1
        return r

    def int(self):
        return int(self.next())

    def opt_int(self):
        t = self.next()
        return None if t == '-' else int(t)

    def f32(self):
        return parse_f32(self.next())

    def opt_f32(self):
        t = self.next()
        return None if t == '-' else parse_f32(t)


def parse_f32(tok):
    if not (tok.startswith('f') and len(tok) == 9):
        raise ValueError('bad f32 token ' + tok)
    return struct.unpack('>f', bytes.fromhex(tok[1:]))[0]


def ftok(x):
    return 'd' + struct.pack('>d', x).hex()


def text(s):
    return 's:' + '_'.join(s.split())


def lst(items):
    items = list(items)
    return '[ ' + ' '.join(items) + ' ]' if items else '[ ]'


# ---------------------------------------------------------------------------------------------- executor

class Executor:
    def __init__(self, module, table):
        self.m = module
        self.getters = table.get('getters', {})
        self.entries = table.get('entries', [])
        self.trk = None
        self.kind = None
        self.ren = {}

    def reset(self):
        self.trk = None
        self.kind = None
        # batch kinds only: scene -> raw track id -> 0, 1, 2, ... in the order of first appearance
        self.ren = {}

    # ---- table helpers

    def ctor_params(self, cls, fallback):
        """keyword names of the constructor of `cls`, in signature order (from the table when it has them)"""
        for e in self.entries:
            if e.get('cls') == cls and e.get('kind') == 'new' and len(e.get('params', [])) == len(fallback):
                return list(e['params'])
        return list(fallback)

    def field_getter(self, cls, field):
        """the Python getter of `cls` that reads the Rust field `field`"""
        for e in self.entries:
            if e.get('cls') == cls and e.get('kind') == 'getter' and e.get('shape') == ['field', [field]]:
                return e['py']
        return field

    def scene_and_id(self, o):
        cls = type(o).__name__
        return (getattr(o, self.field_getter(cls, 'scene_id')), getattr(o, self.field_getter(cls, 'id')))

    def by_id(self, objs):
        """lists the protocol calls "sorted by id": by (scene, raw id)"""
        return sorted(objs, key=self.scene_and_id)

    # ---- answer values

    def val(self, v, override=None):
        if v is None:
            return '-'
        if isinstance(v, bool):
            return 'true' if v else 'false'
        if isinstance(v, int):
            return str(v)
        if isinstance(v, float):
            return ftok(v)
        if isinstance(v, (list, tuple)):
            return lst(self.val(x) for x in v)
        cls = type(v).__name__
        names = self.getters.get(cls)
        if names:
            parts = ['{', cls]
            for n in names:
                parts.append(n + '=')
                parts.append(override[n] if override and n in override else self.val(getattr(v, n)))
            parts.append('}')
            return ' '.join(parts)
        return text(repr(v))

    def ltwh_or_err(self, f):
        """a call whose documented failure (rotated box -> no axis-aligned box) is the answer `ERR`"""
        try:
            return self.val(f())
        except AttributeError:
            return 'ERR'

    def points(self, polygon):
        return lst(self.val(p) for p in polygon.get_points())

    # ---- request values

    def u5(self, t):
        xc, yc, angle, aspect, height = t.f32(), t.f32(), t.opt_f32(), t.f32(), t.f32()
        return self.m.Universal2DBox(xc, yc, angle, aspect, height)

    def u6(self, t):
        xc, yc, angle, aspect, height = t.f32(), t.f32(), t.opt_f32(), t.f32(), t.f32()
        conf = t.opt_f32()
        if conf is None:
            return self.m.Universal2DBox(xc, yc, angle, aspect, height)
        return self.m.Universal2DBox.new_with_confidence(xc, yc, angle, aspect, height, conf)

    def inv(self, t):
        x = t.next()
        if x not in ('true', 'false'):
            raise ValueError('bad INV token ' + x)
        return x == 'true'

    def kf(self, cls, t):
        """`PW|- VW|-`: omitted weights are left to the binding's defaults"""
        pw, vw = t.opt_f32(), t.opt_f32()
        names = self.ctor_params(cls, ['position_weight', 'velocity_weight'])
        kw = {}
        if pw is not None:
            kw[names[0]] = pw
        if vw is not None:
            kw[names[1]] = vw
        return getattr(self.m, cls)(**kw)

    def constraint_pairs(self, t):
        k = t.int()
        return [(t.int(), t.f32()) for _ in range(k)]

    def constraints(self, t):
        c = self.m.SpatioTemporalConstraints()
        c.add_constraints(self.constraint_pairs(t))
        return c

    def options(self, t):
        o = self.m.VisualSortOptions()
        k = t.int()
        for _ in range(k):
            name = t.next()
            if name == 'visual_metric':
                kind = t.next()
                thr = t.f32()
                if kind == 'euclid':
                    arg = self.m.VisualSortMetricType.euclidean(thr)
                elif kind == 'cosine':
                    arg = self.m.VisualSortMetricType.cosine(thr)
                else:
                    raise ValueError('bad visual metric ' + kind)
            elif name == 'positional_metric':
                kind = t.next()
                if kind == 'iou':
                    arg = self.m.PositionalMetricType.iou(t.f32())
                elif kind == 'maha':
                    arg = self.m.PositionalMetricType.maha()
                else:
                    raise ValueError('bad positional metric ' + kind)
            elif name == 'spatio_temporal_constraints':
                arg = self.constraints(t)
            elif name in ('max_idle_epochs', 'kept_history_length', 'visual_min_votes', 'visual_minimal_track_length',
                          'visual_max_observations'):
                arg = t.int()
            elif name in ('visual_minimal_area', 'visual_minimal_quality_use', 'positional_min_confidence',
                          'visual_minimal_quality_collect', 'visual_minimal_own_area_percentage_use',
                          'visual_minimal_own_area_percentage_collect', 'kalman_position_weight',
                          'kalman_velocity_weight'):
                arg = t.f32()
            else:
                raise ValueError('bad option name ' + name)
            getattr(o, name)(arg)
        return o

    def method(self, t):
        x = t.next()
        if x == 'iou':
            return self.m.PositionalMetricType.iou(t.f32())
        if x == 'maha':
            return self.m.PositionalMetricType.maha()
        if x == 'none':
            return None
        raise ValueError('bad METHOD ' + x)

    def opt_constraints(self, t):
        x = t.next()
        if x == 'none':
            return None
        if x == 'c':
            return self.constraints(t)
        raise ValueError('bad CONSTR ' + x)

    def det(self, t, visual):
        box = self.u6(t)
        custom = t.opt_int()
        if not visual:
            return (box, custom)
        quality = t.opt_f32()
        nt = t.next()          # a count, or `e` for a feature list that is present but empty
        if nt == 'e':
            feature = []
        else:
            n = int(nt)
            feature = [t.f32() for _ in range(n)] if n > 0 else None
        return self.m.VisualSortObservation(feature, quality, box, custom)

    def dets(self, t, visual):
        n = t.int()
        return [self.det(t, visual) for _ in range(n)]

    # ---- trackers

    def trk_new(self, t):
        kind = t.next()
        if kind in ('sort', 'bsort'):
            nexpl = t.next()
            if kind == 'sort':
                names = self.ctor_params('Sort', ['shards', 'bbox_history', 'max_idle_epochs', 'method', 'min_confidence',
                                                  'spatio_temporal_constraints', 'kalman_position_weight',
                                                  'kalman_velocity_weight'])
                values = [t.int()]
            else:
                names = self.ctor_params('BatchSort', ['distance_shards', 'voting_shards', 'bbox_history', 'max_idle_epochs',
                                                       'method', 'min_confidence', 'spatio_temporal_constraints',
                                                       'kalman_position_weight', 'kalman_velocity_weight'])
                values = [t.int(), t.int()]
            values += [t.int(), t.int(), self.method(t), t.f32(), self.opt_constraints(t), t.f32(), t.f32()]
            n = len(values) if nexpl == 'all' else int(nexpl)
            kw = dict(list(zip(names, values))[:n])
            self.trk = (self.m.Sort if kind == 'sort' else self.m.BatchSort)(**kw)
        elif kind == 'visual':
            shards = t.int()
            self.trk = self.m.VisualSort(shards, self.options(t))
        elif kind == 'bvisual':
            dshards, vshards = t.int(), t.int()
            self.trk = self.m.BatchVisualSort(dshards, vshards, self.options(t))
        else:
            return 'UNKNOWN-KIND ' + kind
        self.kind = kind
        return 'OK'

    def track(self, o):
        """a track of the tracker slot; the batch kinds print the per-scene rank of first appearance as the id
        (their raw ids depend on the scheduling of the voting jobs of different scenes)"""
        if self.kind not in ('bsort', 'bvisual'):
            return self.val(o)
        scene, raw = self.scene_and_id(o)
        m = self.ren.setdefault(scene, {})
        k = m.setdefault(raw, len(m))
        return self.val(o, {self.field_getter(type(o).__name__, 'id'): str(k)})

    def tracks(self, v):
        return lst([self.track(x) for x in v])

    def trk_op(self, t):
        op = t.next()
        if op == 'new':
            self.reset()
            return self.trk_new(t)
        tr, kind = self.trk, self.kind
        if tr is None:
            return 'NO-TRACKER'
        visual = kind in ('visual', 'bvisual')
        batch = kind in ('bsort', 'bvisual')
        if op in ('predict', 'predicts'):
            if batch:
                return 'UNKNOWN-OP ' + op
            scene = t.int() if op == 'predicts' else None
            d = self.dets(t, visual)
            if visual:
                arg = self.m.VisualSortObservationSet()
                for o in d:
                    arg.add(o)
            else:
                arg = d
            res = tr.predict(arg) if scene is None else tr.predict_with_scene(scene, arg)
            return self.tracks(res)
        if op == 'bpredict':
            if not batch:
                return 'UNKNOWN-OP ' + op
            ns = t.int()
            req = self.m.VisualSortPredictionBatchRequest() if visual else self.m.SortPredictionBatchRequest()
            for _ in range(ns):
                scene = t.int()
                for d in self.dets(t, visual):
                    if visual:
                        req.add(scene, d)
                    else:
                        req.add(scene, d[0], d[1])
            r = tr.predict(req)
            n = r.batch_size()
            got = sorted((r.get() for _ in range(n)), key=lambda e: e[0])
            out = [str(n)]
            for scene, trs in got:
                out.append('[ %d %s ]' % (scene, self.tracks(trs)))
            return ' '.join(out)
        if op == 'skip':
            tr.skip_epochs(t.int())
            return 'OK'
        if op == 'skipscene':
            scene, n = t.int(), t.int()
            tr.skip_epochs_for_scene(scene, n)
            return 'OK'
        if op == 'epoch':
            return self.val(tr.current_epoch())
        if op == 'epochscene':
            return self.val(tr.current_epoch_with_scene(t.int()))
        if op == 'idle':
            res = tr.idle_tracks(0) if batch else tr.idle_tracks()
            return self.tracks(self.by_id(res))
        if op == 'idlescene':
            scene = t.int()
            if batch:
                res = tr.idle_tracks(scene)
            elif hasattr(tr, 'idle_tracks_with_scene'):
                res = tr.idle_tracks_with_scene(scene)
            else:
                res = tr.idle_tracks_with_scene_py(scene)
            return self.tracks(self.by_id(res))
        if op == 'wasted':
            return self.tracks(self.by_id(tr.wasted()))
        if op == 'clearw':
            tr.clear_wasted()
            return 'OK'
        if op == 'stats':
            st = tr.shard_stats()
            if batch:
                # the shard of a track is its raw id modulo the number of shards: only the number of shards
                # and the total are independent of the scheduling of the voting jobs
                st = [len(st), sum(st)]
            return self.val(st)
        return 'UNKNOWN-OP ' + op

    # ---- the family

    def run(self, t):
        m = self.m
        op = t.next()
        if op == 'bbox':
            l, tp, w, h = t.f32(), t.f32(), t.f32(), t.f32()
            c = t.opt_f32()
            b = m.BoundingBox(l, tp, w, h) if c is None else m.BoundingBox.new_with_confidence(l, tp, w, h, c)
            return self.val(b) + ' ' + self.val(b.as_xyaah())
        if op == 'bboxset':
            b = m.BoundingBox(t.f32(), t.f32(), t.f32(), t.f32())
            for _ in range(t.int()):
                field = t.next()
                v = t.f32()
                if field not in ('left', 'top', 'width', 'height', 'confidence'):
                    raise ValueError('bad BoundingBox field ' + field)
                setattr(b, field, v)
            return self.val(b)
        if op == 'ubox':
            u = self.u6(t)
            return ' '.join([self.val(u), self.val(u.get_radius()), self.val(u.area()), self.ltwh_or_err(u.as_ltwh),
                             self.points(u.get_vertices())])
        if op == 'uboxset':
            u = self.u5(t)
            for _ in range(t.int()):
                name = t.next()
                if name in ('xc', 'yc', 'aspect', 'height', 'confidence'):
                    setattr(u, name, t.f32())
                elif name == 'angle':
                    u.angle = t.opt_f32()
                elif name == 'rotate':
                    u.rotate(t.f32())
                elif name == 'genv':
                    t.next()
                    u.gen_vertices()
                else:
                    raise ValueError('bad Universal2DBox op ' + name)
            return self.val(u) + ' ' + self.points(u.get_vertices())
        if op == 'ltwh':
            l, tp, w, h = t.f32(), t.f32(), t.f32(), t.f32()
            c = t.opt_f32()
            u = m.Universal2DBox.ltwh(l, tp, w, h) if c is None else m.Universal2DBox.ltwh_with_confidence(l, tp, w, h, c)
            return self.val(u)
        if op == 'nms':
            n = t.int()
            detections = [(self.u5(t), t.opt_f32()) for _ in range(n)]
            nms_thr = t.f32()
            score_thr = t.opt_f32()
            return self.val(m.nms(detections, nms_thr, score_thr))
        if op == 'clip':
            a, b = self.u5(t), self.u5(t)
            return self.points(m.sutherland_hodgman_clip(a, b)) + ' ' + self.val(m.intersection_area(a, b))
        if op == 'kfbox':
            f = self.kf('Universal2DBoxKalmanFilter', t)
            inverted = self.inv(t)
            n = t.int()

            def show(s):
                return self.val(s.universal_bbox()) + ' ' + self.ltwh_or_err(s.bbox)

            s = f.initiate(self.u5(t))
            out = [show(s)]
            for _ in range(1, n):
                b = self.u5(t)
                s = f.predict(s)
                out.append(show(s))
                d = f.distance(s, b)
                c = f.calculate_cost(d, inverted)
                s = f.update(s, b)
                out += [self.val(d), self.val(c), show(s)]
            return ' '.join(out)
        if op == 'kfpt':
            f = self.kf('Point2DKalmanFilter', t)
            inverted = self.inv(t)
            n = t.int()

            def show(s):
                return self.val(s.x()) + ' ' + self.val(s.y())

            s = f.initiate(t.f32(), t.f32())
            out = [show(s)]
            for _ in range(1, n):
                x, y = t.f32(), t.f32()
                s = f.predict(s)
                out.append(show(s))
                d = f.distance(s, x, y)
                c = f.calculate_cost(d, inverted)
                s = f.update(s, x, y)
                out += [self.val(d), self.val(c), show(s)]
            return ' '.join(out)
        if op == 'kfvec':
            f = self.kf('Vec2DKalmanFilter', t)
            inverted = self.inv(t)
            npts = t.int()
            n = t.int()

            def frame():
                return [(t.f32(), t.f32()) for _ in range(npts)]

            def show(s):
                return lst(self.val((p.x(), p.y())) for p in s)

            s = f.initiate(frame())
            out = [show(s)]
            for _ in range(1, n):
                z = frame()
                s = f.predict(s)
                out.append(show(s))
                ds = f.distance(s, z)
                cs = f.calculate_cost(ds, inverted)
                s = f.update(s, z)
                out += [self.val(ds), self.val(cs), show(s)]
            return ' '.join(out)
        if op == 'constr':
            c = self.constraints(t)
            q = t.int()
            out = []
            for _ in range(q):
                epoch, dist = t.int(), t.f32()
                out.append(self.val(c.validate(epoch, dist)))
            return ' '.join(out)
        if op == 'opts':
            return text(repr(self.options(t)))
        if op == 'trk':
            return self.trk_op(t)
        return 'UNKNOWN-OP ' + op

    def answer(self, request):
        t = Toks(request)
        t.next()  # `py`
        try:
            return self.run(t)
        except (KeyboardInterrupt, SystemExit):
            raise
        except BaseException as e:  # pyo3's PanicException derives from BaseException
            name = type(e).__name__
            if name == 'PanicException':
                return 'PANIC'
            return 'EXC ' + name


def worker(args):
    """answer the request lines of ONE case read from stdin (one answer line per input line, flushed at once)"""
    sys.path.insert(0, args.module_dir)
    import similari
    with open(args.table) as f:
        table = json.load(f)
    ex = Executor(similari, table)
    out = sys.stdout
    for line in sys.stdin:
        line = line.rstrip('\n')
        request = line.split(' => ', 1)[0].strip()
        if request.startswith('case'):
            ex.reset()
            out.write(line + '\n')
        elif request.startswith('py '):
            out.write(line + ' => ' + ex.answer(request) + '\n')
        else:
            out.write(line + '\n')
        out.flush()


HANG_LIMIT = 3          # after this many hung cases the rest of the run is not executed any more
CASE_TIMEOUT = 25.0     # seconds without a new answer line
STARTUP_TIMEOUT = 120.0 # … before the first answer of a fresh worker (interpreter start + import of the module)


def main():
    """Supervisor: every case runs in a fresh interpreter (so that a replay of one case behaves exactly as it did in
    the full run: the bindings' logging bridge caches per process), and a call that never returns is detected:
    the worker is killed, the unanswered request is answered `PANIC hang …`, the remaining requests of the case `EXC Skipped`."""
    import subprocess, threading, queue
    ap = argparse.ArgumentParser()
    ap.add_argument('--module-dir', required=True)
    ap.add_argument('--table', required=True)
    ap.add_argument('--worker', action='store_true')
    args = ap.parse_args()
    if args.worker:
        return worker(args)
    lines = [l.rstrip('\n') for l in sys.stdin]
    cases, cur = [], []
    for l in lines:
        if l.split(' => ', 1)[0].strip().startswith('case') and cur:
            cases.append(cur); cur = []
        cur.append(l)
    if cur: cases.append(cur)
    out = sys.stdout
    hangs = 0
    for case in cases:
        if not any(l.startswith('py ') for l in case):
            out.write('\n'.join(case) + '\n'); continue
        if hangs >= HANG_LIMIT:
            for l in case:
                out.write(l + (' => EXC Skipped-after-hangs' if l.startswith('py ') else '') + '\n')
            continue
        # A worker that gives no answer at all to the first Python request (it died while starting, or the start —
        # interpreter, import of the debug-built module — took longer than the timeout on a loaded machine) is an artefact of
        # the executor, not of the bindings: the case is started again, up to three times, with a longer first-answer timeout.
        # A call that really never returns (F10) does so again and is reported.
        for attempt in range(3):
            first_py = next((k for k, l in enumerate(case) if l.startswith('py ')), len(case))
            p = subprocess.Popen([sys.executable, os.path.abspath(__file__), '--worker', '--module-dir', args.module_dir, '--table', args.table],
                                 stdin=subprocess.PIPE, stdout=subprocess.PIPE, text=True)
            q = queue.Queue()
            def pump(stream=p.stdout):
                for l in stream:
                    q.put(l.rstrip('\n'))
                q.put(None)
            threading.Thread(target=pump, daemon=True).start()
            try:
                p.stdin.write('\n'.join(case) + '\n'); p.stdin.close()
            except BrokenPipeError:
                pass
            got = []
            while len(got) < len(case):
                try:
                    a = q.get(timeout=(STARTUP_TIMEOUT if len(got) <= first_py else CASE_TIMEOUT))
                except queue.Empty:
                    a = 'TIMEOUT'
                if a is None or a == 'TIMEOUT':
                    break
                got.append(a)
            if len(got) <= first_py and len(got) < len(case) and attempt < 2:
                p.kill(); p.wait()
                continue
            if len(got) < len(case):
                hung = p.poll() is None
                p.kill()
                if hung: hangs += 1
                blamed = False
                for l in case[len(got):]:
                    if not l.startswith('py '):
                        got.append(l)
                    elif not blamed:
                        blamed = True
                        got.append(l + (' => PANIC hang: the Python call did not return within %d s' % int(CASE_TIMEOUT) if hung
                                        else ' => PANIC the Python interpreter died (exit code %s)' % p.returncode))
                    else:
                        got.append(l + ' => EXC Skipped')
            break
        p.wait()
        out.write('\n'.join(got) + '\n')
    out.flush()


if __name__ == '__main__':
    main()
