//! `box conv|poly|eq|beq|norm …`, `geom inter u1 u2`; a universal box is `xc yc angle|- aspect height`
use crate::wire::*;
use crate::Ctx;
use geo::CoordsIter;
use similari::track::ObservationAttributes;
use similari::utils::bbox::{normalize_angle, BoundingBox, Universal2DBox};

pub fn ubox(t: &mut Toks) -> Universal2DBox {
    let xc = t.f32();
    let yc = t.f32();
    let angle = t.opt_f32();
    let aspect = t.f32();
    let height = t.f32();
    Universal2DBox::new(xc, yc, angle, aspect, height)
}

fn b2s(b: bool) -> &'static str {
    if b {
        "1"
    } else {
        "0"
    }
}

fn cs(u: &Universal2DBox) -> (f64, f64) {
    let a = u.angle.unwrap_or(0.0) as f64;
    (a.cos(), a.sin())
}

pub fn exec_box(_ctx: &mut Ctx, t: &mut Toks) -> String {
    match t.next() {
        "conv" => {
            let b = BoundingBox::new_with_confidence(t.f32(), t.f32(), t.f32(), t.f32(), t.f32());
            let u = b.as_xyaah();
            let back = BoundingBox::try_from(&u).unwrap();
            [u.xc, u.yc, u.aspect, u.height, back.left, back.top, back.width, back.height]
                .iter()
                .map(|x| f32_tok(*x))
                .collect::<Vec<_>>()
                .join(" ")
        }
        op @ ("poly" | "polystale" | "polyregen") => {
            let u = ubox(t);
            if op == "polyregen" {
                // the box carries a vertex cache generated under another geometry and `gen_vertices()` is called AGAIN after the
                // fields changed: the polygon it now carries (what `intersection` / the metrics clip with) must be the current rectangle
                let mut u = stale(&u);
                u.gen_vertices();
                let (c, s) = cs(&u);
                // (`gen_vertices` generates for rotated boxes only: an axis-aligned box is asked for its polygon the usual way)
                let p = match (u.angle, u.get_cached_vertices()) {
                    (Some(_), Some(p)) => p.clone(),
                    _ => u.get_vertices(),
                };
                let mut out = format!("{} {}", f64_tok(c), f64_tok(s));
                for q in p.exterior().coords_iter().take(4) {
                    out.push_str(&format!(" {} {}", f64_tok(q.x), f64_tok(q.y)));
                }
                out.push_str(&format!(" {} {}", f32_tok(u.area()), f32_tok(u.get_radius())));
                return out;
            }
            // `polystale`: the box carries a vertex cache generated under another geometry (gen_vertices, then the public
            // fields / rotate_mut changed): get_vertices, area and radius must depend on the current fields only
            let u = if op == "polystale" { stale(&u) } else { u };
            let (c, s) = cs(&u);
            let p = u.get_vertices();
            let mut out = format!("{} {}", f64_tok(c), f64_tok(s));
            let pts: Vec<_> = p.exterior().coords_iter().collect();
            for q in pts.iter().take(4) {
                out.push_str(&format!(" {} {}", f64_tok(q.x), f64_tok(q.y)));
            }
            out.push_str(&format!(" {} {}", f32_tok(u.area()), f32_tok(u.get_radius())));
            out
        }
        "polyrot" => {
            // gen_vertices() on the box, then the consuming `rotate(angle)`: the polygon the rotated box carries / clips with
            // must be the rectangle at the NEW angle. Answer: cos sin of the new angle, the cached polygon (4 points or `-`),
            // the area of `rotated.sutherland_hodgman_clip(fresh box at the new angle)`
            let mut u = ubox(t);
            let angle = t.f32();
            u.gen_vertices();
            let r = u.rotate(angle);
            let fresh = Universal2DBox::new(r.xc, r.yc, r.angle, r.aspect, r.height);
            let (c, s) = cs(&fresh);
            let mut out = format!("{} {}", f64_tok(c), f64_tok(s));
            match r.get_cached_vertices() {
                Some(p) => {
                    out.push_str(" P");
                    for q in p.exterior().coords_iter().take(4) {
                        out.push_str(&format!(" {} {}", f64_tok(q.x), f64_tok(q.y)));
                    }
                }
                None => out.push_str(" -"),
            }
            let clip = r.sutherland_hodgman_clip(fresh.clone());
            out.push_str(&format!(" {} {}", f64_tok(geo::Area::unsigned_area(&clip)), f32_tok(fresh.area())));
            out
        }
        "eq" => {
            let a = ubox(t);
            let b = ubox(t);
            format!("{} {} {}", b2s(a == b), b2s(b == a), b2s(a == a))
        }
        "beq" => {
            let a = BoundingBox::new_with_confidence(t.f32(), t.f32(), t.f32(), t.f32(), t.f32());
            let b = BoundingBox::new_with_confidence(t.f32(), t.f32(), t.f32(), t.f32(), t.f32());
            format!("{} {} {}", b2s(a == b), b2s(b == a), b2s(a == a))
        }
        "norm" => f32_tok(normalize_angle(t.f32())),
        x => format!("UNKNOWN-OP {x}"),
    }
}

/// the same box, but its vertex cache was generated while it had another geometry and it was then
/// mutated through the public fields / rotate_mut: results must depend on the current fields only
fn stale(u: &Universal2DBox) -> Universal2DBox {
    let mut b = Universal2DBox::new(u.xc + 3.0, u.yc - 2.0, Some(u.angle.unwrap_or(0.0) + 0.7), u.aspect * 1.5, u.height * 0.5);
    b.gen_vertices();
    b.xc = u.xc;
    b.yc = u.yc;
    b.aspect = u.aspect;
    b.height = u.height;
    match u.angle {
        Some(a) => b.rotate_mut(a),
        None => b.angle = None,
    }
    b
}

pub fn exec_geom(_ctx: &mut Ctx, t: &mut Toks) -> String {
    match t.next() {
        op @ ("inter" | "interstale") => {
            let mut a = ubox(t);
            let mut b = ubox(t);
            if op == "interstale" {
                a = stale(&a);
                b = stale(&b);
            }
            let (c1, s1) = cs(&a);
            let (c2, s2) = cs(&b);
            let tf = Universal2DBox::too_far(&a, &b);
            let i = Universal2DBox::intersection(&a, &b);
            let iou = Universal2DBox::calculate_metric_object(&Some(&a), &Some(&b));
            let ir = Universal2DBox::intersection(&b, &a);
            let iour = Universal2DBox::calculate_metric_object(&Some(&b), &Some(&a));
            let d = Universal2DBox::dist_in_2r(&a, &b);
            format!(
                "{} {} {} {} {} {} {} {} {} {}",
                f64_tok(c1),
                f64_tok(s1),
                f64_tok(c2),
                f64_tok(s2),
                b2s(tf),
                f64_tok(i),
                opt_f32_tok(iou),
                f64_tok(ir),
                opt_f32_tok(iour),
                f32_tok(d)
            )
        }
        x => format!("UNKNOWN-OP {x}"),
    }
}


/// `own n (xc yc angle|- aspect height)*` — `exclusively_owned_areas` + `…_normalized_shares` on the set;
/// per box: `cos sin` (f64), the 4 vertices of `Polygon::from(&box)`, `area()` (f32), the owned area (f64), the share (f32)
pub fn exec_own(ctx: &mut Ctx, t: &mut Toks) -> String {
    exec_own_with(ctx, t, false)
}

/// `ownc …`: the same question on boxes that carried **another geometry when their vertices were generated**: each box is
/// first built elsewhere (shifted, turned, rescaled), `gen_vertices()` is called, then its public fields are set to the
/// requested geometry. The owned areas are a function of the boxes' current fields, so the answer must be that of `own`.
pub fn exec_ownc(ctx: &mut Ctx, t: &mut Toks) -> String {
    exec_own_with(ctx, t, true)
}

fn exec_own_with(_ctx: &mut Ctx, t: &mut Toks, moved_after_gen: bool) -> String {
    use geo::{Area, Polygon};
    use similari::utils::clipping::bbox_own_areas::{exclusively_owned_areas, exclusively_owned_areas_normalized_shares};
    let n = t.usize();
    let boxes: Vec<Universal2DBox> = (0..n)
        .map(|_| {
            let b = ubox(t);
            if !moved_after_gen {
                return b;
            }
            let mut old = Universal2DBox::new(b.xc + 7.0, b.yc - 3.0, Some(b.angle.unwrap_or(0.0) + 0.5), b.aspect * 1.3, b.height * 0.7);
            old.gen_vertices();
            old.xc = b.xc;
            old.yc = b.yc;
            old.angle = b.angle;
            old.aspect = b.aspect;
            old.height = b.height;
            old.confidence = b.confidence;
            old
        })
        .collect();
    let refs: Vec<&Universal2DBox> = boxes.iter().collect();
    let polys = exclusively_owned_areas(&refs);
    let shares = exclusively_owned_areas_normalized_shares(&refs, &polys);
    let mut out = format!("OWN {} {}", polys.len(), shares.len());
    for (i, b) in boxes.iter().enumerate() {
        let (c, s) = cs(b);
        out.push_str(&format!(" {} {}", f64_tok(c), f64_tok(s)));
        let p = Polygon::<f64>::from(b);
        let pts: Vec<_> = p.exterior().coords_iter().collect();
        for q in pts.iter().take(4) {
            out.push_str(&format!(" {} {}", f64_tok(q.x), f64_tok(q.y)));
        }
        out.push_str(&format!(
            " {} {} {}",
            f32_tok(b.area()),
            polys.get(i).map(|p| f64_tok(p.unsigned_area())).unwrap_or("-".into()),
            shares.get(i).map(|x| f32_tok(*x)).unwrap_or("-".into())
        ));
    }
    out
}
