//! `vote topn N maxD minVotes k (q w d|-)*k` / `vote best maxD minVotes k (..)*k` /
//! `vote hung thr cnum tnum k (q t attr|-)*k`
use crate::wire::*;
use crate::Ctx;
use similari::track::ObservationMetricOk;
use similari::trackers::sort::voting::SortVoting;
use similari::utils::bbox::Universal2DBox;
use similari::voting::best::BestFitVoting;
use similari::voting::topn::{TopNVoting, TopNVotingElt};
use similari::voting::Voting;
use std::collections::HashMap;

fn stream_feat(t: &mut Toks) -> Vec<ObservationMetricOk<Universal2DBox>> {
    let k = t.usize();
    (0..k)
        .map(|_| {
            let q = t.u64();
            let w = t.u64();
            let d = t.opt_f32();
            ObservationMetricOk::new(q, w, None, d)
        })
        .collect()
}

fn show_map(m: HashMap<u64, Vec<TopNVotingElt>>) -> String {
    let mut keys: Vec<u64> = m.keys().copied().collect();
    keys.sort();
    let mut s = keys.len().to_string();
    for k in keys {
        let v = &m[&k];
        s.push_str(&format!(" {} {}", k, v.len()));
        for e in v {
            assert_eq!(e.query_track, k);
            s.push_str(&format!(" {} {}", e.winner_track, f64_tok(e.weight)));
        }
    }
    s
}

pub fn exec(_ctx: &mut Ctx, t: &mut Toks) -> String {
    match t.next() {
        "topn" => {
            let n = t.usize();
            let maxd = t.f32();
            let mv = t.usize();
            let s = stream_feat(t);
            show_map(TopNVoting::<Universal2DBox>::new(n, maxd, mv).winners(s))
        }
        "best" => {
            let maxd = t.f32();
            let mv = t.usize();
            let s = stream_feat(t);
            show_map(BestFitVoting::<Universal2DBox>::new(maxd, mv).winners(s))
        }
        "hung" => {
            let thr = t.f32();
            let cnum = t.usize();
            let tnum = t.usize();
            let k = t.usize();
            let s: Vec<ObservationMetricOk<Universal2DBox>> = (0..k)
                .map(|_| {
                    let q = t.u64();
                    let w = t.u64();
                    let a = t.opt_f32();
                    ObservationMetricOk::new(q, w, a, None)
                })
                .collect();
            let m = SortVoting::new(thr, cnum, tnum).winners(s);
            let mut keys: Vec<u64> = m.keys().copied().collect();
            keys.sort();
            let mut out = keys.len().to_string();
            for k in keys {
                assert_eq!(m[&k].len(), 1);
                out.push_str(&format!(" {} {}", k, m[&k][0]));
            }
            out
        }
        x => format!("UNKNOWN-OP {x}"),
    }
}
