//! `smetric <iou thr|maha> minconf k (track boxes: xc yc angle|- aspect height conf)*k (candidate box)`
//! SortMetric through `Track::distances`: a stored-like track built from k observations and a
//! candidate with one observation. Reports the boxes the metric actually sees, the cos/sin of their
//! angles, the track's raw Kalman state and the resulting entries.
use crate::wire::*;
use crate::Ctx;
use similari::prelude::*;
use similari::trackers::kalman_prediction::TrackAttributesKalmanPrediction;
use similari::trackers::sort::metric::SortMetric;
use similari::trackers::sort::{PositionalMetricType, SortAttributes, SortAttributesOptions, SortAttributesUpdate};
use similari::trackers::spatio_temporal_constraints::SpatioTemporalConstraints;
use std::sync::Arc;

fn cbox(t: &mut Toks) -> Universal2DBox {
    let xc = t.f32();
    let yc = t.f32();
    let angle = t.opt_f32();
    let aspect = t.f32();
    let height = t.f32();
    let conf = t.f32();
    Universal2DBox::new_with_confidence(xc, yc, angle, aspect, height, conf)
}

fn show_box(b: &Universal2DBox) -> String {
    let a = b.angle.unwrap_or(0.0) as f64;
    format!(
        "{} {} {} {} {} {} {} {}",
        f32_tok(b.xc),
        f32_tok(b.yc),
        opt_f32_tok(b.angle),
        f32_tok(b.aspect),
        f32_tok(b.height),
        f32_tok(b.confidence),
        f64_tok(a.cos()),
        f64_tok(a.sin())
    )
}

/// `weighted`: `smetricw <method> minconf wp wv k …` — the Kalman position / velocity weights of the track options
pub fn exec(_ctx: &mut Ctx, t: &mut Toks, weighted: bool) -> String {
    let method = match t.next() {
        "iou" => PositionalMetricType::IoU(t.f32()),
        _ => PositionalMetricType::Mahalanobis,
    };
    let minconf = t.f32();
    let (wp, wv) = if weighted { (t.f32(), t.f32()) } else { (1.0 / 20.0, 1.0 / 160.0) };
    let k = t.usize();
    let opts = Arc::new(SortAttributesOptions::new(None, 10, 5, SpatioTemporalConstraints::default(), wp, wv));
    let mk = |id: u64| {
        TrackBuilder::new(id)
            .attributes(SortAttributes::new(opts.clone()))
            .metric(SortMetric::new(method, minconf))
            .notifier(NoopNotifier)
    };
    let mut tb = mk(1);
    for i in 0..k {
        let b = cbox(t);
        tb = tb.observation(
            ObservationBuilder::new(0)
                .observation_attributes(b)
                .track_attributes_update(SortAttributesUpdate::new_with_scene(i + 1, 0, None))
                .build(),
        );
    }
    let track = tb.build().unwrap();
    let cb = cbox(t);
    let cand = mk(2)
        .observation(
            ObservationBuilder::new(0)
                .observation_attributes(cb)
                .track_attributes_update(SortAttributesUpdate::new_with_scene(k + 1, 0, None))
                .build(),
        )
        .build()
        .unwrap();
    let seen_c = cand.get_observations(0).unwrap()[0].attr().as_ref().unwrap().clone();
    let seen_t = track.get_observations(0).unwrap()[0].attr().as_ref().unwrap().clone();
    let (mean, cov) = track.get_attributes().get_state().unwrap().verif_raw();
    let mut st: Vec<String> = mean.iter().map(|x| f32_tok(*x)).collect();
    for i in 0..5 {
        st.push(f32_tok(cov[i * 10 + i]));
        st.push(f32_tok(cov[i * 10 + 5 + i]));
        st.push(f32_tok(cov[(5 + i) * 10 + 5 + i]));
    }
    st.push(f32_tok(0.0));
    let d = cand.distances(&track, 0).unwrap();
    let mut out = format!("C {} T {} S {} N {}", show_box(&seen_c), show_box(&seen_t), st.join(" "), d.len());
    for e in d {
        out.push_str(&format!(" {}", opt_f32_tok(e.attribute_metric)));
    }
    out
}
