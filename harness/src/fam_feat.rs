//! `feat pack n (f32)*n` → unpack(pack v); `feat dist n (f32)*n m (f32)*m` → e(a,b) e(b,a) c(a,b) c(b,a) e(a,a) c(a,a)
use crate::wire::*;
use crate::Ctx;
use similari::distance::{cosine, euclidean};
use similari::track::utils::FromVec;
use similari::track::Feature;

fn vec(t: &mut Toks) -> Vec<f32> {
    let n = t.usize();
    (0..n).map(|_| t.f32()).collect()
}

pub fn exec(_ctx: &mut Ctx, t: &mut Toks) -> String {
    match t.next() {
        "pack" => {
            let v = vec(t);
            let f = Feature::from_vec(&v);
            let back: Vec<f32> = Vec::from_vec(&f);
            let mut s = back.len().to_string();
            for x in back {
                s.push(' ');
                s.push_str(&f32_tok(x));
            }
            s
        }
        "dist" => {
            let a = Feature::from_vec(vec(t));
            let b = Feature::from_vec(vec(t));
            [
                euclidean(&a, &b),
                euclidean(&b, &a),
                cosine(&a, &b),
                cosine(&b, &a),
                euclidean(&a, &a),
                cosine(&a, &a),
            ]
            .iter()
            .map(|x| f32_tok(*x))
            .collect::<Vec<_>>()
            .join(" ")
        }
        x => format!("UNKNOWN-OP {x}"),
    }
}
