//! `track …` / `store …`: the generic Track / TrackStore driven with scriptable callbacks.
//!
//! Callbacks are pure functions of their inputs (mirrored in lean/SimVerif/Driver/StoreCb.lean):
//!  apply(u, attrs)      : fails iff u.fail; else attrs.a += u.delta
//!  attrs.merge(other)   : fails iff other.a mod 7 == 6; else self.a += other.a
//!  optimize(...)        : state += 1; attrs.b += |history| + prev_length + state (so the metric state is observable); stable sort by oa descending (None = -1000);
//!                         fails (AFTER these mutations) iff is_merge && some oa == 13, or !is_merge && some oa == -1; truncate(4)
//!  compatible(a, b)     : (a.a + b.a) mod 3 != 0
//!  baked(attrs)         : a mod 4 -> Ready / Pending / Wasted / Err
//!  metric(...)          : None iff (oa_c + oa_t + class) mod 5 == 0; else (Some(oa_c - oa_t), |f_c - f_t| if both features)
//!  postprocess          : drops entries whose attribute metric is Some(0)
//!  lookup(k)            : (attrs.a + |history|) mod k == 0
use crate::wire::*;
use crate::Ctx;
use anyhow::{anyhow, Result};
use similari::prelude::{ObservationBuilder, TrackStoreBuilder};
use similari::track::notify::ChangeNotifier;
use similari::track::utils::FromVec;
use similari::track::{
    Feature, LookupRequest, MetricOutput, MetricQuery, Observation, ObservationAttributes, ObservationMetric,
    ObservationMetricOk, ObservationsDb, Track, TrackAttributes, TrackAttributesUpdate, TrackStatus,
};
use similari::store::TrackStore;
use similari::Errors;
use std::sync::atomic::{AtomicU64, Ordering};
use std::sync::Arc;

#[derive(Clone, Debug)]
pub struct HO(pub i64);
impl ObservationAttributes for HO {
    type MetricObject = i64;
    fn calculate_metric_object(_l: &Option<&Self>, _r: &Option<&Self>) -> Option<i64> {
        None
    }
}

#[derive(Clone, Debug, Default)]
pub struct HAttrs {
    pub a: i64,
    pub b: i64,
}

#[derive(Clone, Debug)]
pub struct HUpdate {
    pub delta: i64,
    pub fail: bool,
}
impl TrackAttributesUpdate<HAttrs> for HUpdate {
    fn apply(&self, attrs: &mut HAttrs) -> Result<()> {
        if self.fail {
            return Err(anyhow!("apply"));
        }
        attrs.a += self.delta;
        Ok(())
    }
}

#[derive(Clone, Debug)]
pub struct HLookup(pub i64);
impl LookupRequest<HAttrs, HO> for HLookup {
    fn lookup(&self, attrs: &HAttrs, _obs: &ObservationsDb<HO>, hist: &[u64]) -> bool {
        (attrs.a + hist.len() as i64).rem_euclid(self.0) == 0
    }
}

impl TrackAttributes<HAttrs, HO> for HAttrs {
    type Update = HUpdate;
    type Lookup = HLookup;
    fn compatible(&self, other: &HAttrs) -> bool {
        (self.a + other.a).rem_euclid(3) != 0
    }
    fn merge(&mut self, other: &HAttrs) -> Result<()> {
        if other.a.rem_euclid(7) == 6 {
            return Err(anyhow!("attr-merge"));
        }
        self.a += other.a;
        Ok(())
    }
    fn baked(&self, _obs: &ObservationsDb<HO>) -> Result<TrackStatus> {
        match self.a.rem_euclid(4) {
            0 => Ok(TrackStatus::Ready),
            1 => Ok(TrackStatus::Pending),
            2 => Ok(TrackStatus::Wasted),
            _ => Err(anyhow!("baked")),
        }
    }
}

#[derive(Clone, Debug, Default)]
pub struct HMetric {
    pub state: i64,
}
fn oa_of(o: &Observation<HO>) -> Option<i64> {
    o.attr().as_ref().map(|x| x.0)
}
fn feat_of(o: &Observation<HO>) -> Option<i64> {
    o.feature().as_ref().map(|f| Vec::from_vec(f)[0] as i64)
}
impl ObservationMetric<HAttrs, HO> for HMetric {
    fn metric(&self, mq: &MetricQuery<'_, HAttrs, HO>) -> MetricOutput<i64> {
        let c = oa_of(mq.candidate_observation).unwrap_or(0);
        let t = oa_of(mq.track_observation).unwrap_or(0);
        if (c + t + mq.feature_class as i64).rem_euclid(5) == 0 {
            return None;
        }
        let fd = match (feat_of(mq.candidate_observation), feat_of(mq.track_observation)) {
            (Some(x), Some(y)) => Some((x - y).abs() as f32),
            _ => None,
        };
        Some((Some(c - t), fd))
    }
    fn optimize(
        &mut self,
        _cls: u64,
        hist: &[u64],
        attrs: &mut HAttrs,
        obs: &mut Vec<Observation<HO>>,
        prev: usize,
        is_merge: bool,
    ) -> Result<()> {
        self.state += 1;
        attrs.b += hist.len() as i64 + prev as i64 + self.state;
        obs.sort_by(|x, y| oa_of(y).unwrap_or(-1000).cmp(&oa_of(x).unwrap_or(-1000)));
        let poison = if is_merge { 13 } else { -1 };
        if obs.iter().any(|o| oa_of(o) == Some(poison)) {
            return Err(anyhow!("optimize"));
        }
        obs.truncate(4);
        Ok(())
    }
    fn postprocess_distances(&self, v: Vec<ObservationMetricOk<HO>>) -> Vec<ObservationMetricOk<HO>> {
        v.into_iter().filter(|e| e.attribute_metric != Some(0)).collect()
    }
}

#[derive(Clone)]
pub struct HNotifier(pub Arc<AtomicU64>);
impl ChangeNotifier for HNotifier {
    fn send(&mut self, _id: u64) {
        self.0.fetch_add(1, Ordering::SeqCst);
    }
}

pub type HTrack = Track<HAttrs, HMetric, HO, HNotifier>;
pub type HStore = TrackStore<HAttrs, HMetric, HO, HNotifier>;

pub struct StoreCtx {
    pub store: Option<HStore>,
    pub tracks: Vec<Option<HTrack>>,
    pub notes: Arc<AtomicU64>,
    pub defaults: (i64, i64),
}
impl Default for StoreCtx {
    fn default() -> Self {
        StoreCtx {
            store: None,
            tracks: (0..4).map(|_| None).collect(),
            notes: Arc::new(AtomicU64::new(0)),
            defaults: (0, 0),
        }
    }
}

fn err_tok(e: &anyhow::Error) -> String {
    match e.downcast_ref::<Errors>() {
        Some(Errors::DuplicateTrackId(_)) => "DUP".into(),
        Some(Errors::TrackNotFound(_)) => "NOTFOUND".into(),
        Some(Errors::SameTrackCalculation(_)) => "SAME".into(),
        Some(Errors::IncompatibleAttributes) => "INCOMPAT".into(),
        Some(Errors::ObservationForClassNotFound(..)) => "NOCLASS".into(),
        Some(_) => "OTHER".into(),
        None => "CB".into(),
    }
}
fn res_tok<T>(r: &Result<T>) -> String {
    match r {
        Ok(_) => "OK".into(),
        Err(e) => err_tok(e),
    }
}

fn opt_i(x: Option<i64>) -> String {
    x.map(|v| v.to_string()).unwrap_or("-".into())
}

pub fn dump_track(t: &HTrack) -> String {
    let a = t.get_attributes();
    let mut classes = t.get_feature_classes();
    classes.sort();
    // the metric state is private; it is observable through attrs.b (see optimize)
    let mut s = format!("{} {} {} {}", t.get_track_id(), a.a, a.b, nat_list(&t.get_merge_history().iter().map(|x| *x as usize).collect::<Vec<_>>()));
    s.push_str(&format!(" {}", classes.len()));
    for c in classes {
        let obs = t.get_observations(c).unwrap();
        s.push_str(&format!(" {} {}", c, obs.len()));
        for o in obs {
            s.push_str(&format!(" {} {}", opt_i(oa_of(o)), opt_i(feat_of(o))));
        }
    }
    s
}

fn dump_store(st: &HStore, shards: usize) -> String {
    let mut s = String::new();
    for k in 0..shards {
        let g = st.get_store(k);
        let mut ids: Vec<u64> = g.keys().copied().collect();
        ids.sort();
        s.push_str(&format!(" S {}", ids.len()));
        for id in ids {
            s.push_str(" T ");
            s.push_str(&dump_track(&g[&id]));
        }
    }
    s
}

fn obs_spec(t: &mut Toks) -> (u64, Option<HO>, Option<Feature>, Option<HUpdate>) {
    let cls = t.u64();
    let oa = t.opt_i64().map(HO);
    let feat = t.opt_i64().map(|f| Feature::from_vec(vec![f as f32]));
    let u = upd(t);
    (cls, oa, feat, u)
}
fn upd(t: &mut Toks) -> Option<HUpdate> {
    let tok = t.next();
    if tok == "-" {
        None
    } else {
        let (d, f) = tok.split_once(':').unwrap();
        Some(HUpdate {
            delta: d.parse().unwrap(),
            fail: f == "1",
        })
    }
}
fn classes(t: &mut Toks) -> Option<Vec<u64>> {
    let tok = t.next();
    if tok == "-" {
        None
    } else {
        let k: usize = tok.parse().unwrap();
        Some((0..k).map(|_| t.u64()).collect())
    }
}

/// `id a b nobs (cls oa feat upd)*` built like `store.new_track(id)...build()` but with explicit default attrs
fn build_track(c: &StoreCtx, t: &mut Toks) -> Result<HTrack> {
    let id = t.u64();
    let a = t.i64();
    let b = t.i64();
    let n = t.usize();
    let mut bld = similari::prelude::TrackBuilder::new(id)
        .metric(HMetric::default())
        .attributes(HAttrs { a, b })
        .notifier(HNotifier(c.notes.clone()));
    for _ in 0..n {
        let (cls, oa, feat, u) = obs_spec(t);
        let mut ob = ObservationBuilder::new(cls);
        if let Some(oa) = oa {
            ob = ob.observation_attributes(oa);
        }
        if let Some(f) = feat {
            ob = ob.observation(f);
        }
        if let Some(u) = u {
            ob = ob.track_attributes_update(u);
        }
        bld = bld.observation(ob.build());
    }
    bld.build()
}

fn show_dists(mut v: Vec<ObservationMetricOk<HO>>) -> String {
    v.sort_by_key(|e| (e.from, e.to, e.attribute_metric, e.feature_distance.map(|x| x as i64)));
    let mut s = v.len().to_string();
    for e in v {
        s.push_str(&format!(
            " {} {} {} {}",
            e.from,
            e.to,
            opt_i(e.attribute_metric),
            opt_i(e.feature_distance.map(|x| x as i64))
        ));
    }
    s
}

fn status_tok(r: &Result<TrackStatus>) -> &'static str {
    match r {
        Ok(TrackStatus::Ready) => "READY",
        Ok(TrackStatus::Pending) => "PENDING",
        Ok(TrackStatus::Wasted) => "WASTED",
        Err(_) => "ERR",
    }
}
fn show_status(mut v: Vec<(u64, Result<TrackStatus>)>) -> String {
    v.sort_by_key(|e| e.0);
    let mut s = v.len().to_string();
    for (id, r) in v {
        s.push_str(&format!(" {} {}", id, status_tok(&r)));
    }
    s
}

pub fn exec_track(ctx: &mut Ctx, t: &mut Toks) -> String {
    let c = &mut ctx.store;
    let n0 = c.notes.load(Ordering::SeqCst);
    let (res, slot) = match t.next() {
        "new" => {
            let slot = t.usize();
            let r = build_track(c, t);
            let tok = res_tok(&r);
            c.tracks[slot] = r.ok();
            (tok, slot)
        }
        "add" => {
            let slot = t.usize();
            if c.tracks[slot].is_none() {
                return "EMPTY | NONE | 0".into();
            }
            let (cls, oa, feat, u) = obs_spec(t);
            let r = c.tracks[slot].as_mut().unwrap().add_observation(cls, oa, feat, u);
            (res_tok(&r), slot)
        }
        "merge" => {
            let dst = t.usize();
            let src = t.usize();
            if c.tracks[dst].is_none() || c.tracks[src].is_none() {
                return "EMPTY | NONE | 0".into();
            }
            let cls = classes(t).unwrap_or_default();
            let flag = t.usize() == 1;
            let s = c.tracks[src].as_ref().unwrap().clone();
            let r = c.tracks[dst].as_mut().unwrap().merge(&s, &cls, flag);
            (res_tok(&r), dst)
        }
        x => return format!("UNKNOWN-OP {x}"),
    };
    let n1 = c.notes.load(Ordering::SeqCst);
    let d = match &c.tracks[slot] {
        Some(tr) => dump_track(tr),
        None => "NONE".into(),
    };
    format!("{} | {} | {}", res, d, n1 - n0)
}

pub fn exec_store(ctx: &mut Ctx, t: &mut Toks) -> String {
    let c = &mut ctx.store;
    let op = t.next();
    if op == "new" {
        let shards = t.usize();
        let a = t.i64();
        let b = t.i64();
        c.defaults = (a, b);
        c.store = Some(
            TrackStoreBuilder::new(shards)
                .metric(HMetric::default())
                .default_attributes(HAttrs { a, b })
                .notifier(HNotifier(c.notes.clone()))
                .build(),
        );
        return format!("OK |{} | 0", dump_store(c.store.as_ref().unwrap(), shards));
    }
    if op == "sched" {
        // plan for the next distance query
        let (m, _) = &*crate::sched::SCHED;
        let mut st = m.lock().unwrap();
        *st = crate::sched::State::default();
        st.active = true;
        match t.next() {
            "order" => {
                let k = t.usize();
                st.order = (0..k).map(|_| t.u64()).collect();
            }
            "workersfirst" => st.window_waits_for = usize::MAX,
            "callerfirst" => st.hold_workers = true,
            _ => {}
        }
        return "OK".into();
    }
    let n0 = c.notes.load(Ordering::SeqCst);
    let shards = c.store.as_ref().unwrap().shard_stats().len();
    let mut trace_suffix = String::new();
    let res: String = match op {
        "addt" => {
            let tr = build_track(c, t);
            match tr {
                Ok(tr) => res_tok(&c.store.as_mut().unwrap().add_track(tr)),
                Err(e) => format!("BUILD-{}", err_tok(&e)),
            }
        }
        "add" => {
            let id = t.u64();
            let (cls, oa, feat, u) = obs_spec(t);
            res_tok(&c.store.as_mut().unwrap().add(id, cls, oa, feat, u))
        }
        "fetch" => {
            let k = t.usize();
            let ids: Vec<u64> = (0..k).map(|_| t.u64()).collect();
            let v = c.store.as_mut().unwrap().fetch_tracks(&ids);
            let mut s = format!("FETCHED {}", v.len());
            for tr in v {
                s.push_str(" T ");
                s.push_str(&dump_track(&tr));
            }
            s
        }
        "mext" | "mextnb" => {
            let dest = t.u64();
            let src = build_track(c, t);
            let cls = classes(t);
            let flag = t.usize() == 1;
            match src {
                Err(e) => format!("BUILD-{}", err_tok(&e)),
                Ok(src) => {
                    let st = c.store.as_mut().unwrap();
                    if op == "mext" {
                        res_tok(&st.merge_external(dest, &src, cls.as_deref(), flag))
                    } else {
                        match st.merge_external_noblock(dest, src, cls.as_deref(), flag) {
                            Ok(f) => res_tok(&f.get()),
                            Err(e) => err_tok(&e),
                        }
                    }
                }
            }
        }
        "mown" => {
            let dest = t.u64();
            let src = t.u64();
            let cls = classes(t);
            let remove = t.usize() == 1;
            let flag = t.usize() == 1;
            let r = c.store.as_mut().unwrap().merge_owned(dest, src, cls.as_deref(), remove, flag);
            match r {
                Ok(Some(tr)) => format!("OK-REMOVED T {}", dump_track(&tr)),
                Ok(None) => "OK".into(),
                Err(e) => err_tok(&e),
            }
        }
        "lookup" => {
            let k = t.i64();
            show_status(c.store.as_ref().unwrap().lookup(HLookup(k)))
        }
        "usable" => show_status(c.store.as_mut().unwrap().find_usable()),
        "clear" => {
            c.store.as_ref().unwrap().clear();
            "OK".into()
        }
        "stats" => nat_list(&c.store.as_ref().unwrap().shard_stats()),
        "fdist" | "odist" | "fdisti" | "odisti" => {
            let cls = t.u64();
            let only_baked = t.usize() == 1;
            let k = t.usize();
            let st_ref = &mut *c;
            let iter_mode = op.ends_with('i');
            let (ok, err) = if op.starts_with("fdist") {
                let mut cands = Vec::new();
                let mut bad = None;
                for _ in 0..k {
                    match build_track(st_ref, t) {
                        Ok(tr) => cands.push(tr),
                        Err(e) => bad = Some(err_tok(&e)),
                    }
                }
                if let Some(b) = bad {
                    return format!("BUILD-{} |{} | 0", b, dump_store(st_ref.store.as_ref().unwrap(), shards));
                }
                st_ref.store.as_mut().unwrap().foreign_track_distances(cands, cls, only_baked)
            } else {
                let ids: Vec<u64> = (0..k).map(|_| t.u64()).collect();
                {
                    // "workers first": the caller waits in the window until every queued command has run
                    let present = ids.iter().filter(|i| st_ref.store.as_ref().unwrap().get_store(**i as usize).contains_key(i)).count();
                    let (m, _) = &*crate::sched::SCHED;
                    let mut s = m.lock().unwrap();
                    if s.window_waits_for == usize::MAX {
                        s.window_waits_for = present * shards;
                    }
                }
                let r = st_ref.store.as_mut().unwrap().owned_track_distances(&ids, cls, only_baked);
                crate::sched::release();
                r
            };
            // results are read either in one go or through the streaming iterators
            let (oks, errs): (Vec<ObservationMetricOk<HO>>, Vec<_>) = if iter_mode {
                (ok.into_iter().collect(), err.into_iter().collect())
            } else {
                (ok.all(), err.all())
            };
            {
                let active = crate::sched::SCHED.0.lock().unwrap().active;
                if active {
                    let (trace, timeouts) = crate::sched::finish(0);
                    trace_suffix = format!(" | T {} {}", timeouts, nat_list(&trace.iter().map(|x| *x as usize).collect::<Vec<_>>()));
                }
            }
            let mut nerr = 0;
            for e in errs {
                if e.is_err() {
                    nerr += 1;
                }
            }
            format!("{} E {}", show_dists(oks), nerr)
        }
        x => return format!("UNKNOWN-OP {x}"),
    };
    let n1 = c.notes.load(Ordering::SeqCst);
    format!("{} |{} | {}{}", res, dump_store(c.store.as_ref().unwrap(), shards), n1 - n0, trace_suffix)
}
