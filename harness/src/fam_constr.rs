//! `constr new | add k (gap limit)* | val gap dist`
use crate::wire::*;
use crate::Ctx;
use similari::trackers::spatio_temporal_constraints::SpatioTemporalConstraints;

pub fn exec(ctx: &mut Ctx, t: &mut Toks) -> String {
    match t.next() {
        "new" => {
            ctx.constr = SpatioTemporalConstraints::new();
            "ok".into()
        }
        "add" => {
            let k = t.usize();
            let mut v = Vec::new();
            for _ in 0..k {
                let g = t.usize();
                let l = t.f32();
                v.push((g, l));
            }
            ctx.constr.add_constraints(v);
            "ok".into()
        }
        "val" => {
            let g = t.usize();
            let d = t.f32();
            if ctx.constr.validate(g, d) { "1".into() } else { "0".into() }
        }
        x => format!("UNKNOWN-OP {x}"),
    }
}
