//! `kf box|point|vec traj …`, `kf cost box|point|vec d inverted`
//! States are reported as: mean (2n floats), then per coordinate i the covariance entries
//! (i,i), (i,n+i), (n+i,n+i), then the largest absolute value among all other entries and asymmetries.
use crate::wire::*;
use crate::Ctx;
use nalgebra::Point2;
use similari::utils::bbox::Universal2DBox;
use similari::utils::kalman::kalman_2d_box::Universal2DBoxKalmanFilter;
use similari::utils::kalman::kalman_2d_point::Point2DKalmanFilter;
use similari::utils::kalman::kalman_2d_point_vec::Vec2DKalmanFilter;
use similari::utils::kalman::KalmanState;

fn show<const X: usize>(s: &KalmanState<X>) -> String {
    let (mean, cov) = s.verif_raw();
    let n = X / 2;
    let mut out: Vec<String> = mean.iter().map(|x| f32_tok(*x)).collect();
    let at = |i: usize, j: usize| cov[i * X + j];
    let mut off = 0.0f32;
    for i in 0..X {
        for j in 0..X {
            let pattern = i == j || (i < n && j == n + i) || (j < n && i == n + j);
            if !pattern {
                off = off.max(at(i, j).abs());
            } else {
                off = off.max((at(i, j) - at(j, i)).abs());
            }
        }
    }
    for i in 0..n {
        out.push(f32_tok(at(i, i)));
        out.push(f32_tok(at(i, n + i)));
        out.push(f32_tok(at(n + i, n + i)));
    }
    out.push(f32_tok(off));
    out.join(" ")
}

fn ubox(t: &mut Toks) -> Universal2DBox {
    let xc = t.f32();
    let yc = t.f32();
    let angle = t.opt_f32();
    let aspect = t.f32();
    let height = t.f32();
    Universal2DBox::new(xc, yc, angle, aspect, height)
}

pub fn exec(_ctx: &mut Ctx, t: &mut Toks) -> String {
    let kind = t.next();
    let op = t.next();
    match (kind, op) {
        (_, "cost") => {
            let d = t.f32();
            let inv = t.usize() == 1;
            let v = match kind {
                "box" => Universal2DBoxKalmanFilter::calculate_cost(d, inv),
                "point" => Point2DKalmanFilter::calculate_cost(d, inv),
                _ => Vec2DKalmanFilter::calculate_cost(&[d], inv)[0],
            };
            f32_tok(v)
        }
        ("box", "traj") => {
            let wp = t.f32();
            let wv = t.f32();
            let n = t.usize();
            let f = Universal2DBoxKalmanFilter::new(wp, wv);
            let mut out = Vec::new();
            let b0 = ubox(t);
            let mut st = f.initiate(&b0);
            out.push(format!("I {}", show(&st)));
            for _ in 1..n {
                let b = ubox(t);
                st = f.predict(&st);
                out.push(format!("P {}", show(&st)));
                out.push(format!("D {}", f32_tok(f.distance(st, &b))));
                st = f.update(&st, &b);
                out.push(format!("U {}", show(&st)));
            }
            out.join(" ")
        }
        ("point", "traj") => {
            let wp = t.f32();
            let wv = t.f32();
            let n = t.usize();
            let f = Point2DKalmanFilter::new(wp, wv);
            let mut out = Vec::new();
            let p0 = Point2::from([t.f32(), t.f32()]);
            let mut st = f.initiate(&p0);
            out.push(format!("I {}", show(&st)));
            for _ in 1..n {
                let p = Point2::from([t.f32(), t.f32()]);
                st = f.predict(&st);
                out.push(format!("P {}", show(&st)));
                out.push(format!("D {}", f32_tok(f.distance(&st, &p))));
                st = f.update(&st, &p);
                out.push(format!("U {}", show(&st)));
            }
            out.join(" ")
        }
        ("vec", "traj") => {
            // the vector filter against one point filter per point, bit for bit
            let wp = t.f32();
            let wv = t.f32();
            let npts = t.usize();
            let n = t.usize();
            let vf = Vec2DKalmanFilter::new(wp, wv);
            let pf = Point2DKalmanFilter::new(wp, wv);
            let read = |t: &mut Toks| -> Vec<Point2<f32>> { (0..npts).map(|_| Point2::from([t.f32(), t.f32()])).collect() };
            let p0 = read(t);
            let mut vs = vf.initiate(&p0);
            let mut ps: Vec<_> = p0.iter().map(|p| pf.initiate(p)).collect();
            let mut same = true;
            for _ in 1..n {
                let z = read(t);
                vs = vf.predict(&vs);
                ps = ps.iter().map(|s| pf.predict(s)).collect();
                let dv = vf.distance(&vs, &z);
                let dp: Vec<f32> = ps.iter().zip(z.iter()).map(|(s, p)| pf.distance(s, p)).collect();
                same &= dv.iter().zip(dp.iter()).all(|(a, b)| a.to_bits() == b.to_bits());
                vs = vf.update(&vs, &z);
                ps = ps.iter().zip(z.iter()).map(|(s, p)| pf.update(s, p)).collect();
                same &= vs.iter().zip(ps.iter()).all(|(a, b)| a.verif_raw() == b.verif_raw());
            }
            let mut out = format!("{} {}", if same { 1 } else { 0 }, vs.len());
            for s in &vs {
                out.push_str(&format!(" {}", show(s)));
            }
            out
        }
        ("vec", "trajl") => {
            // as `traj`, but the last point joins the vector at frame `late` (initiated on its own and appended):
            // the elements of the state slice then have different histories
            let wp = t.f32();
            let wv = t.f32();
            let npts = t.usize();
            let n = t.usize();
            let late = t.usize();
            let vf = Vec2DKalmanFilter::new(wp, wv);
            let pf = Point2DKalmanFilter::new(wp, wv);
            let read = |t: &mut Toks| -> Vec<Point2<f32>> { (0..npts).map(|_| Point2::from([t.f32(), t.f32()])).collect() };
            let p0 = read(t);
            let mut vs = vf.initiate(&p0[..npts - 1]);
            let mut ps: Vec<_> = p0[..npts - 1].iter().map(|p| pf.initiate(p)).collect();
            let mut same = true;
            for i in 1..n {
                let z = read(t);
                let k = vs.len();
                vs = vf.predict(&vs);
                ps = ps.iter().map(|s| pf.predict(s)).collect();
                let dv = vf.distance(&vs, &z[..k]);
                let dp: Vec<f32> = ps.iter().zip(z.iter()).map(|(s, p)| pf.distance(s, p)).collect();
                same &= dv.iter().zip(dp.iter()).all(|(a, b)| a.to_bits() == b.to_bits());
                vs = vf.update(&vs, &z[..k]);
                ps = ps.iter().zip(z.iter()).map(|(s, p)| pf.update(s, p)).collect();
                same &= vs.iter().zip(ps.iter()).all(|(a, b)| a.verif_raw() == b.verif_raw());
                if i == late {
                    vs.push(pf.initiate(&z[npts - 1]));
                    ps.push(pf.initiate(&z[npts - 1]));
                }
            }
            let mut out = format!("{} {}", if same { 1 } else { 0 }, vs.len());
            for s in &vs {
                out.push_str(&format!(" {}", show(s)));
            }
            out
        }
        _ => format!("UNKNOWN-OP {kind} {op}"),
    }
}
