//! `trk …`: the four trackers through their public API.
//!
//! Before every predict the distances the call is about to see are obtained through public API only
//! (candidate tracks built as the tracker's prologue does, `get_main_store_mut().foreign_track_distances`),
//! see DESIGN.md 3.3. After every operation the live and the wasted store are dumped.
use crate::wire::*;
use crate::Ctx;
use similari::prelude::*;
use similari::track::utils::FromVec;
use similari::track::{Feature, ObservationMetricOk, Track};
use similari::trackers::batch::PredictionBatchRequest;
use similari::trackers::sort::batch_api::BatchSort;
use similari::trackers::sort::metric::SortMetric;
use similari::trackers::sort::simple_api::Sort;
use similari::trackers::sort::{PositionalMetricType, SortAttributes, SortAttributesUpdate, VotingType};
use similari::trackers::spatio_temporal_constraints::SpatioTemporalConstraints;
use similari::trackers::tracker_api::TrackerAPI;
use similari::trackers::visual_sort::batch_api::BatchVisualSort;
use similari::trackers::visual_sort::metric::{VisualMetric, VisualSortMetricType};
use similari::trackers::visual_sort::observation_attributes::VisualObservationAttributes;
use similari::trackers::visual_sort::options::VisualSortOptions;
use similari::trackers::visual_sort::simple_api::VisualSort;
use similari::trackers::visual_sort::track_attributes::{VisualAttributes, VisualAttributesUpdate};
use similari::trackers::visual_sort::{VisualSortObservation, WastedVisualSortTrack};
use similari::utils::clipping::bbox_own_areas::{exclusively_owned_areas, exclusively_owned_areas_normalized_shares};
use std::collections::HashMap;

pub enum Trk {
    None,
    Sort(Sort),
    BatchSort(BatchSort),
    Visual(VisualSort),
    BatchVisual(BatchVisualSort),
}
impl Default for Trk {
    fn default() -> Self {
        Trk::None
    }
}

#[derive(Default)]
pub struct TrkCtx {
    pub t: Trk,
    pub visual: bool,
    pub own_area: bool,
    pub shards: usize,
    pub tokens: HashMap<(u32, u32), usize>,
    pub feat_tokens: HashMap<(u32, u32), usize>,
    pub next_tok: usize,
    /// per scene: canonical record stream (ids renamed by first appearance within the scene)
    pub log: HashMap<u64, Vec<String>>,
    pub log_ids: HashMap<u64, Vec<String>>,
    pub rename: HashMap<u64, HashMap<u64, usize>>,
    pub consumer_delay_us: u64,
}

#[derive(Default)]
pub struct TrkSlots {
    pub slots: Vec<TrkCtx>,
    pub cur: usize,
}

#[derive(Clone)]
pub struct DetIn {
    pub bbox: Universal2DBox,
    pub custom: Option<i64>,
    pub tok: usize,
    pub quality: Option<f32>,
    pub feature: Option<Vec<f32>>,
}

fn feat_key(f: &[f32]) -> (u32, u32) {
    (f[0].to_bits(), f[1 % f.len()].to_bits())
}

fn det(c: &mut TrkCtx, t: &mut Toks) -> DetIn {
    let xc = t.f32();
    let yc = t.f32();
    let angle = t.opt_f32();
    let aspect = t.f32();
    let height = t.f32();
    let conf = t.f32();
    let custom = t.opt_i64();
    c.next_tok += 1;
    c.tokens.insert((xc.to_bits(), yc.to_bits()), c.next_tok);
    let (mut quality, mut feature) = (None, None);
    if c.visual {
        quality = t.opt_f32();
        let n = t.usize();
        if n > 0 {
            let f: Vec<f32> = (0..n).map(|_| t.f32()).collect();
            // identical features are one feature (first token wins): the store dump cannot tell them apart
            let tok = c.next_tok;
            c.feat_tokens.entry(feat_key(&f)).or_insert(tok);
            feature = Some(f);
        }
    }
    DetIn {
        bbox: Universal2DBox::new_with_confidence(xc, yc, angle, aspect, height, conf),
        custom,
        tok: c.next_tok,
        quality,
        feature,
    }
}

fn opt_i(x: Option<i64>) -> String {
    x.map(|v| v.to_string()).unwrap_or("-".into())
}

fn tok_of(c: &TrkCtx, b: &Universal2DBox) -> usize {
    *c.tokens.get(&(b.xc.to_bits(), b.yc.to_bits())).unwrap_or(&0)
}

fn ftok_of(c: &TrkCtx, f: &Option<Feature>) -> usize {
    match f {
        None => 0,
        Some(f) => {
            let v: Vec<f32> = Vec::from_vec(f);
            *c.feat_tokens.get(&(v[0].to_bits(), v[1].to_bits())).unwrap_or(&0)
        }
    }
}

fn echo_ok(input: &Universal2DBox, out: &Universal2DBox) -> bool {
    let ang = |a: Option<f32>| a.unwrap_or(0.0).to_bits();
    input.xc.to_bits() == out.xc.to_bits()
        && input.yc.to_bits() == out.yc.to_bits()
        && input.aspect.to_bits() == out.aspect.to_bits()
        && input.height.to_bits() == out.height.to_bits()
        && input.confidence.to_bits() == out.confidence.to_bits()
        && ang(input.angle) == ang(out.angle)
}

fn vt_bit(v: VotingType) -> usize {
    match v {
        VotingType::Visual => 1,
        VotingType::Positional => 0,
    }
}

fn log_records(c: &mut TrkCtx, scene: u64, recs: &[SortTrack]) {
    let ren = c.rename.entry(scene).or_default();
    let log = c.log.entry(scene).or_default();
    let mut line = String::new();
    let ids_line: String = recs.iter().map(|r| format!("[{} e{} l{}]", r.id, r.epoch, r.length)).collect();
    c.log_ids.entry(scene).or_default().push(ids_line);
    for r in recs {
        let n = ren.len();
        let o = *ren.entry(r.id).or_insert(n);
        line.push_str(&format!(
            "[{} e{} l{} c{} v{} {:08x} {:08x}]",
            o,
            r.epoch,
            r.length,
            opt_i(r.custom_object_id),
            vt_bit(r.voting_type),
            r.observed_bbox.xc.to_bits(),
            r.observed_bbox.yc.to_bits()
        ));
    }
    log.push(line);
}

/// ` EV nthreads (len (kind arg)*)*`: the logged protocol events grouped by thread, in each thread's own order
fn show_events() -> String {
    let ev = crate::sched::EVENTS.lock().unwrap().clone();
    let mut threads: Vec<u64> = Vec::new();
    for e in &ev {
        if !threads.contains(&e.0) {
            threads.push(e.0);
        }
    }
    let mut s = format!(" EV {}", threads.len());
    for th in threads {
        let mine: Vec<_> = ev.iter().filter(|e| e.0 == th).collect();
        s.push_str(&format!(" {}", mine.len()));
        for e in mine {
            s.push_str(&format!(" {} {}", e.1, e.2));
        }
    }
    s
}

/// `preds`: for the tracks just reported, the last entry of the stored history of predicted boxes (when the store could be
/// read): the record's `predicted_bbox` must echo it bit for bit, as `observed_bbox` echoes the detection
fn show_records(c: &TrkCtx, dets: &[DetIn], recs: &[SortTrack], preds: &HashMap<u64, Universal2DBox>) -> String {
    let mut s = format!("R {}", recs.len());
    for (i, r) in recs.iter().enumerate() {
        let pe = preds.get(&r.id).map(|p| echo_ok(p, &r.predicted_bbox)).unwrap_or(true);
        let e = pe && dets.get(i).map(|d| echo_ok(&d.bbox, &r.observed_bbox)).unwrap_or(false);
        s.push_str(&format!(
            " {} {} {} {} {} {} {} {}",
            r.id,
            r.epoch,
            r.scene_id,
            r.length,
            opt_i(r.custom_object_id),
            vt_bit(r.voting_type),
            if e { 1 } else { 0 },
            tok_of(c, &r.observed_bbox)
        ));
    }
    s
}

type STrack = Track<SortAttributes, SortMetric, Universal2DBox>;
type VTrack = Track<VisualAttributes, VisualMetric, VisualObservationAttributes>;

fn dump_sort_track(c: &TrkCtx, t: &STrack) -> String {
    let a = t.get_attributes();
    let obs: Vec<usize> = a.observed_boxes.iter().map(|b| tok_of(c, b)).collect();
    format!(
        "{} {} {} {} {} {} {}",
        t.get_track_id(),
        a.scene_id,
        a.last_updated_epoch,
        a.track_length,
        opt_i(a.custom_object_id),
        nat_list(&obs),
        a.predicted_boxes.len()
    )
}

/// a VisualSORT track: the SORT part, then `V vcount vt featHistory gallery(k (quality featTok hasBox)*)`
fn dump_vis_track(c: &TrkCtx, t: &VTrack) -> String {
    let a = t.get_attributes();
    let obs: Vec<usize> = a.observed_boxes.iter().map(|b| tok_of(c, b)).collect();
    let fh: Vec<usize> = a.observed_features.iter().map(|f| ftok_of(c, f)).collect();
    let mut s = format!(
        "{} {} {} {} {} {} {} V {} {} {}",
        t.get_track_id(),
        a.scene_id,
        a.last_updated_epoch,
        a.track_length,
        opt_i(a.custom_object_id),
        nat_list(&obs),
        a.predicted_boxes.len(),
        a.visual_features_collected_count,
        a.voting_type.map(vt_bit).map(|x| x.to_string()).unwrap_or("-".into()),
        nat_list(&fh)
    );
    let empty = Vec::new();
    let g = t.get_observations(0).unwrap_or(&empty);
    s.push_str(&format!(" {}", g.len()));
    for o in g {
        let at = o.attr().as_ref().unwrap();
        s.push_str(&format!(
            " {} {} {}",
            f32_tok(at.visual_quality()),
            ftok_of(c, o.feature()),
            if at.bbox_opt().is_some() { 1 } else { 0 }
        ));
    }
    s
}

macro_rules! dump_store {
    ($c:expr, $tr:expr, $dump:ident) => {{
        let mut out = String::new();
        for (name, wasted) in [("L", false), ("W", true)] {
            let mut v: Vec<(u64, String)> = Vec::new();
            for k in 0..$c.shards {
                let st = if wasted { $tr.get_wasted_store() } else { $tr.get_main_store() };
                let g = st.get_store(k);
                for (id, t) in g.iter() {
                    v.push((*id, $dump($c, t)));
                }
            }
            v.sort_by_key(|e| e.0);
            out.push_str(&format!(" {} {}", name, v.len()));
            for (_, d) in v {
                out.push(' ');
                out.push_str(&d);
            }
        }
        let a = $tr.active_shard_stats();
        let w = $tr.wasted_shard_stats();
        out.push_str(&format!(" A {} X {}", nat_list(&a), nat_list(&w)));
        out
    }};
}


/// last stored predicted box of each of the given tracks (live store)
macro_rules! preds_of {
    ($c:expr, $tr:expr, $recs:expr) => {{
        let mut m: HashMap<u64, Universal2DBox> = HashMap::new();
        for k in 0..$c.shards {
            let st = $tr.get_main_store();
            let g = st.get_store(k);
            for r in $recs.iter() {
                if let Some(t) = g.get(&r.id) {
                    if let Some(b) = t.get_attributes().predicted_boxes.back() {
                        m.insert(r.id, b.clone());
                    }
                }
            }
        }
        m
    }};
}

const CAND_BASE: u64 = 1 << 40;

fn show_table<OA: similari::track::ObservationAttributes<MetricObject = f32>>(v: Vec<ObservationMetricOk<OA>>) -> String {
    let mut v: Vec<_> = v.into_iter().map(|e| (e.from - CAND_BASE, e.to, e.attribute_metric, e.feature_distance)).collect();
    v.sort_by(|a, b| (a.0, a.1, a.2.map(|x| x.to_bits()), a.3.map(|x| x.to_bits())).cmp(&(b.0, b.1, b.2.map(|x| x.to_bits()), b.3.map(|x| x.to_bits()))));
    let mut s = format!("K {}", v.len());
    for (f, t, a, d) in v {
        s.push_str(&format!(" {} {} {} {}", f, t, opt_f32_tok(a), opt_f32_tok(d)));
    }
    s
}


/// ` C m (cand track gap dist)*`: for every (candidate, track) pair of the table the epoch gap and the centre distance in units
/// of the two bounding radii that `compatible()` applies the spatio-temporal constraints to (both read through public API:
/// the last predicted boxes of the candidate track and of the stored track)
macro_rules! geo_section {
    ($c:expr, $tr:expr, $cinfo:expr, $pairs:expr) => {{
        let mut s = format!(" C {}", $pairs.len());
        for (f, to) in $pairs.iter() {
            let mut found: Option<(usize, Universal2DBox)> = None;
            for k in 0..$c.shards {
                let st = $tr.get_main_store();
                let g = st.get_store(k);
                if let Some(t) = g.get(to) {
                    let a = t.get_attributes();
                    found = Some((a.last_updated_epoch, a.predicted_boxes.back().unwrap().clone()));
                }
            }
            let (ce, cb): &(usize, Universal2DBox) = &$cinfo[*f as usize];
            match found {
                Some((te, tb)) => {
                    let gap = (*ce as i64 - te as i64).abs();
                    s.push_str(&format!(" {} {} {} {}", f, to, gap, f32_tok(Universal2DBox::dist_in_2r(cb, &tb))));
                }
                None => s.push_str(&format!(" {} {} - -", f, to)),
            }
        }
        s
    }};
}

fn table_pairs<OA: similari::track::ObservationAttributes<MetricObject = f32>>(v: &[ObservationMetricOk<OA>]) -> Vec<(u64, u64)> {
    let mut p: Vec<(u64, u64)> = v.iter().map(|e| (e.from - CAND_BASE, e.to)).collect();
    p.sort();
    p.dedup();
    p
}

/// the distances a SORT-kind predict for `scene` is about to see
macro_rules! sort_table {
    ($c:expr, $tr:expr, $scene:expr, $dets:expr) => {{
        let epoch = $tr.current_epoch_with_scene($scene) + 1;
        let cands: Vec<STrack> = $dets
            .iter()
            .enumerate()
            .map(|(i, d)| {
                $tr.get_main_store()
                    .new_track(CAND_BASE + i as u64)
                    .observation(
                        ObservationBuilder::new(0)
                            .observation_attributes(d.bbox.clone())
                            .track_attributes_update(SortAttributesUpdate::new_with_scene(epoch, $scene, d.custom))
                            .build(),
                    )
                    .build()
                    .unwrap()
            })
            .collect();
        let cinfo: Vec<(usize, Universal2DBox)> = cands
            .iter()
            .map(|t| (t.get_attributes().last_updated_epoch, t.get_attributes().predicted_boxes.back().unwrap().clone()))
            .collect();
        let (ok, err) = $tr.get_main_store_mut().foreign_track_distances(cands, 0, false);
        let v = ok.all();
        let _ = err.all();
        let pairs = table_pairs(&v);
        let geo = geo_section!($c, $tr, cinfo, pairs);
        format!("{}{}", show_table(v), geo)
    }};
}

/// own-area shares as the VisualSORT prologue computes them
fn own_shares(c: &TrkCtx, dets: &[DetIn]) -> Vec<Option<f32>> {
    if !c.own_area {
        return dets.iter().map(|_| None).collect();
    }
    let boxes: Vec<&Universal2DBox> = dets.iter().map(|d| &d.bbox).collect();
    exclusively_owned_areas_normalized_shares(boxes.as_ref(), exclusively_owned_areas(boxes.as_ref()).as_ref())
        .into_iter()
        .map(Some)
        .collect()
}

/// the distances a VisualSORT predict for `scene` is about to see, plus per detection `area share|-`
macro_rules! vis_table {
    ($c:expr, $tr:expr, $scene:expr, $dets:expr) => {{
        let epoch = $tr.current_epoch_with_scene($scene) + 1;
        let shares = own_shares($c, $dets);
        let cands: Vec<VTrack> = $dets
            .iter()
            .enumerate()
            .map(|(i, d)| {
                let q = d.quality.unwrap_or(1.0);
                let attrs = match shares[i] {
                    Some(p) => VisualObservationAttributes::with_own_area_percentage(q, d.bbox.clone(), p),
                    None => VisualObservationAttributes::new(q, d.bbox.clone()),
                };
                let mut ob = ObservationBuilder::new(0).observation_attributes(attrs);
                if let Some(f) = &d.feature {
                    ob = ob.observation(Feature::from_vec(f.to_vec()));
                }
                $tr.get_main_store()
                    .new_track(CAND_BASE + i as u64)
                    .observation(ob.track_attributes_update(VisualAttributesUpdate::new_init_with_scene(epoch, $scene, d.custom)).build())
                    .build()
                    .unwrap()
            })
            .collect();
        let cinfo: Vec<(usize, Universal2DBox)> = cands
            .iter()
            .map(|t| (t.get_attributes().last_updated_epoch, t.get_attributes().predicted_boxes.back().unwrap().clone()))
            .collect();
        let (ok, err) = $tr.get_main_store_mut().foreign_track_distances(cands, 0, false);
        let v = ok.all();
        let _ = err.all();
        let pairs = table_pairs(&v);
        let geo = geo_section!($c, $tr, cinfo, pairs);
        let mut s = show_table(v);
        s.push_str(&format!(" G {}", $dets.len()));
        for (i, d) in $dets.iter().enumerate() {
            s.push_str(&format!(" {} {}", f32_tok(d.bbox.area()), opt_f32_tok(shares[i])));
        }
        s.push_str(&geo);
        s
    }};
}

fn constraints(t: &mut Toks) -> Option<SpatioTemporalConstraints> {
    let k = t.usize();
    if k == 0 {
        return None;
    }
    let v: Vec<(usize, f32)> = (0..k).map(|_| (t.usize(), t.f32())).collect();
    Some(SpatioTemporalConstraints::default().constraints(&v))
}

fn method(t: &mut Toks) -> PositionalMetricType {
    match t.next() {
        "iou" => PositionalMetricType::IoU(t.f32()),
        _ => PositionalMetricType::Mahalanobis,
    }
}

fn vobs<'a>(d: &'a DetIn) -> VisualSortObservation<'a> {
    VisualSortObservation::new(d.feature.as_deref(), d.quality, d.bbox.clone(), d.custom)
}

/// run `f` on the tracker in a helper thread; a hang (deadlock) is reported after `secs` seconds and the
/// tracker is abandoned with the stuck thread
fn with_watchdog<T: Send + 'static, R: Send + 'static>(tr: T, secs: u64, f: impl FnOnce(&mut T) -> R + Send + 'static) -> Option<(T, R)> {
    let (tx, rx) = std::sync::mpsc::channel();
    std::thread::spawn(move || {
        let mut tr = tr;
        let r = f(&mut tr);
        let _ = tx.send((tr, r));
    });
    rx.recv_timeout(std::time::Duration::from_secs(secs)).ok()
}

fn collect_batch(delay_us: u64, res: similari::trackers::batch::PredictionBatchResult) -> (Vec<(u64, Vec<SortTrack>)>, String) {
    let mut got: Vec<(u64, Vec<SortTrack>)> = Vec::new();
    if delay_us > 0 {
        // a slow consumer: with the bounded(1) channel at most one result can have been sent meanwhile
        std::thread::sleep(std::time::Duration::from_micros(delay_us));
        crate::sched::log_event('P', crate::sched::sent_so_far());
    }
    for _ in 0..res.batch_size() {
        let r = res.get();
        crate::sched::log_event('R', r.0);
        got.push(r);
    }
    // the monitor decrements may still be in flight: wait for them (up to 5 s on a loaded machine) before reading the log
    for _ in 0..25000 {
        let done = crate::sched::EVENTS.lock().unwrap().iter().filter(|e| e.1 == 'M').count();
        if done >= got.len() {
            break;
        }
        std::thread::sleep(std::time::Duration::from_micros(200));
    }
    got.sort_by_key(|e| e.0);
    (got, show_events())
}


/// pipelined use of a batch tracker: every batch is submitted as soon as the previous `predict` returned,
/// the results are retrieved by another thread (which may lag by `delay_us` per batch).
/// Returns per batch the results in arrival order, and how many submissions overlapped an unfinished retrieval.
macro_rules! pipe_run {
    ($s:expr, $batches:expr, $delay:expr, $obs_ty:ty, $mk:expr) => {{
        let (ctx, crx) = std::sync::mpsc::channel::<(usize, similari::trackers::batch::PredictionBatchResult)>();
        let retrieved = std::sync::Arc::new(std::sync::atomic::AtomicUsize::new(0));
        let retrieved2 = retrieved.clone();
        let delay: u64 = $delay;
        let consumer = std::thread::spawn(move || {
            let mut all: Vec<(usize, Vec<(u64, Vec<SortTrack>)>)> = Vec::new();
            for (k, res) in crx {
                if delay > 0 {
                    std::thread::sleep(std::time::Duration::from_micros(delay));
                }
                let mut got = Vec::new();
                for _ in 0..res.batch_size() {
                    got.push(res.get());
                }
                retrieved2.fetch_add(1, std::sync::atomic::Ordering::SeqCst);
                all.push((k, got));
            }
            all
        });
        let mut overlaps = 0usize;
        for (k, scenes) in $batches.iter().enumerate() {
            let (mut req, res) = PredictionBatchRequest::<$obs_ty>::new();
            for (scene, dets) in scenes {
                for d in dets {
                    req.add(*scene, $mk(d));
                }
            }
            if retrieved.load(std::sync::atomic::Ordering::SeqCst) < k {
                overlaps += 1;
            }
            $s.predict(req);
            let _ = ctx.send((k, res));
        }
        drop(ctx);
        (consumer.join().ok(), overlaps)
    }};
}

fn show_pipe(c: &mut TrkCtx, batches: &[Vec<(u64, Vec<DetIn>)>], all: Vec<(usize, Vec<(u64, Vec<SortTrack>)>)>, overlaps: usize) -> String {
    let mut out = format!("PIPE {} OV {}", batches.len(), overlaps);
    let mut all = all;
    all.sort_by_key(|e| e.0);
    for (k, got) in all {
        out.push_str(&format!(" B {} {}", k, got.len()));
        for (scene, recs) in got {
            let dets = batches[k].iter().find(|e| e.0 == scene).map(|e| e.1.clone()).unwrap_or_default();
            log_records(c, scene, &recs);
            out.push_str(&format!(" S {} {}", scene, show_records(c, &dets, &recs, &HashMap::new())));
        }
    }
    out
}

fn sort_wasted(c: &TrkCtx, tr: STrack) -> String {
    let wt: similari::trackers::sort::WastedSortTrack = tr.into();
    format!("{} {} {} {} {}", wt.id, wt.scene_id, wt.epoch, wt.length, nat_list(&wt.observed_boxes.iter().map(|b| tok_of(c, b)).collect::<Vec<_>>()))
}

fn vis_wasted(c: &TrkCtx, tr: VTrack) -> String {
    let wt: WastedVisualSortTrack = tr.into();
    format!("{} {} {} {} {}", wt.id, wt.scene_id, wt.epoch, wt.length, nat_list(&wt.observed_boxes.iter().map(|b| tok_of(c, b)).collect::<Vec<_>>()))
}

macro_rules! api_op {
    ($c:expr, $s:expr, $op:expr, $t:expr, $dump:ident, $wasted:ident) => {{
        let res: String = match $op {
            "skip" => {
                let scene = $t.u64();
                let n = $t.usize();
                // scene 0 has a scene-less convenience API: exercised for odd n (content-based, so replays agree)
                if scene == 0 && n % 2 == 1 { $s.skip_epochs(n); } else { $s.skip_epochs_for_scene(scene, n); }
                "OK".to_string()
            }
            "wasted" => {
                let mut w: Vec<String> = $s.wasted().into_iter().map(|tr| $wasted($c, tr)).collect();
                w.sort_by_key(|e| e.split(' ').next().unwrap().parse::<u64>().unwrap());
                format!("H {} {}", w.len(), w.join(" "))
            }
            "idle" => {
                let scene = $t.u64();
                let mut ids: Vec<usize> = if scene == 0 {
                    // both forms of the call for scene 0 must agree
                    let a: Vec<usize> = $s.idle_tracks().iter().map(|r| r.id as usize).collect();
                    let mut b: Vec<usize> = $s.idle_tracks_with_scene(0).iter().map(|r| r.id as usize).collect();
                    let mut a2 = a.clone(); a2.sort(); b.sort();
                    if a2 != b { vec![usize::MAX] } else { a }
                } else { $s.idle_tracks_with_scene(scene).iter().map(|r| r.id as usize).collect() };
                ids.sort();
                format!("I {}", nat_list(&ids))
            }
            "clearw" => {
                $s.clear_wasted();
                "OK".into()
            }
            "setaw" => {
                $s.set_auto_waste($t.usize());
                "OK".into()
            }
            "epoch" => {
                let scene = $t.u64();
                let e = $s.current_epoch_with_scene(scene);
                // scene 0: the scene-less form must agree
                if scene == 0 && $s.current_epoch() != e { format!("E {}", usize::MAX) } else { format!("E {}", e) }
            }
            x => format!("UNKNOWN-OP {x}"),
        };
        format!("{}{}", res, dump_store!($c, $s, $dump))
    }};
}

pub fn exec(ctx: &mut Ctx, t: &mut Toks) -> String {
    let slots = &mut ctx.trk;
    if slots.slots.is_empty() {
        slots.slots.push(TrkCtx::default());
    }
    let first = t.next();
    if first == "sel" {
        let k = t.usize();
        while slots.slots.len() <= k {
            slots.slots.push(TrkCtx::default());
        }
        slots.cur = k;
        return "OK".into();
    }
    if first == "sched" {
        // `trk sched jitter <seed>` / `trk sched off`: seeded random delays of the store workers
        let (m, _) = &*crate::sched::SCHED;
        let mut st = m.lock().unwrap();
        let kind = t.next();
        let prev = (st.jitter_count, st.interleaved);
        if kind == "slowvote" {
            // `trk sched slowvote <us>`: every voting job of the batch trackers starts with this delay (kept until `off`)
            st.vote_delay_us = t.u64();
            return format!("OK {} {}", prev.0, prev.1);
        }
        *st = crate::sched::State::default();
        if kind == "jitter" {
            st.active = true;
            st.jitter = Some(t.u64());
        }
        return format!("OK {} {}", prev.0, prev.1);
    }
    if first == "cmp" || first == "cmpids" {
        let a = t.usize();
        let b = t.usize();
        let scene = t.u64();
        let pick = |c: &TrkCtx| if first == "cmpids" { c.log_ids.get(&scene).cloned() } else { c.log.get(&scene).cloned() };
        let la = slots.slots.get(a).and_then(pick).unwrap_or_default();
        let lb = slots.slots.get(b).and_then(pick).unwrap_or_default();
        if la == lb {
            return format!("SAME {}", la.len());
        }
        let i = la.iter().zip(lb.iter()).position(|(x, y)| x != y).unwrap_or(la.len().min(lb.len()));
        // track ids come from one counter shared by all scenes: a tie resolved in another scene shifts the ids of this one;
        // report whether the logs agree up to the renaming of ids as well
        let ga = slots.slots.get(a).and_then(|c| c.log.get(&scene).cloned()).unwrap_or_default();
        let gb = slots.slots.get(b).and_then(|c| c.log.get(&scene).cloned()).unwrap_or_default();
        return format!("DIFF {} {} {} {}", i, la.get(i).cloned().unwrap_or("-".into()).replace(' ', "_"), lb.get(i).cloned().unwrap_or("-".into()).replace(' ', "_"),
            if ga == gb { "GSAME" } else { "GDIFF" });
    }
    let cur = slots.cur;
    let c = &mut slots.slots[cur];
    match first {
        "new" => {
            let kind = t.next();
            let shards = t.usize();
            let vshards = t.usize();
            let hist = t.usize();
            let max_idle = t.usize();
            let m = method(t);
            let minconf = t.f32();
            let cons = constraints(t);
            c.shards = shards;
            c.visual = kind == "visual" || kind == "bvisual";
            if c.visual {
                // `V euclid|cosine thr minVotes minLen maxObs qUse qCollect minArea ownUse ownCollect`
                assert_eq!(t.next(), "V");
                let vk = match t.next() {
                    "cosine" => VisualSortMetricType::cosine(t.f32()),
                    _ => VisualSortMetricType::euclidean(t.f32()),
                };
                let min_votes = t.usize();
                let min_len = t.usize();
                let max_obs = t.usize();
                let q_use = t.f32();
                let q_collect = t.f32();
                let min_area = t.f32();
                let own_use = t.f32();
                let own_collect = t.f32();
                c.own_area = own_use + own_collect > 0.0;
                let mut o = VisualSortOptions::default()
                    .max_idle_epochs(max_idle)
                    .kept_history_length(hist)
                    .visual_metric(vk)
                    .positional_metric(m)
                    .positional_min_confidence(minconf)
                    .visual_min_votes(min_votes)
                    .visual_minimal_track_length(min_len)
                    .visual_max_observations(max_obs)
                    .visual_minimal_quality_use(q_use)
                    .visual_minimal_quality_collect(q_collect)
                    .visual_minimal_area(min_area)
                    .visual_minimal_own_area_percentage_use(own_use)
                    .visual_minimal_own_area_percentage_collect(own_collect);
                if let Some(cs) = cons {
                    o = o.spatio_temporal_constraints(cs);
                }
                c.t = if kind == "visual" {
                    Trk::Visual(VisualSort::new(shards, &o))
                } else {
                    Trk::BatchVisual(BatchVisualSort::new(shards, vshards, &o))
                };
                return "OK".into();
            }
            c.t = match kind {
                "sort" => Trk::Sort(Sort::new(shards, hist, max_idle, m, minconf, cons, 1.0 / 20.0, 1.0 / 160.0)),
                "bsort" => Trk::BatchSort(BatchSort::new(shards, vshards, hist, max_idle, m, minconf, cons, 1.0 / 20.0, 1.0 / 160.0)),
                x => return format!("UNKNOWN-KIND {x}"),
            };
            "OK".into()
        }
        "predict" => {
            // `predict nscenes (scene n det*)*` — one scene for the simple trackers, a batch for the batch ones
            let ns = t.usize();
            let mut scenes: Vec<(u64, Vec<DetIn>)> = Vec::new();
            for _ in 0..ns {
                let scene = t.u64();
                let n = t.usize();
                let dets: Vec<DetIn> = (0..n).map(|_| det(c, t)).collect();
                scenes.push((scene, dets));
            }
            let mut out = String::new();
            let mut trace_suffix = String::new();
            let mut tr = std::mem::take(&mut c.t);
            match &mut tr {
                Trk::Sort(s) => {
                    let (scene, dets) = &scenes[0];
                    out.push_str(&sort_table!(c, s, *scene, dets));
                    let input: Vec<(Universal2DBox, Option<i64>)> = dets.iter().map(|d| (d.bbox.clone(), d.custom)).collect();
                    // scene 0 with an odd number of detections goes through the scene-less convenience call
                    let recs = if *scene == 0 && dets.len() % 2 == 1 { s.predict(&input) } else { s.predict_with_scene(*scene, &input) };
                    log_records(c, *scene, &recs);
                    let preds = preds_of!(c, s, recs);
                    out.push_str(&format!(" S {} {}", scene, show_records(c, dets, &recs, &preds)));
                    out.push_str(&dump_store!(c, s, dump_sort_track));
                }
                Trk::Visual(s) => {
                    let (scene, dets) = &scenes[0];
                    out.push_str(&vis_table!(c, s, *scene, dets));
                    let input: Vec<VisualSortObservation> = dets.iter().map(vobs).collect();
                    let recs = if *scene == 0 && dets.len() % 2 == 1 { s.predict(&input) } else { s.predict_with_scene(*scene, &input) };
                    log_records(c, *scene, &recs);
                    let preds = preds_of!(c, s, recs);
                    out.push_str(&format!(" S {} {}", scene, show_records(c, dets, &recs, &preds)));
                    out.push_str(&dump_store!(c, s, dump_vis_track));
                }
                Trk::BatchSort(s) => {
                    for (scene, dets) in &scenes {
                        out.push_str(&format!(" Q {} {}", scene, sort_table!(c, s, *scene, dets)));
                    }
                    crate::sched::EVENTS.lock().unwrap().clear();
                    let delay = c.consumer_delay_us;
                    let sc2 = scenes.clone();
                    let owned = std::mem::replace(&mut tr, Trk::None);
                    let Trk::BatchSort(bs) = owned else { unreachable!() };
                    match with_watchdog(bs, 20, move |s: &mut BatchSort| {
                        let (mut req, res) = PredictionBatchRequest::<(Universal2DBox, Option<i64>)>::new();
                        for (scene, dets) in &sc2 {
                            for d in dets {
                                req.add(*scene, (d.bbox.clone(), d.custom));
                            }
                        }
                        s.predict(req);
                        collect_batch(delay, res)
                    }) {
                        None => {
                            c.t = Trk::None;
                            return "PANIC deadlock: batch predict / retrieval did not finish within 20 s".into();
                        }
                        Some((bs, (got, tr_s))) => {
                            tr = Trk::BatchSort(bs);
                            trace_suffix = tr_s;
                            for (scene, recs) in got {
                                let dets = &scenes.iter().find(|e| e.0 == scene).map(|e| e.1.clone()).unwrap_or_default();
                                log_records(c, scene, &recs);
                                let preds = if let Trk::BatchSort(s) = &tr { preds_of!(c, s, recs) } else { HashMap::new() };
                                out.push_str(&format!(" S {} {}", scene, show_records(c, dets, &recs, &preds)));
                            }
                            if let Trk::BatchSort(s) = &tr {
                                out.push_str(&dump_store!(c, s, dump_sort_track));
                            }
                        }
                    }
                }
                Trk::BatchVisual(s) => {
                    for (scene, dets) in &scenes {
                        out.push_str(&format!(" Q {} {}", scene, vis_table!(c, s, *scene, dets)));
                    }
                    crate::sched::EVENTS.lock().unwrap().clear();
                    let delay = c.consumer_delay_us;
                    let sc2 = scenes.clone();
                    let owned = std::mem::replace(&mut tr, Trk::None);
                    let Trk::BatchVisual(bs) = owned else { unreachable!() };
                    match with_watchdog(bs, 20, move |s: &mut BatchVisualSort| {
                        let (mut req, res) = PredictionBatchRequest::<VisualSortObservation>::new();
                        for (scene, dets) in &sc2 {
                            for d in dets {
                                req.add(*scene, vobs(d));
                            }
                        }
                        s.predict(req);
                        collect_batch(delay, res)
                    }) {
                        None => {
                            c.t = Trk::None;
                            return "PANIC deadlock: batch predict / retrieval did not finish within 20 s".into();
                        }
                        Some((bs, (got, tr_s))) => {
                            tr = Trk::BatchVisual(bs);
                            trace_suffix = tr_s;
                            for (scene, recs) in got {
                                let dets = &scenes.iter().find(|e| e.0 == scene).map(|e| e.1.clone()).unwrap_or_default();
                                log_records(c, scene, &recs);
                                let preds = if let Trk::BatchVisual(s) = &tr { preds_of!(c, s, recs) } else { HashMap::new() };
                                out.push_str(&format!(" S {} {}", scene, show_records(c, dets, &recs, &preds)));
                            }
                            if let Trk::BatchVisual(s) = &tr {
                                out.push_str(&dump_store!(c, s, dump_vis_track));
                            }
                        }
                    }
                }
                Trk::None => out.push_str("NO-TRACKER"),
            }
            c.t = tr;
            out.push_str(&trace_suffix);
            out
        }
        "pipe" => {
            // `pipe delay_us nb (ns (scene n det*)*)*` — pipelined batches, results retrieved by another thread
            let delay = t.u64();
            let nb = t.usize();
            let mut batches: Vec<Vec<(u64, Vec<DetIn>)>> = Vec::new();
            for _ in 0..nb {
                let ns = t.usize();
                let mut scenes: Vec<(u64, Vec<DetIn>)> = Vec::new();
                for _ in 0..ns {
                    let scene = t.u64();
                    let n = t.usize();
                    let dets: Vec<DetIn> = (0..n).map(|_| det(c, t)).collect();
                    scenes.push((scene, dets));
                }
                batches.push(scenes);
            }
            let b2 = batches.clone();
            let tr = std::mem::take(&mut c.t);
            match tr {
                Trk::BatchSort(bs) => match with_watchdog(bs, 30, move |s: &mut BatchSort| {
                    pipe_run!(s, b2, delay, (Universal2DBox, Option<i64>), |d: &DetIn| (d.bbox.clone(), d.custom))
                }) {
                    None => "PANIC pipelined batch submission / retrieval hung (30 s) or panicked".into(),
                    Some((_, (None, _))) => "PANIC the retrieving thread panicked (a result was never delivered)".into(),
                    Some((bs, (Some(all), ov))) => {
                        c.t = Trk::BatchSort(bs);
                        show_pipe(c, &batches, all, ov)
                    }
                },
                Trk::BatchVisual(bs) => match with_watchdog(bs, 30, move |s: &mut BatchVisualSort| {
                    pipe_run!(s, b2, delay, VisualSortObservation, |d| vobs(d))
                }) {
                    None => "PANIC pipelined batch submission / retrieval hung (30 s) or panicked".into(),
                    Some((_, (None, _))) => "PANIC the retrieving thread panicked (a result was never delivered)".into(),
                    Some((bs, (Some(all), ov))) => {
                        c.t = Trk::BatchVisual(bs);
                        show_pipe(c, &batches, all, ov)
                    }
                },
                other => {
                    c.t = other;
                    "UNKNOWN-OP pipe on a simple tracker".into()
                }
            }
        }
        "consumer" => {
            c.consumer_delay_us = t.u64();
            "OK".into()
        }
        op => {
            let mut tr = std::mem::take(&mut c.t);
            let out = match &mut tr {
                Trk::Sort(s) => api_op!(c, s, op, t, dump_sort_track, sort_wasted),
                Trk::BatchSort(s) => api_op!(c, s, op, t, dump_sort_track, sort_wasted),
                Trk::Visual(s) => api_op!(c, s, op, t, dump_vis_track, vis_wasted),
                Trk::BatchVisual(s) => api_op!(c, s, op, t, dump_vis_track, vis_wasted),
                Trk::None => "NO-TRACKER".into(),
            };
            c.t = tr;
            out
        }
    }
}
