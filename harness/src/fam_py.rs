//! `py …`: the request family of PY_PROTOCOL.md (property C18), Rust side.
//!
//! Every request is executed through the Rust API the Python binding documents it wraps (never through the
//! `python` sub-modules). Floats in answers are always the bits of the f64 value (`d<16 hex>`), f32 values
//! are widened exactly. Objects are dumped as `{ Class field= val … }` with the Rust field names in
//! declaration order.
use crate::wire::*;
use crate::Ctx;
use geo::{Area, CoordsIter, Polygon};
use nalgebra::Point2;
use similari::trackers::batch::{PredictionBatchRequest, PredictionBatchResult};
use similari::trackers::sort::batch_api::BatchSort;
use similari::trackers::sort::simple_api::Sort;
use similari::trackers::sort::{PositionalMetricType, SortTrack, WastedSortTrack};
use similari::trackers::spatio_temporal_constraints::SpatioTemporalConstraints;
use similari::trackers::tracker_api::TrackerAPI;
use similari::trackers::visual_sort::batch_api::BatchVisualSort;
use similari::trackers::visual_sort::metric::VisualSortMetricType;
use similari::trackers::visual_sort::options::VisualSortOptions;
use similari::trackers::visual_sort::simple_api::VisualSort;
use similari::trackers::visual_sort::{VisualSortObservation, WastedVisualSortTrack};
use similari::utils::bbox::{BoundingBox, Universal2DBox};
use similari::utils::kalman::kalman_2d_box::{Universal2DBoxKalmanFilter, DIM_2D_BOX_X2};
use similari::utils::kalman::kalman_2d_point::{Point2DKalmanFilter, DIM_2D_POINT_X2};
use similari::utils::kalman::kalman_2d_point_vec::Vec2DKalmanFilter;
use similari::utils::kalman::KalmanState;
use similari::utils::nms::nms;
use std::collections::HashMap;

pub enum PyTrk {
    None,
    Sort(Sort),
    BatchSort(BatchSort),
    Visual(VisualSort),
    BatchVisual(BatchVisualSort),
}
impl Default for PyTrk {
    fn default() -> Self {
        PyTrk::None
    }
}

/// per scene: raw track id -> 0, 1, 2, … in the order of first appearance
type Ren = HashMap<u64, HashMap<u64, usize>>;

/// the one tracker slot of the family (reset at `case` lines with the rest of `Ctx`, and by `trk new`)
#[derive(Default)]
pub struct PyCtx {
    pub t: PyTrk,
    /// batch kinds only: their raw track ids depend on the scheduling of the voting jobs of different
    /// scenes, so every dumped track prints its per-scene rank of first appearance instead
    pub ren: Ren,
}

/// the `id=` value of a dumped track: the raw id for the simple kinds, the per-scene rank for the batch kinds
fn id_tok(ren: &mut Ren, batch: bool, scene: u64, raw: u64) -> String {
    if !batch {
        return raw.to_string();
    }
    let m = ren.entry(scene).or_default();
    let next = m.len();
    m.entry(raw).or_insert(next).to_string()
}

// ---------------------------------------------------------------- answer values

fn fl(x: f32) -> String {
    f64_tok(x as f64)
}

fn opt_fl(x: Option<f32>) -> String {
    x.map(fl).unwrap_or_else(|| "-".to_string())
}

fn opt_int(x: Option<i64>) -> String {
    x.map(|v| v.to_string()).unwrap_or_else(|| "-".to_string())
}

fn boolean(b: bool) -> String {
    if b { "true" } else { "false" }.to_string()
}

/// `s:` + the text with every whitespace run replaced by `_`
fn text(s: &str) -> String {
    format!("s:{}", s.split_whitespace().collect::<Vec<_>>().join("_"))
}

fn list(items: Vec<String>) -> String {
    if items.is_empty() {
        "[ ]".to_string()
    } else {
        format!("[ {} ]", items.join(" "))
    }
}

fn dump_bb(b: &BoundingBox) -> String {
    format!(
        "{{ BoundingBox left= {} top= {} width= {} height= {} confidence= {} }}",
        fl(b.left),
        fl(b.top),
        fl(b.width),
        fl(b.height),
        fl(b.confidence)
    )
}

fn dump_u(u: &Universal2DBox) -> String {
    format!(
        "{{ Universal2DBox xc= {} yc= {} angle= {} aspect= {} height= {} confidence= {} }}",
        fl(u.xc),
        fl(u.yc),
        opt_fl(u.angle),
        fl(u.aspect),
        fl(u.height),
        fl(u.confidence)
    )
}

fn dump_ltwh(u: &Universal2DBox) -> String {
    match BoundingBox::try_from(u) {
        Ok(b) => dump_bb(&b),
        Err(_) => "ERR".to_string(),
    }
}

fn dump_boxes(v: &[Universal2DBox]) -> String {
    list(v.iter().map(dump_u).collect())
}

fn dump_track(t: &SortTrack, id: String) -> String {
    format!(
        "{{ SortTrack id= {} epoch= {} predicted_bbox= {} observed_bbox= {} scene_id= {} length= {} voting_type= {} custom_object_id= {} }}",
        id,
        t.epoch,
        dump_u(&t.predicted_bbox),
        dump_u(&t.observed_bbox),
        t.scene_id,
        t.length,
        text(&format!("{:?}", t.voting_type)),
        opt_int(t.custom_object_id)
    )
}

fn dump_tracks(v: &[SortTrack], ren: &mut Ren, batch: bool) -> String {
    list(v.iter().map(|t| dump_track(t, id_tok(ren, batch, t.scene_id, t.id))).collect())
}

fn dump_wasted_sort(t: &WastedSortTrack, id: String) -> String {
    format!(
        "{{ WastedSortTrack id= {} epoch= {} predicted_bbox= {} observed_bbox= {} scene_id= {} length= {} predicted_boxes= {} observed_boxes= {} }}",
        id,
        t.epoch,
        dump_u(&t.predicted_bbox),
        dump_u(&t.observed_bbox),
        t.scene_id,
        t.length,
        dump_boxes(&t.predicted_boxes),
        dump_boxes(&t.observed_boxes)
    )
}

fn dump_wasted_visual(t: &WastedVisualSortTrack, id: String) -> String {
    let feats: Vec<String> = t
        .observed_features
        .iter()
        .map(|f| match f {
            None => "-".to_string(),
            Some(v) => list(v.iter().map(|x| fl(*x)).collect()),
        })
        .collect();
    format!(
        "{{ WastedVisualSortTrack id= {} epoch= {} predicted_bbox= {} observed_bbox= {} scene_id= {} length= {} predicted_boxes= {} observed_boxes= {} observed_features= {} }}",
        id,
        t.epoch,
        dump_u(&t.predicted_bbox),
        dump_u(&t.observed_bbox),
        t.scene_id,
        t.length,
        dump_boxes(&t.predicted_boxes),
        dump_boxes(&t.observed_boxes),
        list(feats)
    )
}

/// the coordinates of a polygon as `[ [ x y ] … ]` (exterior ring including the closing point, as `coords_iter` yields them)
fn dump_points(p: &Polygon<f64>) -> String {
    list(p.coords_iter().map(|c| format!("[ {} {} ]", f64_tok(c.x), f64_tok(c.y))).collect())
}

// ---------------------------------------------------------------- request values

fn u5(t: &mut Toks) -> Universal2DBox {
    let xc = t.f32();
    let yc = t.f32();
    let angle = t.opt_f32();
    let aspect = t.f32();
    let height = t.f32();
    Universal2DBox::new(xc, yc, angle, aspect, height)
}

fn u6(t: &mut Toks) -> Universal2DBox {
    let xc = t.f32();
    let yc = t.f32();
    let angle = t.opt_f32();
    let aspect = t.f32();
    let height = t.f32();
    match t.opt_f32() {
        None => Universal2DBox::new(xc, yc, angle, aspect, height),
        Some(c) => Universal2DBox::new_with_confidence(xc, yc, angle, aspect, height, c),
    }
}

fn inv(t: &mut Toks) -> bool {
    match t.next() {
        "true" => true,
        "false" => false,
        x => panic!("bad INV token {x}"),
    }
}

/// `PW|- VW|-`: `-` = the documented default weights 0.05 / 0.00625
fn weights(t: &mut Toks) -> (f32, f32) {
    let pw = t.opt_f32().unwrap_or(1.0 / 20.0);
    let vw = t.opt_f32().unwrap_or(1.0 / 160.0);
    (pw, vw)
}

fn constraint_pairs(t: &mut Toks) -> Vec<(usize, f32)> {
    let k = t.usize();
    (0..k).map(|_| (t.usize(), t.f32())).collect()
}

fn constraints_obj(t: &mut Toks) -> SpatioTemporalConstraints {
    let mut c = SpatioTemporalConstraints::default();
    c.add_constraints(constraint_pairs(t));
    c
}

/// `K (name args)*K` applied to the default options through the builder methods of the same names
fn options(t: &mut Toks) -> VisualSortOptions {
    let k = t.usize();
    let mut o = VisualSortOptions::default();
    for _ in 0..k {
        o = match t.next() {
            "max_idle_epochs" => o.max_idle_epochs(t.usize()),
            "kept_history_length" => o.kept_history_length(t.usize()),
            "visual_min_votes" => o.visual_min_votes(t.usize()),
            "visual_metric" => {
                let kind = t.next();
                let thr = t.f32();
                o.visual_metric(match kind {
                    "euclid" => VisualSortMetricType::euclidean(thr),
                    "cosine" => VisualSortMetricType::cosine(thr),
                    x => panic!("bad visual metric {x}"),
                })
            }
            "positional_metric" => match t.next() {
                "iou" => o.positional_metric(PositionalMetricType::IoU(t.f32())),
                "maha" => o.positional_metric(PositionalMetricType::Mahalanobis),
                x => panic!("bad positional metric {x}"),
            },
            "visual_minimal_track_length" => o.visual_minimal_track_length(t.usize()),
            "visual_minimal_area" => o.visual_minimal_area(t.f32()),
            "visual_minimal_quality_use" => o.visual_minimal_quality_use(t.f32()),
            "positional_min_confidence" => o.positional_min_confidence(t.f32()),
            "visual_max_observations" => o.visual_max_observations(t.usize()),
            "visual_minimal_quality_collect" => o.visual_minimal_quality_collect(t.f32()),
            "visual_minimal_own_area_percentage_use" => o.visual_minimal_own_area_percentage_use(t.f32()),
            "visual_minimal_own_area_percentage_collect" => o.visual_minimal_own_area_percentage_collect(t.f32()),
            "kalman_position_weight" => o.kalman_position_weight(t.f32()),
            "kalman_velocity_weight" => o.kalman_velocity_weight(t.f32()),
            "spatio_temporal_constraints" => o.spatio_temporal_constraints(constraints_obj(t)),
            x => panic!("bad option name {x}"),
        };
    }
    o
}

/// `iou THR | maha | none` (`none`: what the binding documents for `None`, the Mahalanobis metric)
fn method(t: &mut Toks) -> PositionalMetricType {
    match t.next() {
        "iou" => PositionalMetricType::IoU(t.f32()),
        "maha" | "none" => PositionalMetricType::Mahalanobis,
        x => panic!("bad METHOD {x}"),
    }
}

/// `c K (EPOCH MAX)*K | none`
fn opt_constraints(t: &mut Toks) -> Option<SpatioTemporalConstraints> {
    match t.next() {
        "none" => None,
        "c" => Some(constraints_obj(t)),
        x => panic!("bad CONSTR {x}"),
    }
}

/// one detection of a request: `U6 CUSTOM|-` plus, for the visual kinds, `QUALITY|- NFEAT f*`
#[derive(Clone)]
struct Det {
    bbox: Universal2DBox,
    custom: Option<i64>,
    quality: Option<f32>,
    feature: Option<Vec<f32>>,
}

fn det(t: &mut Toks, visual: bool) -> Det {
    let bbox = u6(t);
    let custom = t.opt_i64();
    let (mut quality, mut feature) = (None, None);
    if visual {
        quality = t.opt_f32();
        // `NFEAT`: a count, or `e` for a feature vector that is present but empty (`Some(&[])` / `[]`)
        let nt = t.next();
        if nt == "e" {
            feature = Some(Vec::new());
        } else {
            let n: usize = nt.parse().unwrap();
            if n > 0 {
                feature = Some((0..n).map(|_| t.f32()).collect());
            }
        }
    }
    Det { bbox, custom, quality, feature }
}

fn dets(t: &mut Toks, visual: bool) -> Vec<Det> {
    let n = t.usize();
    (0..n).map(|_| det(t, visual)).collect()
}

fn sort_input(d: &[Det]) -> Vec<(Universal2DBox, Option<i64>)> {
    d.iter().map(|d| (d.bbox.clone(), d.custom)).collect()
}

fn vobs(d: &Det) -> VisualSortObservation<'_> {
    VisualSortObservation::new(d.feature.as_deref(), d.quality, d.bbox.clone(), d.custom)
}

// ---------------------------------------------------------------- trackers

/// run `f` on the tracker in a helper thread; a hang is reported after `secs` seconds (the tracker is then lost)
fn with_watchdog<T: Send + 'static, R: Send + 'static>(tr: T, secs: u64, f: impl FnOnce(&mut T) -> R + Send + 'static) -> Option<(T, R)> {
    let (tx, rx) = std::sync::mpsc::channel();
    std::thread::spawn(move || {
        let mut tr = tr;
        let r = f(&mut tr);
        let _ = tx.send((tr, r));
    });
    rx.recv_timeout(std::time::Duration::from_secs(secs)).ok()
}

/// `batch_size` results of a batch, sorted by scene
fn collect_batch(res: PredictionBatchResult) -> Vec<(u64, Vec<SortTrack>)> {
    let n = res.batch_size();
    let mut got: Vec<(u64, Vec<SortTrack>)> = (0..n).map(|_| res.get()).collect();
    got.sort_by_key(|e| e.0);
    got
}

/// `batch_size [ SCENE [ tracks ] ]…` in increasing scene order
fn show_batch(got: Vec<(u64, Vec<SortTrack>)>, ren: &mut Ren) -> String {
    let mut out = got.len().to_string();
    for (scene, tracks) in got {
        out.push_str(&format!(" [ {} {} ]", scene, dump_tracks(&tracks, ren, true)));
    }
    out
}

const HANG: &str = "PANIC deadlock: batch predict / retrieval did not finish within 20 s";

/// the operations all four trackers share through `TrackerAPI` and `idle_tracks_with_scene`
macro_rules! common_op {
    ($s:expr, $op:expr, $t:expr, $ren:expr, $batch:expr, $wasted_ty:ty, $wasted_dump:ident) => {{
        match $op {
            "skip" => {
                $s.skip_epochs($t.usize());
                "OK".to_string()
            }
            "skipscene" => {
                let scene = $t.u64();
                let n = $t.usize();
                $s.skip_epochs_for_scene(scene, n);
                "OK".to_string()
            }
            "epoch" => $s.current_epoch_with_scene(0).to_string(),
            "epochscene" => $s.current_epoch_with_scene($t.u64()).to_string(),
            "idle" | "idlescene" => {
                let scene = if $op == "idle" { 0 } else { $t.u64() };
                let mut v = $s.idle_tracks_with_scene(scene);
                v.sort_by_key(|r| (r.scene_id, r.id));
                dump_tracks(&v, $ren, $batch)
            }
            "wasted" => {
                let mut v: Vec<$wasted_ty> = $s.wasted().into_iter().map(<$wasted_ty>::from).collect();
                v.sort_by_key(|r| (r.scene_id, r.id));
                list(v.iter().map(|r| $wasted_dump(r, id_tok($ren, $batch, r.scene_id, r.id))).collect())
            }
            "clearw" => {
                $s.clear_wasted();
                "OK".to_string()
            }
            "stats" => {
                let st = $s.active_shard_stats();
                if $batch {
                    // the shard of a track is its raw id modulo the number of shards: only the number of
                    // shards and the total are independent of the scheduling of the voting jobs
                    list(vec![st.len().to_string(), st.iter().sum::<usize>().to_string()])
                } else {
                    list(st.iter().map(|x| x.to_string()).collect())
                }
            }
            x => format!("UNKNOWN-OP {x}"),
        }
    }};
}

fn trk_new(c: &mut PyCtx, t: &mut Toks) -> String {
    let kind = t.next();
    c.t = match kind {
        "sort" => {
            let _nexpl = t.next(); // only the Python side omits arguments
            let shards = t.usize();
            let hist = t.usize();
            let max_idle = t.usize();
            let m = method(t);
            let min_conf = t.f32();
            let cons = opt_constraints(t);
            let kpw = t.f32();
            let kvw = t.f32();
            PyTrk::Sort(Sort::new(shards, hist, max_idle, m, min_conf, cons, kpw, kvw))
        }
        "bsort" => {
            let _nexpl = t.next();
            let dshards = t.usize();
            let vshards = t.usize();
            let hist = t.usize();
            let max_idle = t.usize();
            let m = method(t);
            let min_conf = t.f32();
            let cons = opt_constraints(t);
            let kpw = t.f32();
            let kvw = t.f32();
            PyTrk::BatchSort(BatchSort::new(dshards, vshards, hist, max_idle, m, min_conf, cons, kpw, kvw))
        }
        "visual" => {
            let shards = t.usize();
            let o = options(t);
            PyTrk::Visual(VisualSort::new(shards, &o))
        }
        "bvisual" => {
            let dshards = t.usize();
            let vshards = t.usize();
            let o = options(t);
            PyTrk::BatchVisual(BatchVisualSort::new(dshards, vshards, &o))
        }
        x => return format!("UNKNOWN-KIND {x}"),
    };
    "OK".to_string()
}

fn trk(c: &mut PyCtx, t: &mut Toks) -> String {
    let op = t.next();
    if op == "new" {
        c.t = PyTrk::None;
        c.ren.clear();
        return trk_new(c, t);
    }
    let mut tr = std::mem::take(&mut c.t);
    let batch = matches!(tr, PyTrk::BatchSort(_) | PyTrk::BatchVisual(_));
    let ren = &mut c.ren;
    let out = match (&mut tr, op) {
        (PyTrk::None, _) => "NO-TRACKER".to_string(),
        (PyTrk::Sort(s), "predict") => {
            let d = dets(t, false);
            dump_tracks(&s.predict(&sort_input(&d)), ren, false)
        }
        (PyTrk::Sort(s), "predicts") => {
            let scene = t.u64();
            let d = dets(t, false);
            dump_tracks(&s.predict_with_scene(scene, &sort_input(&d)), ren, false)
        }
        (PyTrk::Visual(s), "predict") => {
            let d = dets(t, true);
            let obs: Vec<VisualSortObservation> = d.iter().map(vobs).collect();
            dump_tracks(&s.predict(&obs), ren, false)
        }
        (PyTrk::Visual(s), "predicts") => {
            let scene = t.u64();
            let d = dets(t, true);
            let obs: Vec<VisualSortObservation> = d.iter().map(vobs).collect();
            dump_tracks(&s.predict_with_scene(scene, &obs), ren, false)
        }
        (PyTrk::BatchSort(_), "bpredict") | (PyTrk::BatchVisual(_), "bpredict") => {
            let visual = matches!(tr, PyTrk::BatchVisual(_));
            let ns = t.usize();
            let scenes: Vec<(u64, Vec<Det>)> = (0..ns).map(|_| (t.u64(), dets(t, visual))).collect();
            match std::mem::take(&mut tr) {
                PyTrk::BatchSort(bs) => match with_watchdog(bs, 20, move |s: &mut BatchSort| {
                    let (mut req, res) = PredictionBatchRequest::<(Universal2DBox, Option<i64>)>::new();
                    for (scene, ds) in &scenes {
                        for d in ds {
                            req.add(*scene, (d.bbox.clone(), d.custom));
                        }
                    }
                    s.predict(req);
                    collect_batch(res)
                }) {
                    Some((bs, got)) => {
                        tr = PyTrk::BatchSort(bs);
                        show_batch(got, ren)
                    }
                    None => HANG.to_string(),
                },
                PyTrk::BatchVisual(bs) => match with_watchdog(bs, 20, move |s: &mut BatchVisualSort| {
                    let (mut req, res) = PredictionBatchRequest::<VisualSortObservation>::new();
                    for (scene, ds) in &scenes {
                        for d in ds {
                            req.add(*scene, vobs(d));
                        }
                    }
                    s.predict(req);
                    collect_batch(res)
                }) {
                    Some((bs, got)) => {
                        tr = PyTrk::BatchVisual(bs);
                        show_batch(got, ren)
                    }
                    None => HANG.to_string(),
                },
                _ => unreachable!(),
            }
        }
        (_, "predict") | (_, "predicts") | (_, "bpredict") => format!("UNKNOWN-OP {op}"),
        (PyTrk::Sort(s), op) => common_op!(s, op, t, ren, batch, WastedSortTrack, dump_wasted_sort),
        (PyTrk::BatchSort(s), op) => common_op!(s, op, t, ren, batch, WastedSortTrack, dump_wasted_sort),
        (PyTrk::Visual(s), op) => common_op!(s, op, t, ren, batch, WastedVisualSortTrack, dump_wasted_visual),
        (PyTrk::BatchVisual(s), op) => common_op!(s, op, t, ren, batch, WastedVisualSortTrack, dump_wasted_visual),
    };
    c.t = tr;
    out
}

// ---------------------------------------------------------------- the family

pub fn exec(ctx: &mut Ctx, t: &mut Toks) -> String {
    match t.next() {
        "bbox" => {
            let (l, tp, w, h) = (t.f32(), t.f32(), t.f32(), t.f32());
            let b = match t.opt_f32() {
                None => BoundingBox::new(l, tp, w, h),
                Some(c) => BoundingBox::new_with_confidence(l, tp, w, h, c),
            };
            format!("{} {}", dump_bb(&b), dump_u(&b.as_xyaah()))
        }
        "bboxset" => {
            let mut b = BoundingBox::new(t.f32(), t.f32(), t.f32(), t.f32());
            let k = t.usize();
            for _ in 0..k {
                let field = t.next();
                let v = t.f32();
                match field {
                    "left" => b.left = v,
                    "top" => b.top = v,
                    "width" => b.width = v,
                    "height" => b.height = v,
                    "confidence" => b.confidence = v,
                    x => panic!("bad BoundingBox field {x}"),
                }
            }
            dump_bb(&b)
        }
        "ubox" => {
            let u = u6(t);
            format!(
                "{} {} {} {} {}",
                dump_u(&u),
                fl(u.get_radius()),
                fl(u.area()),
                dump_ltwh(&u),
                dump_points(&u.get_vertices())
            )
        }
        "uboxset" => {
            let mut u = u5(t);
            let k = t.usize();
            for _ in 0..k {
                match t.next() {
                    "xc" => u.xc = t.f32(),
                    "yc" => u.yc = t.f32(),
                    "angle" => u.angle = t.opt_f32(),
                    "aspect" => u.aspect = t.f32(),
                    "height" => u.height = t.f32(),
                    "confidence" => u.set_confidence(t.f32()),
                    "rotate" => u.rotate_mut(t.f32()),
                    "genv" => {
                        t.next();
                        u.gen_vertices();
                    }
                    x => panic!("bad Universal2DBox op {x}"),
                }
            }
            format!("{} {}", dump_u(&u), dump_points(&u.get_vertices()))
        }
        "ltwh" => {
            let (l, tp, w, h) = (t.f32(), t.f32(), t.f32(), t.f32());
            let u = match t.opt_f32() {
                None => Universal2DBox::ltwh(l, tp, w, h),
                Some(c) => Universal2DBox::ltwh_with_confidence(l, tp, w, h, c),
            };
            dump_u(&u)
        }
        "nms" => {
            let n = t.usize();
            let detections: Vec<(Universal2DBox, Option<f32>)> = (0..n).map(|_| (u5(t), t.opt_f32())).collect();
            let nms_thr = t.f32();
            let score_thr = t.opt_f32();
            list(nms(&detections, nms_thr, score_thr).into_iter().map(dump_u).collect())
        }
        "clip" => {
            let a = u5(t);
            let b = u5(t);
            let clip = a.clone().sutherland_hodgman_clip(b.clone());
            // `intersection_area(a, b)`: the unsigned area of the clip of the same two boxes
            let area = a.sutherland_hodgman_clip(b).unsigned_area();
            format!("{} {}", dump_points(&clip), f64_tok(area))
        }
        "kfbox" => {
            let (pw, vw) = weights(t);
            let inverted = inv(t);
            let n = t.usize();
            let f = Universal2DBoxKalmanFilter::new(pw, vw);
            let show = |s: KalmanState<DIM_2D_BOX_X2>| {
                let u = Universal2DBox::try_from(s).unwrap();
                format!("{} {}", dump_u(&u), dump_ltwh(&u))
            };
            let mut out = Vec::new();
            let mut s = f.initiate(&u5(t));
            out.push(show(s));
            for _ in 1..n {
                let b = u5(t);
                s = f.predict(&s);
                out.push(show(s));
                let d = f.distance(s, &b);
                let c = Universal2DBoxKalmanFilter::calculate_cost(d, inverted);
                s = f.update(&s, &b);
                out.push(format!("{} {} {}", fl(d), fl(c), show(s)));
            }
            out.join(" ")
        }
        "kfpt" => {
            let (pw, vw) = weights(t);
            let inverted = inv(t);
            let n = t.usize();
            let f = Point2DKalmanFilter::new(pw, vw);
            let show = |s: KalmanState<DIM_2D_POINT_X2>| {
                let p: Point2<f32> = Point2::from(s);
                format!("{} {}", fl(p.x), fl(p.y))
            };
            let mut out = Vec::new();
            let mut s = f.initiate(&Point2::from([t.f32(), t.f32()]));
            out.push(show(s));
            for _ in 1..n {
                let p = Point2::from([t.f32(), t.f32()]);
                s = f.predict(&s);
                out.push(show(s));
                let d = f.distance(&s, &p);
                let c = Point2DKalmanFilter::calculate_cost(d, inverted);
                s = f.update(&s, &p);
                out.push(format!("{} {} {}", fl(d), fl(c), show(s)));
            }
            out.join(" ")
        }
        "kfvec" => {
            let (pw, vw) = weights(t);
            let inverted = inv(t);
            let npts = t.usize();
            let n = t.usize();
            let f = Vec2DKalmanFilter::new(pw, vw);
            let frame = |t: &mut Toks| -> Vec<Point2<f32>> { (0..npts).map(|_| Point2::from([t.f32(), t.f32()])).collect() };
            let show = |s: &[KalmanState<DIM_2D_POINT_X2>]| {
                list(
                    s.iter()
                        .map(|st| {
                            let p: Point2<f32> = Point2::from(*st);
                            format!("[ {} {} ]", fl(p.x), fl(p.y))
                        })
                        .collect(),
                )
            };
            let floats = |v: &[f32]| list(v.iter().map(|x| fl(*x)).collect());
            let mut out = Vec::new();
            let mut s = f.initiate(&frame(t));
            out.push(show(&s));
            for _ in 1..n {
                let z = frame(t);
                s = f.predict(&s);
                out.push(show(&s));
                let ds = f.distance(&s, &z);
                let cs = Vec2DKalmanFilter::calculate_cost(&ds, inverted);
                s = f.update(&s, &z);
                out.push(format!("{} {} {}", floats(&ds), floats(&cs), show(&s)));
            }
            out.join(" ")
        }
        "constr" => {
            let c = constraints_obj(t);
            let q = t.usize();
            let out: Vec<String> = (0..q)
                .map(|_| {
                    let epoch = t.usize();
                    let dist = t.f32();
                    boolean(c.validate(epoch, dist))
                })
                .collect();
            out.join(" ")
        }
        "opts" => text(&format!("{:?}", options(t))),
        "trk" => trk(&mut ctx.py, t),
        x => format!("UNKNOWN-OP {x}"),
    }
}
