//! `nms n (aspect height score|- xc yc angle|-)*n thr sthr|-`
//! answer: n*n coverage bits (row a, column b: inter(a,b)/area(b) > thr, computed with the
//! implementation's own `intersection` and `area`), kept positions, positions kept by a second
//! application to the output (with the same scores).
use crate::wire::*;
use crate::Ctx;
use similari::utils::bbox::Universal2DBox;
use similari::utils::nms::nms;

pub fn exec(_ctx: &mut Ctx, t: &mut Toks) -> String {
    let n = t.usize();
    let mut dets: Vec<(Universal2DBox, Option<f32>)> = Vec::new();
    for _ in 0..n {
        let aspect = t.f32();
        let height = t.f32();
        let score = t.opt_f32();
        let xc = t.f32();
        let yc = t.f32();
        let angle = t.opt_f32();
        dets.push((Universal2DBox::new(xc, yc, angle, aspect, height), score));
    }
    let thr = t.f32();
    let sthr = t.opt_f32();
    let mut out = String::new();
    for a in 0..n {
        for b in 0..n {
            let valid = |x: &Universal2DBox| x.height > 0.0 && x.aspect > 0.0;
            let bit = if a != b && valid(&dets[a].0) && valid(&dets[b].0) {
                let m = Universal2DBox::intersection(&dets[a].0, &dets[b].0) as f32 / dets[b].0.area();
                m > thr
            } else {
                false
            };
            out.push_str(if bit { "1 " } else { "0 " });
        }
    }
    let base = dets.as_ptr() as usize;
    let sz = std::mem::size_of::<(Universal2DBox, Option<f32>)>();
    let kept: Vec<usize> = nms(&dets, thr, sthr)
        .into_iter()
        .map(|b| (b as *const Universal2DBox as usize - base) / sz)
        .collect();
    let dets2: Vec<(Universal2DBox, Option<f32>)> = kept.iter().map(|&i| dets[i].clone()).collect();
    let base2 = dets2.as_ptr() as usize;
    let again: Vec<usize> = nms(&dets2, thr, sthr)
        .into_iter()
        .map(|b| (b as *const Universal2DBox as usize - base2) / sz)
        .collect();
    out.push_str(&nat_list(&kept));
    out.push(' ');
    out.push_str(&nat_list(&again));
    out
}
