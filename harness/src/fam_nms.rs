//! `nms n (aspect height score|- xc yc angle|- stale)*n thr sthr|-`
//! answer: n*n coverage bits (row a, column b: inter(a,b)/area(b) > thr, computed with the
//! implementation's own `intersection` and `area`), kept positions, positions kept by a second
//! application to the output (with the same scores).
use crate::wire::*;
use crate::Ctx;
use similari::utils::bbox::Universal2DBox;
use similari::utils::nms::nms;

pub fn exec(_ctx: &mut Ctx, t: &mut Toks) -> String {
    let n = t.usize();
    let mut dets: Vec<(Universal2DBox, Option<f32>)> = Vec::new();
    let mut fresh: Vec<Universal2DBox> = Vec::new();
    for _ in 0..n {
        let aspect = t.f32();
        let height = t.f32();
        let score = t.opt_f32();
        let xc = t.f32();
        let yc = t.f32();
        let angle = t.opt_f32();
        let stale = t.usize();
        let b = if stale == 1 {
            // the box had its vertices generated while it had another geometry, then was mutated through
            // the public fields / rotate_mut: the result must only depend on the current field values
            let mut b = Universal2DBox::new(xc + 3.0, yc - 2.0, Some(angle.unwrap_or(0.0) + 0.7), aspect * 1.5, height * 0.5);
            b.gen_vertices();
            b.xc = xc;
            b.yc = yc;
            b.aspect = aspect;
            b.height = height;
            match angle {
                Some(a) => b.rotate_mut(a),
                None => b.angle = None,
            }
            b
        } else {
            Universal2DBox::new(xc, yc, angle, aspect, height)
        };
        fresh.push(Universal2DBox::new(xc, yc, angle, aspect, height));
        dets.push((b, score));
    }
    let thr = t.f32();
    let sthr = t.opt_f32();
    let mut out = String::new();
    for a in 0..n {
        for b in 0..n {
            let valid = |x: &Universal2DBox| x.height > 0.0 && x.aspect > 0.0;
            let bit = if a != b && valid(&fresh[a]) && valid(&fresh[b]) {
                let m = Universal2DBox::intersection(&fresh[a], &fresh[b]) as f32 / fresh[b].area();
                m > thr
            } else {
                false
            };
            out.push_str(if bit { "1 " } else { "0 " });
        }
    }
    let base = dets.as_ptr() as usize;
    let sz = std::mem::size_of::<(Universal2DBox, Option<f32>)>();
    let kept: Vec<usize> = nms(&dets, thr, sthr)
        .into_iter()
        .map(|b| (b as *const Universal2DBox as usize - base) / sz)
        .collect();
    let dets2: Vec<(Universal2DBox, Option<f32>)> = kept.iter().map(|&i| dets[i].clone()).collect();
    let base2 = dets2.as_ptr() as usize;
    let again: Vec<usize> = nms(&dets2, thr, sthr)
        .into_iter()
        .map(|b| (b as *const Universal2DBox as usize - base2) / sz)
        .collect();
    out.push_str(&nat_list(&kept));
    out.push(' ');
    out.push_str(&nat_list(&again));
    // cos / sin of every box angle, for the driver's own (exact) coverage reference
    out.push_str(" CS");
    for b in &fresh {
        let a = b.angle.unwrap_or(0.0) as f64;
        out.push_str(&format!(" {} {}", f64_tok(a.cos()), f64_tok(a.sin())));
    }
    out
}
