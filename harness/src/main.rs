//! `vh` — implementation executor. Reads one request per line on stdin, runs the *real* Similari
//! code (built from /repo's working tree) on it, and prints `<request> => <implementation answer>`.
//! Panics of the implementation are an output (`PANIC <class>`), not a crash of the harness.
mod fam_constr;
mod fam_feat;
mod fam_geom;
mod fam_kf;
mod fam_nms;
mod fam_py;
mod fam_smetric;
mod fam_store;
mod fam_trk;
mod fam_vote;
mod sched;
mod wire;

use std::io::{BufRead, Write};
use std::panic::{catch_unwind, AssertUnwindSafe};

#[derive(Default)]
pub struct Ctx {
    // per-case mutable state lives here (stores, trackers, ...)
    pub constr: similari::trackers::spatio_temporal_constraints::SpatioTemporalConstraints,
    pub store: fam_store::StoreCtx,
    pub trk: fam_trk::TrkSlots,
    pub py: fam_py::PyCtx,
}

fn exec(ctx: &mut Ctx, line: &str) -> String {
    let mut t = wire::Toks::new(line);
    let fam = t.next();
    match fam {
        "case" => {
            *ctx = Ctx::default();
            String::new()
        }
        "nms" => fam_nms::exec(ctx, &mut t),
        "constr" => fam_constr::exec(ctx, &mut t),
        "vote" => fam_vote::exec(ctx, &mut t),
        "feat" => fam_feat::exec(ctx, &mut t),
        "box" => fam_geom::exec_box(ctx, &mut t),
        "track" => fam_store::exec_track(ctx, &mut t),
        "store" => fam_store::exec_store(ctx, &mut t),
        "trk" => fam_trk::exec(ctx, &mut t),
        "kf" => fam_kf::exec(ctx, &mut t),
        "smetric" => fam_smetric::exec(ctx, &mut t, false),
        "smetricw" => fam_smetric::exec(ctx, &mut t, true),
        "geom" => fam_geom::exec_geom(ctx, &mut t),
        "own" => fam_geom::exec_own(ctx, &mut t),
        "ownc" => fam_geom::exec_ownc(ctx, &mut t),
        "py" => fam_py::exec(ctx, &mut t),
        _ => format!("UNKNOWN-FAMILY {fam}"),
    }
}

fn panic_class(p: &(dyn std::any::Any + Send)) -> String {
    let msg = if let Some(s) = p.downcast_ref::<&str>() {
        s.to_string()
    } else if let Some(s) = p.downcast_ref::<String>() {
        s.clone()
    } else {
        "unknown".to_string()
    };
    msg.split_whitespace().take(6).collect::<Vec<_>>().join("_")
}

fn main() {
    std::panic::set_hook(Box::new(|_| {}));
    sched::install();
    let stdin = std::io::stdin();
    let stdout = std::io::stdout();
    let mut out = std::io::BufWriter::new(stdout.lock());
    let mut ctx = Ctx::default();
    for line in stdin.lock().lines() {
        let line = line.unwrap();
        let line = line.trim();
        if line.is_empty() || line.starts_with('#') {
            continue;
        }
        let ans = match catch_unwind(AssertUnwindSafe(|| exec(&mut ctx, line))) {
            Ok(a) => a,
            Err(p) => format!("PANIC {}", panic_class(&*p)),
        };
        writeln!(out, "{line} => {ans}").unwrap();
        // flushed per request: when the process aborts, the engine sees which request it died on
        out.flush().unwrap();
    }
}
