//! Wire helpers: floats travel as exact bit patterns (`f<8 hex>` / `d<16 hex>`), options as `-`.
pub fn f32_tok(x: f32) -> String {
    format!("f{:08x}", x.to_bits())
}
pub fn f64_tok(x: f64) -> String {
    format!("d{:016x}", x.to_bits())
}
pub fn parse_f32(t: &str) -> f32 {
    assert!(t.starts_with('f') && t.len() == 9, "bad f32 token {t}");
    f32::from_bits(u32::from_str_radix(&t[1..], 16).unwrap())
}
pub fn parse_f64(t: &str) -> f64 {
    assert!(t.starts_with('d') && t.len() == 17, "bad f64 token {t}");
    f64::from_bits(u64::from_str_radix(&t[1..], 16).unwrap())
}
pub fn parse_opt_f32(t: &str) -> Option<f32> {
    if t == "-" {
        None
    } else {
        Some(parse_f32(t))
    }
}
pub fn opt_f32_tok(x: Option<f32>) -> String {
    match x {
        None => "-".to_string(),
        Some(v) => f32_tok(v),
    }
}
pub fn nat_list(l: &[usize]) -> String {
    let mut s = l.len().to_string();
    for x in l {
        s.push(' ');
        s.push_str(&x.to_string());
    }
    s
}

/// cursor over the request tokens
pub struct Toks<'a> {
    pub t: Vec<&'a str>,
    pub i: usize,
}
impl<'a> Toks<'a> {
    pub fn new(line: &'a str) -> Self {
        Toks {
            t: line.split_whitespace().collect(),
            i: 0,
        }
    }
    pub fn next(&mut self) -> &'a str {
        let r = self.t[self.i];
        self.i += 1;
        r
    }
    pub fn usize(&mut self) -> usize {
        self.next().parse().unwrap()
    }
    pub fn u64(&mut self) -> u64 {
        self.next().parse().unwrap()
    }
    pub fn i64(&mut self) -> i64 {
        self.next().parse().unwrap()
    }
    pub fn f32(&mut self) -> f32 {
        parse_f32(self.next())
    }
    pub fn f64(&mut self) -> f64 {
        parse_f64(self.next())
    }
    pub fn opt_f32(&mut self) -> Option<f32> {
        parse_opt_f32(self.next())
    }
    pub fn opt_i64(&mut self) -> Option<i64> {
        let t = self.next();
        if t == "-" {
            None
        } else {
            Some(t.parse().unwrap())
        }
    }
    pub fn done(&self) -> bool {
        self.i >= self.t.len()
    }
}
