//! Schedule control through the `similari_verif` hook: serialise the store workers' command
//! executions in a prescribed order, or order the caller's steps against the workers.
use once_cell::sync::Lazy;
use std::sync::{Arc, Condvar, Mutex};
use std::time::Duration;

#[derive(Default)]
pub struct State {
    pub active: bool,
    pub order: Vec<u64>,        // shard ids in the order their commands must execute (empty = free)
    pub pos: usize,             // commands executed so far
    pub running: Option<u64>,   // shard currently executing (when serialised)
    pub hold_workers: bool,     // workers may not start until `release`
    pub release: bool,
    pub window_waits_for: usize, // the caller waits in the owned-query window until that many commands executed
    pub trace: Vec<u64>,
    pub timeouts: usize,
    pub jitter: Option<u64>,     // seeded random delays at every command begin (no gating)
    pub jitter_count: u64,
    pub vote_delay_us: u64,      // every voting job of the batch trackers is delayed by this much (pipelined batches overlap)
    pub interleaved: u64,        // how many times a command began on another shard than the previous one
    pub last_shard: Option<u64>,
}

/// event log of the batch protocol: (thread, kind, scene); kinds B(egin) D(ispatched) T(ake) S(ent) M(onitor decremented)
/// plus, appended by the executor itself, P(robe) and R(eceived)
pub static EVENTS: Lazy<Mutex<Vec<(u64, char, u64)>>> = Lazy::new(|| Mutex::new(Vec::new()));

pub fn thread_no() -> u64 {
    use std::hash::{Hash, Hasher};
    let mut h = std::collections::hash_map::DefaultHasher::new();
    std::thread::current().id().hash(&mut h);
    h.finish()
}

pub fn log_event(kind: char, arg: u64) {
    EVENTS.lock().unwrap().push((thread_no(), kind, arg));
}

pub fn sent_so_far() -> u64 {
    EVENTS.lock().unwrap().iter().filter(|e| e.1 == 'S').count() as u64
}

pub static SCHED: Lazy<(Mutex<State>, Condvar)> = Lazy::new(|| (Mutex::new(State::default()), Condvar::new()));

const STEP_TIMEOUT: Duration = Duration::from_millis(3000);

pub fn install() {
    similari::verif::set_hook(Some(Arc::new(|site: &'static str, arg: u64| {
        match site {
            "batch.begin" => return log_event('B', arg),
            "batch.dispatched" => return log_event('D', arg),
            "vote.job.begin" => {
                log_event('T', arg);
                let d = SCHED.0.lock().unwrap().vote_delay_us;
                if d > 0 {
                    std::thread::sleep(Duration::from_micros(d));
                }
                return;
            }
            "vote.after_send" => return log_event('S', arg),
            "vote.monitor.dec" => return log_event('M', arg),
            _ => {}
        }
        let (m, cv) = &*SCHED;
        let mut st = m.lock().unwrap();
        if !st.active {
            return;
        }
        if let Some(seed) = st.jitter {
            if site == "store.cmd.begin" {
                st.jitter_count += 1;
                if st.last_shard.is_some() && st.last_shard != Some(arg) {
                    st.interleaved += 1;
                }
                st.last_shard = Some(arg);
                // splitmix-style hash of (seed, shard, count)
                let mut z = seed ^ (arg.wrapping_mul(0x9E3779B97F4A7C15)) ^ st.jitter_count.wrapping_mul(0xBF58476D1CE4E5B9);
                z = (z ^ (z >> 30)).wrapping_mul(0xBF58476D1CE4E5B9);
                z = (z ^ (z >> 27)).wrapping_mul(0x94D049BB133111EB);
                let us = (z >> 40) % 400;
                drop(st);
                if us > 40 {
                    std::thread::sleep(Duration::from_micros(us));
                }
            }
            return;
        }
        match site {
            "store.cmd.begin" => {
                // wait for our turn
                loop {
                    let held = st.hold_workers && !st.release;
                    let my_turn = st.order.is_empty() || (st.pos < st.order.len() && st.order[st.pos] == arg && st.running.is_none()) || st.pos >= st.order.len();
                    if !held && my_turn {
                        break;
                    }
                    let (g, r) = cv.wait_timeout(st, STEP_TIMEOUT).unwrap();
                    st = g;
                    if r.timed_out() {
                        st.timeouts += 1;
                        break;
                    }
                }
                st.running = Some(arg);
                st.trace.push(arg);
            }
            "store.cmd.end" => {
                st.running = None;
                st.pos += 1;
                cv.notify_all();
            }
            "store.owned.window" => {
                while st.pos < st.window_waits_for {
                    let (g, r) = cv.wait_timeout(st, STEP_TIMEOUT).unwrap();
                    st = g;
                    if r.timed_out() {
                        st.timeouts += 1;
                        break;
                    }
                }
            }
            _ => {}
        }
    })));
}

pub fn reset() {
    let (m, cv) = &*SCHED;
    let mut st = m.lock().unwrap();
    *st = State::default();
    cv.notify_all();
}

pub fn release() {
    let (m, cv) = &*SCHED;
    m.lock().unwrap().release = true;
    cv.notify_all();
}

/// wait until `n` commands have executed (or time out), then deactivate and return (trace, timeouts)
pub fn finish(n: usize) -> (Vec<u64>, usize) {
    let (m, cv) = &*SCHED;
    let mut st = m.lock().unwrap();
    while st.active && st.pos < n {
        let (g, r) = cv.wait_timeout(st, STEP_TIMEOUT).unwrap();
        st = g;
        if r.timed_out() {
            st.timeouts += 1;
            break;
        }
    }
    let out = (st.trace.clone(), st.timeouts);
    *st = State::default();
    cv.notify_all();
    out
}
