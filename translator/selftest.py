#!/usr/bin/env python3
"""Self-test of the Rust reader (part of the trusted base of the source-level ties, DESIGN.md 14.7): small functions, one per
reader feature, are translated and the Lean text is compared with the stored expectation. Run by `./check --setup` and before
every regeneration of lean/SimVerif/Gen; a difference is a machinery error (the reader changed its meaning), never a violation.
    python3 translator/selftest.py            compare
    python3 translator/selftest.py --update   rewrite the expectation (review the diff!)"""
import os, sys, shutil, tempfile
HERE = os.path.dirname(os.path.abspath(__file__))
sys.path.insert(0, HERE)
import kernels

CASES = [
    dict(name="t_sum_to", file="x.rs", impl=r"impl P \{", fn="sum_to", imperative=True, sig="(n : Nat) : Nat", scalar="Rat"),
    dict(name="t_last_or_panic", file="x.rs", impl=r"impl P \{", fn="last_or_panic", imperative=True, unwrap_panics=True, retwrap="some (v, {0})",
         sig="(lookup : Nat → Option Nat) (v : List Nat) : Option (List Nat × Nat)", method={"lookup": "lookup {1}"}, scalar="Rat"),
    dict(name="t_choose", file="x.rs", impl=r"impl P \{", fn="choose", imperative=True, unwrap_panics=True, value_effects=True, retwrap="some (ctr, db, {0})",
         sig="{DB : Type} (put : DB → Nat → Option DB) (table : List (Nat × Nat)) (ctr : Nat) (db : DB) (k : Nat) : Option (Nat × DB × Nat)",
         selfvar="ctr", fieldpath={"self.store": "db", "self.table": "table"}, lockmethods=("read", "write", "unwrap"),
         method={"get": "mapGet {0} {1}"}, effmethods={"next_id": ("nextId {0}",)}, optmut={"put": "put {0} {1}"}, scalar="Rat"),
    dict(name="t_fan", file="x.rs", impl=r"impl P \{", fn="fan", imperative=True, retwrap="(sent, {0})",
         sig="(chans : List (Nat × Unit)) (sent : List (Nat × Nat)) (xs : List Nat) : List (Nat × Nat) × Nat",
         fieldpath={"self.chans": "chans"}, method={"len": "List.length {0}"}, call={"Msg::Go": "{0}"}, sendlog={"send": ("sent", "({0}, {1})")}, scalar="Rat"),
    dict(name="t_state", file="x.rs", impl=r"impl P \{", fn="state", sig="{S : Type} (self_state : Option S) : Option S", fieldpath={"self.state": "self_state"}, scalar="Rat"),
    dict(name="t_is_w", file="x.rs", impl=r"impl P \{", fn="is_w", sig="(s : Status) : Bool", pctor={"Status::Wasted": "Status.wasted"}, transparent_ctors=("Ok",), scalar="Rat"),
    dict(name="t_collect_present", file="x.rs", impl=r"impl P \{", fn="collect_present", imperative=True, sig="(table : List (Nat × Nat)) (ids : List Nat) : List Nat",
         fieldpath={"self.table": "table"}, method={"get": "mapGet {0} {1}"}, call={"Vec::new": "[]"}, scalar="Rat"),
    # a loop whose only effect the reader has no rule for must make the function unreadable, never be dropped
    dict(name="t_effect_not_understood", file="x.rs", impl=r"impl P \{", fn="effect_not_understood", imperative=True, sig="(ids : List Nat) : Nat",
         method={"len": "List.length {0}", "audit": "()"}, scalar="Rat"),
    dict(name="t_mk", file="x.rs", impl=r"impl P \{", fn="mk", sig="(a : Nat) : P", struct={"P": ("P", {"a": "a", "b": "b"})}, Self="P", scalar="Rat"),
]


def render():
    d = tempfile.mkdtemp(prefix="reader-selftest-")
    try:
        os.makedirs(os.path.join(d, "src"))
        shutil.copy(os.path.join(HERE, "selftest", "src_x.rs"), os.path.join(d, "src", "x.rs"))
        text, unread = kernels.gen(d, CASES, "-- reader self-test\n", "-- end\n")
        return text + "".join("-- UNREAD %s: %s\n" % u for u in unread)
    finally:
        shutil.rmtree(d, ignore_errors=True)


def main():
    exp = os.path.join(HERE, "selftest", "expected.lean.txt")
    got = render()
    if "--update" in sys.argv:
        open(exp, "w").write(got)
        print("expectation rewritten:", exp)
        return 0
    want = open(exp).read() if os.path.exists(exp) else ""
    if got != want:
        import difflib
        sys.stderr.write("translator self-test: the reader's output changed\n" + "".join(difflib.unified_diff(want.splitlines(True), got.splitlines(True), "expected", "got")))
        return 1
    return 0


if __name__ == "__main__":
    sys.exit(main())
