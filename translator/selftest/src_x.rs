// Rust snippets for the reader's self-test (translator/selftest.py): one function per reader feature.
pub struct P { a: u64, b: u64 }

impl P {
    pub fn sum_to(&self, n: usize) -> u64 {
        let mut acc = 0;
        for i in 0..n {
            if i % 2 == 0 {
                continue;
            }
            acc += i;
        }
        acc
    }

    pub fn last_or_panic(&mut self, v: &mut Vec<u64>) -> u64 {
        let x = v.pop().unwrap();
        let y = self.lookup(x).expect("present");
        x + y
    }

    pub fn choose(&mut self, k: u64) -> u64 {
        let id: u64 = if let Some(d) = self.table.get(&k) {
            if *d == k {
                let fresh = self.next_id();
                self.store.write().unwrap().put(fresh).unwrap();
                fresh
            } else {
                *d
            }
        } else {
            let fresh = self.next_id();
            fresh
        };
        let guard = self.store.read().unwrap();
        id
    }

    pub fn fan(&mut self, xs: Vec<u64>) -> usize {
        for x in xs {
            for (ch, _) in &mut self.chans {
                ch.send(Msg::Go(x)).unwrap();
            }
        }
        self.chans.len()
    }

    fn state(&self) -> Option<State<{ DIM }>> {
        self.state
    }

    pub fn is_w(&self, s: Status) -> bool {
        matches!(s, Ok(Status::Wasted))
    }

    pub fn mk(a: u64) -> Self {
        Self { a, b: a + 1 }
    }

    pub fn collect_present(&self, ids: &[u64]) -> Vec<u64> {
        let mut out = Vec::new();
        for id in ids {
            if let Some(v) = self.table.get(id) {
                out.push(*v);
            }
        }
        out
    }

    pub fn effect_not_understood(&self, ids: &[u64]) -> usize {
        for id in ids {
            self.audit(id);
        }
        ids.len()
    }
}
