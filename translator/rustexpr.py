#!/usr/bin/env python3
"""A small reader for the straight-line subset of Rust that Similari's numeric and decision kernels
are written in (DESIGN.md 3.2 / 14.8): `let` bindings (tuple patterns), arithmetic, comparisons,
`&&`/`||`/`!`, `if`/`else`, `if let`, `match`, field access, method calls, path calls, struct
literals, tuples, array/`vec!` literals, one-argument closures, casts, references.  Anything else
raises `Unsupported`, which the caller turns into a broken proof obligation (never into a pass).

parse_fn(text, fn_name, impl_regex) -> (params, body AST)."""
import re


class Unsupported(Exception):
    pass


TOK = re.compile(r"""
    (?P<ws>\s+|//[^\n]*|/\*.*?\*/)
  | (?P<num>\d[\d_]*(?:\.\d[\d_]*)?(?:[eE][+-]?\d+)?(?:_?(?:f32|f64|u8|u16|u32|u64|u128|usize|i8|i16|i32|i64|i128|isize))?)
  | (?P<id>[A-Za-z_][A-Za-z0-9_]*!?)
  | (?P<str>"(?:[^"\\]|\\.)*")
  | (?P<life>'[a-z_]+)
  | (?P<op>::|->|=>|==|!=|<=|>=|\+=|-=|\*=|&&|\|\||\.\.=|\.\.|[-+*/%<>=!&|.,;:(){}\[\]#?@^])
""", re.X | re.S)


def tokenize(s):
    out, i = [], 0
    while i < len(s):
        m = TOK.match(s, i)
        if not m:
            raise Unsupported("cannot tokenize at: " + s[i:i + 30])
        i = m.end()
        k = m.lastgroup
        if k == "ws":
            continue
        out.append((k, m.group(k)))
    out.append(("eof", ""))
    return out


def find_fn(text, fn_name, impl_re=None, occurrence=0):
    """source text of `fn fn_name(...) ... { body }` (inside the first impl block matching impl_re)"""
    scopes = []
    if impl_re:
        # every block whose header matches (the regex must end at the opening brace); the first one holding the fn wins
        for m in re.finditer(impl_re, text):
            b = m.end() - 1
            if text[b] != "{":
                raise Unsupported("impl regex must end at '{': " + impl_re)
            scopes.append(text[b:match_brace(text, b) + 1])
        if not scopes:
            raise Unsupported("impl block not found: " + impl_re)
    else:
        scopes = [text]
    pat = r"\bfn\s+" + re.escape(fn_name) + r"\s*(?:<[^>]*>)?\s*\("
    scopes = [sc for sc in scopes if re.search(pat, sc)]
    if not scopes:
        raise Unsupported("fn %s not found" % fn_name)
    scope = scopes[0]
    ms = list(re.finditer(r"\bfn\s+" + re.escape(fn_name) + r"\s*(?:<[^>]*>)?\s*\(", scope))
    if len(ms) <= occurrence:
        raise Unsupported("fn %s not found" % fn_name)
    m = ms[occurrence]
    p0 = scope.index("(", m.start())
    p1 = match_paren(scope, p0)
    # the body is the first `{` outside the angle brackets of the return type (`-> Option<KalmanState<{ N }>>` holds a const block)
    b, depth = p1 + 1, 0
    while b < len(scope):
        if scope.startswith("->", b):
            b += 2
            continue
        c = scope[b]
        if c == "<":
            depth += 1
        elif c == ">":
            depth -= 1
        elif c == "{":
            if depth <= 0:
                break
            b = match_brace(scope, b)
        b += 1
    if b >= len(scope):
        raise Unsupported("fn %s has no body" % fn_name)
    e = match_brace(scope, b)
    return scope[p0 + 1:p1], scope[b:e + 1]


def match_brace(s, i, open_="{", close="}"):
    depth, j, n = 0, i, len(s)
    while j < n:
        c = s[j]
        if s.startswith("//", j):
            j = s.index("\n", j)
            continue
        if c == '"':
            j += 1
            while s[j] != '"':
                j += 2 if s[j] == "\\" else 1
        elif c == open_:
            depth += 1
        elif c == close:
            depth -= 1
            if depth == 0:
                return j
        j += 1
    raise Unsupported("unbalanced " + open_)


def match_paren(s, i):
    return match_brace(s, i, "(", ")")


BINPREC = [("||", 1), ("&&", 2), ("==", 3), ("!=", 3), ("<", 3), (">", 3), ("<=", 3), (">=", 3),
           ("+", 5), ("-", 5), ("*", 6), ("/", 6), ("%", 6)]
PREC = dict(BINPREC)


class P:
    def __init__(self, toks):
        self.t, self.i = toks, 0

    def peek(self, k=0):
        return self.t[self.i + k]

    def next(self):
        x = self.t[self.i]
        self.i += 1
        return x

    def at(self, v):
        return self.t[self.i][1] == v and self.t[self.i][0] in ("op", "id")

    def eat(self, v):
        if self.at(v):
            self.i += 1
            return True
        return False

    def expect(self, v):
        if not self.eat(v):
            raise Unsupported("expected %r, got %r" % (v, self.peek()[1]))

    # ---- types (skipped structurally)
    def skip_type(self):
        depth = 0
        while True:
            k, v = self.peek()
            if k == "eof":
                return
            if v in ("<", "(", "["):
                depth += 1
            elif v in (">", ")", "]"):
                if depth == 0:
                    return
                depth -= 1
            elif depth == 0 and v in (",", "=", ";", "{", ")", "=>", "|"):
                return
            self.next()

    # ---- patterns
    def pattern(self):
        if self.eat("&"):
            self.eat("mut")
            return self.pattern()
        if self.eat("mut") or self.eat("ref"):
            return self.pattern()
        k, v = self.peek()
        if v == "_":
            self.next()
            return ("pwild",)
        if v == "(":
            self.next()
            ps = []
            while not self.at(")"):
                ps.append(self.pattern())
                if not self.eat(","):
                    break
            self.expect(")")
            return ("ptuple", ps) if len(ps) != 1 else ps[0]
        if k == "num" or v == "-":
            neg = self.eat("-")
            return ("plit", ("-" if neg else "") + self.next()[1])
        if k == "id":
            path = [self.next()[1]]
            while self.eat("::"):
                path.append(self.next()[1])
            if self.at("("):
                self.next()
                ps = []
                while not self.at(")"):
                    ps.append(self.pattern())
                    if not self.eat(","):
                        break
                self.expect(")")
                return ("pctor", path, ps)
            if self.at("{") and path[-1][0].isupper() and self.peek(1)[0] == "id" and self.peek(2)[1] in (":", ",", "}"):
                self.next()                                  # struct pattern `Name { field: pat, field, .. }`
                fs = []
                while not self.at("}"):
                    if self.eat(".."):
                        break
                    name = self.next()[1]
                    fs.append((name, self.pattern() if self.eat(":") else ("pvar", name)))
                    if not self.eat(","):
                        break
                self.expect("}")
                return ("pstruct", path, fs)
            if len(path) == 1 and (path[0][0].islower() or path[0][0] == "_"):
                return ("pvar", path[0])
            return ("pctor", path, [])
        raise Unsupported("pattern at %r" % v)

    # ---- blocks / statements
    def block(self):
        self.expect("{")
        stmts, tail = [], None
        while not self.at("}"):
            if self.eat(";"):
                continue
            if self.at("#"):
                self.next()
                self.expect("[")
                depth, toks = 1, []
                while depth:
                    k, v = self.next()
                    if v == "[": depth += 1
                    elif v == "]": depth -= 1
                    toks.append(v)
                if any("similari_verif" in t for t in toks):       # a hook statement: absent when the feature is off
                    self.expr()
                    self.eat(";")
                continue
            if self.at("while") and self.peek(1)[1] == "let":
                self.next(); self.next()
                pat = self.pattern()
                self.expect("=")
                scrut = self.expr(nostruct=True)
                body = self.block()
                stmts.append(("expr", ("whilelet", pat, scrut, body)))
                continue
            if self.at("let"):
                self.next()
                pat = self.pattern()
                ty = None
                if self.eat(":"):
                    i0 = self.i
                    self.skip_type()
                    ty = "".join(v for _, v in self.t[i0:self.i])
                self.expect("=")
                e = self.expr()
                self.expect(";")
                stmts.append(("let", pat, e, ty))
                continue
            if self.peek()[1] in ("if", "match", "for") and self.peek()[0] == "id":
                # an expression statement that starts with `if` / `match` / `for` ends at its closing brace
                e = self.primary(False)
                if self.at("}"):
                    tail = e
                else:
                    self.eat(";")
                    stmts.append(("expr", e))
                continue
            e = self.expr()
            if self.eat(";"):
                stmts.append(("expr", e))
            elif self.at("}"):
                tail = e
            elif e[0] in ("if", "iflet", "match", "block", "for"):
                stmts.append(("expr", e))
            else:
                raise Unsupported("statement boundary at %r" % self.peek()[1])
        self.expect("}")
        return ("block", stmts, tail)

    # ---- expressions
    def expr(self, nostruct=False, minp=0):
        lhs = self.unary(nostruct)
        while True:
            k, v = self.peek()
            if k == "id" and v == "as":
                self.next()
                ty = []
                while self.peek()[0] == "id" or self.at("::"):
                    ty.append(self.next()[1])
                lhs = ("cast", lhs, "".join(ty))
                continue
            if k == "op" and v in PREC and PREC[v] >= minp and PREC[v] > 0:
                p = PREC[v]
                if p < minp:
                    break
                self.next()
                rhs = self.expr(nostruct, p + 1)
                lhs = ("bin", v, lhs, rhs)
                continue
            if k == "op" and v == ".." and minp == 0:
                self.next()
                if self.at("]") or self.at(")"):            # `a..`: open-ended range
                    lhs = ("range", lhs, None)
                    continue
                rhs = self.expr(nostruct, 1)
                lhs = ("range", lhs, rhs)
                continue
            if k == "op" and v == "=" and minp == 0:
                self.next()
                rhs = self.expr(nostruct)
                lhs = ("assign", lhs, rhs)
                continue
            if k == "op" and v in ("+=", "-=", "*=") and minp == 0:
                self.next()
                rhs = self.expr(nostruct)
                lhs = ("assign", lhs, ("bin", v[0], lhs, ("paren", rhs)))
                continue
            break
        return lhs

    def unary(self, nostruct):
        if self.eat("-"):
            return ("un", "-", self.unary(nostruct))
        if self.eat("!"):
            return ("un", "!", self.unary(nostruct))
        if self.eat("&"):
            self.eat("mut")
            return self.unary(nostruct)
        if self.eat("*"):
            return self.unary(nostruct)
        return self.postfix(self.primary(nostruct), nostruct)

    def args(self, close=")"):
        xs = []
        while not self.at(close):
            xs.append(self.expr())
            if not self.eat(","):
                break
        self.expect(close)
        return xs

    def postfix(self, e, nostruct):
        while True:
            if self.at("."):
                self.next()
                k, v = self.next()
                if k == "num":                      # tuple index
                    e = ("field", e, v)
                    continue
                if k != "id":
                    raise Unsupported("after '.': %r" % v)
                if self.at("::"):                   # turbofish
                    self.next()
                    self.expect("<")
                    self.skip_type()
                    self.expect(">")
                if self.at("("):
                    self.next()
                    e = ("mcall", e, v, self.args())
                else:
                    e = ("field", e, v)
                continue
            if self.at("("):
                self.next()
                e = ("call", e, self.args())
                continue
            if self.at("["):
                self.next()
                ix = self.expr()
                self.expect("]")
                e = ("index", e, ix)
                continue
            if self.at("?"):
                self.next()
                e = ("try", e)
                continue
            return e

    def primary(self, nostruct):
        k, v = self.peek()
        if k == "num":
            self.next()
            return ("num", v)
        if k == "str":
            self.next()
            return ("str", v)
        if v == "(":
            self.next()
            if self.eat(")"):
                return ("tuple", [])
            xs = [self.expr()]
            tup = False
            while self.eat(","):
                tup = True
                if self.at(")"):
                    break
                xs.append(self.expr())
            self.expect(")")
            return ("tuple", xs) if tup else ("paren", xs[0])
        if v == "[":
            self.next()
            if self.at("]"):
                self.next()
                return ("array", [])
            first = self.expr()
            if self.eat(";"):                       # `[x; n]`
                n = self.expr()
                self.expect("]")
                return ("repeat", first, n)
            xs = [first]
            while self.eat(","):
                if self.at("]"):
                    break
                xs.append(self.expr())
            self.expect("]")
            return ("array", xs)
        if v == "{":
            return self.block()
        if v == "|" or v == "||":
            pats = []
            if v == "||":
                self.next()
            else:
                self.next()
                while not self.at("|"):
                    pats.append(self.pattern())
                    if self.eat(":"):
                        self.skip_type()
                    if not self.eat(","):
                        break
                self.expect("|")
            return ("closure", pats, self.expr())
        if v == "if":
            self.next()
            if self.eat("let"):
                pat = self.pattern()
                self.expect("=")
                scrut = self.expr(nostruct=True)
                thn = self.block()
                els = None
                if self.eat("else"):
                    els = self.primary(False) if self.at("if") else self.block()
                return ("iflet", pat, scrut, thn, els)
            c = self.expr(nostruct=True)
            thn = self.block()
            els = None
            if self.eat("else"):
                els = self.primary(False) if self.at("if") else self.block()
            return ("if", c, thn, els)
        if v == "match":
            self.next()
            scrut = self.expr(nostruct=True)
            self.expect("{")
            arms = []
            while not self.at("}"):
                pat = self.pattern()
                while self.eat("|"):
                    raise Unsupported("or-patterns")
                self.expect("=>")
                body = self.block() if self.at("{") else self.expr()      # a block arm ends at its brace
                self.eat(",")
                arms.append((pat, body))
            self.expect("}")
            return ("match", scrut, arms)
        if v == "for":
            self.next()
            pat = self.pattern()
            self.expect("in")
            it = self.expr(nostruct=True)
            body = self.block()
            return ("for", pat, it, body)
        if v == "return":
            self.next()
            if self.at(";") or self.at("}"):
                return ("return", ("tuple", []))
            return ("return", self.expr())
        if k == "id":
            self.next()
            if v.endswith("!"):
                opn = self.next()[1]
                close = {"(": ")", "[": "]", "{": "}"}[opn]
                if v[:-1] in ("assert", "debug_assert", "assert_eq", "assert_ne", "debug", "trace", "info", "warn", "error"):
                    depth = 1                                  # preconditions / logging: the arguments are not read
                    while depth:
                        t = self.next()[1]
                        if t == opn: depth += 1
                        elif t == close: depth -= 1
                    return ("macro", v[:-1], [])
                return ("macro", v[:-1], self.args(close))
            path = [v]
            while self.at("::"):
                self.next()
                if self.at("<"):
                    self.next()
                    self.skip_type()
                    self.expect(">")
                    continue
                path.append(self.next()[1])
            if self.at("{") and not nostruct and path[-1][0].isupper():
                self.next()
                fs = []
                while not self.at("}"):
                    if self.eat(".."):
                        fs.append(("..", self.expr()))
                        break
                    name = self.next()[1]
                    if self.eat(":"):
                        fs.append((name, self.expr()))
                    else:
                        fs.append((name, ("path", [name])))
                    if not self.eat(","):
                        break
                self.expect("}")
                return ("struct", path, fs)
            return ("path", path)
        raise Unsupported("expression at %r" % v)


def parse_block(text):
    p = P(tokenize(text))
    b = p.block()
    if p.peek()[0] != "eof":
        raise Unsupported("trailing tokens after body")
    return b


def parse_params(text):
    """parameter names of a fn signature (self included)"""
    names, depth, cur = [], 0, ""
    for ch in text + ",":
        if ch in "<([":
            depth += 1
        elif ch in ">)]":
            depth -= 1
        if ch == "," and depth == 0:
            cur = cur.strip()
            if cur:
                n = cur.split(":")[0].strip()
                n = n.replace("&", "").replace("mut ", "").strip()
                names.append(n)
            cur = ""
        else:
            cur += ch
    return names


def parse_fn(text, fn_name, impl_re=None, occurrence=0):
    params, body = find_fn(text, fn_name, impl_re, occurrence)
    return parse_params(params), parse_block(body)
