#!/usr/bin/env python3
"""Kernel translator (DESIGN.md 14.8): regenerates lean/SimVerif/Gen/Kernels.lean from the bodies of
Similari's straight-line numeric and decision functions on every run.  Each function becomes a Lean
definition over an arbitrary linearly ordered field (floats are read as exact numbers; `sqrt`, `cos`,
`sin`, `floor` and named constants are parameters).  The hand-written files lean/SimVerif/Tie/*.lean
prove, for every generated definition, that it coincides with the hand-written model the property
theorems are about.  A source change that alters a formula therefore breaks a proof obligation.

usage: kernels.py <repo> <Gen dir>        exit 0 always when it could write the file; functions it could
not read become `-- UNREADABLE` stubs whose tie theorem then fails (a broken obligation, not a pass)."""
import sys, os, re
from fractions import Fraction
sys.path.insert(0, os.path.dirname(os.path.abspath(__file__)))
from rustexpr import parse_fn, find_fn, parse_block, parse_params, Unsupported

LEAN_KW = {"at", "from", "end", "open", "fun", "show", "have", "then", "do", "in", "if", "else", "let", "match",
           "with", "by", "where", "namespace", "section", "def", "theorem", "instance", "class", "structure",
           "deriving", "import", "variable", "universe", "local", "private", "protected", "mutual", "macro",
           "syntax", "notation", "prefix", "infix", "postfix", "this", "Type", "Prop", "Sort", "calc", "suffices",
           "obtain", "using", "only", "exact", "max", "min", "abs", "union", "area", "e", "s", "c"} - {"e", "s", "c", "area", "union"}


def ident(n):
    return n + "_" if n in LEAN_KW else n


def number(text):
    t = re.sub(r"_?(f32|f64|u8|u16|u32|u64|u128|usize|i8|i16|i32|i64|i128|isize)$", "", text).replace("_", "")
    fr = Fraction(t)
    if fr.denominator == 1:
        return str(fr.numerator)
    return "(%d / %d)" % (fr.numerator, fr.denominator)


FIELD = {"confidence": "conf", "x": "1", "y": "2", "0": "1", "1": "2"}

# method name -> template over (receiver, args...)
METHOD = {
    "abs": "absv {0}", "sqrt": "sqrt {0}", "max": "maxv {0} {1}", "min": "minv {0} {1}", "floor": "floor {0}",
    "cos": "cos {0}", "sin": "sin {0}", "unwrap_or": "Option.getD {0} {1}", "is_some": "Option.isSome {0}",
    "is_none": "Option.isNone {0}", "clone": "{0}", "get_radius": "get_radius sqrt {0}", "area": "area {0}",
    "unwrap": "{0}", "try_into": "{0}", "iter": "{0}", "find": "List.find? {1} {0}", "read": "{0}",
    "as_ref": "{0}", "attr": "{0}", "expect": "{0}", "map": "Option.map {1} {0}", "filter": "Option.filter {1} {0}",
    "back": "{0}",
}
CALL = {
    "Some": "some {0}", "Ok": "some {0}", "Err": "none", "LineString": "{0}", "Polygon::new": "{0}",
    "BoundingBox::intersection": "bb_intersection {0} {1}",
    "Universal2DBox::too_far": "too_far sqrt {0} {1}",
    "Universal2DBox::dist_in_2r": "dist_in_2r sqrt eps {0} {1}",
}
PATH = {"None": "none", "EPS": "eps", "PI": "pi", "CHI2_UPPER_BOUND": "upper", "GenericBBoxConversionError": "()",
        "true": "true", "false": "false"}
PCTOR = {"Some": "some", "None": "none", "Ok": "some", "Err": "none"}
STRUCT = {
    "Universal2DBox": ("UBox α", {"xc": "xc", "yc": "yc", "angle": "angle", "aspect": "aspect", "height": "height",
                                  "confidence": "conf", "_vertex_cache": None}),
    "BoundingBox": ("BBox α", {"left": "left", "top": "top", "width": "width", "height": "height", "confidence": "conf"}),
    "Coord": None,     # (x, y)
}


class Emit:
    def __init__(self, cfg):
        self.cfg = cfg
        self.method = dict(METHOD, **cfg.get("method", {}))
        self.call = dict(CALL, **cfg.get("call", {}))
        self.path = dict(PATH, **cfg.get("path", {}))
        self.field = dict(FIELD, **cfg.get("field", {}))
        self.index = cfg.get("index", {})
        self.pctor = dict(PCTOR, **cfg.get("pctor", {}))

    def pat(self, p):
        k = p[0]
        if k == "pwild":
            return "_"
        if k == "pvar":
            return ident(p[1])
        if k == "ptuple":
            return "(" + ", ".join(self.pat(x) for x in p[1]) + ")"
        if k == "plit":
            return number(p[1])
        if k == "pctor":
            key = "::".join(p[1])
            name = self.pctor.get(key) if key in self.pctor else self.pctor.get(p[1][-1])
            if name == "" and len(p[2]) == 1:
                return self.pat(p[2][0])
            if name is None:
                raise Unsupported("pattern constructor " + key)
            if p[2] and name != "none":
                return "(" + name + " " + " ".join(self.pat(x) for x in p[2]) + ")"
            return name
        if k == "pstruct":
            order = self.cfg.get("structpat", {}).get(p[1][-1])
            if order is None:
                raise Unsupported("struct pattern " + p[1][-1])
            d = dict(p[2])
            return "⟨" + ", ".join(self.pat(d[f]) if f in d else "_" for f in order) + "⟩"
        raise Unsupported("pattern " + k)

    def pvars(self, p):
        if p[0] == "pstruct":
            return set().union(*[self.pvars(x) for _, x in p[2]]) if p[2] else set()
        if p[0] == "pvar":
            return {p[1]}
        if p[0] in ("ptuple",):
            return set().union(*[self.pvars(x) for x in p[1]]) if p[1] else set()
        if p[0] == "pctor":
            return set().union(*[self.pvars(x) for x in p[2]]) if p[2] else set()
        return set()

    def free(self, e):
        """identifiers mentioned in an expression (over-approximation)"""
        out = set()
        def go(x):
            if isinstance(x, tuple):
                if x and x[0] == "path" and len(x[1]) == 1:
                    out.add(x[1][0])
                for y in x:
                    go(y)
            elif isinstance(x, list):
                for y in x:
                    go(y)
        go(e)
        return out

    def block(self, b):
        _, stmts, tail = b
        parts = []
        for si, s in enumerate(stmts):
            if s[0] == "let" and s[2][0] == "try" and self.cfg.get("optmonad"):
                # `let pat = e?;` inside a function / closure returning `Option`: `None` ends it
                inner = self.block(("block", list(stmts[si + 1:]), tail))
                t = "(match %s with\n    | some %s => %s\n    | none => none)" % (self.e(s[2][1]), self.pat(s[1]), inner)
                return "(" + ";\n    ".join(parts + [t]) + ")" if parts else t
            if s[0] == "let":
                pat, e = s[1], s[2]
                if pat[0] == "ptuple" and e[0] == "tuple" and len(pat[1]) == len(e[1]) and \
                        not (self.pvars(pat) & set().union(*[self.free(x) for x in e[1]])) and \
                        all(q[0] in ("pvar", "pwild") for q in pat[1]):
                    for q, x in zip(pat[1], e[1]):
                        if q[0] == "pvar":
                            parts.append("let %s := %s" % (ident(q[1]), self.e(x)))
                else:
                    parts.append("let %s := %s" % (self.pat(pat), self.e(e)))
            elif s[0] == "expr":
                x = s[1]
                if x[0] == "macro" and x[1] in ("assert", "debug_assert", "assert_eq", "debug", "trace"):
                    continue                                   # preconditions: stated in the tie theorem; logging: no effect on values
                if x[0] == "macro" and x[1] in self.cfg.get("macro", {}) and s is stmts[-1] and tail is None:
                    tail = x                                   # diverging macro in value position
                    continue
                raise Unsupported("statement with an effect: " + x[0])
        if tail is None:
            raise Unsupported("block without a value")
        t = self.e(tail)
        if not parts:
            return t
        return "(" + ";\n    ".join(parts) + ";\n    " + t + ")"

    def e(self, x):
        k = x[0]
        if k == "num":
            if re.search(r"[.eE]|f32|f64", x[1]) and not re.fullmatch(r"0x[0-9a-fA-F_]+", x[1]):
                return "(%s : %s)" % (number(x[1]), self.cfg.get("scalar", "α"))     # a float literal: typed, so that `let mut acc = 0.0` is not a Nat
            return number(x[1])
        if k == "paren":
            return "(" + self.e(x[1]) + ")"
        if k == "cast":
            t = self.cfg.get("cast", {}).get(x[2])
            return t.format(self.atom(x[1])) if t else self.e(x[1])
        if k == "block":
            if self.cfg.get("imperative") and x[2] is not None and (any(st[0] == "expr" for st in x[1]) or self.cfg.get("lockmethods")):
                return "(" + self.imp(list(x[1]), self.e(x[2])) + ")"
            return self.block(x)
        if k == "tuple":
            return "(" + ", ".join(self.e(y) for y in x[1]) + ")"
        if k == "repeat":
            return "(List.replicate %s %s)" % (self.atom(x[2]), self.atom(x[1]))
        if k == "array":
            return "[" + ", ".join(self.e(y) for y in x[1]) + "]"
        if k == "macro":
            if x[1] == "matches" and len(x[2]) == 2:
                def topat(y):
                    if y[0] == "call" and y[1][0] == "path":
                        if y[1][1][-1] in self.cfg.get("transparent_ctors", ()):
                            return topat(y[2][0])
                        return ("pctor", y[1][1], [topat(z) for z in y[2]])
                    if y[0] == "path":
                        return ("pctor", y[1], []) if (len(y[1]) > 1 or y[1][0][0].isupper()) else ("pvar", y[1][0])
                    raise Unsupported("pattern of matches!")
                return "(match %s with\n    | %s => true\n    | _ => false)" % (self.e(x[2][0]), self.pat(topat(x[2][1])))
            if x[1] == "vec":
                return "[" + ", ".join(self.e(y) for y in x[2]) + "]"
            if x[1] in self.cfg.get("macro", {}):
                return self.cfg["macro"][x[1]]
            raise Unsupported("macro " + x[1])
        if k == "un":
            if x[1] == "-":
                return "(-" + self.e(x[2]) + ")"
            return "(!" + self.e(x[2]) + ")"
        if k == "bin":
            op, a, b = x[1], self.e(x[2]), self.e(x[3])
            if op in ("+", "-", "*", "/", "%"):
                return "(%s %s %s)" % (a, op, b)
            if op in ("&&", "||"):
                return "(%s %s %s)" % (a, op, b)
            lop = {"==": "=", "!=": "≠", "<": "<", ">": ">", "<=": "≤", ">=": "≥"}[op]
            return "decide (%s %s %s)" % (a, lop, b)
        if k == "path":
            key = "::".join(x[1])
            if key in self.path:
                return self.path[key]
            if len(x[1]) == 1:
                return ident(x[1][0])
            raise Unsupported("path " + key)
        if k == "field":
            dotted = self.dotted(x)
            if dotted is not None and dotted in self.cfg.get("fieldpath", {}):
                return self.cfg["fieldpath"][dotted]
            base = x[1]
            if base[0] == "path" and base[1] == ["self"] and ("self." + x[2]) in self.field:
                return self.field["self." + x[2]]
            return "%s.%s" % (self.atom(base), self.field.get(x[2], x[2]))
        if k == "mcall":
            name = x[2]
            key = name
            if name not in self.method:
                raise Unsupported("method ." + name + "()")
            args = [self.atom(x[1])] + [self.atom(a) for a in x[3]]
            tmpl = self.method[key]
            if isinstance(tmpl, list):                     # one template per occurrence, in source order (receivers are emitted first)
                self.occ = getattr(self, "occ", {})
                i = self.occ.get(key, 0)
                self.occ[key] = i + 1
                tmpl = tmpl[min(i, len(tmpl) - 1)]
            return "(" + tmpl.format(*args) + ")"
        if k == "call":
            f = x[1]
            if f[0] != "path":
                raise Unsupported("call of a non-path")
            key = "::".join(f[1])
            if key not in self.call:
                raise Unsupported("call " + key)
            return "(" + self.call[key].format(*[self.atom(a) for a in x[2]]) + ")"
        if k == "index":
            b = x[1]
            if b[0] == "path" and "::".join(b[1]) in self.index:
                return "(" + self.index["::".join(b[1])].format(self.atom(x[2])) + ")"
            if self.cfg.get("matrix"):                       # `mean[4]`: entry of a column vector, by its storage index
                return "(%s (NatIdx.ofNat %s) 0)" % (self.atom(b), self.atom(x[2]))
            if x[2][0] == "range" and x[2][2] is None:       # `&v[a..]`
                return "(List.drop %s %s)" % (self.atom(x[2][1]), self.atom(b))
            if self.cfg.get("vecget"):
                return "(%s %s %s)" % (self.cfg["vecget"], self.atom(b), self.atom(x[2]))
            if self.cfg.get("imperative"):
                return "%s[%s]!" % (self.atom(b), self.e(x[2]))
            raise Unsupported("indexing")
        if k == "if":
            if x[3] is None:
                raise Unsupported("if without else")
            return "(if %s then %s else %s)" % (self.e(x[1]), self.e(x[2]), self.e(x[3]))
        if k == "iflet":
            if x[4] is None:
                raise Unsupported("if let without else")
            return "(match %s with\n    | %s => %s\n    | _ => %s)" % (self.e(x[2]), self.pat(x[1]), self.e(x[3]), self.e(x[4]))
        if k == "match":
            arms = "".join("\n    | %s => %s" % (self.pat(p), self.e(b)) for p, b in x[2])
            return "(match %s with%s)" % (self.e(x[1]), arms)
        if k == "closure" and self.cfg.get("cps_closures") and x[2][0] == "block" and self.has_return(x[2]):
            oldret, oldwrap = self.cfg.get("ret"), self.retwrap
            self.cfg["ret"], self.retwrap = "{0}", (lambda v: v)
            body = self.cps(list(x[2][1]), x[2][2], lambda v: v, {}, {})
            self.cfg["ret"], self.retwrap = oldret, oldwrap
            return "(fun %s => (%s))" % (" ".join(self.pat(p_) for p_ in x[1]), body)
        if k == "closure":
            ps = " ".join(self.pat(p) if p[0] == "pvar" else "(" + self.pat(p)[1:-1] + ")" if False else self.pat(p) for p in x[1])
            if len(x[1]) == 1 and x[1][0][0] == "ptuple":
                return "(fun %s => %s)" % (self.pat(x[1][0]), self.e(x[2]))
            return "(fun %s => %s)" % (ps, self.e(x[2]))
        if k == "struct":
            name = x[1][-1]
            if name == "Self":
                name = self.cfg.get("Self", name)
            if self.cfg.get("struct", {}).get(name) == "tuple":
                return "(" + ", ".join(self.e(fe) for fn, fe in x[2]) + ")"
            if name in self.cfg.get("struct", {}):
                ty, fmap = self.cfg["struct"][name]
                return "({ " + ", ".join("%s := %s" % (fmap[fn], self.e(fe)) for fn, fe in x[2]) + " } : " + ty + ")"
            if name not in STRUCT:
                raise Unsupported("struct literal " + name)
            if STRUCT[name] is None:
                d = dict(x[2])
                return "(%s, %s)" % (self.e(d["x"]), self.e(d["y"]))
            ty, fmap = STRUCT[name]
            fs = []
            for fn, fe in x[2]:
                if fn not in fmap:
                    raise Unsupported("field %s of %s" % (fn, name))
                if fmap[fn] is None:
                    continue
                fs.append("%s := %s" % (fmap[fn], self.e(fe)))
            return "({ " + ", ".join(fs) + " } : " + ty + ")"
        raise Unsupported("expression form " + k)

    # ---- imperative bodies (loops with mutable vectors): state-passing translation
    def lhs_name(self, x):
        """the Lean variable a mutable place is translated to: a local, or a field path listed in `fieldpath`"""
        while x[0] == "mcall" and x[2] in self.cfg.get("lockmethods", ()) and (not x[3] or x[2] == "expect"):
            x = x[1]                                      # `self.store.write().unwrap()`: the place behind the lock
        if x[0] == "mcall" and x[1] == ("path", ["self"]) and not x[3] and x[2] in self.cfg.get("placemethods", {}):
            return self.cfg["placemethods"][x[2]]         # `self.get_main_store_mut()`: an accessor that hands out the place
        d = self.dotted(x)
        if d is None:
            return None
        if d in self.cfg.get("fieldpath", {}):
            return self.cfg["fieldpath"][d]
        return ident(d) if "." not in d else None

    def assigned(self, stmts):
        """variables assigned / pushed to / popped in the statements (recursively), minus those `let`-declared at this level"""
        out, declared = [], set()
        def add(v):
            if v not in declared and v not in out and v not in self.cfg.get("ignore_assign", ()):
                out.append(v)
        def walk(x):
            if x[0] == "assign" and self.lhs_name(x[1]) is not None:
                add(self.lhs_name(x[1]))
            elif x[0] == "assign" and x[1][0] == "index" and self.lhs_name(x[1][1]) is not None:
                add(self.lhs_name(x[1][1]))
            elif x[0] == "assign" and x[1][0] == "field" and x[1][1][0] == "path" and x[1][1][1][0] in self.cfg.get("recordvars", ()):
                add(ident(x[1][1][1][0]))
            elif x[0] == "mcall" and (x[2] in ("push", "pop", "push_back", "pop_front") or x[2] in self.cfg.get("mutmethods", {})) \
                    and self.lhs_name(x[1]) is not None:
                add(self.lhs_name(x[1]))
            elif x[0] == "assign" and x[1][0] == "mcall" and x[1][2] in self.cfg.get("setters", {}) and self.lhs_name(x[1][1]) is not None:
                add(self.lhs_name(x[1][1]))
            elif self.selfopt_stmt(x) is not None:
                for v in self.selfopt_stmt(x)[0]:
                    add(v)
            elif x[0] == "mcall" and x[2] in ("unwrap", "expect") and x[1][0] == "mcall" and x[1][2] in self.cfg.get("sendlog", {}):
                add(self.cfg["sendlog"][x[1][2]][0])
            elif self.foreach_target(x) is not None:
                add(self.foreach_target(x)[0])
            elif x[0] == "mcall" and x[2] in self.cfg.get("selfmut", {}) and x[1] == ("path", ["self"]):
                a0 = self.cfg["selfmut"][x[2]][0]
                add(a0 if isinstance(a0, str) else self.lhs_name(x[3][a0]))
            elif x[0] == "for":
                for v in self.assigned(self.as_stmts(x[3])):
                    add(v)
            elif x[0] == "match":
                for _, b in x[2]:
                    for v in self.assigned(self.as_stmts(b)):
                        add(v)
            elif x[0] == "if":
                for br in (x[2], x[3]):
                    if br is not None:
                        for v in self.assigned(self.as_stmts(br)):
                            add(v)
            elif x[0] == "iflet":
                bound = {ident(n) for n in self.pvars(x[1])}
                for br in (x[3], x[4]):
                    if br is not None:
                        for v in self.assigned(self.as_stmts(br)):
                            if v not in bound:
                                add(v)
        def walk_value(x):                                # a value-carrying `if` / `if let` / `match` / block with effects inside
            if x[0] == "block":
                for v in self.assigned(list(x[1])):
                    add(v)
                if x[2] is not None:
                    walk_value(x[2])
            elif x[0] == "if":
                walk_value(x[2]); x[3] is not None and walk_value(x[3])
            elif x[0] == "iflet":
                walk_value(x[3]); x[4] is not None and walk_value(x[4])
            elif x[0] == "match":
                for _, b in x[2]:
                    walk_value(b)
        for s in stmts:
            if s[0] == "let":
                if self.cfg.get("value_effects"):
                    r = s[2]
                    if r[0] == "mcall" and r[2] in self.cfg.get("effmethods", {}) and self.eff_recv(r[1]) is not None:
                        add(self.eff_recv(r[1]))
                    elif r[0] in ("if", "iflet", "match", "block"):
                        walk_value(r)
                if not (self.cfg.get("lockmethods") and s[2][0] == "mcall" and s[2][2] in self.cfg["lockmethods"] and s[1][0] == "pvar"
                        and self.lhs_name(s[2]) == ident(s[1][1])):      # `let mut g = g.write().unwrap();`: still the shared place
                    declared |= self.pvars(s[1])
            else:
                x = s[1]
                if self.cfg.get("value_effects") and x[0] == "mcall" and x[2] in ("unwrap", "expect") and x[1][0] == "mcall" \
                        and x[1][2] in self.cfg.get("optmut", {}) and self.lhs_name(x[1][1]) is not None:
                    add(self.lhs_name(x[1][1]))
                walk(x)
        return out

    def eff_recv(self, x):
        """the state variable a `&mut self` method call writes: a local, a listed place, or `selfvar` for `self`"""
        if x == ("path", ["self"]) and self.cfg.get("selfvar"):
            return self.cfg["selfvar"]
        return self.lhs_name(x)

    def selfopt_stmt(self, x):
        """`self.m(args);` for a `&mut self` method that writes several places and may panic: (pattern of the places, Lean call)"""
        if x[0] == "mcall" and x[1] == ("path", ["self"]) and x[2] in self.cfg.get("selfopt", {}):
            places, tmpl = self.cfg["selfopt"][x[2]]
            return places, tmpl.format(*[self.atom(a) for a in x[3]])
        return None

    def valbranch(self, x, w, wrap):
        """a value-carrying branch with effects: the Lean value is `wrap((value, w…))` with `w` the outer variables it assigns"""
        if x[0] == "block":
            if x[2] is None:
                raise Unsupported("value branch without a value")
            return "(" + self.imp(list(x[1]), self.valbranch(x[2], w, wrap)) + ")"
        if x[0] == "if" and x[3] is not None:
            return "(if %s then %s else %s)" % (self.e(x[1]), self.valbranch(x[2], w, wrap), self.valbranch(x[3], w, wrap))
        if x[0] == "iflet" and x[4] is not None:
            return "(match %s with\n    | %s => %s\n    | _ => %s)" % (self.e(x[2]), self.pat(x[1]), self.valbranch(x[3], w, wrap), self.valbranch(x[4], w, wrap))
        if x[0] == "match":
            return "(match %s with%s)" % (self.e(x[1]), "".join("\n    | %s => %s" % (self.pat(p_), self.valbranch(b, w, wrap)) for p_, b in x[2]))
        return wrap(self.tup([self.e(x)] + w))

    def mtype(self, ty):
        """`SVector<f32, N>` / `SMatrix<f32, R, C>` as a Lean matrix type over the index types of the configuration"""
        if not self.cfg.get("matrix"):
            return None
        m = re.fullmatch(r"S(Vector|Matrix)<f32,(\w+)(?:,(\w+))?>", ty.replace(" ", ""))
        if not m:
            return None
        dims = self.cfg["dims"]
        r = dims.get(m.group(2))
        c = "(Fin 1)" if m.group(1) == "Vector" else dims.get(m.group(3))
        if r is None or c is None:
            raise Unsupported("matrix dimension in " + ty)
        return "Matrix %s %s α" % (r, c)

    def foreach_target(self, x):
        """`V.iter_mut().for_each(<closure>)` where the closure is one of the reviewed element updates of the configuration
        (compared as syntax trees): (V, lean function) - anything else is not recognised (and then Unsupported)"""
        if x[0] == "mcall" and x[2] == "for_each" and len(x[3]) == 1 and x[1][0] == "mcall" and x[1][2] == "iter_mut" \
                and self.lhs_name(x[1][1]) is not None:
            from rustexpr import P, tokenize
            for src, fn in self.cfg.get("foreach", {}).items():
                if P(tokenize(src)).expr() == x[3][0]:
                    return self.lhs_name(x[1][1]), fn
        return None

    def as_stmts(self, blk):
        """statements of a unit-valued block (a trailing `for`/`if` is a statement); an `else if` is one statement"""
        if blk[0] != "block":
            return [("expr", blk)]
        st = list(blk[1])
        if blk[2] is not None:
            st.append(("expr", blk[2]))
        return st

    def tup(self, vs):
        return vs[0] if len(vs) == 1 else "(" + ", ".join(vs) + ")"

    def imp(self, stmts, result):
        if not stmts:
            return result
        s, rest = stmts[0], stmts[1:]
        tailstr = lambda: self.imp(rest, result)
        if s[0] == "let" and self.cfg.get("lockmethods") and s[2][0] == "mcall" and s[2][2] in self.cfg["lockmethods"] and self.lhs_name(s[2]) is not None:
            return "let %s := %s;\n    %s" % (self.pat(s[1]), self.lhs_name(s[2]), tailstr())      # `let lock = self.store.read().unwrap();`: a name for the place
        if s[0] == "let" and self.cfg.get("value_effects") and s[2][0] == "mcall" and s[2][2] in self.cfg.get("effmethods", {}) \
                and isinstance(self.cfg["effmethods"][s[2][2]], tuple) and self.eff_recv(s[2][1]) is not None:
            v = self.eff_recv(s[2][1])                       # `let x = self.m(args);` for a total `&mut self` method with a value: `(state', value)`
            args = [v] + [self.atom(a) for a in s[2][3]]
            return "let (%s, %s) := (%s);\n    %s" % (v, self.pat(s[1]), self.cfg["effmethods"][s[2][2]][0].format(*args), tailstr())
        if s[0] == "let" and self.cfg.get("value_effects") and s[2][0] in ("if", "iflet", "match", "block") and self.assigned([("let", ("pwild",), s[2])]):
            w = self.assigned([("let", ("pwild",), s[2])])
            if self.cfg.get("unwrap_panics"):                # the branches may panic: they yield `some (value, w…)` or `none`
                return "(match %s with\n    | some %s => (%s)\n    | none => none)" % (
                    self.valbranch(s[2], w, lambda t: "(some %s)" % t), self.tup([self.pat(s[1])] + w), tailstr())
            return "let %s := %s;\n    %s" % (self.tup([self.pat(s[1])] + w), self.valbranch(s[2], w, lambda t: t), tailstr())
        if s[0] == "let" and s[2][0] == "mcall" and s[2][2] in self.cfg.get("sendres", {}):
            log, tmpl = self.cfg["sendres"][s[2][2]]         # `let res = chan.send(msg);`: the message joins the log (the result is looked at later)
            return "let %s := (%s ++ [%s]);\n    %s" % (log, log, tmpl.format(self.atom(s[2][1]), *[self.atom(a) for a in s[2][3]]), tailstr())
        if s[0] == "let" and s[2][0] == "mcall" and s[2][2] in self.cfg.get("optlets", {}):
            # `let x = recv.m();` where `m` unwraps inside (`unchecked_…`): the rest runs on `some`
            return "(match %s with\n    | some %s => (%s)\n    | none => none)" % (
                self.cfg["optlets"][s[2][2]].format(self.atom(s[2][1]), *[self.atom(a) for a in s[2][3]]), self.pat(s[1]), tailstr())
        if s[0] == "let" and self.cfg.get("unwrap_panics") and s[2][0] == "mcall" and s[2][2] in ("unwrap", "expect"):
            # `let pat = e.unwrap();` in a function whose panics are modelled as `none`: the rest runs on `some`
            inner = s[2][1]
            if inner[0] == "mcall" and inner[2] == "pop" and not inner[3] and self.lhs_name(inner[1]) is not None:
                v = self.lhs_name(inner[1])                  # `v.pop().unwrap()`: the last element, and `v` loses it
                return "(match List.getLast? %s with\n    | some %s => (let %s := (List.dropLast %s);\n    %s)\n    | none => none)" % (v, self.pat(s[1]), v, v, tailstr())
            return "(match %s with\n    | some %s => (%s)\n    | none => none)" % (self.e(inner), self.pat(s[1]), tailstr())
        if s[0] == "let" and s[2][0] == "mcall" and s[2][2] in self.cfg.get("effmethods", {}) and self.lhs_name(s[2][1]) is not None:
            # `let pat = recv.m(args);` where `m` takes `&mut self`, returns a value and may panic: `some (recv', value)` or `none`
            v = self.lhs_name(s[2][1])
            args = [v] + [self.atom(a) for a in s[2][3]]
            return "(match %s with\n    | some (%s, %s) => (%s)\n    | none => none)" % (self.cfg["effmethods"][s[2][2]].format(*args), v, self.pat(s[1]), tailstr())
        if s[0] == "let":
            ty = self.mtype(s[3]) if len(s) > 3 and s[3] else None
            return "let %s%s := %s;\n    %s" % (self.pat(s[1]), " : " + ty if ty else "", self.e(s[2]), tailstr())
        x = s[1]
        if x[0] == "assign" and x[1][0] == "mcall" and x[1][2] in self.cfg.get("setters", {}) \
                and self.lhs_name(x[1][1]) is not None:       # `*v.attr_mut() = e` (the reader drops `*`): the place the accessor borrows is written
            v = self.lhs_name(x[1][1])
            return "let %s := (%s);\n    %s" % (v, self.cfg["setters"][x[1][2]].format(v, self.atom(x[2])), tailstr())
        if x[0] == "assign" and x[1][0] == "index" and x[1][2][0] == "tuple" and len(x[1][2][1]) == 2 and self.cfg.get("matrix") \
                and self.lhs_name(x[1][1]) is not None:                        # `m[(i, j)] = v`
            v = self.lhs_name(x[1][1])
            return "let %s := (setEntry %s %s %s %s);\n    %s" % (v, v, self.atom(x[1][2][1][0]), self.atom(x[1][2][1][1]), self.atom(x[2]), tailstr())
        if x[0] == "macro" and x[1] in ("assert", "debug_assert", "assert_eq", "debug", "trace"):
            return tailstr()
        if x[0] == "assign" and self.lhs_name(x[1]) is not None:
            return "let %s := %s;\n    %s" % (self.lhs_name(x[1]), self.e(x[2]), tailstr())
        if x[0] == "assign" and x[1][0] == "field" and x[1][1][0] == "path" and x[1][1][1][0] in self.cfg.get("recordvars", ()):
            v = ident(x[1][1][1][0])                       # `c.field = e` on a record held in a local
            return "let %s := { %s with %s := %s };\n    %s" % (v, v, self.field.get(x[1][2], x[1][2]), self.e(x[2]), tailstr())
        if x[0] == "for" and x[1][0] == "pvar" and x[1][1] in self.cfg.get("recordvars", ()) and self.lhs_name(x[2]) is not None:
            # `for c in &mut v { ... }`: the elements are rebuilt in order; other mutable places are carried along
            V, c = self.lhs_name(x[2]), ident(x[1][1])
            body = self.as_stmts(x[3])
            w = [n for n in self.assigned(body) if n != c]
            st = self.tup(["__acc"] + w)
            return "let %s := (List.foldl (fun %s %s => (%s)) %s %s);\n    %s" % (
                self.tup([V] + w), st, c, self.imp(body, self.tup(["(__acc ++ [%s])" % c] + w)), self.tup(["[]"] + w), V, tailstr())
        if x[0] == "assign" and x[1][0] == "index" and self.lhs_name(x[1][1]) is not None:      # `v[i] = e`
            v = self.lhs_name(x[1][1])
            return "let %s := (%s %s %s %s);\n    %s" % (v, self.cfg.get("vecset", "List.set"), v, self.atom(x[1][2]), self.atom(x[2]), tailstr())
        if x[0] == "mcall" and self.lhs_name(x[1]) is not None and x[2] in ("push", "push_back") and len(x[3]) == 1 and x[2] not in self.cfg.get("mutmethods", {}):
            v = self.lhs_name(x[1])
            return "let %s := (%s ++ [%s]);\n    %s" % (v, v, self.e(x[3][0]), tailstr())
        if x[0] == "mcall" and self.lhs_name(x[1]) is not None and x[2] == "pop" and not x[3]:
            v = self.lhs_name(x[1])
            return "let %s := (List.dropLast %s);\n    %s" % (v, v, tailstr())
        if x[0] == "mcall" and self.lhs_name(x[1]) is not None and x[2] == "pop_front" and not x[3]:
            v = self.lhs_name(x[1])
            return "let %s := (List.tail %s);\n    %s" % (v, v, tailstr())
        if x[0] == "mcall" and self.lhs_name(x[1]) is not None and x[2] in self.cfg.get("mutmethods", {}):
            v = self.lhs_name(x[1])
            args = [v] + [self.atom(a) for a in x[3]]
            return "let %s := (%s);\n    %s" % (v, self.cfg["mutmethods"][x[2]].format(*args), tailstr())
        if x[0] == "for" and x[1][0] == "ptuple" and len(x[1][1]) == 2 and x[2][0] == "mcall" and x[2][2] == "enumerate" \
                and x[2][1][0] == "mcall" and x[2][1][2] == "iter":
            # `for (idx, item) in v.iter().enumerate()`: a fold over the list paired with its indices
            body = self.as_stmts(x[3])
            w = self.assigned(body)
            if not w:
                raise Unsupported("loop or branch whose effect the reader does not recognise (nothing assigned)")
            t = self.tup(w)
            return "let %s := (List.foldl (fun %s (%s, %s) => (%s)) %s (List.zipIdx %s));\n    %s" % (
                t, t, self.pat(x[1][1][1]), self.pat(x[1][1][0]), self.imp(body, t), t, self.atom(x[2][1][1]), tailstr())
        if self.foreach_target(x) is not None:
            v, fn = self.foreach_target(x)
            return "let %s := (List.map %s %s);\n    %s" % (v, fn, v, tailstr())
        if x[0] == "mcall" and x[2] in self.cfg.get("selfmut", {}) and x[1] == ("path", ["self"]):
            argi, tmpl = self.cfg["selfmut"][x[2]]
            v = argi if isinstance(argi, str) else self.lhs_name(x[3][argi])
            return "let %s := (%s);\n    %s" % (v, tmpl.format(*[self.atom(a) for a in x[3]]), tailstr())
        if x[0] == "mcall" and x[2] in ("unwrap", "expect") and x[1][0] == "mcall" and x[1][2] in self.cfg.get("sendlog", {}):
            log, tmpl = self.cfg["sendlog"][x[1][2]]           # `chan.send(msg).unwrap();`: the message joins the log of what was sent, with its channel
            return "let %s := (%s ++ [%s]);\n    %s" % (log, log, tmpl.format(self.atom(x[1][1]), *[self.atom(a) for a in x[1][3]]), tailstr())
        if self.selfopt_stmt(x) is not None:
            places, call = self.selfopt_stmt(x)
            return "(match %s with\n    | some %s => (%s)\n    | none => none)" % (call, self.tup(list(places)), tailstr())
        if x[0] == "mcall" and x[2] in ("unwrap", "expect") and x[1][0] == "mcall" and x[1][2] in self.cfg.get("optmut", {}) \
                and self.lhs_name(x[1][1]) is not None:        # `place.m(args).unwrap();`: the mutation may fail, which panics here
            v = self.lhs_name(x[1][1])
            args = [v] + [self.atom(a) for a in x[1][3]]
            return "(match %s with\n    | some %s => (%s)\n    | none => none)" % (self.cfg["optmut"][x[1][2]].format(*args), v, tailstr())
        if x[0] == "for" and x[2][0] != "range" and self.cfg.get("unwrap_panics") and self.cfg.get("value_effects"):
            # a loop whose body may panic: the fold carries `some state` until an iteration yields `none`
            body = self.as_stmts(x[3])
            w = [v for v in self.assigned(body) if v not in {ident(n) for n in self.pvars(x[1])}]
            if not w:
                raise Unsupported("loop or branch whose effect the reader does not recognise (nothing assigned)")
            t = self.tup(w)
            return "(match (List.foldl (fun __acc %s => (match __acc with\n    | none => none\n    | some %s => (%s))) (some %s) %s) with\n    | some %s => (%s)\n    | none => none)" % (
                self.pat(x[1]), t, self.imp(body, "some " + t), t, self.atom(x[2]), t, tailstr())
        if x[0] == "for" and x[2][0] != "range":
            # `for <pattern> in <list expression>`: a fold over the list
            body = self.as_stmts(x[3])
            w = self.assigned(body)
            if not w:
                raise Unsupported("loop or branch whose effect the reader does not recognise (nothing assigned)")
            t = self.tup(w)
            return "let %s := (List.foldl (fun %s %s => (%s)) %s %s);\n    %s" % (
                t, t, self.pat(x[1]), self.imp(body, t), t, self.atom(x[2]), tailstr())
        if x[0] == "for":
            if x[1][0] != "pvar" or x[2][0] != "range":
                raise Unsupported("for loop that is not `for i in a..b`")
            body = self.as_stmts(x[3])
            w = self.assigned(body)
            if not w:
                raise Unsupported("loop or branch whose effect the reader does not recognise (nothing assigned)")
            t = self.tup(w)
            a, b = self.e(x[2][1]), self.e(x[2][2])
            return "let %s := (List.foldl (fun %s %s => (%s)) %s (List.range' %s (%s - %s)));\n    %s" % (
                t, t, ident(x[1][1]), self.imp(body, t), t, a, b, a, tailstr())
        if x[0] == "if" and x[3] is None and [t[1] for t in self.as_stmts(x[2])] == [("path", ["continue"])]:
            # `if c { continue; }` inside a loop body: the rest of the body runs only when `c` is false
            # (`result` is the tuple of the loop-carried variables, which is what an iteration yields)
            return "(if %s then %s else (%s))" % (self.e(x[1]), result, tailstr())
        if x[0] == "assign" and self.lhs_name(x[1]) in self.cfg.get("ignore_assign", ()):
            return tailstr()
        if x[0] == "match":
            w = []
            for _, b in x[2]:
                for v in self.assigned(self.as_stmts(b)):
                    if v not in w:
                        w.append(v)
            if not w:
                raise Unsupported("loop or branch whose effect the reader does not recognise (nothing assigned)")
            t = self.tup(w)
            arms = "".join("\n    | %s => (%s)" % (self.pat(p_), self.imp(self.as_stmts(b), t)) for p_, b in x[2])
            return "let %s := (match %s with%s);\n    %s" % (t, self.e(x[1]), arms, tailstr())
        if x[0] == "iflet":
            # `if let pat = e { … } [else { … }]` as a statement: the places the branches assign are carried out of the match
            thn = self.as_stmts(x[3])
            els = self.as_stmts(x[4]) if x[4] is not None else []
            bound = {ident(n) for n in self.pvars(x[1])}
            w = [v for v in self.assigned(thn + els) if v not in bound]
            if not w:
                raise Unsupported("loop or branch whose effect the reader does not recognise (nothing assigned)")
            t = self.tup(w)
            return "let %s := (match %s with\n    | %s => (%s)\n    | _ => (%s));\n    %s" % (t, self.e(x[2]), self.pat(x[1]), self.imp(thn, t), self.imp(els, t), tailstr())
        if x[0] == "if":
            thn = self.as_stmts(x[2])
            els = self.as_stmts(x[3]) if x[3] is not None else []
            w = self.assigned(thn + els)
            if not w:
                raise Unsupported("loop or branch whose effect the reader does not recognise (nothing assigned)")
            t = self.tup(w)
            return "let %s := (if %s then (%s) else (%s));\n    %s" % (t, self.e(x[1]), self.imp(thn, t), self.imp(els, t), tailstr())
        raise Unsupported("imperative statement " + x[0])

    def imperative(self, body):
        _, stmts, tail = body
        if "result" in self.cfg:                      # a `&mut self` method: the value is the tuple of the places it writes
            st = list(stmts)
            if tail is not None and not (tail[0] == "call" and tail[1] == ("path", ["Ok"])) and not (tail == ("path", ["self"]) and self.cfg["result"] == "self"):
                st.append(("expr", tail))
            return "(" + self.imp(st, self.cfg["result"]) + ")"
        if tail is not None and "retwrap" in self.cfg and tail[0] == "mcall" and tail[2] in self.cfg.get("effmethods", {}):
            stmts = list(stmts) + [("let", ("pvar", "__r"), tail)]      # `place.m(args)` in tail position: its value, after its effect
            tail = ("path", ["__r"])
        if tail is None:
            raise Unsupported("imperative body without a value")
        if "retwrap" in self.cfg:
            return "(" + self.imp(list(stmts), self.cfg["retwrap"].format(self.e(tail))) + ")"
        return "(" + self.imp(list(stmts), self.e(tail)) + ")"

    # ---- bodies with early returns and `get_mut` borrows: continuation-passing translation
    # K maps the Lean text of the value a path yields to the Lean text of the function's result on that path (the
    # mutable places are read by name when K is applied: `let` shadowing keeps their names stable).
    def has_return(self, x):
        if isinstance(x, tuple):
            if x and x[0] == "return":
                return True
            if x and x[0] == "try":
                return True
            if x and x[0] == "closure":
                return False
            return any(self.has_return(y) for y in x)
        if isinstance(x, list):
            return any(self.has_return(y) for y in x)
        return False

    def assigns_any(self, x):
        out = set()
        def go(y):
            if isinstance(y, tuple):
                if y and y[0] == "assign":
                    n = self.lhs_name(y[1])
                    if n:
                        out.add(n)
                for z in y:
                    go(z)
            elif isinstance(y, list):
                for z in y:
                    go(z)
        go(x)
        return out

    def mutated_captures(self, clo):
        """variables a closure changes through assignment or a mutating method call, not bound by the closure itself"""
        bound = set().union(*[self.pvars(p_) for p_ in clo[1]]) if clo[1] else set()
        out = set(self.assigns_any(clo[2]))
        def go(y):
            if isinstance(y, tuple):
                if y and y[0] == "mcall" and y[2] in self.cfg.get("mutmethods", {}) and self.lhs_name(y[1]) is not None:
                    out.add(self.lhs_name(y[1]))
                if y and y[0] == "assign" and y[1][0] == "index" and self.lhs_name(y[1][1]) is not None:
                    out.add(self.lhs_name(y[1][1]))
                if y and y[0] == "let":
                    bound.update(self.pvars(y[1]))
                for z in y:
                    go(z)
            elif isinstance(y, list):
                for z in y:
                    go(z)
        go(clo[2])
        return sorted(v for v in out if v not in bound)

    def hoist_map(self, e):
        """a `.map(<closure that mutates captured variables>)` inside an iterator chain: (receiver, closure, captured, rebuild)"""
        chain, cur = [], e
        while cur[0] == "mcall":
            if cur[2] == "map" and len(cur[3]) == 1 and cur[3][0][0] == "closure" and self.mutated_captures(cur[3][0]):
                def rebuild(newrecv, chain=list(chain)):
                    r = newrecv
                    for name, args in reversed(chain):
                        r = ("mcall", r, name, args)
                    return r
                captured = self.mutated_captures(cur[3][0])
                for name, args in reversed(chain):
                    if name in self.cfg.get("consumers", ("into_group_map", "collect", "sum", "count", "fold")):
                        break
                    if any(v in self.free(args) for v in captured):
                        raise Unsupported("a lazy stage reads a variable the stateful map changes")
                return cur[1], cur[3][0], captured, rebuild
            chain.append((cur[2], cur[3]))
            cur = cur[1]
        return None

    def hoist_filter(self, e):
        """a `.filter(<closure that assigns captured variables>)` inside an iterator chain: (receiver, closure, rebuild(new receiver expr))"""
        chain, cur = [], e
        while cur[0] == "mcall":
            if cur[2] == "filter" and len(cur[3]) == 1 and cur[3][0][0] == "closure" and self.assigns_any(cur[3][0][2]):
                def rebuild(newrecv, chain=list(chain)):
                    r = newrecv
                    for name, args in reversed(chain):
                        r = ("mcall", r, name, args)
                    return r
                captured = sorted(self.assigns_any(cur[3][0][2]))
                # laziness: the stages between this filter and the end of the chain must not read the captured variables
                # before the chain is consumed; we accept the chain only if the very next stages up to a consuming adaptor do not mention them
                for name, args in reversed(chain):
                    if name in self.cfg.get("consumers", ("into_group_map", "collect", "sum", "count", "fold")):
                        break
                    if any(v in self.free(args) for v in captured):
                        raise Unsupported("a lazy stage reads a variable the stateful filter assigns")
                return cur[1], cur[3][0], captured, rebuild
            chain.append((cur[2], cur[3]))
            cur = cur[1]
        return None

    def getmut(self, e):
        """`V.get_mut(&k)` on a map place of the configuration (optionally `.unwrap()`): (V, key text, unwrapped)"""
        unw = False
        if e[0] == "mcall" and e[2] in ("unwrap", "expect"):
            e, unw = e[1], True
        if e[0] == "mcall" and e[2] == "get_mut" and len(e[3]) == 1 and self.lhs_name(e[1]) is not None:
            return self.lhs_name(e[1]), self.atom(e[3][0]), unw
        if e[0] == "mcall" and e[2] in self.cfg.get("borrowcalls", {}) and len(e[3]) == 1:
            V, ktmpl = self.cfg["borrowcalls"][e[2]]           # e.g. `self.get_store(id)`: the guard of shard `id % n`
            return V, "(" + ktmpl.format(self.atom(e[3][0])) + ")", True
        return None

    def wb(self, names, borrows):
        """write the changed borrowed locals through to what they were borrowed from (and on, if that is itself a borrow)"""
        out, seen, work = "", set(), list(names)
        while work:
            v = work.pop(0)
            if v in borrows and borrows[v][0] != "__opt__" and v not in seen:
                seen.add(v)
                V, k = borrows[v][0], borrows[v][1]
                setfn = borrows[v][2][2] if len(borrows[v]) > 2 and borrows[v][2] else self.mapfn(2)
                out += "let %s := (%s %s %s %s);\n    " % (V, setfn, V, k, v)
                work.append(V)
        return out

    def mapfn(self, i):
        return self.cfg.get("mapfns", ("mapGet", "mapGetD", "mapSet"))[i]

    def cps(self, stmts, tail, K, borrows, optb):
        if not stmts:
            return self.cps_tail(tail, K, borrows, optb)
        s, rest = stmts[0], stmts[1:]
        cont = lambda b=borrows, o=optb: self.cps(rest, tail, K, b, o)
        if s[0] == "let" and self.cfg.get("hoist_maps") and self.hoist_map(s[2]) is not None:
            recv, clo, capt, rebuild = self.hoist_map(s[2])
            cv = self.tup(capt)
            cl_body = clo[2] if clo[2][0] == "block" else ("block", [], clo[2])
            body = self.cps(list(cl_body[1]), cl_body[2], lambda v: "(%s, %s)" % (v, cv), {}, {})
            pre = ("let (%s, __mapped) := (List.foldl (fun ((%s, __acc) : _ × List _) __it => (match __it with\n    | %s => (let (__val, %s) := (%s);\n    (%s, __acc ++ [__val])))) (%s, []) %s);\n    "
                   % (cv, cv, self.pat(clo[1][0]), cv, body, cv, cv, self.atom(recv)))
            return pre + self.cps([("let", s[1], rebuild(("path", ["__mapped"]))) + tuple(s[3:])] + rest, tail, K, borrows, optb)
        if s[0] == "let" and self.hoist_filter(s[2]) is not None:
            recv, clo, capt, rebuild = self.hoist_filter(s[2])
            cv = self.tup(capt)
            body = self.cps_tail(clo[2], lambda v: "(%s, %s)" % (v, cv), {}, {})
            pre = ("let (%s, __flt) := (List.foldl (fun ((%s, __acc) : _ × List _) __it => (match __it with\n    | %s => (let (__keep, %s) := (%s);\n    (%s, if __keep then __acc ++ [__it] else __acc)))) (%s, []) %s);\n    "
                   % (cv, cv, self.pat(clo[1][0]), cv, body, cv, cv, self.atom(recv)))
            return pre + self.cps([("let", s[1], rebuild(("path", ["__flt"]))) + tuple(s[3:])] + rest, tail, K, borrows, optb)
        if s[0] == "let" and s[2][0] == "mcall" and s[2][2] == "unwrap_or_else" and len(s[2][3]) == 1 and s[2][3][0][0] == "closure" \
                and not s[2][3][0][1] and self.mutated_captures(s[2][3][0]):
            clo = s[2][3][0]
            body = clo[2] if clo[2][0] == "block" else ("block", [], clo[2])
            m = ("match", s[2][1], [(("pctor", ["Some"], [("pvar", "__u")]), ("path", ["__u"])), (("pctor", ["None"], []), body)])
            return self.cps([("let", s[1], m) + tuple(s[3:])] + rest, tail, K, borrows, optb)
        if s[0] == "let" and s[2][0] == "try" and self.cfg.get("resultfn"):
            # `let pat = e?;`: an `Err` ends the function with that error
            inner = s[2][1]
            if inner[0] == "mcall" and inner[2] in self.cfg.get("effcalls", {}):
                return self.cps([("let", ("pvar", "__t"), inner), ("let", s[1], ("try", ("path", ["__t"])))] + rest, tail, K, borrows, optb)
            return "(match %s with\n    | Except.error __e => %s\n    | Except.ok %s => (%s))" % (self.e(inner), self.ret("(Except.error __e)"), self.pat(s[1]), cont())
        if s[0] == "expr" and s[1][0] == "try" and self.cfg.get("resultfn"):
            return self.cps([("let", ("pwild",), s[1])] + rest, tail, K, borrows, optb)
        if s[0] == "let":
            pat, e = s[1], s[2]
            gm = self.getmut(e)
            if gm and pat[0] == "pvar":
                V, k, unw = gm
                x = ident(pat[1])
                fns = self.cfg.get("borrowfns", {}).get(V)
                if unw:      # a borrow of the entry that lives on: written through after every change
                    return "let %s := (%s %s %s);\n    %s" % (x, (fns or self.cfg.get("mapfns", ("mapGet", "mapGetD", "mapSet")))[1], V, k, cont(dict(borrows, **{x: (V, k, fns)})))
                return cont(borrows, dict(optb, **{pat[1]: (V, k)}))          # an optional borrow, matched later
            if e[0] == "mcall" and e[2] in self.cfg.get("effcalls", {}) and pat[0] == "pvar":
                tmpl, muts = self.cfg["effcalls"][e[2]]
                pre, post, args, muts2 = "", "", [self.atom(e[1])], []
                for i, a in enumerate(e[3]):
                    gm = self.getmut(a)
                    if gm and gm[2]:               # `V.get_mut(&k).unwrap()` passed as `&mut`: read, pass, write back
                        tmp = "__e%d" % i
                        pre += "let %s := (%s %s %s);\n    " % (tmp, self.mapfn(1), gm[0], gm[1])
                        post += "let %s := (%s %s %s %s);\n    " % (gm[0], self.mapfn(2), gm[0], gm[1], tmp)
                        args.append(tmp)
                    else:
                        args.append(self.atom(a))
                for mname in muts:
                    muts2.append(args[int(mname[1:])] if mname.startswith("@") else mname)
                return "%slet (%s) := (%s);\n    %s%s%s" % (pre, ", ".join([ident(pat[1])] + muts2), tmpl.format(*args), post, self.wb(muts2, borrows), cont())
            if e[0] in ("if", "iflet", "match") and (self.uses_borrow(e, optb) or self.assigned([("expr", e)]) or self.mutated_captures(("closure", [], e))):
                K2 = lambda v: "let %s := %s;\n    %s" % (self.pat(pat), v, cont())
                def go(blk, b2):
                    if blk is None:
                        return self.final(K2, "()", b2)
                    if blk[0] != "block":
                        return self.cps_tail(blk, K2, b2, optb)
                    return self.cps(list(blk[1]), blk[2], K2, b2, optb)
                return self.cps_branch(e, go, borrows, optb, wrapK=True)
            if e[0] == "mcall" and e[2] == "clone" and self.lhs_name(e[1]) is not None and pat[0] == "pvar" and "clone" not in self.cfg.get("method", {}):
                return "let %s := %s;\n    %s" % (ident(pat[1]), self.lhs_name(e[1]), cont())
            return "let %s := %s;\n    %s" % (self.pat(pat), self.e(e), cont())
        x = s[1]
        if x[0] == "macro" and x[1] in ("assert", "debug_assert", "assert_eq", "debug", "trace"):
            return cont()
        if x[0] == "return":
            return self.ret(self.e(x[1]))
        if x[0] == "try" and rest and rest[0][0] == "expr" and rest[0][1][0] == "macro" and rest[0][1][1] == "unreachable":
            # `res?; unreachable!()` under `if res.is_err()`: the function returns `res`
            return self.ret(self.cfg.get("errcast", "{0}").format(self.e(x[1])))
        if x[0] == "for" and x[2][0] == "mcall" and x[2][2] == "values_mut" and self.lhs_name(x[2][1]) is not None and x[1][0] == "pvar":
            # `for v in map.values_mut() { ... }`: every value is replaced by what the body makes of it
            V, y = self.lhs_name(x[2][1]), ident(x[1][1])
            return "let %s := (List.map (fun ((__k, %s) : _ × _) => (__k, (%s))) %s);\n    %s" % (V, y, self.imp(self.as_stmts(x[3]), y), V, cont())
        if x[0] == "for" and not self.has_return(x) and "state" in self.cfg and (any(self.uses_borrow(t[1], optb) for t in self.as_stmts(x[3]) if t[0] == "expr" and t[1][0] in ("iflet", "match"))
                                                                                or any(t[0] == "let" and self.getmut(t[2]) for t in self.as_stmts(x[3]))):
            st = "(" + ", ".join(self.cfg["state"]) + ")" if len(self.cfg["state"]) > 1 else self.cfg["state"][0]
            body = self.cps(self.as_stmts(x[3]), None, lambda v: st, borrows, optb)
            it = "(List.range' %s (%s - %s))" % (self.e(x[2][1]), self.e(x[2][2]), self.e(x[2][1])) if x[2][0] == "range" else self.atom(x[2])
            return "let %s := (List.foldl (fun %s %s => (%s)) %s %s);\n    %s" % (st, st, self.pat(x[1]), body, st, it, cont())
        if x[0] == "for" and self.has_return(x):
            # a loop that can return: a fold over `Sum (returned value) (mutable places)`; an iteration that follows a return does nothing
            st = "(" + ", ".join(self.cfg["state"]) + ")"
            old = self.retwrap
            self.retwrap = lambda v, o=old: "Sum.inl (" + o(v) + ")"
            body = self.cps(self.as_stmts(x[3]), None, lambda v: "Sum.inr " + st, borrows, optb)
            self.retwrap = old
            return ("let __l := (List.foldl (fun __st %s => match __st with\n    | Sum.inl __r => Sum.inl __r\n    | Sum.inr %s => (%s)) (Sum.inr %s) %s);\n    "
                    "(match __l with\n    | Sum.inl __r => __r\n    | Sum.inr %s => (%s))") % (self.pat(x[1]), st, body, st, self.atom(x[2]), st, cont())
        if x[0] == "iflet" and x[2][0] == "mcall" and x[2][2] == "remove" and len(x[2][3]) == 1 and self.lhs_name(x[2][1]) is not None \
                and "removefns" in self.cfg:
            X, k = self.lhs_name(x[2][1]), self.atom(x[2][3][0])
            g, rm = self.cfg["removefns"]
            pre = "let __rm := (%s %s %s);\n    let %s := (%s %s %s);\n    %s" % (g, X, k, X, rm, X, k, self.wb([X], borrows))
            x2 = ("iflet", x[1], ("path", ["__rm"]), x[3], x[4])
            return pre + self.cps_branch(x2, lambda blk, b2: self.cps(self.as_stmts(blk) + rest if blk is not None else rest, tail, K, b2, optb), borrows, optb, wrapK=False)
        if x[0] in ("if", "iflet", "match") and (self.has_return(x) or self.uses_borrow(x, optb)):
            return self.cps_branch(x, lambda blk, b2, K2=None: self.cps(self.as_stmts(blk) + rest if blk is not None else rest, tail, K, b2, optb), borrows, optb, wrapK=False)
        w = self.assigned([s])
        return self.imp([s], self.wb(w, borrows) + cont())

    def uses_borrow(self, x, optb):
        sc = x[2] if x[0] == "iflet" else x[1]
        if sc[0] == "tuple":
            return any(self.uses_borrow(("match", c, []), optb) for c in sc[1])
        return self.getmut(sc) is not None or (sc[0] == "path" and len(sc[1]) == 1 and sc[1][0] in optb) or self.dotted(sc) in self.cfg.get("optplaces", {}) \
            or (sc[0] == "mcall" and not sc[3] and self.dotted(sc) in self.cfg.get("optplaces", {}))

    def scrut(self, sc, optb):
        """scrutinee text and, when it is a mutable borrow of a map entry / of an optional place, how to write it back"""
        gm = self.getmut(sc)
        if gm:
            fns = self.cfg.get("borrowfns", {}).get(gm[0])
            return "(%s %s %s)" % ((fns or self.cfg.get("mapfns", ("mapGet", "mapGetD", "mapSet")))[0], gm[0], gm[1]), ("map", gm[0], gm[1], fns)
        if sc[0] == "path" and len(sc[1]) == 1 and sc[1][0] in optb:
            V, k = optb[sc[1][0]]
            return "(%s %s %s)" % (self.mapfn(0), V, k), ("map", V, k)
        d = self.dotted(sc)
        if d in self.cfg.get("optplaces", {}):
            return self.cfg["optplaces"][d], ("opt", self.cfg["optplaces"][d])
        return self.e(sc), None

    def cps_branch(self, x, go, borrows, optb, wrapK):
        """an `if` / `if let` / `match` whose branches are continued by `go(block, borrows)`"""
        if x[0] == "if":
            return "(if %s then (%s) else (%s))" % (self.e(x[1]), go(x[2], borrows), go(x[3], borrows))
        arms = [(x[1], x[3]), (("pwild",), x[4])] if x[0] == "iflet" else list(x[2])
        scx = x[2] if x[0] == "iflet" else x[1]
        if scx[0] == "tuple":
            parts = [self.scrut(c, optb) for c in scx[1]]
            sc, backs = "(" + ", ".join(t for t, _ in parts) + ")", [b for _, b in parts]
        else:
            sc, back = self.scrut(scx, optb)
            backs = None
        def bind(pat, back, b2):
            if back and pat[0] == "pctor" and pat[1][-1] == "Some" and pat[2] and pat[2][0][0] == "pvar":
                y = ident(pat[2][0][1])
                return dict(b2, **{y: tuple(back[1:])}) if back[0] == "map" else dict(b2, **{y: ("__opt__", back[1])})
            return b2
        out = []
        for pat, blk in arms:
            b2 = borrows
            if backs is None:
                b2 = bind(pat, back, b2)
            elif pat[0] == "ptuple":
                for sub, bk in zip(pat[1], backs):
                    b2 = bind(sub, bk, b2)
            out.append("\n    | %s => (%s)" % (self.pat(pat), go(blk, b2)))
        return "(match %s with%s)" % (sc, "".join(out))

    def cps_tail(self, tail, K, borrows, optb):
        if tail is None:
            return self.final(K, "()", borrows)
        if tail[0] == "block":
            return self.cps(list(tail[1]), tail[2], K, borrows, optb)
        if tail[0] in ("if", "iflet", "match"):
            def go(blk, b2):
                if blk is None:
                    return self.final(K, "()", b2)
                if blk[0] != "block":
                    return self.cps_tail(blk, K, b2, optb)
                return self.cps(list(blk[1]), blk[2], K, b2, optb)
            return self.cps_branch(tail, go, borrows, optb, wrapK=True)
        if tail[0] == "return":
            return self.ret(self.e(tail[1]))
        if tail[0] == "mcall" and tail[2] in self.cfg.get("effcalls", {}):
            # a call that mutates its receiver / arguments, in value position
            return self.cps([("let", ("pvar", "__r"), tail)], ("path", ["__r"]), K, borrows, optb)
        return self.final(K, self.e(tail), borrows)

    def final(self, K, v, borrows):
        """the value of a path: borrows that are still open are written back first (entries of maps, then optional places)"""
        pre = "let __v := %s;\n    " % v                  # (entries of maps are written through after every change already)
        for y, bv in borrows.items():
            V, k = bv[0], bv[1]
            if V == "__opt__":
                pre += "let %s := (some %s);\n    " % (k, y)
        return pre + K("__v")

    retwrap = staticmethod(lambda v: v)

    def ret(self, v):
        return self.retwrap(self.cfg["ret"].format(v))

    def cpsfn(self, body):
        _, stmts, tail = body
        return "(" + self.cps(list(stmts), tail, lambda v: self.cfg["ret"].format(v), {}, {}) + ")"

    def dotted(self, x):
        if x[0] == "path" and len(x[1]) == 1:
            return x[1][0]
        if x[0] == "field":
            b = self.dotted(x[1])
            return None if b is None else b + "." + x[2]
        if x[0] == "mcall" and not x[3]:                 # a place reached through an accessor: `observation.feature_mut()`
            b = self.dotted(x[1])
            return None if b is None else b + "." + x[2] + "()"
        return None

    def atom(self, x):
        s = self.e(x)
        if re.fullmatch(r"[A-Za-z_][A-Za-z0-9_.']*|\d+", s) or (s.startswith("(") and s.endswith(")")):
            return s
        return "(" + s + ")"


# ---------------------------------------------------------------------------------------------
# the functions translated: (lean name, file, impl regex, fn name, lean signature, per-fn tables)
KERNELS = [
    dict(group="Inter", name="bb_intersection", file="utils/bbox.rs", impl=r"impl BoundingBox \{", fn="intersection",
         sig="(l r : BBox α) : α"),
    dict(group="Radius", name="get_radius", file="utils/bbox.rs", impl=r"impl Universal2DBox \{", fn="get_radius",
         sig="(sqrt : α → α) (self : UBox α) : α"),
    dict(group="Radius", name="area", file="utils/bbox.rs", impl=r"impl Universal2DBox \{", fn="area", sig="(self : UBox α) : α"),
    dict(group="Box", name="to_universal", file="utils/bbox.rs", impl=r"impl From<&BoundingBox> for Universal2DBox \{", fn="from",
         sig="(f : BBox α) : UBox α"),
    dict(group="Box", name="to_ltwh", file="utils/bbox.rs", impl=r"impl TryFrom<&Universal2DBox> for BoundingBox \{", fn="try_from",
         sig="(f : UBox α) : Option (BBox α)"),
    dict(group="Box", name="vertices", file="utils/bbox.rs", impl=r"impl From<&Universal2DBox> for Polygon<f64> \{", fn="from",
         sig="(cos sin : α → α) (b : UBox α) : List (Pt α)"),
    dict(group="Inter", name="bb_iou", file="utils/bbox.rs", impl=r"impl ObservationAttributes for BoundingBox \{", fn="calculate_metric_object",
         sig="(left right : Option (BBox α)) : Option α"),
    dict(group="Box", name="bb_eq", file="utils/bbox.rs", impl=r"impl PartialEq<Self> for BoundingBox \{", fn="eq",
         sig="(eps : α) (self other : BBox α) : Bool"),
    dict(group="Box", name="u_eq", file="utils/bbox.rs", impl=r"impl PartialEq<Self> for Universal2DBox \{", fn="eq",
         sig="(eps : α) (self other : UBox α) : Bool"),
    dict(group="Box", name="normalize_angle", file="utils/bbox.rs", impl=None, fn="normalize_angle",
         sig="(floor : α → α) (pi : α) (a : α) : α"),
    dict(group="Inter", name="too_far", file="utils/bbox.rs", impl=r"impl Universal2DBox \{", fn="too_far",
         sig="(sqrt : α → α) (l r : UBox α) : Bool"),
    dict(group="Dist", name="dist_in_2r", file="utils/bbox.rs", impl=r"impl Universal2DBox \{", fn="dist_in_2r",
         sig="(sqrt : α → α) (eps : α) (l r : UBox α) : α"),
    dict(group="Inter", name="u_iou", file="utils/bbox.rs", impl=r"impl ObservationAttributes for Universal2DBox \{", fn="calculate_metric_object",
         sig="(inter : UBox α → UBox α → α) (left right : Option (UBox α)) : Option α",
         call={"Universal2DBox::intersection": "inter {0} {1}"}),
    dict(group="Inter", name="is_inside", file="utils/clipping.rs", impl=None, fn="is_inside", sig="(q p1 p2 : Pt α) : Bool"),
    dict(group="Inter", name="compute_intersection", file="utils/clipping.rs", impl=None, fn="compute_intersection",
         sig="(cp1 cp2 s e : Pt α) : Pt α"),
    dict(group="Kalman", name="box_cost", file="utils/kalman/kalman_2d_box.rs", impl=r"impl Universal2DBoxKalmanFilter \{", fn="calculate_cost",
         sig="(chi : Nat → α) (upper : α) (distance : α) (inverted : Bool) : α", index={"CHI2INV95": "chi {0}"}),
    dict(group="Kalman", name="point_cost", file="utils/kalman/kalman_2d_point.rs", impl=r"impl Point2DKalmanFilter \{", fn="calculate_cost",
         sig="(chi : Nat → α) (upper : α) (distance : α) (inverted : Bool) : α", index={"CHI2INV95": "chi {0}"}),
    dict(group="Kalman", name="box_std_position", file="utils/kalman/kalman_2d_box.rs", impl=r"impl Universal2DBoxKalmanFilter \{", fn="std_position",
         sig="(wpos : α) (k cnst p : α) : List α", field={"self.std_position_weight": "wpos"}),
    dict(group="Kalman", name="box_std_velocity", file="utils/kalman/kalman_2d_box.rs", impl=r"impl Universal2DBoxKalmanFilter \{", fn="std_velocity",
         sig="(wvel : α) (k cnst p : α) : List α", field={"self.std_velocity_weight": "wvel"}),
    dict(group="Kalman", name="point_std_position", file="utils/kalman/kalman_2d_point.rs", impl=r"impl Point2DKalmanFilter \{", fn="std_position",
         sig="(wpos : α) (k _p : α) : List α", field={"self.std_position_weight": "wpos"}),
    dict(group="Kalman", name="point_std_velocity", file="utils/kalman/kalman_2d_point.rs", impl=r"impl Point2DKalmanFilter \{", fn="std_velocity",
         sig="(wvel : α) (k _p : α) : List α", field={"self.std_velocity_weight": "wvel"}),
    # ---- feature distances (C16): index loops over SIMD blocks with mutable accumulators
    dict(group="Feat", name="euclidean", file="distance.rs", impl=None, fn="euclidean",
         sig="(sqrt : α → α) (f1 f2 : List (List α)) : α", imperative=True,
         method={"len": "List.length {0}", "min": "Nat.min {0} {1}", "reduce_add": "Feature.lsum {0}", "sqrt": "sqrt {0}"},
         mutmethods={"sub_assign": "Feature.blockSub {0} {1}", "mul_assign": "Feature.blockMul {0} {1}"}),
    dict(group="Feat", name="cosine", file="distance.rs", impl=None, fn="cosine",
         sig="(sqrt : α → α) (f1 f2 : List (List α)) : α", imperative=True,
         method={"len": "List.length {0}", "min": "Nat.min {0} {1}", "reduce_add": "Feature.lsum {0}", "sqrt": "sqrt {0}",
                 "iter": "{0}", "take": "List.take {1} {0}", "fold": "List.foldl {2} {1} {0}", "mul": "Feature.blockMul {0} {1}"},
         mutmethods={"sub_assign": "Feature.blockSub {0} {1}", "mul_assign": "Feature.blockMul {0} {1}"}),
    dict(group="Feat", name="from_vec", file="track/utils.rs", impl=r"impl FromVec<&Vec<f32>, Feature> for Feature \{", fn="from_vec",
         sig="(lanes : Nat) (vec : List α) : List (List α)", imperative=True,
         path={"FEATURE_LANES_SIZE": "lanes"},
         method={"len": "List.length {0}"},
         call={"Feature::with_capacity": "[]", "usize::from": "(if {0} then 1 else 0)", "f32x8::new": "{0}"}),
    # ---- the Sutherland-Hodgman loops (C08): imperative body, state-passing translation
    dict(group="Clip", name="sutherland_hodgman_clip", file="utils/clipping.rs", impl=None, fn="sutherland_hodgman_clip",
         sig="(subject_polygon clipping_polygon : List (Pt α)) : List (Pt α)", imperative=True,
         method={"coords_iter": "{0}", "collect": "{0}", "len": "List.length {0}"},
         call={"Vec::default": "[]", "is_inside": "isInside {0} {1} {2}", "compute_intersection": "computeIntersection {0} {1} {2} {3}",
               "LineString::new": "{0}", "Polygon::new": "{0}"}),
    # ---- SortMetric::metric (C02)
    dict(group="SMetric", name="sort_metric", file="trackers/sort/metric.rs",
         impl=r"impl ObservationMetric<SortAttributes, Universal2DBox> for SortMetric \{", fn="metric",
         sig="(toofar : UBox α → UBox α → Bool) (inter : UBox α → UBox α → α) (kfdist : α × α → UBox α → α) (chi : Nat → α) (upper : α)\n    (method : PosMetric α) (min_confidence : α) (cand track : UBox α) (wpos wvel : α) : Option (Option α × Option Unit)",
         field={"self.min_confidence": "min_confidence", "self.method": "method"},
         method={"get_state": "()", "get_position_weight": "wpos", "get_velocity_weight": "wvel", "distance": "kfdist {0} {2}"},
         call={"Universal2DBox::too_far": "toofar {0} {1}", "Universal2DBoxKalmanFilter::new": "({0}, {1})",
               "Universal2DBoxKalmanFilter::calculate_cost": "box_cost chi upper {0} {1}",
               "Universal2DBox::calculate_metric_object": "u_iou inter {0} {1}"},
         pctor={"PositionalMetricType::Mahalanobis": "PosMetric.maha", "PositionalMetricType::IoU": "PosMetric.iou"},
         fieldpath={"mq.candidate_observation": "cand", "mq.track_observation": "track", "mq.track_attrs": "()"}),
    # ---- VisualMetric (C12)
    dict(group="VMetric", name="v_is_ok", file="trackers/visual_sort/metric.rs", impl=r"impl VisualSortMetricType \{", fn="is_ok",
         sig="(self : VisualMetric.Kind α) (dist : α) : Bool",
         pctor={"Euclidean": "VisualMetric.Kind.euclid", "Cosine": "VisualMetric.Kind.cosine"}),
    dict(group="VMetric", name="v_distance_to_weight", file="trackers/visual_sort/metric.rs", impl=r"impl VisualSortMetricType \{", fn="distance_to_weight",
         sig="(self : VisualMetric.Kind α) (dist : α) : α",
         pctor={"Euclidean": "VisualMetric.Kind.euclid", "Cosine": "VisualMetric.Kind.cosine"}),
    dict(group="VMetric", name="v_feature_can_be_used", file="trackers/visual_sort/metric.rs", impl=r"impl VisualMetric \{", fn="feature_can_be_used",
         sig="(visual_minimal_area : α) (bbox_opt : Option (UBox α)) (feature_quality visual_minimal_quality : α)\n    (visual_own_area_percentage : Option α) (visual_minimal_area_percentage : α) : Bool",
         fieldpath={"self.opts.visual_minimal_area": "visual_minimal_area"},
         method={"area": "area {0}", "map": "Option.map {1} {0}"},
         macro={"unreachable": "true"}),
    dict(group="VMetric", name="v_collect_gate", file="trackers/visual_sort/metric.rs",
         impl=r"impl ObservationMetric<VisualAttributes, VisualObservationAttributes> for VisualMetric \{", fn="optimize",
         sig="{φ : Type} (visual_minimal_area visual_minimal_quality_collect visual_minimal_own_area_percentage_collect : α) (is_merge : Bool)\n    (observation_bbox : UBox α) (feature_quality : α) (own_area_percentage_opt : Option α) (observation_feature : Option φ) : Option φ",
         imperative=True, result="observation_feature", pick=lambda st: [x for x in st if x[0] == "expr" and x[1][0] == "if" and "is_merge" in repr(x[1][1])],
         fieldpath={"observation.feature_mut()": "observation_feature", "self.opts.visual_minimal_quality_collect": "visual_minimal_quality_collect",
                    "self.opts.visual_minimal_own_area_percentage_collect": "visual_minimal_own_area_percentage_collect"},
         method={"feature_can_be_used": "v_feature_can_be_used visual_minimal_area {1} {2} {3} {4} {5}"}),
    dict(group="VMetric", name="v_visual_metric", file="trackers/visual_sort/metric.rs", impl=r"impl VisualMetric \{", fn="visual_metric",
         sig="(euclidean cosine : F → F → α) (visual_kind : VisualMetric.Kind α) (visual_minimal_track_length collected : Nat)\n    (candidate_observation_feature track_observation_feature : F) : Option α",
         fieldpath={"self.opts.visual_kind": "visual_kind", "self.opts.visual_minimal_track_length": "visual_minimal_track_length",
                    "track_attributes.visual_features_collected_count": "collected"},
         method={"is_ok": "v_is_ok {0} {1}", "distance_to_weight": "v_distance_to_weight {0} {1}"},
         call={"euclidean": "euclidean {0} {1}", "cosine": "cosine {0} {1}"},
         pctor={"VisualSortMetricType::Euclidean": "VisualMetric.Kind.euclid", "VisualSortMetricType::Cosine": "VisualMetric.Kind.cosine"}),
    dict(group="VMetric", name="v_positional_metric", file="trackers/visual_sort/metric.rs", impl=r"impl VisualMetric \{", fn="positional_metric",
         sig="(toofar : UBox α → UBox α → Bool) (inter : UBox α → UBox α → α) (kfdist : α × α → UBox α → α) (chi : Nat → α) (upper : α)\n    (positional_kind : PosMetric α) (positional_min_confidence : α)\n    (candidate_observation_bbox_opt track_observation_bbox_opt : Option (UBox α)) (wpos wvel : α) : Option α",
         fieldpath={"self.opts.positional_min_confidence": "positional_min_confidence", "self.opts.positional_kind": "positional_kind"},
         method={"get_state": "()", "get_position_weight": "wpos", "get_velocity_weight": "wvel", "distance": "kfdist {0} {2}"},
         call={"Universal2DBox::too_far": "toofar {0} {1}", "Universal2DBoxKalmanFilter::new": "({0}, {1})",
               "Universal2DBoxKalmanFilter::calculate_cost": "box_cost chi upper {0} {1}",
               "Universal2DBox::calculate_metric_object": "u_iou inter {0} {1}"},
         pctor={"PositionalMetricType::Mahalanobis": "PosMetric.maha", "PositionalMetricType::IoU": "PosMetric.iou"}),
]


NMS_METHOD = {"unwrap_or": "Option.getD {0} {1}", "iter": "{0}", "into_iter": "{0}", "collect": "{0}", "filter": "List.filter {1} {0}",
              "map": "List.map {1} {0}", "enumerate": "enumerateL {0}", "sorted_by": "List.mergeSort {0} (fun a b => ({1} a b) != Ordering.gt)",
              "partial_cmp": "cmpQ {0} {1}", "unwrap": "{0}", "contains": "List.contains {0} {1}", "area": "area {0}"}

# ---- Kalman filters at matrix level (C07): nalgebra expressions as Mathlib matrices; state index = positions ⊕ velocities
KF_METHOD = {"transpose": "Matrix.transpose {0}", "component_mul": "cmul {0} {1}", "into_iter": "{0}", "chain": "({0} ++ {1})", "unwrap": "{0}",
             "unwrap_or": "Option.getD {0} {1}", "solve_lower_triangular": "solveLower {0} {1}", "cholesky": "cholL {0}", "l": "{0}", "sum": "msum {0}"}
KF_CALL = {"SVector::from_iterator": "colOfList {0}", "SVector::from_vec": "colOfList {0}", "SMatrix::from_diagonal": "diagOf {0}", "SMatrix::identity": "identityRect"}
KF_FIELDPATH = {"self.motion_matrix": "motion_matrix", "self.update_matrix": "update_matrix", "state.mean": "state.1", "state.covariance": "state.2",
                "projected_state.mean": "projected_state.1", "projected_state.covariance": "projected_state.2"}
SOLVE = "(solveLower : {r c : Type} → [Fintype r] → [DecidableEq r] → Matrix r r α → Matrix r c α → Matrix r c α)"
def kf(prefix, file, impl, n_const, meas_sig, std_args):
    X1, X2 = "{X1}", "{X2}"
    ST = "Matrix %s (Fin 1) α × Matrix %s %s α" % (X2, X2, X2)
    base = dict(group="KalmanMat", file=file, impl=impl, imperative=True, matrix=True, dims_from=n_const, struct={"KalmanState": "tuple"},
                call=KF_CALL, fieldpath=KF_FIELDPATH, path={"DT": "dt", n_const: "{N}"})
    meth = dict(KF_METHOD, std_position=prefix + "_std_position wpos " + std_args, std_velocity=prefix + "_std_velocity wvel " + std_args,
                project=prefix + "_project update_matrix wpos {1} {2}")
    return [
        dict(base, name=prefix + "_motion_matrix", fn="new", sig="(dt : α) : Matrix %s %s α" % (X2, X2), result="motion_matrix", method=meth,
             pick=lambda st: [x for x in st if (x[0] == "let" and x[1] == ("pvar", "motion_matrix")) or (x[0] == "expr" and x[1][0] == "for")]),
        dict(base, name=prefix + "_update_matrix", fn="new", sig=": Matrix %s %s α" % (X1, X2), imperative=False, method=meth,
             pick=lambda st: [("expr", dict(st[-1][1][2])["update_matrix"])] if st and st[-1][0] == "expr" and st[-1][1][0] == "struct" else []),
        dict(base, name=prefix + "_initiate", fn="initiate", sig="(wpos wvel : α) (%s) : %s" % (meas_sig, ST), method=meth),
        dict(base, name=prefix + "_predict", fn="predict", sig="(motion_matrix : Matrix %s %s α) (wpos wvel : α) (state : %s) : %s" % (X2, X2, ST, ST), method=meth),
        dict(base, name=prefix + "_project", fn="project", sig="(update_matrix : Matrix %s %s α) (wpos : α) (mean : Matrix %s (Fin 1) α) (covariance : Matrix %s %s α) : Matrix %s (Fin 1) α × Matrix %s %s α" % (X1, X2, X2, X2, X2, X1, X1, X1), method=meth),
        dict(base, name=prefix + "_update", fn="update", sig=SOLVE + " (update_matrix : Matrix %s %s α) (wpos : α) (state : %s) (%s) : %s" % (X1, X2, ST, meas_sig, ST), method=meth),
        dict(base, name=prefix + "_distance", fn="distance", sig=SOLVE + " (cholL : Matrix %s %s α → Matrix %s %s α) (update_matrix : Matrix %s %s α) (wpos : α) (state : %s) (%s) : α" % (X1, X1, X1, X1, X1, X2, ST, meas_sig), method=meth,
             mutmethods={"sub_assign": "{0} - {1}"}),
    ]
KALMAN_MAT = kf("box", "utils/kalman/kalman_2d_box.rs", r"impl Universal2DBoxKalmanFilter \{", "DIM_2D_BOX", "measurement : UBox α", "{1} {2} {3}") + \
             kf("point", "utils/kalman/kalman_2d_point.rs", r"impl Point2DKalmanFilter \{", "DIM_2D_POINT", "p : α × α", "{1} 0")
for _c in KALMAN_MAT:
    if _c["fn"] == "initiate" and _c["name"].startswith("box"):
        _c["sig"] = _c["sig"].replace("measurement : UBox α", "bbox : UBox α")
VEC_METHOD = {"iter": "{0}", "zip": "List.zip {0} {1}", "map": "List.map {1} {0}", "collect": "{0}"}
KALMAN_VEC = [
    dict(group="KalmanVec", name="vec_" + fn, file="utils/kalman/kalman_2d_point_vec.rs", impl=r"impl Vec2DKalmanFilter \{", fn=fn,
         sig="{S P R : Type} (f_%s : %s) (%s) : List R" % (fn, fty, args), method=dict(VEC_METHOD, **{fn: "f_%s %s" % (fn, fargs)}), fieldpath={"self.f": "()"})
    for fn, fty, args, fargs in [("initiate", "P → R", "points : List P", "{1}"), ("predict", "S → R", "state : List S", "{1}"),
                                 ("update", "S → P → R", "state : List S) (points : List P", "{1} {2}"),
                                 ("distance", "S → P → R", "state : List S) (points : List P", "{1} {2}")]]

TRACK_IMPL = r"impl<TA, M, OA, N> Track<TA, M, OA, N>\s*where[^{]*\{"
TRACK_OBS = "List (Nat × List (Option A × Option F))"
TRACK_FIELDS = {"self.attributes": "attributes", "self.observations": "obs_db", "self.metric": "metric", "self.merge_history": "merge_history",
                "self.notifier": "notes", "self.track_id": "()"}
TRACK_OPT = "(optimize : M → Nat → List Nat → TA → List (Option A × Option F) → Nat → Bool → Except E Unit × M × TA × List (Option A × Option F))"
TRACK_BUILD = [
    dict(group="TrackBuild", name="track_build", file="track/builder.rs", impl=None, fn="build", occurrence=1, cps=True, imperative=True, resultfn=True, state=["track"],
         sig="{T TA M A F U E N : Type} (newFn : Nat → M → TA → N → T) (addObsFn : T → Nat → Option A → Option F → Option U → Except (Track.Err E) Unit × T)\n    (id : Nat) (metric : M) (track_attrs : TA) (notifier : N) (observations : List (Nat × Option A × Option F × Option U)) : Except (Track.Err E) T",
         ret="{0}", fieldpath={"self.id": "id", "self.metric": "metric", "self.track_attrs": "track_attrs", "self.notifier": "notifier", "self.observations": "observations"},
         method={"unwrap": "{0}"}, call={"Track::new": "newFn {0} {1} {2} {3}", "Ok": "Except.ok {0}"},
         effcalls={"add_observation": ("addObsFn {0} {1} {2} {3} {4}", ["@0"])}),
]
TRACK_DIST = [
    dict(group="TrackDist", name="track_distances", file="track.rs", impl=TRACK_IMPL, fn="distances", optmonad=True,
         sig="{TA M OA E : Type} (compatible : TA → TA → Bool) (metricFn : Nat × TA × OA × TA × OA → Option (Option Int × Option Rat))\n    (self_id : Nat) (self_attrs : TA) (self_obs : List (Nat × List OA)) (other_id : Nat) (other_attrs : TA) (other_obs : List (Nat × List OA)) (feature_class : Nat) :\n    Except (Track.Err E) (List Track.DistOk)",
         fieldpath={"self.attributes": "self_attrs", "other.attributes": "other_attrs", "self.observations": "self_obs", "other.observations": "other_obs",
                    "self.track_id": "self_id", "other.track_id": "other_id", "self.metric": "()"},
         method={"compatible": "compatible {0} {1}", "get": "dbGet {0} {1}", "iter": "{0}", "cartesian_product": "cartProd {0} {1}", "flat_map": "List.filterMap {1} {0}",
                 "collect": "{0}", "into": "{0}", "get_attributes": "{0}_attrs", "metric": "metricFn {1}"},
         struct={"MetricQuery": "tuple", "ObservationMetricOk": ("Track.DistOk", {"from": "frm", "to": "to", "attribute_metric": "attr", "feature_distance": "feat"})},
         call={"Ok": "Except.ok {0}", "Err": "Except.error {0}", "Some": "some {0}", "Errors::ObservationForClassNotFound": "Track.Err.noClass"},
         path={"Errors::IncompatibleAttributes": "Track.Err.incompat"}),
]
TRACK = [
    dict(group="Track", name="track_add_observation", file="track.rs", impl=TRACK_IMPL, fn="add_observation", cps=True, imperative=True,
         sig="{TA M A F U E : Type} (applyU : U → TA → Except E Unit × TA) " + TRACK_OPT + "\n    (attributes : TA) (obs_db : " + TRACK_OBS + ") (metric : M) (merge_history : List Nat) (notes : Nat)\n    (feature_class : Nat) (feature_attributes : Option A) (feature : Option F) (track_attributes_update : Option U) :\n    Except E Unit × TA × " + TRACK_OBS + " × M × Nat",
         ret="({0}, attributes, obs_db, metric, notes)", fieldpath=TRACK_FIELDS, mapfns=("dbGet", "dbGetD", "dbSet"),
         effcalls={"update_attributes": ("applyU {1} attributes", ["attributes"]),
                   "optimize": ("optimize {0} {1} {2} {3} {4} {5} {6}", ["metric", "attributes", "@4"])},
         method={"is_err": "isErr {0}", "is_none": "Option.isNone {0}", "len": "List.length {0}"},
         mutmethods={"send": "{0} + 1", "insert": "dbSet {0} {1} {2}"},
         call={"Observation": "({0}, {1})", "Ok": "Except.ok {0}"}),
    dict(group="Track", name="track_merge", file="track.rs", impl=TRACK_IMPL, fn="merge", cps=True, imperative=True,
         sig="{TA M A F E : Type} (mergeA : TA → TA → Except E Unit × TA) " + TRACK_OPT + "\n    (attributes : TA) (obs_db : " + TRACK_OBS + ") (metric : M) (hist : List Nat) (notes : Nat)\n    (other_attributes : TA) (other_obs : " + TRACK_OBS + ") (other_hist : List Nat) (classes : List Nat) (merge_history : Bool) :\n    Except E Unit × TA × " + TRACK_OBS + " × M × List Nat × Nat",
         ret="({0}, attributes, obs_db, metric, hist, notes)", state=["attributes", "obs_db", "metric", "merged_any"], mapfns=("dbGet", "dbGetD", "dbSet"),
         fieldpath=dict(TRACK_FIELDS, **{"self.merge_history": "hist", "other.attributes": "other_attributes", "other.observations": "other_obs", "other.merge_history": "other_hist"}),
         effcalls={"merge": ("mergeA {0} {1}", ["attributes"]),
                   "optimize": ("optimize {0} {1} {2} {3} {4} {5} {6}", ["metric", "attributes", "@4"])},
         method={"is_err": "isErr {0}", "len": "List.length {0}", "iter": "{0}", "cloned": "{0}", "collect": "{0}", "clone": "{0}",
                 "chain": "({0} ++ {1})", "get": "dbGet {0} {1}"},
         mutmethods={"send": "{0} + 1", "insert": "dbSet {0} {1} {2}", "extend": "{0} ++ {1}"},
         call={"Ok": "Except.ok {0}", "Some": "some {0}"}),
]

VOTE_METHOD = {"into_iter": "{0}", "iter": "{0}", "filter": "List.filter {1} {0}", "map": "List.map {1} {0}", "collect": "{0}", "unwrap": "optUnwrap {0}",
               "into_group_map": "order (groupMap {0})", "len": "List.length {0}", "sum": "lsumQ {0}", "partial_cmp": "(some (cmpQ {0} {1}))"}
VOTING = [
    dict(group="Voting", name="topn_winners", file="track/voting/topn.rs", impl=r"impl<OA> Voting<OA> for TopNVoting<OA>\s*where[^{]*\{", fn="winners",
         cps=True, imperative=True, state=["results"],
         sig="(order : List ((Nat × Nat) × List Rat) → List ((Nat × Nat) × List Rat)) (topn : Nat) (max_distance : Rat) (min_votes : Nat) (distances : List Voting.Dist) : List (Nat × List Voting.Elt)",
         ret="{0}", fieldpath={"self.max_distance": "max_distance", "self.min_votes": "min_votes", "self.topn": "topn"},
         field={"query_track": "q", "winner_track": "w"},
         structpat={"ObservationMetricOk": ["from", "to", "feature_distance"]},
         struct={"TopNVotingElt": ("Voting.Elt", {"query_track": "q", "winner_track": "w", "weight": "weight"})},
         method=VOTE_METHOD, call={"HashMap::new": "([] : List (Nat × List Voting.Elt))", "Some": "some {0}"},
         mutmethods={"insert": "mapSet {0} {1} {2}", "sort_by": "List.mergeSort {0} (fun a b => ({1} a b) != Ordering.gt)", "truncate": "List.take {1} {0}"}),
    dict(group="Voting", name="bestfit_winners", file="track/voting/best.rs", impl=r"impl<OA> Voting<OA> for BestFitVoting<OA>\s*where[^{]*\{", fn="winners",
         cps=True, imperative=True, recordvars=("c",),
         sig="(order : List ((Nat × Nat) × List Rat) → List ((Nat × Nat) × List Rat)) (max_distance : Rat) (min_votes : Nat) (distances : List Voting.Dist) : List (Nat × List Voting.Elt)",
         ret="{0}", fieldpath={"self.max_distance": "max_distance", "self.min_votes": "min_votes"},
         field={"query_track": "q", "winner_track": "w"},
         structpat={"ObservationMetricOk": ["from", "to", "feature_distance"]},
         struct={"TopNVotingElt": ("Voting.Elt", {"query_track": "q", "winner_track": "w", "weight": "weight"})},
         method=dict(VOTE_METHOD, into_group_map=["order (groupMap {0})", "groupMapG {0}"], contains="List.contains {0} {1}"),
         call={"HashSet::new": "([] : List Nat)", "Some": "some {0}"},
         mutmethods={"insert": "{1} :: {0}", "sort_by": "List.mergeSort {0} (fun a b => ({1} a b) != Ordering.gt)"}),
]

def pick_arm(name, upto_for=True):
    """the statements of the `Commands::<name>` arm of the worker loop (up to and including its first `for` loop)"""
    def f(st):
        for x in st:
            if x[0] == "expr" and x[1][0] == "whilelet":
                for y in x[1][3][1]:
                    if y[0] == "expr" and y[1][0] == "match":
                        for pat, body in y[1][2]:
                            if pat[0] == "pctor" and pat[1][-1] == name:
                                sel = list(body[1]) + ([("expr", body[2])] if body[2] is not None else [])
                                if upto_for:
                                    for i, z in enumerate(sel):
                                        if z[0] == "expr" and z[1][0] == "for":
                                            return sel[:i + 1]
                                return sel
        return []
    return f
STORE = [
    dict(group="StoreCmd", name="store_distances_cmd", file="track/store.rs", impl=None, fn="handle_store_ops", imperative=True, cps_closures=True, optmonad=True,
         pick=pick_arm("Distances"), result="(distances, errors)", ignore_assign=("capacity",),
         sig="{T E : Type} (idOf : T → Nat) (distFn : T → T → Nat → Except (Track.Err E) (List Track.DistOk)) (bakedOf : T → Except E Track.Status)\n    (postFn : T → List Track.DistOk → List Track.DistOk) (store : List (Nat × T)) (track : T) (feature_class : Nat) (only_baked : Bool) :\n    List Track.DistOk × List (Except (Track.Err E) (List Track.DistOk))",
         fieldpath={"track.track_id": "(idOf track)", "other.track_id": "(idOf other)", "track.metric": "track", "other.observations": "()"},
         method={"lock": "{0}", "unwrap": "{0}", "iter": "{0}", "flat_map": "List.filterMap {1} {0}", "collect": "{0}", "len": "List.length {0}",
                 "distances": "distFn {0} {1} {2}", "postprocess_distances": "postFn {0} {1}", "downcast_ref": "some {0}", "get_attributes": "{0}", "baked": "bakedOf {0}"},
         call={"Some": "some {0}", "Ok": "Except.ok {0}", "Err": "Except.error {0}", "Vec::with_capacity": "[]", "Vec::new": "[]"},
         path={"None": "none"},
         pctor={"Ok": "Except.ok", "Err": "Except.error", "Errors::IncompatibleAttributes": "Track.Err.incompat", "TrackStatus::Ready": "Track.Status.ready"},
         mutmethods={"extend_from_slice": "{0} ++ {1}"}),
    dict(group="StoreCmd", name="store_findbaked_cmd", file="track/store.rs", impl=None, fn="handle_store_ops", optmonad=True,
         pick=lambda st: [("expr", x[2]) for x in pick_arm("FindBaked", upto_for=False)(st) if x[0] == "let" and x[1] == ("pvar", "baked")],
         sig="{T E : Type} (bakedOf : T → Except E Track.Status) (store : List (Nat × T)) : List (Nat × Except E Track.Status)",
         method={"lock": "{0}", "unwrap": "{0}", "iter": "{0}", "flat_map": "List.filterMap {1} {0}", "collect": "{0}", "get_attributes": "{0}", "baked": "bakedOf {0}"},
         fieldpath={"track.observations": "()"},
         call={"Some": "some {0}", "Ok": "Except.ok {0}", "Err": "Except.error {0}"}, path={"None": "none"},
         pctor={"Ok": "Except.ok", "Err": "Except.error", "TrackStatus::Pending": "Track.Status.pending"}),
    dict(group="StoreCmd", name="store_lookup_cmd", file="track/store.rs", impl=None, fn="handle_store_ops",
         pick=lambda st: [("expr", x[2][3][0][2][0]) for x in pick_arm("Lookup", upto_for=False)(st) if x[0] == "let" and x[1] == ("pvar", "res")],
         sig="{T Q E : Type} (idOf : T → Nat) (lookupFn : T → Q → Bool) (bakedOf : T → Except E Track.Status) (store : List (Nat × T)) (q : Q) : List (Nat × Except E Track.Status)",
         method={"values": "List.map (fun p => p.2) {0}", "filter": "List.filter {1} {0}", "map": "List.map {1} {0}", "collect": "{0}", "lookup": "lookupFn {0} {1}",
                 "get_attributes": "{0}", "baked": "bakedOf {0}"},
         fieldpath={"x.observations": "()", "x.track_id": "(idOf x)"}),
    dict(group="StoreCmd", name="store_merge_cmd", file="track/store.rs", impl=None, fn="handle_store_ops", imperative=True, cps=True,
         pick=lambda st: (lambda sel: sel[:next((i for i, x in enumerate(sel) if x[0] == "let" and x[1] == ("pvar", "res")), len(sel) - 1) + 1])(pick_arm("Merge", upto_for=False)(st)),
         ret="(res, store)",
         sig="{T E : Type} (idOf : T → Nat) (classesOf : T → List Nat) (mergeFn : T → T → List Nat → Bool → Except (Track.Err E) Unit × T)\n    (store : List (Nat × T)) (dest_id : Nat) (src : T) (classes : List Nat) (merge_history : Bool) : Except (Track.Err E) Unit × List (Nat × T)",
         fieldpath={"src.track_id": "(idOf src)"},
         method={"lock": "{0}", "unwrap": "{0}", "is_empty": "List.isEmpty {0}", "get_feature_classes": "classesOf {0}", "into": "{0}"},
         effcalls={"merge": ("mergeFn {0} {1} {2} {3}", ["@0"])},
         call={"Err": "Except.error {0}", "Errors::SameTrackCalculation": "Track.Err.same {0}", "Errors::TrackNotFound": "Track.Err.notFound {0}"}),
]

REC_FIELDS = {"attrs.custom_object_id": "custom_object_id", "attrs.last_updated_epoch": "last_updated_epoch", "attrs.scene_id": "scene_id",
              "attrs.track_length": "track_length", "attrs.observed_boxes": "observed_boxes", "attrs.predicted_boxes": "predicted_boxes",
              "attrs.observed_features": "observed_features", "attrs.voting_type": "voting_type"}
REC_METHOD = {"get_attributes": "()", "get_track_id": "track_id", "back": "List.getLast? {0}", "unwrap": "{0}", "clone": "{0}", "into_iter": "{0}", "iter": "{0}",
              "collect": "{0}", "unwrap_or": "Option.getD {0} {1}", "map": "List.map {1} {0}", "as_ref": "{0}"}
RECORDS = [
    dict(group="Record", name="sort_track_of", file="trackers/sort/simple_api.rs", impl=r"impl From<&Track<SortAttributes, SortMetric, Universal2DBox>> for SortTrack \{", fn="from",
         sig="{β ι : Type} (track_id : Nat) (custom_object_id : ι) (last_updated_epoch scene_id track_length : Nat) (observed_boxes predicted_boxes : List β) : RecG β ι Bool",
         fieldpath=REC_FIELDS, method=REC_METHOD, path={"VotingType::Positional": "false"},
         struct={"SortTrack": ("RecG β ι Bool", {"id": "id", "custom_object_id": "custom", "voting_type": "visual", "epoch": "epoch", "scene_id": "scene",
                                                  "observed_bbox": "observed", "predicted_bbox": "predicted", "length": "length"})}),
    dict(group="Record", name="visual_track_of", file="trackers/visual_sort/simple_api.rs", impl=r"impl From<&Track<VisualAttributes, VisualMetric, VisualObservationAttributes>> for SortTrack \{", fn="from",
         sig="{β ι : Type} (track_id : Nat) (custom_object_id : ι) (voting_type : Option Bool) (last_updated_epoch scene_id track_length : Nat) (observed_boxes predicted_boxes : List β) : RecG β ι Bool",
         fieldpath=REC_FIELDS, method=REC_METHOD, path={"Positional": "false"},
         struct={"SortTrack": ("RecG β ι Bool", {"id": "id", "custom_object_id": "custom", "voting_type": "visual", "epoch": "epoch", "scene_id": "scene",
                                                  "observed_bbox": "observed", "predicted_bbox": "predicted", "length": "length"})}),
    dict(group="Record", name="wasted_sort_track_of", file="trackers/sort.rs", impl=r"impl From<Track<SortAttributes, SortMetric, Universal2DBox>> for WastedSortTrack \{", fn="from",
         sig="{β : Type} (track_id : Nat) (last_updated_epoch scene_id track_length : Nat) (observed_boxes predicted_boxes : List β) : WastedG β Unit",
         fieldpath=REC_FIELDS, method=REC_METHOD,
         struct={"WastedSortTrack": ("WastedG β Unit", {"id": "id", "epoch": "epoch", "scene_id": "scene", "length": "length", "observed_bbox": "observed",
                                                        "predicted_bbox": "predicted", "predicted_boxes": "predictedH", "observed_boxes": "observedH"})}),
    dict(group="Record", name="wasted_visual_track_of", file="trackers/visual_sort.rs", impl=r"impl From<Track<VisualAttributes, VisualMetric, VisualObservationAttributes>>\s*for WastedVisualSortTrack\s*\{", fn="from",
         sig="{β φ : Type} (track_id : Nat) (last_updated_epoch scene_id track_length : Nat) (observed_boxes predicted_boxes : List β) (observed_features : List (Option φ)) : WastedG β (Option φ)",
         fieldpath=REC_FIELDS, method=dict(REC_METHOD, map="listOrOptMap {1} {0}"), path={"Vec::from_vec": "id"},
         struct={"WastedVisualSortTrack": ("WastedG β (Option φ)", {"id": "id", "epoch": "epoch", "scene_id": "scene", "length": "length", "observed_bbox": "observed",
                                                                     "predicted_bbox": "predicted", "predicted_boxes": "predictedH", "observed_boxes": "observedH",
                                                                     "observed_features": "featuresH"})}),
]

AW_SNIP = r"if self\.auto_waste\.counter == 0 \{.*?\} else \{.*?\}"
AUTOWASTE = [
    dict(group="AutoWaste", name="aw_" + nm, file=f, impl=impl, fn=fn, snippet=AW_SNIP, imperative=True, result="(st, counter, periodicity)",
         sig="{S : Type} (collectFn : S → S) (st : S) (counter periodicity : Nat) : S × Nat × Nat",
         fieldpath={"self.auto_waste.counter": "counter", "self.auto_waste.periodicity": "periodicity"},
         selfmut={"auto_waste": ("st", "collectFn st")})
    for nm, f, impl, fn in [("sort", "trackers/sort/simple_api.rs", r"impl Sort \{", "predict_with_scene"),
                            ("batch_sort", "trackers/sort/batch_api.rs", r"impl BatchSort \{", "predict"),
                            ("visual", "trackers/visual_sort/simple_api.rs", r"impl VisualSort \{", "predict_with_scene"),
                            ("batch_visual", "trackers/visual_sort/batch_api.rs", r"impl BatchVisualSort \{", "predict")]
] + [
    dict(group="AutoWaste", name="aw_set", file="trackers/tracker_api.rs", impl=r"pub trait TrackerAPI[^{]*\{", fn="set_auto_waste", imperative=True,
         result="(counter, periodicity_)", sig="(counter periodicity_ : Nat) (periodicity : Nat) : Nat × Nat",
         fieldpath={"obj.periodicity": "periodicity_", "obj.counter": "counter"}, method={"get_auto_waste_obj_mut": "()"}),
]

VISVOTE = [
    dict(group="VisVoting", name="visual_voting_winners", file="trackers/visual_sort/voting.rs", impl=r"impl Voting<VisualObservationAttributes> for VisualVoting \{", fn="winners",
         cps=True, imperative=True, hoist_maps=True,
         sig="(bestfitFn : Rat → Nat → List VD → List (Nat × List Voting.Elt)) (sortVotingFn : Rat × Nat × Nat → List VD → List (Nat × List Nat))\n    (positional_threshold max_allowed_feature_distance : Rat) (min_winner_feature_votes : Nat) (distances : List VD) : List (Nat × List (Nat × Bool))",
         ret="{0}", fieldpath={"self.positional_threshold": "positional_threshold", "self.max_allowed_feature_distance": "max_allowed_feature_distance",
                               "self.min_winner_feature_votes": "min_winner_feature_votes"},
         field={"from": "frm", "winner_track": "w", "attribute_metric": "attr"},
         method={"into_iter": "{0}", "tee": "({0}, {0})", "collect": "{0}", "filter": "List.filter {1} {0}", "map": "List.map {1} {0}", "into": "{0}",
                 "winners": ["bestfitFn {0}.1 {0}.2 {1}", "sortVotingFn {0} {1}"], "contains_key": "(mapGet {0} {1}).isSome", "contains": "List.contains {0} {1}",
                 "is_some": "Option.isSome {0}", "len": "List.length {0}"},
         call={"BestFitVoting::new": "({0}, {1})", "SortVoting::new": "({0}, {1}, {2})", "HashSet::new": "([] : List Nat)"},
         path={"VotingType::Visual": "true", "VotingType::Positional": "false"},
         mutmethods={"insert": "setInsert {0} {1}", "extend": "mapExtend {0} {1}"}),
]

STORE_MAP_COMMON = dict(group="StoreMap", file="track/store.rs", impl=r"impl<TA, M, OA, N> TrackStore<TA, M, OA, N>\s*where[^{]*\{", cps=True, imperative=True,
                        mapfns=("lstGet", "lstGetD", "lstSet"), borrowcalls={"get_store": ("stores", "{0} % num_shards")},
                        removefns=("shGet", "shRemove"),
                        fieldpath={"track.track_id": "(idOf track)", "self.num_shards": "num_shards", "self.stores": "stores"},
                        method={"get": "shGet {0} {1}", "is_none": "Option.isNone {0}", "into": "{0}", "iter": "{0}", "lock": "{0}", "unwrap": "{0}", "len": "List.length {0}"},
                        call={"Ok": "Except.ok {0}", "Err": "Except.error {0}", "Errors::DuplicateTrackId": "Track.Err.dup {0}", "Vec::default": "[]", "Vec::new": "[]"},
                        mutmethods={"insert": "shInsert {0} {1} {2}"})
STORE_MAP = [
    dict(STORE_MAP_COMMON, name="store_add_track", fn="add_track", ret="({0}, stores)",
         sig="{T E : Type} (idOf : T → Nat) (num_shards : Nat) (stores : List (List (Nat × T))) (track : T) : Except (Track.Err E) Nat × List (List (Nat × T))"),
    dict(STORE_MAP_COMMON, name="store_fetch_tracks", fn="fetch_tracks", ret="({0}, stores)", state=["stores", "res"],
         sig="{T : Type} (num_shards : Nat) (stores : List (List (Nat × T))) (tracks : List Nat) : List T × List (List (Nat × T))"),
    dict(STORE_MAP_COMMON, name="store_shard_stats", fn="shard_stats", ret="{0}",
         sig="{T : Type} (stores : List (List (Nat × T))) : List Nat"),
    dict(STORE_MAP_COMMON, name="store_get_executor", fn="get_executor", ret="{0}", sig="(num_shards id : Nat) : Nat"),
]

STORE_ADD = [
    dict(STORE_MAP_COMMON, name="store_add", fn="add", ret="({0}, stores)", resultfn=True,
         sig="{T A F U E : Type} (buildFn : Nat × Nat × Option A × Option F × Option U → Except (Track.Err E) T)\n    (addObsFn : T → Nat → Option A → Option F → Option U → Except (Track.Err E) Unit × T)\n    (num_shards : Nat) (stores : List (List (Nat × T))) (track_id feature_class : Nat) (feature_attribute : Option A) (feature : Option F) (attributes_update : Option U) :\n    Except (Track.Err E) Unit × List (List (Nat × T))",
         borrowfns={"tracks": ("shGet", "shGetD", "shPut")},
         method=dict(STORE_MAP_COMMON["method"], new_track="{1}", observation="({0}, {1})", build="buildFn {0}"),
         effcalls={"add_observation": ("addObsFn {0} {1} {2} {3} {4}", ["@0"])}),
]

SORTVOTE = [
    dict(group="SortVoting", name="sort_voting_winners", file="trackers/sort/voting.rs", impl=r"impl Voting<Universal2DBox> for SortVoting \{", fn="winners",
         cps=True, imperative=True, state=["candidates_index", "tracks_index", "tracks_r_index", "cost_matrix"],
         sig="(quant : Rat → Int) (mult : Rat) (km : (Nat → Nat → Int) → Int × List Nat) (threshold : Int) (candidate_num track_num : Nat) (distances : List SD) : List (Nat × List Nat)",
         ret="{0}", fieldpath={"self.track_num": "track_num", "self.candidate_num": "candidate_num", "self.threshold": "threshold"},
         structpat={"ObservationMetricOk": ["from", "to", "attribute_metric"]},
         mapfns=("matGet", "matGetD", "matSet"), vecset="vecSet", vecget="vecGet",
         cast={"i64": "quant {0}"}, path={"F32_U64_MULT": "mult"},
         method={"get": "mapGet {0} {1}", "copied": "{0}", "unwrap_or": "Option.getD {0} {1}", "len": "vecLen {0}", "into_iter": "{0}", "enumerate": "enumerateL {0}",
                 "flat_map": "List.filterMap {1} {0}", "collect": "{0}"},
         call={"HashMap::default": "[]", "Vec::default": "vecEmpty", "Matrix::new": "(fun (_ _ : Nat) => (0 : Int))", "kuhn_munkres": "km {0}", "Some": "some {0}"},
         mutmethods={"resize": "vecResize {0} {1} {2}", "insert": "mapSet {0} {1} {2}", "push": "vecPush {0} {1}"}),
]

CB_STRUCT = {"Universal2DBox": ("CBox α", {"xc": "xc", "yc": "yc", "angle": "angle", "aspect": "aspect", "height": "height", "confidence": "conf", "_vertex_cache": "cache"})}
CB = dict(group="Cache", file="utils/bbox.rs", impl=r"impl Universal2DBox \{", field={"_vertex_cache": "cache", "confidence": "conf"}, struct=CB_STRUCT, Self="Universal2DBox")
KERNELS += [
    dict(CB, name="cbox_new_with_confidence", fn="new_with_confidence", sig="(xc yc : α) (angle : Option α) (aspect height confidence : α) : CBox α"),
    dict(CB, name="cbox_clone", impl=r"impl Clone for Universal2DBox \{", fn="clone", sig="(self : CBox α) : CBox α",
         call={"Universal2DBox::new_with_confidence": "cbox_new_with_confidence {0} {1} {2} {3} {4} {5}"}),
    dict(CB, name="cbox_get_cached_vertices", fn="get_cached_vertices", sig="(self : CBox α) : Option (List (Pt α))"),
    dict(CB, name="cbox_gen_vertices", fn="gen_vertices", sig="(cos sin : α → α) (self : CBox α) : CBox α", imperative=True, result="self", recordvars=("self",),
         method={"is_some": "Option.isSome {0}", "get_vertices": "closeRing (vertices cos sin (toU {0}))"}, call={"Some": "some {0}"}),
    dict(CB, name="cbox_rotate_mut", fn="rotate_mut", sig="(self : CBox α) (angle : α) : CBox α", imperative=True, result="self", recordvars=("self",),
         call={"Some": "some {0}"}),
    dict(CB, name="u_intersection", fn="intersection", sig="(sqrt cos sin : α → α) (l r : CBox α) : α", imperative=True, cps=True, ret="{0}",
         method={"clone": "cbox_clone {0}", "get_cached_vertices": "cbox_get_cached_vertices {0}", "is_none": "Option.isNone {0}", "unwrap_or": "Option.getD {0} {1}",
                 "as_ref": "{0}", "unwrap": "Option.getD {0} []", "unsigned_area": "polyArea {0}"},
         call={"Universal2DBox::too_far": "too_far sqrt (toU {0}) (toU {1})", "sutherland_hodgman_clip": "sutherland_hodgman_clip {0} {1}"},
         mutmethods={"rotate_mut": "cbox_rotate_mut {0} {1}", "gen_vertices": "cbox_gen_vertices cos sin {0}"}),
]

# ---- the SORT observation step: `SortMetric::optimize` = Kalman step (`make_prediction`) + `update_history` (C02, C07)
OPT_STRUCT = {"Universal2DBox": ("CBox α", {"xc": "xc", "yc": "yc", "angle": "angle", "aspect": "aspect", "height": "height", "confidence": "conf", "_vertex_cache": "cache"})}
SATTR = dict(group="Optimize", file="trackers/sort.rs", impl=r"impl TrackAttributesKalmanPrediction for SortAttributes \{",
             fieldpath={"self.opts.position_weight": "self.position_weight", "self.opts.velocity_weight": "self.velocity_weight"})
KERNELS += [
    dict(group="Optimize", name="cbox_new", file="utils/bbox.rs", impl=r"impl Universal2DBox \{", fn="new", struct=OPT_STRUCT, Self="Universal2DBox",
         field={"_vertex_cache": "cache", "confidence": "conf"}, sig="(xc yc : α) (angle : Option α) (aspect height : α) : CBox α"),
    dict(group="Optimize", name="kstate_to_box", file="utils/kalman.rs", impl=r"impl<const X: usize> TryFrom<KalmanState<X>> for Universal2DBox \{", fn="try_from",
         matrix=True, sig="(x : Nat) (value : KState α) : Option (CBox α)", fieldpath={"value.mean": "value.1"},
         method={"len": "x"}, path={"Self::Error::OutOfRange": "()"},
         call={"Err": "none", "Ok": "some {0}", "Some": "some {0}", "Universal2DBox::new": "cbox_new {0} {1} {2} {3} {4}"}),
    dict(SATTR, name="sattr_get_state", fn="get_state", sig="(self : SAttrs α) : Option (KState α)"),
    dict(SATTR, name="sattr_set_state", fn="set_state", sig="(self : SAttrs α) (state : KState α) : SAttrs α", imperative=True, result="self", recordvars=("self",),
         call={"Some": "some {0}"}),
    dict(SATTR, name="sattr_get_position_weight", fn="get_position_weight", sig="(self : SAttrs α) : α"),
    dict(SATTR, name="sattr_get_velocity_weight", fn="get_velocity_weight", sig="(self : SAttrs α) : α"),
    dict(group="Optimize", name="make_prediction", file="trackers/kalman_prediction.rs", impl=r"pub trait TrackAttributesKalmanPrediction \{", fn="make_prediction",
         sig="(solveLower : {r c : Type} → [Fintype r] → [DecidableEq r] → Matrix r r α → Matrix r c α → Matrix r c α) (dt : α) (self : SAttrs α) (observation_bbox : CBox α) : Option (SAttrs α × CBox α)",
         imperative=True, unwrap_panics=True, retwrap="some (self, {0})", recordvars=("res",), field={"confidence": "conf"},
         method={"get_state": "sattr_get_state {0}", "get_position_weight": "sattr_get_position_weight {0}", "get_velocity_weight": "sattr_get_velocity_weight {0}",
                 "initiate": "box_initiate {0}.1 {0}.2 (toU {1})", "predict": "box_predict (box_motion_matrix dt) {0}.1 {0}.2 {1}",
                 "update": "box_update solveLower box_update_matrix {0}.1 {1} (toU {2})"},
         call={"Universal2DBoxKalmanFilter::new": "(({0}, {1}) : α × α)", "Universal2DBox::try_from": "kstate_to_box 10 {0}"},
         selfmut={"set_state": ("self", "sattr_set_state self {0}")}),
    dict(group="Optimize", name="sort_optimize", file="trackers/sort/metric.rs", impl=r"impl ObservationMetric<SortAttributes, Universal2DBox> for SortMetric \{", fn="optimize",
         sig="{F : Type} (solveLower : {r c : Type} → [Fintype r] → [DecidableEq r] → Matrix r r α → Matrix r c α → Matrix r c α) (dt : α) (cos sin : α → α) (method : PosMetric α)\n    (attrs : SAttrs α) (features : List (Option (CBox α) × F)) : Option (SAttrs α × List (Option (CBox α) × F))",
         imperative=True, unwrap_panics=True, result="some (attrs, features)", fieldpath={"self.method": "method"},
         method={"attr": "{0}.1", "as_ref": "{0}"}, call={"Some": "some {0}"},
         pctor={"PositionalMetricType::Mahalanobis": "PosMetric.maha", "PositionalMetricType::IoU": "PosMetric.iou"},
         effmethods={"make_prediction": "make_prediction solveLower dt {0} {1}"}, setters={"attr_mut": "({1}, {0}.2)"},
         mutmethods={"clear": "[]", "gen_vertices": "cbox_gen_vertices cos sin {0}",
                     "update_history": "applyHist {0} (SimVerif.Gen.L.sort_update_history {0}.history_length {0}.track_length {0}.observed_boxes {0}.predicted_boxes {1} {2})"}),
    dict(group="Optimize", name="sort_postprocess_distances", file="trackers/sort/metric.rs", impl=r"impl ObservationMetric<SortAttributes, Universal2DBox> for SortMetric \{",
         fn="postprocess_distances", sig="{M : Type} (unfiltered : List (MOk M)) : List (MOk M)",
         method={"into_iter": "{0}", "filter": "List.filter {1} {0}", "collect": "{0}", "is_some": "Option.isSome {0}"}),
]

# ---- VisualSORT: `VisualMetric::optimize` whole (Kalman step, histories, the collect gate, the gallery) (C13, C12)
V_STRUCT = {"VisualObservationAttributes": ("VOA α", {"bbox": "bbox", "visual_quality": "visual_quality", "own_area_percentage": "own_area_percentage"})}
VOA = dict(group="OptimizeV", file="trackers/visual_sort/observation_attributes.rs", impl=r"impl VisualObservationAttributes \{", struct=V_STRUCT, Self="VisualObservationAttributes",
           call={"Some": "some {0}"})
VATTR = dict(group="OptimizeV", file="trackers/visual_sort/track_attributes.rs", impl=r"impl TrackAttributesKalmanPrediction for VisualAttributes \{",
             fieldpath={"self.opts.position_weight": "self.position_weight", "self.opts.velocity_weight": "self.velocity_weight"})
SOLVE_SIG = "(solveLower : {r c : Type} → [Fintype r] → [DecidableEq r] → Matrix r r α → Matrix r c α → Matrix r c α)"
KERNELS += [
    dict(VOA, name="voa_new", fn="new", sig="(q : α) (b : CBox α) : VOA α"),
    dict(VOA, name="voa_with_own_area_percentage", fn="with_own_area_percentage", sig="(q : α) (b : CBox α) (own_area_percentage : α) : VOA α"),
    dict(VOA, name="voa_unchecked_bbox_ref", fn="unchecked_bbox_ref", sig="(self : VOA α) : Option (CBox α)", method={"as_ref": "{0}", "unwrap": "{0}"}),
    dict(VOA, name="voa_own_area_percentage_opt", fn="own_area_percentage_opt", sig="(self : VOA α) : Option α"),
    dict(VOA, name="voa_visual_quality", fn="visual_quality", sig="(self : VOA α) : α"),
    dict(VATTR, name="vattr_get_state", fn="get_state", sig="{F : Type} (self : VAttrs α F) : Option (KState α)"),
    dict(VATTR, name="vattr_set_state", fn="set_state", sig="{F : Type} (self : VAttrs α F) (state : KState α) : VAttrs α F", imperative=True, result="self", recordvars=("self",),
         call={"Some": "some {0}"}),
    dict(VATTR, name="vattr_get_position_weight", fn="get_position_weight", sig="{F : Type} (self : VAttrs α F) : α"),
    dict(VATTR, name="vattr_get_velocity_weight", fn="get_velocity_weight", sig="{F : Type} (self : VAttrs α F) : α"),
    dict(group="OptimizeV", name="vmake_prediction", file="trackers/kalman_prediction.rs", impl=r"pub trait TrackAttributesKalmanPrediction \{", fn="make_prediction",
         sig="{F : Type} " + SOLVE_SIG + " (dt : α) (self : VAttrs α F) (observation_bbox : CBox α) : Option (VAttrs α F × CBox α)",
         imperative=True, unwrap_panics=True, retwrap="some (self, {0})", recordvars=("res",), field={"confidence": "conf"},
         method={"get_state": "vattr_get_state {0}", "get_position_weight": "vattr_get_position_weight {0}", "get_velocity_weight": "vattr_get_velocity_weight {0}",
                 "initiate": "box_initiate {0}.1 {0}.2 (toU {1})", "predict": "box_predict (box_motion_matrix dt) {0}.1 {0}.2 {1}",
                 "update": "box_update solveLower box_update_matrix {0}.1 {1} (toU {2})"},
         call={"Universal2DBoxKalmanFilter::new": "(({0}, {1}) : α × α)", "Universal2DBox::try_from": "kstate_to_box 10 {0}"},
         selfmut={"set_state": ("self", "vattr_set_state self {0}")}),
    dict(group="OptimizeV", name="visual_optimize", file="trackers/visual_sort/metric.rs", impl=r"impl ObservationMetric<VisualAttributes, VisualObservationAttributes> for VisualMetric \{", fn="optimize",
         sig="{F : Type} " + SOLVE_SIG + " (dt : α) (cos sin : α → α) (positional_kind : PosMetric α)\n    (visual_minimal_area visual_minimal_quality_collect visual_minimal_own_area_percentage_collect : α)\n    (optimizeObservations : List (Option (VOA α) × Option F) → List (Option (VOA α) × Option F)) (is_merge : Bool)\n    (attrs : VAttrs α F) (observations : List (Option (VOA α) × Option F)) : Option (VAttrs α F × List (Option (VOA α) × Option F))",
         imperative=True, unwrap_panics=True, result="some (attrs, observations)", recordvars=("attrs",),
         fieldpath={"self.opts.positional_kind": "positional_kind", "self.opts.visual_minimal_quality_collect": "visual_minimal_quality_collect",
                    "self.opts.visual_minimal_own_area_percentage_collect": "visual_minimal_own_area_percentage_collect"},
         method={"attr": "{0}.1", "as_ref": "{0}", "feature": "{0}.2", "clone": "{0}", "visual_quality": "voa_visual_quality {0}", "own_area_percentage_opt": "voa_own_area_percentage_opt {0}",
                 "feature_can_be_used": "v_feature_can_be_used visual_minimal_area (Option.map toU {1}) {2} {3} {4} {5}", "len": "List.length {0}",
                 "iter": "{0}", "filter": "List.filter {1} {0}", "count": "List.length {0}", "is_some": "Option.isSome {0}"},
         call={"Some": "some {0}", "VisualObservationAttributes::with_own_area_percentage": "voa_with_own_area_percentage {0} {1} {2}", "VisualObservationAttributes::new": "voa_new {0} {1}"},
         path={"None": "none"},
         pctor={"PositionalMetricType::Mahalanobis": "PosMetric.maha", "PositionalMetricType::IoU": "PosMetric.iou"},
         optlets={"unchecked_bbox_ref": "voa_unchecked_bbox_ref {0}"},
         effmethods={"make_prediction": "vmake_prediction solveLower dt {0} {1}"}, setters={"attr_mut": "({1}, {0}.2)", "feature_mut": "({0}.1, {1})"},
         selfmut={"optimize_observations": (0, "optimizeObservations {0}")},
         mutmethods={"gen_vertices": "cbox_gen_vertices cos sin {0}", "swap": "SimVerif.Gen.L.listSwap {0} {1} {2}",
                     "update_history": "applyHistV {0} (SimVerif.Gen.L.visual_update_history {0}.history_length {0}.track_length {0}.observed_boxes {0}.predicted_boxes {0}.observed_features {1} {2} {3})"}),
    dict(group="OptimizeV", name="visual_metric_whole", file="trackers/visual_sort/metric.rs", impl=r"impl ObservationMetric<VisualAttributes, VisualObservationAttributes> for VisualMetric \{", fn="metric",
         sig="{F : Type} (toofar : UBox α → UBox α → Bool) (inter : UBox α → UBox α → α) (kfdist : α × α → UBox α → α) (chi : Nat → α) (upper : α) (euclidean cosine : F → F → α)\n    (positional_kind : PosMetric α) (visual_kind : VisualMetric.Kind α) (positional_min_confidence visual_minimal_area visual_minimal_quality_use visual_minimal_own_area_percentage_use : α)\n    (visual_minimal_track_length collected : Nat) (wpos wvel : α) (cand trk : Option (VOA α) × Option F) : Option (Option α × Option α)",
         imperative=True, unwrap_panics=True,
         fieldpath={"mq.candidate_observation": "cand", "mq.track_observation": "trk", "mq.track_attrs": "()",
                    "self.opts.visual_minimal_quality_use": "visual_minimal_quality_use", "self.opts.visual_minimal_own_area_percentage_use": "visual_minimal_own_area_percentage_use"},
         method={"attr": "{0}.1", "as_ref": "{0}", "feature": "{0}.2", "bbox_opt": "{0}.bbox", "visual_quality": "voa_visual_quality {0}",
                 "own_area_percentage_opt": "voa_own_area_percentage_opt {0}",
                 "positional_metric": "v_positional_metric toofar inter kfdist chi upper positional_kind positional_min_confidence (Option.map toU {1}) (Option.map toU {2}) wpos wvel",
                 "feature_can_be_used": "v_feature_can_be_used visual_minimal_area (Option.map toU {1}) {2} {3} {4} {5}",
                 "visual_metric": "v_visual_metric euclidean cosine visual_kind visual_minimal_track_length collected {1} {2}"},
         call={"Some": "some {0}"}, path={"None": "none"}),
    dict(group="OptimizeV", name="visual_postprocess_distances", file="trackers/visual_sort/metric.rs", impl=r"impl ObservationMetric<VisualAttributes, VisualObservationAttributes> for VisualMetric \{",
         fn="postprocess_distances", sig="{M : Type} (unfiltered : List (MOk M)) : List (MOk M)",
         method={"into_iter": "{0}", "filter": "List.filter {1} {0}", "collect": "{0}", "is_some": "Option.isSome {0}"}),
]

# ---- expiry collection: the default methods of `TrackerAPI` (C03)
GC_PARAMS = "{T DB E : Type} (findUsable : E → DB → List (Nat × Status)) (fetchTracks : DB → List Nat → DB × List T) (addTrack : DB → T → Option DB)"
GC_COMMON = dict(group="Gc", file="trackers/tracker_api.rs", impl=r"pub trait TrackerAPI<TA, M, OA, E, N>[^{]*\{", imperative=True, value_effects=True, unwrap_panics=True,
                 placemethods={"get_main_store_mut": "main", "get_wasted_store_mut": "wst", "get_main_store": "main", "get_wasted_store": "wst", "get_opts": "epochs"},
                 pctor={"TrackStatus::Wasted": "Status.wasted"}, transparent_ctors=("Ok",),
                 method={"get_main_store_mut": "main", "get_wasted_store_mut": "wst", "get_opts": "epochs", "find_usable": "findUsable epochs {0}",
                         "into_iter": "{0}", "filter": "List.filter {1} {0}", "map": "List.map {1} {0}", "collect": "{0}"})
GC = [
    dict(GC_COMMON, name="gc_main_store_wasted", fn="get_main_store_wasted", sig=GC_PARAMS + " (epochs : E) (main : DB) : DB × List T",
         retwrap="(main, {0})", effmethods={"fetch_tracks": ("fetchTracks {0} {1}",)}),
    dict(GC_COMMON, name="gc_auto_waste", fn="auto_waste", sig=GC_PARAMS + " (epochs : E) (main wst : DB) : Option (DB × DB)",
         result="some (main, wst)", selfvar="main", effmethods={"get_main_store_wasted": ("gc_main_store_wasted findUsable fetchTracks addTrack epochs {0}",)},
         optmut={"add_track": "addTrack {0} {1}"}),
    dict(GC_COMMON, name="gc_wasted", fn="wasted", sig=GC_PARAMS + " (epochs : E) (main wst : DB) : Option ((DB × DB) × List T)",
         retwrap="some ((main, wst), {0})", effmethods={"fetch_tracks": ("fetchTracks {0} {1}",)},
         selfopt={"auto_waste": (("main", "wst"), "gc_auto_waste findUsable fetchTracks addTrack epochs main wst")}),
    dict(GC_COMMON, name="gc_skip_epochs_for_scene", fn="skip_epochs_for_scene", sig=GC_PARAMS + " (skipFn : E → Nat → Nat → E) (epochs : E) (main wst : DB) (scene_id n : Nat) : Option (E × DB × DB)",
         result="some (epochs, main, wst)", mutmethods={"skip_epochs_for_scene": "skipFn {0} {1} {2}"},
         selfopt={"auto_waste": (("main", "wst"), "gc_auto_waste findUsable fetchTracks addTrack epochs main wst")}),
]

# ---- the voting parameters the trackers hand to `SortVoting` (C02: an unmatched detection counts as the threshold)
VP_SNIP = r"let voting = SortVoting::new\(.*?\);"
VP_COMMON = dict(group="VoteParams", fn="predict_with_scene", snippet=VP_SNIP, imperative=True, result="voting",
                 sig="(quant : Rat → Int) (mult mahaThr : Rat) (method : PosKind) (num_candidates : Nat) (shard_stats : List Nat) : SVP",
                 fieldpath={"self.method": "method"}, lockmethods=("read", "unwrap"),
                 pctor={"PositionalMetricType::Mahalanobis": "PosKind.maha", "PositionalMetricType::IoU": "PosKind.iou"},
                 path={"MAHALANOBIS_NEW_TRACK_THRESHOLD": "mahaThr"},
                 method={"read": "{0}", "unwrap": "{0}", "shard_stats": "shard_stats", "iter": "{0}", "sum": "List.sum {0}"},
                 call={"SortVoting::new": "sort_voting_new quant mult {0} {1} {2}"})
VOTEPARAMS = [
    dict(group="VoteParams", name="sort_voting_new", file="trackers/sort/voting.rs", impl=r"impl SortVoting \{", fn="new",
         sig="(quant : Rat → Int) (mult : Rat) (threshold : Rat) (candidates_num tracks_num : Nat) : SVP",
         struct={"SortVoting": ("SVP", {"threshold": "threshold", "candidate_num": "candidate_num", "track_num": "track_num"})}, Self="SortVoting",
         cast={"i64": "quant {0}"}, path={"F32_U64_MULT": "mult"}),
    dict(VP_COMMON, name="sort_voting_params", file="trackers/sort/simple_api.rs", impl=r"impl Sort \{"),
    dict(VP_COMMON, name="batch_sort_voting_params", file="trackers/sort/batch_api.rs", impl=None, fn="voting_thread",
         snippet=r"let candidates_num = tracks\.len\(\);.*?let voting = SortVoting::new\(.*?\);",
         sig="{T : Type} (quant : Rat → Int) (mult mahaThr : Rat) (method : PosKind) (tracks : List T) (store : Unit) (shard_stats : List Nat) : SVP",
         lockmethods=("read", "unwrap", "expect"), value_effects=True,
         method={"read": "{0}", "unwrap": "{0}", "expect": "{0}", "shard_stats": "shard_stats", "iter": "{0}", "sum": "List.sum {0}", "len": "List.length {0}"}),
    dict(group="VoteParams", name="visual_voting_new", file="trackers/visual_sort/voting.rs", impl=r"impl VisualVoting \{", fn="new",
         sig="(positional_threshold max_allowed_feature_distance : Rat) (min_winner_feature_votes : Nat) : VVP",
         struct={"VisualVoting": ("VVP", {"positional_threshold": "positional_threshold", "max_allowed_feature_distance": "max_allowed_feature_distance",
                                          "min_winner_feature_votes": "min_winner_feature_votes"})}, Self="VisualVoting"),
] + [
    dict(group="VoteParams", name=nm, file=f, impl=impl, fn=fn, snippet=r"let voting = VisualVoting::new\(.*?\);", imperative=True, result="voting",
         sig="(mahaThr f32max : Rat) (positional_kind : PosKind) (visual_min_votes : Nat) : VVP",
         fieldpath={"self.metric_opts.positional_kind": "positional_kind", "self.metric_opts.visual_min_votes": "visual_min_votes",
                    "metric_opts.positional_kind": "positional_kind", "metric_opts.visual_min_votes": "visual_min_votes"},
         pctor={"PositionalMetricType::Mahalanobis": "PosKind.maha", "PositionalMetricType::IoU": "PosKind.iou"},
         path={"MAHALANOBIS_NEW_TRACK_THRESHOLD": "mahaThr", "f32::MAX": "f32max"},
         call={"VisualVoting::new": "visual_voting_new {0} {1} {2}"})
    for nm, f, impl, fn in [("visual_voting_params", "trackers/visual_sort/simple_api.rs", r"impl VisualSort \{", "predict_with_scene"),
                            ("batch_visual_voting_params", "trackers/visual_sort/batch_api.rs", None, "voting_thread")]
]

# ---- batch requests: detections grouped per scene (C06)
BATCHREQ = [
    dict(group="BatchReq", name="batch_request_add", file="trackers/batch.rs", impl=r"impl<T> PredictionBatchRequest<T> \{", fn="add", cps=True, imperative=True,
         sig="{T : Type} (batch : List (Nat × List T)) (batch_size : Nat) (scene_id : Nat) (elt : T) : Unit × List (Nat × List T) × Nat", ret="({0}, batch, batch_size)",
         fieldpath={"self.batch": "batch", "self.batch_size": "batch_size"}, lockmethods=("lock", "unwrap"),
         method={"lock": "{0}", "unwrap": "{0}", "len": "List.length {0}"}, mutmethods={"insert": "mapSet {0} {1} {2}"}),
]

# ---- the fan-out of a distance query: one `Distances` command per candidate and executor (C10)
FANOUT = [
    dict(group="FanOut", name="store_foreign_fanout", file="track/store.rs", impl=None, fn="foreign_track_distances", imperative=True, retwrap="(sent, {0})",
         sig="{T : Type} (execs : List (Nat × Unit)) (sent : List (Nat × T × Nat × Bool)) (tracks : List T) (feature_class : Nat) (only_baked : Bool) : List (Nat × T × Nat × Bool) × Nat × Nat",
         fieldpath={"self.executors": "execs"}, method={"len": "List.length {0}", "clone": "{0}"},
         call={"crossbeam::channel::unbounded": "((), ())", "Arc::new": "{0}", "Commands::Distances": "({0}, {1}, {2})",
               "TrackDistanceOk::new": "{0}", "TrackDistanceErr::new": "{0}"},
         sendlog={"send": ("sent", "({0}, {1})")}),
    dict(group="FanOut", name="store_merge_external_send", file="track/store.rs", impl=None, fn="merge_external_noblock", imperative=True, result="sent",
         snippet=r"let executor_id = self\.get_executor\(dest_id as usize\);.*?let res = cmd\.send\(command\);",
         sig="{T : Type} (getExecutor : Nat → Nat) (sent : List (Nat × Nat × T × List Nat × Bool)) (dest_id : Nat) (src : T) (classes : Option (List Nat)) (merge_history : Bool) : List (Nat × Nat × T × List Nat × Bool)",
         method={"get_executor": "getExecutor {1}", "get_mut": "({1}, ())", "unwrap": "{0}", "to_vec": "{0}", "clone": "{0}"}, cast={"usize": "{0}"},
         fieldpath={"self.executors": "()"}, macro={"vec": "[]"},
         call={"Commands::Merge": "({0}, {1}, {2}, {3})", "Some": "some {0}"}, sendres={"send": ("sent", "({0}, {1})")}),
    dict(group="FanOut", name="store_owned_candidates", file="track/store.rs", impl=None, fn="owned_track_distances", imperative=True, result="tracks_vec",
         snippet=r"let mut tracks_vec = Vec::with_capacity\(tracks\.len\(\)\);.*?(?=let res = self\.foreign_track_distances)",
         sig="{T DB : Type} (shardOf : DB → Nat → List (Nat × T)) (db : DB) (tracks : List Nat) : List T",
         method={"get_store": "shardOf db {1}", "get": "mapGet {0} {1}", "clone": "{0}", "len": "List.length {0}"}, cast={"usize": "{0}"},
         call={"Vec::with_capacity": "[]"}),
]

# ---- own-area shares of a call's detections: computed among the detections of that scene and call only (C04, C06, C13)
SHARES_SNIP = r"let mut percentages = Vec::default\(\);.*?(?=let mut rng = rand::thread_rng\(\);)"
SHARES_COMMON = dict(group="Shares", snippet=SHARES_SNIP, imperative=True, result="(use_own_area_percentage, percentages)", scalar="Rat",
                     sig="{B P : Type} (ownAreas : List B → List P) (shares : List B → List P → List Rat) (collect use : Rat) (observations : List (VObsIn B)) : Bool × List Rat",
                     fieldpath={"self.metric_opts.visual_minimal_own_area_percentage_collect": "collect", "self.metric_opts.visual_minimal_own_area_percentage_use": "use"},
                     field={"bounding_box": "bounding_box"},
                     method={"iter": "{0}", "map": "List.map {1} {0}", "collect": "{0}", "as_ref": "{0}", "len": "List.length {0}"},
                     call={"Vec::default": "[]", "exclusively_owned_areas_normalized_shares": "shares {0} {1}", "exclusively_owned_areas": "ownAreas {0}"},
                     mutmethods={"reserve": "{0}"})
SHARES = [
    dict(SHARES_COMMON, name="visual_call_shares", file="trackers/visual_sort/simple_api.rs", impl=r"impl VisualSort \{", fn="predict_with_scene"),
    dict(SHARES_COMMON, name="batch_visual_scene_shares", file="trackers/visual_sort/batch_api.rs", impl=r"impl BatchVisualSort \{", fn="predict"),
]

# ---- the per-detection loop of `Sort::predict_with_scene`: apply the winners, one record per detection (C01)
def pick_apply(stmts):
    """from `let mut res = Vec::default();` to the loop that fills it (the tail `res` is the value)"""
    for i, st in enumerate(stmts):
        if st[0] == "let" and st[1] == ("pvar", "res"):
            return [x for x in stmts[i:] if not (x[0] == "expr" and x[1] == ("path", ["res"]))]
    return []
APPLY_SIG = ("{T DB R : Type} (trackId : T → Nat) (setTrackId : T → Nat → T) (addTrack : DB → T → Option DB) (mergeExternal : DB → Nat → T → Option DB)\n"
             "    (shardOf : DB → Nat → List (Nat × T)) (recOf : T → R) (winners : List (Nat × List Nat)) (tracks : List T) (ctr : Nat) (db : DB) : Option (Nat × DB × List R)")
APPLY = [
    dict(group="Apply", name="sort_gen_track_id", file="trackers/sort/simple_api.rs", impl=r"impl Sort \{", fn="gen_track_id", imperative=True,
         sig="(ctr : Nat) : Nat × Nat", fieldpath={"self.track_id": "ctr"}, retwrap="(ctr, {0})"),
    dict(group="Apply", name="sort_apply_winners", file="trackers/sort/simple_api.rs", impl=r"impl Sort \{", fn="predict_with_scene", pick=pick_apply,
         imperative=True, unwrap_panics=True, value_effects=True, result="some (ctr, db, res)", sig=APPLY_SIG,
         selfvar="ctr", fieldpath={"self.store": "db"}, lockmethods=("read", "write", "unwrap"),
         method={"get_track_id": "trackId {0}", "get": "mapGet {0} {1}", "get_store": "shardOf {0} {1}"}, cast={"usize": "{0}", "u64": "{0}"},
         call={"Vec::default": "[]", "SortTrack::from": "recOf {0}", "Some": "some {0}"},
         effmethods={"gen_track_id": ("sort_gen_track_id {0}",)}, mutmethods={"set_track_id": "setTrackId {0} {1}"},
         optmut={"add_track": "addTrack {0} {1}", "merge_external": "mergeExternal {0} {1} {2}"}),
]
APPLY_V_SIG = ("{T DB R V : Type} [Inhabited V] (trackId : T → Nat) (setTrackId : T → Nat → T) (cloneT : T → T) (addVotingObs : T → Option V → Option T)\n"
               "    (addTrack : DB → T → Option DB) (mergeExternal : DB → Nat → T → Option DB)\n"
               "    (shardOf : DB → Nat → List (Nat × T)) (recOf : T → R) (winners : List (Nat × List (Nat × V))) (tracks : List T) (ctr : Nat) (db : DB) : Option (Nat × DB × List R)")
APPLY += [
    dict(group="Apply", name="visual_gen_track_id", file="trackers/visual_sort/simple_api.rs", impl=r"impl VisualSort \{", fn="gen_track_id", imperative=True,
         sig="(ctr : Nat) : Nat × Nat", fieldpath={"self.track_id": "ctr"}, retwrap="(ctr, {0})"),
    dict(group="Apply", name="visual_apply_winners", file="trackers/visual_sort/simple_api.rs", impl=r"impl VisualSort \{", fn="predict_with_scene", pick=pick_apply,
         imperative=True, unwrap_panics=True, value_effects=True, result="some (ctr, db, res)", sig=APPLY_V_SIG,
         selfvar="ctr", fieldpath={"self.store": "db"}, lockmethods=("read", "write", "unwrap"),
         method={"get_track_id": "trackId {0}", "get": "mapGet {0} {1}", "get_store": "shardOf {0} {1}", "clone": "cloneT {0}"}, cast={"usize": "{0}", "u64": "{0}"},
         call={"Vec::default": "[]", "SortTrack::from": "recOf {0}", "Some": "some {0}", "VisualAttributesUpdate::new_voting_type": "{0}"},
         path={"None": "none"},
         effmethods={"gen_track_id": ("visual_gen_track_id {0}",)}, mutmethods={"set_track_id": "setTrackId {0} {1}"},
         optmut={"add_track": "addTrack {0} {1}", "merge_external": "mergeExternal {0} {1} {2}", "add_observation": "addVotingObs {0} {4}"}),
]

# ---- the same loop in the voting threads of the batch trackers: an id is drawn for every candidate (C01)
BATCH_SNIP = r"let mut res = Vec::default\(\);.*?(?=let res = channel\.send)"
BATCH_PRESUB = [(r"let mut track_id = track_id\.write\(\)\.unwrap\(\);\s*\*track_id \+= 1;\s*\*track_id\b", "let mut ctr = ctr.write().unwrap(); *ctr += 1; *ctr"),
                (r"\bstore(\s*)\.(write|read)\(\)", r"db\1.\2()")]
APPLY += [
    dict(group="Apply", name="batch_sort_apply_winners", file="trackers/sort/batch_api.rs", impl=None, fn="voting_thread", snippet=BATCH_SNIP, presub=BATCH_PRESUB,
         imperative=True, unwrap_panics=True, value_effects=True, result="some (ctr, db, res)", sig=APPLY_SIG,
         lockmethods=("read", "write", "unwrap", "expect"),
         method={"get_track_id": "trackId {0}", "get": "mapGet {0} {1}", "get_store": "shardOf {0} {1}"}, cast={"usize": "{0}", "u64": "{0}"},
         call={"Vec::default": "[]", "SortTrack::from": "recOf {0}", "Some": "some {0}"},
         mutmethods={"set_track_id": "setTrackId {0} {1}"},
         optmut={"add_track": "addTrack {0} {1}", "merge_external": "mergeExternal {0} {1} {2}"}),
    dict(group="Apply", name="batch_visual_apply_winners", file="trackers/visual_sort/batch_api.rs", impl=None, fn="voting_thread", snippet=BATCH_SNIP, presub=BATCH_PRESUB,
         imperative=True, unwrap_panics=True, value_effects=True, result="some (ctr, db, res)", sig=APPLY_V_SIG,
         lockmethods=("read", "write", "unwrap", "expect"),
         method={"get_track_id": "trackId {0}", "get": "mapGet {0} {1}", "get_store": "shardOf {0} {1}", "clone": "cloneT {0}"}, cast={"usize": "{0}", "u64": "{0}"},
         call={"Vec::default": "[]", "SortTrack::from": "recOf {0}", "Some": "some {0}", "VisualAttributesUpdate::new_voting_type": "{0}"},
         path={"None": "none"}, mutmethods={"set_track_id": "setTrackId {0} {1}"},
         optmut={"add_track": "addTrack {0} {1}", "merge_external": "mergeExternal {0} {1} {2}", "add_observation": "addVotingObs {0} {4}"}),
]

IDLE = [
    dict(group="Idle", name="idle_lookup_" + nm, file=f, impl=impl, fn="lookup",
         sig="(epochs : Option (List (Nat × Nat))) (maxIdle : Nat) (self : Nat) (attr_scene attr_last : Nat) : Bool",
         fieldpath={"attributes.scene_id": "attr_scene", "attributes.last_updated_epoch": "attr_last", "attributes.opts": "()"},
         method={"current_epoch_with_scene": "(epoch_current epochs {1}).1", "unwrap": "Option.getD {0} 0", "baked": "epoch_baked epochs maxIdle {1} {2}"},
         pctor={lk + "::IdleLookup": "", "TrackStatus::Wasted": "Status.wasted"}, transparent_ctors=("Ok",), idle_ctor=lk + "::IdleLookup")
    for nm, f, impl, lk in [("sort", "trackers/sort.rs", r"impl LookupRequest<SortAttributes, Universal2DBox> for SortLookup \{", "SortLookup"),
                            ("visual", "trackers/visual_sort/track_attributes.rs", r"impl LookupRequest<VisualAttributes, VisualObservationAttributes> for VisualSortLookup \{", "VisualSortLookup")]
]
# decision kernels over Nat / Rat (no field structure needed)
GAL_METHOD = {"feature": "featureOf {0}", "attr": "{0}", "as_ref": "{0}", "unwrap": "{0}", "visual_quality": "quality {0}",
                 "partial_cmp": "cmpQ {0} {1}", "len": "List.length {0}", "iter": "{0}", "filter": "List.filter {1} {0}", "count": "List.length {0}"}
LOGIC = [
    dict(group="Epoch", name="epoch_baked", file="trackers/epoch_db.rs", impl=r"trait EpochDb[^{]*\{", fn="baked",
         sig="(epochs : Option (List (Nat × Nat))) (maxIdle : Nat) (scene_id last_updated : Nat) : Status",
         method={"epoch_db": "epochs", "max_idle_epochs": "maxIdle", "get": "lookupEpoch {0} {1}", "unwrap_or": "Option.getD {0} {1}"},
         call={"Ok": "{0}"}, path={"TrackStatus::Wasted": "Status.wasted", "TrackStatus::Pending": "Status.pending",
                                    "TrackStatus::Ready": "Status.ready"}),
    dict(group="EpochDb", name="epoch_skip", file="trackers/epoch_db.rs", impl=r"trait EpochDb[^{]*\{", fn="skip_epochs_for_scene", cps=True, imperative=True,
         sig="(epoch_db : Option (List (Nat × Nat))) (scene_id n : Nat) : Unit × Option (List (Nat × Nat))", ret="({0}, epoch_db)",
         optplaces={"self.epoch_db()": "epoch_db"}, method={"write": "{0}", "unwrap": "{0}"}, mutmethods={"insert": "mapSet {0} {1} {2}"}),
    dict(group="EpochDb", name="epoch_current", file="trackers/epoch_db.rs", impl=r"trait EpochDb[^{]*\{", fn="current_epoch_with_scene", cps=True, imperative=True,
         sig="(epoch_db : Option (List (Nat × Nat))) (scene_id : Nat) : Option Nat × Option (List (Nat × Nat))", ret="({0}, epoch_db)",
         optplaces={"self.epoch_db()": "epoch_db"}, method={"write": "{0}", "unwrap": "{0}"}, mutmethods={"insert": "mapSet {0} {1} {2}"}),
    dict(group="EpochDb", name="epoch_next", file="trackers/epoch_db.rs", impl=r"trait EpochDb[^{]*\{", fn="next_epoch", cps=True, imperative=True,
         sig="(epoch_db : Option (List (Nat × Nat))) (scene_id : Nat) : Option Nat × Option (List (Nat × Nat))", ret="({0}, epoch_db)",
         optplaces={"self.epoch_db()": "epoch_db"}, method={"write": "{0}", "unwrap": "{0}"}, mutmethods={"insert": "mapSet {0} {1} {2}"}),
    dict(group="Constr", name="constraints_validate", file="trackers/spatio_temporal_constraints.rs", impl=r"impl SpatioTemporalConstraints \{", fn="validate",
         sig="(constraints : List (Nat × Rat)) (epoch_delta : Nat) (dist : Rat) : Bool",
         field={"self.constraints": "constraints"}),
    dict(group="Constr", name="add_constraints", file="trackers/spatio_temporal_constraints.rs", impl=r"impl SpatioTemporalConstraints \{", fn="add_constraints",
         sig="(self_constraints constraints : List (Nat × Rat)) : List (Nat × Rat)", imperative=True, result="self_constraints",
         fieldpath={"self.constraints": "self_constraints"}, method={"cmp": "compare {0} {1}"},
         mutmethods={"sort_by": "List.mergeSort {0} (fun a b => ({1} a b) != Ordering.gt)", "dedup_by": "dedupBy {1} {0}"}),
    dict(group="Gallery", name="optimize_observations", file="trackers/visual_sort/metric.rs", impl=r"impl VisualMetric \{", fn="optimize_observations",
         sig="{Obs φ : Type} (featureOf : Obs → Option φ) (dropBbox : Obs → Obs) (quality : Obs → Rat) (visual_max_observations : Nat) (observations : List Obs) : List Obs",
         imperative=True, result="observations", fieldpath={"self.opts.visual_max_observations": "visual_max_observations"},
         method=GAL_METHOD,
         foreach={"|f| { if let Some(e) = &mut f.attr_mut() { e.drop_bbox(); } }": "dropBbox"},
         mutmethods={"retain": "List.filter {1} {0}", "truncate": "List.take {1} {0}",
                     "sort_by": "List.mergeSort {0} (fun a b => ({1} a b) != Ordering.gt)"}),
    dict(group="Gallery", name="optimize_tail", file="trackers/visual_sort/metric.rs",
         impl=r"impl ObservationMetric<VisualAttributes, VisualObservationAttributes> for VisualMetric \{", fn="optimize",
         sig="{Obs φ : Type} (featureOf : Obs → Option φ) (dropBbox : Obs → Obs) (quality : Obs → Rat) (visual_max_observations : Nat) (observations : List Obs) (observation : Obs) (collected : Nat) : List Obs × Nat",
         imperative=True, result="(observations, collected)", pick=lambda st: st[next((i for i, x in enumerate(st) if "optimize_observations" in repr(x)), len(st)):],
         fieldpath={"attrs.visual_features_collected_count": "collected"}, method=GAL_METHOD,
         selfmut={"optimize_observations": (0, "optimize_observations featureOf dropBbox quality visual_max_observations {0}")},
         mutmethods={"swap": "listSwap {0} {1} {2}"}),
    dict(group="Nms", name="candidate_new", file="utils/nms.rs", impl=r"impl<'a> Candidate<'a> \{", fn="new",
         sig="{β : Type} (bbox : NBox β) (rank : Option Rat) (index : Nat) : Candidate β", Self="Candidate",
         struct={"Candidate": ("Candidate β", {"bbox": "bbox", "rank": "rank", "index": "index"})}, method=NMS_METHOD),
    dict(group="Nms", name="nms", file="utils/nms.rs", impl=None, fn="nms",
         sig="{β : Type} (inter : NBox β → NBox β → Rat) (area : NBox β → Rat) (detections : List (NBox β × Option Rat)) (nms_threshold : Rat) (score_threshold : Option Rat) : List (NBox β)",
         imperative=True, method=NMS_METHOD, path={"f32::MIN": "F32_MIN", "f32::MAX": "F32_MAX"},
         call={"Candidate::new": "candidate_new {0} {1} {2}", "HashSet::new": "([] : List Nat)", "Universal2DBox::intersection": "inter {0} {1}"},
         mutmethods={"insert": "{1} :: {0}"}),
    dict(group="Own", name="exclusively_owned_areas", file="utils/clipping/bbox_own_areas.rs", impl=None, fn="exclusively_owned_areas", imperative=True,
         sig="{B P : Type} (tooFar : B → B → Bool) (polyOf : B → P) (diff : P → P → P) (boxes : List B) : List P",
         method={"iter": "{0}", "par_iter": "{0}", "enumerate": "enumerateL {0}", "map": "List.map {1} {0}", "collect": "{0}",
                 "contains": "List.contains {0} {1}", "difference": "diff {0} {1}"},
         call={"HashSet::new": "([] : List (Nat × Nat))", "Universal2DBox::too_far": "tooFar {0} {1}", "Arc::new": "{0}",
               "Polygon::from": "polyOf {0}", "MultiPolygon::from": "{0}"},
         mutmethods={"insert": "{1} :: {0}"}),
    dict(group="Own", name="own_area_shares", file="utils/clipping/bbox_own_areas.rs", impl=None, fn="exclusively_owned_areas_normalized_shares",
         sig="{B P : Type} (areaOf : B → Rat) (polyArea : P → Rat) (eps : Rat) (boxes : List B) (own_polygons : List P) : List Rat",
         method={"iter": "{0}", "zip": "List.zip {0} {1}", "map": "List.map {1} {0}", "collect": "{0}", "unsigned_area": "polyArea {0}", "area": "areaOf {0}"}),
    dict(group="Compat", name="sort_compatible", file="trackers/sort.rs", impl=r"impl TrackAttributes<SortAttributes, Universal2DBox> for SortAttributes \{", fn="compatible",
         sig="(constraints : List (Nat × Rat)) (maxIdle : Nat) (selfScene otherScene selfLast otherLast : Nat) (centerDist : Rat) : Bool",
         fieldpath={"self.scene_id": "selfScene", "other.scene_id": "otherScene", "self.last_updated_epoch": "selfLast",
                    "other.last_updated_epoch": "otherLast", "self.predicted_boxes": "()", "other.predicted_boxes": "()"},
         cast={"i128": "(({0} : Nat) : Int)"},
         method={"abs": "Int.natAbs {0}", "max_idle_epochs": "maxIdle", "validate": "constraints_validate constraints {1} {2}"},
         call={"Universal2DBox::dist_in_2r": "centerDist"}),
    dict(group="Compat", name="visual_compatible", file="trackers/visual_sort/track_attributes.rs",
         impl=r"impl TrackAttributes<VisualAttributes, VisualObservationAttributes> for VisualAttributes \{", fn="compatible",
         sig="(constraints : List (Nat × Rat)) (maxIdle : Nat) (selfScene otherScene selfLast otherLast : Nat) (centerDist : Rat) : Bool",
         fieldpath={"self.scene_id": "selfScene", "other.scene_id": "otherScene", "self.last_updated_epoch": "selfLast",
                    "other.last_updated_epoch": "otherLast", "self.predicted_boxes": "()", "other.predicted_boxes": "()"},
         cast={"i128": "(({0} : Nat) : Int)"},
         method={"abs": "Int.natAbs {0}", "max_idle_epochs": "maxIdle", "validate": "constraints_validate constraints {1} {2}"},
         call={"Universal2DBox::dist_in_2r": "centerDist"}),
    dict(group="Attr", name="sort_update_history", file="trackers/sort.rs", impl=r"impl SortAttributes \{", fn="update_history",
         sig="{β : Type} (history_length : Nat) (track_length : Nat) (observed_boxes predicted_boxes : List β) (observation_bbox predicted_bbox : β) : Nat × List β × List β",
         imperative=True, result="(track_length, observed_boxes, predicted_boxes)",
         fieldpath={"self.track_length": "track_length", "self.observed_boxes": "observed_boxes", "self.predicted_boxes": "predicted_boxes",
                    "self.opts.history_length": "history_length"},
         method={"len": "List.length {0}", "clone": "{0}"}),
    dict(group="Attr", name="visual_update_history", file="trackers/visual_sort/track_attributes.rs", impl=r"impl VisualAttributes \{", fn="update_history",
         sig="{β φ : Type} (history_length : Nat) (track_length : Nat) (observed_boxes predicted_boxes : List β) (observed_features : List φ) (observation_bbox predicted_bbox : β) (observation_feature : φ) : Nat × List β × List β × List φ",
         imperative=True, result="(track_length, observed_boxes, predicted_boxes, observed_features)",
         fieldpath={"self.track_length": "track_length", "self.observed_boxes": "observed_boxes", "self.predicted_boxes": "predicted_boxes",
                    "self.observed_features": "observed_features", "self.opts.history_length": "history_length"},
         method={"len": "List.length {0}", "clone": "{0}"}),
    dict(group="Attr", name="sort_merge", file="trackers/sort.rs", impl=r"impl TrackAttributes<SortAttributes, Universal2DBox> for SortAttributes \{", fn="merge",
         sig="{ι : Type} (last_updated_epoch : Nat) (custom_object_id : ι) (other_epoch : Nat) (other_custom : ι) : Nat × ι",
         imperative=True, result="(last_updated_epoch, custom_object_id)",
         fieldpath={"self.last_updated_epoch": "last_updated_epoch", "self.custom_object_id": "custom_object_id",
                    "other.last_updated_epoch": "other_epoch", "other.custom_object_id": "other_custom"}),
    dict(group="Attr", name="visual_merge", file="trackers/visual_sort/track_attributes.rs",
         impl=r"impl TrackAttributes<VisualAttributes, VisualObservationAttributes> for VisualAttributes \{", fn="merge",
         sig="{ι ν : Type} (last_updated_epoch : Nat) (custom_object_id : ι) (voting_type : ν) (other_epoch : Nat) (other_custom : ι) (other_voting : ν) : Nat × ι × ν",
         imperative=True, result="(last_updated_epoch, custom_object_id, voting_type)",
         fieldpath={"self.last_updated_epoch": "last_updated_epoch", "self.custom_object_id": "custom_object_id", "self.voting_type": "voting_type",
                    "other.last_updated_epoch": "other_epoch", "other.custom_object_id": "other_custom", "other.voting_type": "other_voting"}),
    dict(group="Attr", name="sort_apply_update", file="trackers/sort.rs", impl=r"impl TrackAttributesUpdate<SortAttributes> for SortAttributesUpdate \{", fn="apply",
         sig="{ι : Type} (last_updated_epoch scene_id : Nat) (custom_object_id : ι) (epoch scene : Nat) (custom : ι) : Nat × Nat × ι",
         imperative=True, result="(last_updated_epoch, scene_id, custom_object_id)",
         fieldpath={"attrs.last_updated_epoch": "last_updated_epoch", "attrs.scene_id": "scene_id", "attrs.custom_object_id": "custom_object_id",
                    "self.epoch": "epoch", "self.scene_id": "scene", "self.custom_object_id": "custom"}),
]


def gen(repo, cfgs, header, footer):
    out, unread = [header], []
    for c in cfgs:
        if c in LOGIC or c in TRACK or c in VOTING or c in TRACK_DIST or c in STORE or c in RECORDS or c in AUTOWASTE or c in VISVOTE or c in STORE_MAP or c in STORE_ADD or c in SORTVOTE or c in IDLE or c in TRACK_BUILD or c in APPLY or c in GC or c in VOTEPARAMS or c in BATCHREQ or c in FANOUT or c in SHARES:
            c = dict(c, scalar=c.get("scalar", "Rat"))
        path = os.path.join(repo, "src", c["file"])
        try:
            text = open(path).read()
            # drop test modules so that helper fns of the same name in tests are not picked up
            if "snippet" in c:                            # one statement of a function the reader cannot take whole (threads, raw pointers…)
                _, btxt = find_fn(text, c["fn"], c.get("impl"), c.get("occurrence", 0))
                ms = re.search(c["snippet"], btxt, re.S)
                if not ms:
                    raise Unsupported("the statement to translate was not found")
                stxt = ms.group(0)
                for rx, rp in c.get("presub", ()):            # renamings stated in the configuration (a later local shadows a shared place's name)
                    stxt, nsub = re.subn(rx, rp, stxt)
                    if nsub == 0:
                        raise Unsupported("renaming pattern not found: " + rx)
                params, body = [], parse_block("{" + stxt + "}")
            else:
                params, body = parse_fn(text, c["fn"], c.get("impl"), c.get("occurrence", 0))
            if "dims_from" in c:                          # `pub const DIM: usize = N;`  and  `DIM_X2 = DIM * 2`
                nm = c["dims_from"]
                m1 = re.search(r"pub const %s: usize = (\d+);" % nm, text)
                m2 = re.search(r"pub const %s_X2: usize = %s \* 2;" % (nm, nm), text)
                if not (m1 and m2):
                    raise Unsupported("dimension constants " + nm)
                N = m1.group(1)
                X1, X2 = "(Fin %s)" % N, "(Fin %s ⊕ Fin %s)" % (N, N)
                c = dict(c, dims={nm: X1, nm + "_X2": X2, "1": "(Fin 1)"}, sig=c["sig"].replace("{X1}", X1).replace("{X2}", X2),
                         path={k: v.replace("{N}", N) for k, v in c.get("path", {}).items()})
            if "pick" in c:                               # a slice of the body: the statements the configuration selects
                sel = c["pick"](list(body[1]) + ([("expr", body[2])] if body[2] is not None and not (body[2][0] == "call" and body[2][1] == ("path", ["Ok"])) else []))
                if not sel:
                    raise Unsupported("the statements to translate were not found")
                body = ("block", sel, None) if c.get("imperative") else ("block", sel[:-1], sel[-1][1])
            lean = Emit(c).cpsfn(body) if c.get("cps") else Emit(c).imperative(body) if c.get("imperative") else Emit(c).block(body)
            out.append("/-- src/%s `%s` -/\ndef %s %s :=\n  %s\n" % (c["file"], c["fn"], c["name"], c["sig"], lean))
        except (Unsupported, OSError, KeyError, IndexError, ValueError) as ex:
            unread.append((c["name"], str(ex)))
            out.append("-- UNREADABLE src/%s `%s`: %s\n" % (c["file"], c["fn"], str(ex).replace("\n", " ")[:200]))
    out.append(footer)
    return "\n".join(out), unread


HEADER_K = """/- GENERATED by translator/kernels.py from /repo/src on every run — do not edit.
Straight-line numeric kernels of the Rust source, read as exact arithmetic over a linearly ordered field. -/
import SimVerif.Model.Geom
%simport Mathlib.Algebra.Order.Field.Basic
namespace SimVerif.Gen.K
open SimVerif.Geom
variable {α : Type} [Field α] [LinearOrder α]
"""
HEADER_L = """/- GENERATED by translator/kernels.py from /repo/src on every run — do not edit.
Decision kernels of the Rust source over naturals / rationals. -/
namespace SimVerif.Gen.L
"""
PRELUDE_EPOCH = """inductive Status where | ready | pending | wasted
deriving DecidableEq, Repr
/-- `HashMap::get` on the scene -> epoch table -/
def lookupEpoch (m : List (Nat × Nat)) (k : Nat) : Option Nat := (m.find? (fun p => p.1 == k)).map (·.2)
"""
PRELUDE_MAT = """open Matrix
/-- storage index of a matrix row / column: `Fin n` by value; the `2n`-dimensional state as positions (0..n-1) then velocities (n..2n-1) -/
class NatIdx (ι : Type) where
  toNat : ι → Nat
  ofNat : Nat → ι
instance {n : Nat} [NeZero n] : NatIdx (Fin n) := ⟨Fin.val, Fin.ofNat n⟩
instance {n : Nat} [NeZero n] : NatIdx (Fin n ⊕ Fin n) :=
  ⟨Sum.elim Fin.val (fun k => n + k.val), fun k => if k < n then Sum.inl (Fin.ofNat n k) else Sum.inr (Fin.ofNat n (k - n))⟩
/-- `SMatrix::identity()`, also for non-square shapes: ones where row and column storage index coincide -/
def identityRect {ι κ : Type} [NatIdx ι] [NatIdx κ] : Matrix ι κ α := fun a b => if NatIdx.toNat a = NatIdx.toNat b then 1 else 0
/-- `SVector::from_iterator` / `from_vec`: a column vector from its entries in storage order -/
def colOfList {ι : Type} [NatIdx ι] (l : List α) : Matrix ι (Fin 1) α := fun i _ => l.getD (NatIdx.toNat i) 0
/-- `m[(i, j)] = v` -/
def setEntry {ι κ : Type} [NatIdx ι] [NatIdx κ] (m : Matrix ι κ α) (i j : Nat) (v : α) : Matrix ι κ α :=
  fun a b => if NatIdx.toNat a = i ∧ NatIdx.toNat b = j then v else m a b
/-- `component_mul` -/
def cmul {ι κ : Type} (a b : Matrix ι κ α) : Matrix ι κ α := fun i j => a i j * b i j
/-- `SMatrix::from_diagonal(&v)` -/
def diagOf {ι : Type} [DecidableEq ι] (v : Matrix ι (Fin 1) α) : Matrix ι ι α := Matrix.diagonal (fun i => v i 0)
/-- `.sum()` of all entries -/
def msum {ι κ : Type} [Fintype ι] [Fintype κ] (a : Matrix ι κ α) : α := ∑ i, ∑ j, a i j
"""
PRELUDE_BASE = """/-- `Iterator::enumerate`: (index, item) -/
def enumerateL {α : Type} (l : List α) : List (Nat × α) := l.zipIdx.map (fun p => (p.2, p.1))
/-- `f32::partial_cmp(..).unwrap()` on comparable (non-NaN) values -/
def cmpQ (a b : Rat) : Ordering := if a < b then .lt else if b < a then .gt else .eq
"""
PRELUDE_MAP = """/-- `HashMap<u64, V>` read as an association list with distinct keys: `get`, and `insert` / write-back through `get_mut` -/
def mapGet {β : Type} (m : List (Nat × β)) (k : Nat) : Option β := (m.find? (fun p => p.1 == k)).map (·.2)
def mapGetD {β : Type} [Inhabited β] (m : List (Nat × β)) (k : Nat) : β := (mapGet m k).getD default
def mapSet {β : Type} : List (Nat × β) → Nat → β → List (Nat × β)
  | [], k, v => [(k, v)]
  | p :: rest, k, v => if p.1 == k then (k, v) :: rest else p :: mapSet rest k v
"""
PRELUDE_TRACK = """/-- `Result::is_err` -/
def isErr {ε α : Type} : Except ε α → Bool
  | .error _ => true
  | .ok _ => false
/-- `ObservationsDb` (`HashMap<class, Vec<Observation>>`) as an association list: `get`, `insert` / write-back through `get_mut` -/
def dbGet {β : Type} (obs : List (Nat × β)) (c : Nat) : Option β := (obs.find? (fun p => p.1 == c)).map (·.2)
def dbGetD {β : Type} [Inhabited β] (obs : List (Nat × β)) (c : Nat) : β := (dbGet obs c).getD default
def dbSet {β : Type} (obs : List (Nat × β)) (c : Nat) (v : β) : List (Nat × β) :=
  if obs.any (fun p => p.1 == c) then obs.map (fun p => if p.1 == c then (c, v) else p) else obs ++ [(c, v)]
"""
PRELUDE_OWN = """"""
PRELUDE_VOTING = """/-- itertools `into_group_map`: the values of every key in stream order; the keys come out of a `HashMap` in an arbitrary
order, which is the parameter `order` of the generated functions (here: first-appearance order) -/
def groupMap (l : List ((Nat × Nat) × Rat)) : List ((Nat × Nat) × List Rat) :=
  (Voting.firsts (l.map (·.1))).map (fun k => (k, Voting.groupOf k l))
/-- `into_group_map` for any key type, first-appearance order of the keys (a `HashMap` is only ever looked up by key afterwards) -/
def groupMapG {κ β : Type} [BEq κ] (l : List (κ × β)) : List (κ × List β) :=
  (Voting.firsts (l.map (·.1))).map (fun k => (k, (l.filter (fun e => e.1 == k)).map (·.2)))
/-- `Option::unwrap` on a value that is present (the code has just checked it, or it is a comparison of non-NaN floats) -/
def optUnwrap {α : Type} [Inhabited α] (o : Option α) : α := o.getD default
/-- `Iterator::sum` -/
def lsumQ (l : List Rat) : Rat := l.foldl (· + ·) 0
"""
PRELUDE_TRACKDIST = """open SimVerif
/-- itertools `cartesian_product`: every left element with every right element, left-major -/
def cartProd {α β : Type} (l : List α) (r : List β) : List (α × β) := l.flatMap (fun a => r.map (fun b => (a, b)))
"""
PRELUDE_RECORD = """/-- `SortTrack`: the record `predict` returns for a detection -/
structure RecG (β ι ν : Type) where
  id : Nat
  custom : ι
  visual : ν
  epoch : Nat
  scene : Nat
  observed : Option β
  predicted : Option β
  length : Nat
/-- `WastedSortTrack` / `WastedVisualSortTrack` -/
structure WastedG (β F : Type) where
  id : Nat
  epoch : Nat
  scene : Nat
  length : Nat
  observed : Option β
  predicted : Option β
  predictedH : List β
  observedH : List β
  featuresH : List F := []
/-- `.iter().map(f)` over the history and `Option::map(f)` inside it share the method name -/
class ListOrOptMap (C : Type → Type) where
  mapC : {a b : Type} → (a → b) → C a → C b
instance : ListOrOptMap List := ⟨List.map⟩
instance : ListOrOptMap Option := ⟨Option.map⟩
def listOrOptMap {C : Type → Type} [ListOrOptMap C] {a b : Type} (f : a → b) (x : C a) : C b := ListOrOptMap.mapC f x
"""
PRELUDE_VISVOTE = """open SimVerif
/-- `ObservationMetricOk` of a VisualSORT query: candidate, track, positional weight, feature distance -/
structure VD where
  frm : Nat
  to : Nat
  attr : Option Rat
  feat : Option Rat
instance : Inhabited Voting.Elt := ⟨⟨0, 0, 0⟩⟩
/-- `HashSet::insert` -/
def setInsert (s : List Nat) (x : Nat) : List Nat := if s.contains x then s else x :: s
/-- `HashMap::extend` -/
def mapExtend {β : Type} (m : List (Nat × β)) (l : List (Nat × β)) : List (Nat × β) := l.foldl (fun m p => mapSet m p.1 p.2) m
"""
PRELUDE_STOREMAP = """open SimVerif
/-- the shards: `Vec<Mutex<HashMap<u64, Track>>>`; a guard obtained from `get_store` is a borrow of one shard -/
def lstGet {β : Type} (l : List β) (k : Nat) : Option β := l[k]?
def lstGetD {β : Type} (l : List (List β)) (k : Nat) : List β := l.getD k []
def lstSet {β : Type} (l : List β) (k : Nat) (v : β) : List β := l.set k v
/-- one shard (`HashMap<u64, Track>`): `get`, `insert` (overwrites), `remove` -/
def shGet {β : Type} (sh : List (Nat × β)) (id : Nat) : Option β := (sh.find? (fun p => p.1 == id)).map (·.2)
def shInsert {β : Type} (sh : List (Nat × β)) (id : Nat) (v : β) : List (Nat × β) := sh.filter (fun p => !(p.1 == id)) ++ [(id, v)]
def shRemove {β : Type} (sh : List (Nat × β)) (id : Nat) : List (Nat × β) := sh.filter (fun p => !(p.1 == id))
/-- write-back through `get_mut`: the entry is replaced where it is -/
def shPut {β : Type} : List (Nat × β) → Nat → β → List (Nat × β)
  | [], id, v => [(id, v)]
  | p :: rest, id, v => if p.1 == id then (id, v) :: rest else p :: shPut rest id v
"""
PRELUDE_SORTVOTE = """/-- `ObservationMetricOk<Universal2DBox>` as `SortVoting` reads it: candidate, track, positional weight -/
structure SD where
  frm : Nat
  to : Nat
  attr : Option Rat
/-- `Vec<u64>` as (length, contents): `resize` from empty, `v[i] = x`, `push`, `len`, `v[i]` -/
abbrev VecN := Nat × (Nat → Nat)
def vecEmpty : VecN := (0, fun _ => 0)
def vecResize (v : VecN) (n x : Nat) : VecN := (n, fun i => if i < v.1 then v.2 i else x)
def vecSet (v : VecN) (i x : Nat) : VecN := (v.1, fun j => if j = i then x else v.2 j)
def vecPush (v : VecN) (x : Nat) : VecN := (v.1 + 1, fun j => if j = v.1 then x else v.2 j)
def vecLen (v : VecN) : Nat := v.1
def vecGet (v : VecN) (i : Nat) : Nat := v.2 i
/-- `pathfinding::matrix::Matrix<i64>` as a function of (row, column); `get_mut((r, c))` borrows one entry -/
def matGet (m : Nat → Nat → Int) (k : Nat × Nat) : Option Int := some (m k.1 k.2)
def matGetD (m : Nat → Nat → Int) (k : Nat × Nat) : Int := m k.1 k.2
def matSet (m : Nat → Nat → Int) (k : Nat × Nat) (v : Int) : Nat → Nat → Int := fun i j => if i = k.1 ∧ j = k.2 then v else m i j
"""
PRELUDE_SWAP = """/-- `slice::swap(i, j)` (indices in range: the code pushes an element first) -/
def listSwap {α : Type} (l : List α) (i j : Nat) : List α :=
  match l[i]?, l[j]? with
  | some a, some b => (l.set i b).set j a
  | _, _ => l
"""
PRELUDE_NMS = """/-- `f32::MAX`, `f32::MIN` as exact rationals -/
def F32_MAX : Rat := ((2 ^ 24 - 1 : Nat) : Rat) * ((2 ^ 104 : Nat) : Rat)
def F32_MIN : Rat := -F32_MAX
/-- what `nms` reads of a `Universal2DBox`: the two fields of the validity filter (everything else only through `intersection` / `area`) -/
structure NBox (β : Type) where
  item : β
  height : Rat
  aspect : Rat
/-- `struct Candidate` -/
structure Candidate (β : Type) where
  bbox : NBox β
  rank : Rat
  index : Nat
"""
PRELUDE_DEDUP = """/-- `Vec::dedup_by(same)`: `same(a, b)` is called with `a` the later element and `b` the last retained one; `a` is dropped when it holds -/
def dedupByAux {α : Type} (same : α → α → Bool) (prev : α) : List α → List α
  | [] => []
  | a :: rest => if same a prev then dedupByAux same prev rest else a :: dedupByAux same a rest
def dedupBy {α : Type} (same : α → α → Bool) : List α → List α
  | [] => []
  | a :: rest => a :: dedupByAux same a rest
"""
# group -> (file, configs, header, namespace)
K_GROUPS = ["Radius", "Box", "Inter", "Dist", "Kalman", "SMetric", "VMetric", "Clip", "Feat", "Cache", "Optimize", "OptimizeV"]
POSMETRIC = """/-- `PositionalMetricType` -/
inductive PosMetric (α : Type) where
  | maha
  | iou (thr : α)
"""
K_IMPORTS = {"Optimize": "import SimVerif.Gen.KCache\nimport SimVerif.Gen.KKalmanMat\nimport SimVerif.Gen.KSMetric\nimport SimVerif.Gen.LAttr\n",
             "OptimizeV": "import SimVerif.Gen.KOptimize\nimport SimVerif.Gen.KVMetric\nimport SimVerif.Gen.LGallery\n", "Cache": "import SimVerif.Gen.KBox\nimport SimVerif.Gen.KInter\nimport SimVerif.Gen.KClip\n", "Feat": "import SimVerif.Model.Feature\n", "Clip": "import SimVerif.Gen.KInter\n", "Inter": "import SimVerif.Gen.KRadius\n", "Dist": "import SimVerif.Gen.KRadius\n",
             "SMetric": "import SimVerif.Gen.KInter\nimport SimVerif.Gen.KKalman\n",
             "VMetric": "import SimVerif.Gen.KSMetric\nimport SimVerif.Gen.KRadius\nimport SimVerif.Model.VisualMetric\n"}
PRELUDE_VP = """/-- `PositionalMetricType` (decision kernels: the IoU threshold as a rational) -/
inductive PosKind where
  | maha
  | iou (thr : Rat)
/-- `VisualVoting` -/
structure VVP where
  positional_threshold : Rat
  max_allowed_feature_distance : Rat
  min_winner_feature_votes : Nat
/-- `SortVoting` -/
structure SVP where
  threshold : Int
  candidate_num : Nat
  track_num : Nat
"""
PRELUDE_OPTV = """/-- the fields of `VisualAttributes` the observation step reads or writes -/
structure VAttrs (α F : Type) where
  predicted_boxes : List (CBox α)
  observed_boxes : List (CBox α)
  observed_features : List (Option F)
  track_length : Nat
  visual_features_collected_count : Nat
  state : Option (KState α)
  position_weight : α
  velocity_weight : α
  history_length : Nat
/-- `VisualObservationAttributes` -/
structure VOA (α : Type) where
  bbox : Option (CBox α)
  visual_quality : α
  own_area_percentage : Option α
def applyHistV {F : Type} (a : VAttrs α F) (r : Nat × List (CBox α) × List (CBox α) × List (Option F)) : VAttrs α F :=
  { a with track_length := r.1, observed_boxes := r.2.1, predicted_boxes := r.2.2.1, observed_features := r.2.2.2 }
"""
PRELUDE_OPT = """/-- `KalmanState<10>`: mean and covariance -/
abbrev KState (α : Type) := Matrix (Fin 5 ⊕ Fin 5) (Fin 1) α × Matrix (Fin 5 ⊕ Fin 5) (Fin 5 ⊕ Fin 5) α
/-- the fields of `SortAttributes` the observation step reads or writes (`opts` flattened; epoch, scene and custom id are not touched by it) -/
structure SAttrs (α : Type) where
  predicted_boxes : List (CBox α)
  observed_boxes : List (CBox α)
  track_length : Nat
  state : Option (KState α)
  position_weight : α
  velocity_weight : α
  history_length : Nat
/-- write back the places `update_history` assigns -/
def applyHist (a : SAttrs α) (r : Nat × List (CBox α) × List (CBox α)) : SAttrs α :=
  { a with track_length := r.1, observed_boxes := r.2.1, predicted_boxes := r.2.2 }
/-- `ObservationMetricOk` -/
structure MOk (M : Type) where
  from_ : Nat
  to_ : Nat
  attribute_metric : Option M
  feature_distance : Option M
"""
K_PRELUDE = {"Optimize": PRELUDE_OPT, "OptimizeV": PRELUDE_OPTV, "Cache": """/-- `Universal2DBox` with its private vertex cache -/
structure CBox (α : Type) where
  xc : α
  yc : α
  angle : Option α
  aspect : α
  height : α
  conf : α
  cache : Option (List (Pt α))
/-- `geo::Polygon::new` closes the exterior ring: the first vertex is repeated at the end (`sutherland_hodgman_clip` reads the closed ring) -/
def closeRing (l : List (Pt α)) : List (Pt α) := match l with | [] => [] | p :: _ => l ++ [p]
/-- the public fields -/
def toU (b : CBox α) : UBox α := { xc := b.xc, yc := b.yc, angle := b.angle, aspect := b.aspect, height := b.height, conf := b.conf }
""", "Clip": "/-- `Vec` indexing panics out of range; the model reads a default there (never reached: indices are in range) -/\ninstance instInhabitedPt : Inhabited (Pt α) := ⟨((0 : α), (0 : α))⟩\n", "SMetric": POSMETRIC, "VMetric": "variable {F : Type}\n"}


def main():
    repo, outdir = sys.argv[1], sys.argv[2]
    unread_all = []
    jobs = []
    for g in K_GROUPS:
        jobs.append(("K" + g + ".lean", [c for c in KERNELS if c["group"] == g], HEADER_K % K_IMPORTS.get(g, "") + K_PRELUDE.get(g, ""), "SimVerif.Gen.K"))
    jobs.append(("KKalmanMat.lean", KALMAN_MAT, HEADER_K % "import SimVerif.Gen.KKalman\nimport Mathlib.Data.Matrix.Mul\nimport Mathlib.Data.Matrix.Diagonal\nimport Mathlib.Data.Fintype.Sum\n" + PRELUDE_MAT, "SimVerif.Gen.K"))
    jobs.append(("KKalmanVec.lean", KALMAN_VEC, "/- GENERATED by translator/kernels.py from /repo/src on every run — do not edit. `Vec2DKalmanFilter`: the point filter applied element by element. -/\nnamespace SimVerif.Gen.K\n", "SimVerif.Gen.K"))
    jobs.append(("LEpoch.lean", [c for c in LOGIC if c["group"] == "Epoch"], HEADER_L + PRELUDE_EPOCH, "SimVerif.Gen.L"))
    jobs.append(("LEpochDb.lean", [c for c in LOGIC if c["group"] == "EpochDb"], "import SimVerif.Gen.LBase\n" + HEADER_L, "SimVerif.Gen.L"))
    jobs.append(("LVoting.lean", VOTING, "import SimVerif.Gen.LBase\nimport SimVerif.Model.Voting\n" + HEADER_L + PRELUDE_VOTING, "SimVerif.Gen.L"))
    jobs.append(("LTrack.lean", TRACK, HEADER_L + PRELUDE_TRACK, "SimVerif.Gen.L"))
    jobs.append(("LStoreCmd.lean", STORE, "import SimVerif.Gen.LBase\nimport SimVerif.Model.Track\n" + HEADER_L + "open SimVerif\n", "SimVerif.Gen.L"))
    jobs.append(("LRecord.lean", RECORDS, HEADER_L + PRELUDE_RECORD, "SimVerif.Gen.L"))
    jobs.append(("LAutoWaste.lean", AUTOWASTE, HEADER_L, "SimVerif.Gen.L"))
    jobs.append(("LVisVoting.lean", VISVOTE, "import SimVerif.Gen.LBase\nimport SimVerif.Model.Voting\n" + HEADER_L + PRELUDE_VISVOTE, "SimVerif.Gen.L"))
    jobs.append(("LStoreMap.lean", STORE_MAP + STORE_ADD, "import SimVerif.Model.Track\n" + HEADER_L + PRELUDE_STOREMAP, "SimVerif.Gen.L"))
    jobs.append(("LSortVoting.lean", SORTVOTE, "import SimVerif.Gen.LBase\n" + HEADER_L + PRELUDE_SORTVOTE, "SimVerif.Gen.L"))
    jobs.append(("LIdle.lean", IDLE, "import SimVerif.Gen.LEpoch\nimport SimVerif.Gen.LEpochDb\n" + HEADER_L, "SimVerif.Gen.L"))
    jobs.append(("LVoteParams.lean", VOTEPARAMS, HEADER_L + PRELUDE_VP, "SimVerif.Gen.L"))
    jobs.append(("LBatchReq.lean", BATCHREQ, "import SimVerif.Gen.LBase\n" + HEADER_L, "SimVerif.Gen.L"))
    jobs.append(("LFanOut.lean", FANOUT, "import SimVerif.Gen.LBase\n" + HEADER_L, "SimVerif.Gen.L"))
    jobs.append(("LShares.lean", SHARES, HEADER_L + "/-- `VisualSortObservation`: the fields the own-area computation reads -/\nstructure VObsIn (B : Type) where\n  bounding_box : B\n", "SimVerif.Gen.L"))
    jobs.append(("LGc.lean", GC, "import SimVerif.Gen.LEpoch\n" + HEADER_L, "SimVerif.Gen.L"))
    jobs.append(("LApply.lean", APPLY, "import SimVerif.Gen.LBase\n" + HEADER_L, "SimVerif.Gen.L"))
    jobs.append(("LTrackBuild.lean", TRACK_BUILD, "import SimVerif.Model.Track\n" + HEADER_L + "open SimVerif\n", "SimVerif.Gen.L"))
    jobs.append(("LTrackDist.lean", TRACK_DIST, "import SimVerif.Gen.LTrack\nimport SimVerif.Model.Track\n" + HEADER_L + PRELUDE_TRACKDIST, "SimVerif.Gen.L"))
    jobs.append(("LConstr.lean", [c for c in LOGIC if c["group"] == "Constr"], HEADER_L + PRELUDE_DEDUP, "SimVerif.Gen.L"))
    jobs.append(("LBase.lean", [], HEADER_L + PRELUDE_BASE + PRELUDE_MAP, "SimVerif.Gen.L"))
    jobs.append(("LGallery.lean", [c for c in LOGIC if c["group"] == "Gallery"], "import SimVerif.Gen.LBase\n" + HEADER_L + PRELUDE_SWAP, "SimVerif.Gen.L"))
    jobs.append(("LNms.lean", [c for c in LOGIC if c["group"] == "Nms"], "import SimVerif.Gen.LBase\n" + HEADER_L + PRELUDE_NMS, "SimVerif.Gen.L"))
    jobs.append(("LOwn.lean", [c for c in LOGIC if c["group"] == "Own"], "import SimVerif.Gen.LBase\n" + HEADER_L + PRELUDE_OWN, "SimVerif.Gen.L"))
    jobs.append(("LAttr.lean", [c for c in LOGIC if c["group"] == "Attr"], HEADER_L, "SimVerif.Gen.L"))
    jobs.append(("LCompat.lean", [c for c in LOGIC if c["group"] == "Compat"], "import SimVerif.Gen.LConstr\n" + HEADER_L, "SimVerif.Gen.L"))
    for fname, cfgs, hdr, ns in jobs:
        text, unread = gen(repo, cfgs, hdr, "end " + ns + "\n")
        unread_all += unread
        p = os.path.join(outdir, fname)
        if not os.path.exists(p) or open(p).read() != text:
            open(p, "w").write(text)
    for n, why in unread_all:
        sys.stderr.write("kernels.py: cannot read %s: %s\n" % (n, why))
    return 0


if __name__ == "__main__":
    sys.exit(main())
