#!/usr/bin/env python3
"""Translator for the Python-binding table (C18): reads every #[pyclass] / #[pymethods] / #[pyfunction]
item of /repo/src that is registered in the `similari` module and emits

  lean/SimVerif/Gen/PyTable.lean   -- what the bindings ARE (one entry per exposed method / function)
  lean/SimVerif/Gen/PySpec.lean    -- what they SHOULD be: the hand-written spec/pyspec.json, transliterated
  <json out>                       -- the getter names per class, for the Python executor

usage: pytable.py <repo> <lean Gen dir> <spec json> <table json out>

Names are emitted as lists of character codes (string literals do not reduce in the kernel) with the
readable name in a comment. Bodies are classified into a small wrapper calculus:
  field path            the body returns self.0.<path> (possibly cloned / wrapped / transmuted)
  setField path arg     the body assigns <arg> to self.0.<path>
  delegate callee args  the body is one call of <callee> on the wrapped value (or an associated function),
                        after stripping GIL-release, transmute, wrapper-constructor, conversion and assert layers
  other hash            anything else (hash of the whitespace-normalised body)
"""
import re, os, sys, json, hashlib

repo, gen_dir, spec_path, json_out = sys.argv[1:5]


def put(path, text):
    """write only when the content changes, atomically"""
    if os.path.exists(path) and open(path).read() == text: return
    tmp = path + ".tmp%d" % os.getpid()
    open(tmp, "w").write(text); os.replace(tmp, path)


def die(msg):
    sys.stderr.write("pytable: " + msg + "\n"); sys.exit(3)


def strip_comments(s):
    s = re.sub(r"//[^\n]*", "", s)
    return re.sub(r"/\*.*?\*/", "", s, flags=re.S)


def match(s, i, o, c):
    d = 0
    while i < len(s):
        ch = s[i]
        if ch == '"':
            i += 1
            while i < len(s) and s[i] != '"':
                if s[i] == "\\": i += 1
                i += 1
        elif ch == o: d += 1
        elif ch == c:
            d -= 1
            if d == 0: return i + 1
        i += 1
    die("unbalanced %s%s" % (o, c))


def norm(s):
    return " ".join(s.split())


# ---------------------------------------------------------------- extraction
lib = strip_comments(open(os.path.join(repo, "src", "lib.rs")).read())
registered = set(re.findall(r"add_class::<(\w+)>", lib))
reg_funcs = set(re.findall(r"wrap_pyfunction!\((\w+),", lib))
classes, methods, funcs = {}, [], []
for dp, dn, fn in os.walk(os.path.join(repo, "src")):
    for f in sorted(fn):
        if not f.endswith(".rs"): continue
        p = os.path.join(dp, f); rel = os.path.relpath(p, repo)
        s = strip_comments(open(p).read())
        for m in re.finditer(r"#\[pyclass\]((?:\s*#\[[^\]]*\])*)\s*pub(?:\([a-z]+\))?\s+struct\s+(\w+)\s*([({])", s):
            name = m.group(2)
            pn = re.search(r'pyo3\(name\s*=\s*"(\w+)"', m.group(1))
            e = match(s, m.end() - 1, m.group(3), ")" if m.group(3) == "(" else "}")
            classes.setdefault(name, []).append({"py": pn.group(1) if pn else name, "fields": norm(s[m.end():e - 1]), "file": rel})
        for m in re.finditer(r"#\[pymethods\]\s*impl\s+(\w+)\s*\{", s):
            e = match(s, m.end() - 1, "{", "}"); blk = s[m.end():e - 1]
            for fm in re.finditer(r"((?:\s*#\[[^\]]*\])*)\s*(?:pub(?:\([a-z]+\))?\s+)?fn\s+(\w+)\s*(?:<[^>]*>)?\s*\(", blk):
                pe = match(blk, fm.end() - 1, "(", ")"); params = blk[fm.end():pe - 1]
                bi = blk.index("{", pe); be = match(blk, bi, "{", "}")
                methods.append({"rs": m.group(1), "fn": fm.group(2), "attrs": norm(fm.group(1)), "params": norm(params),
                                "body": norm(blk[bi + 1:be - 1]), "file": rel})
        for fm in re.finditer(r"#\[pyfunction\]((?:\s*#\[[^\]]*\])*)\s*pub\s+fn\s+(\w+)\s*\(", s):
            pe = match(s, fm.end() - 1, "(", ")"); params = s[fm.end():pe - 1]
            bi = s.index("{", pe); be = match(s, bi, "{", "}")
            funcs.append({"fn": fm.group(2), "attrs": norm(fm.group(1)), "params": norm(params), "body": norm(s[bi + 1:be - 1]), "file": rel})

# a struct name may be declared twice (dead files outside the module tree): keep the declaration whose file
# also holds the #[pymethods] of a registered class and is reachable — decided by `mod` reachability from lib.rs
def reachable_files():
    seen, todo = set(), ["src/lib.rs"]
    while todo:
        f = todo.pop()
        if f in seen or not os.path.exists(os.path.join(repo, f)): continue
        seen.add(f)
        text = strip_comments(open(os.path.join(repo, f)).read())
        base = os.path.dirname(f) if os.path.basename(f) in ("lib.rs", "mod.rs") else os.path.join(os.path.dirname(f), os.path.basename(f)[:-3])
        for mm in re.finditer(r"\bmod\s+(\w+)\s*;", text):
            todo.append(os.path.join(base, mm.group(1) + ".rs")); todo.append(os.path.join(base, mm.group(1), "mod.rs"))
    return seen

reach = reachable_files()
cls_py = {}
for name, decls in classes.items():
    live = [d for d in decls if d["file"] in reach]
    if name in registered:
        if len(live) != 1: die("class %s: %d reachable declarations" % (name, len(live)))
        cls_py[name] = live[0]
for r in registered:
    if r not in cls_py: die("registered class %s has no #[pyclass] declaration" % r)
methods = [m for m in methods if m["rs"] in cls_py and m["file"] in reach]
funcs = [f for f in funcs if f["fn"] in reg_funcs and f["file"] in reach]


# ---------------------------------------------------------------- classification
def split_args(a):
    out, d, cur = [], 0, ""
    for ch in a:
        if ch in "([{<": d += 1
        elif ch in ")]}>": d -= 1
        if ch == "," and d == 0:
            out.append(cur.strip()); cur = ""
        else: cur += ch
    if cur.strip(): out.append(cur.strip())
    return out


def param_names(params):
    names = []
    for p in split_args(params):
        p = p.strip()
        if not p or p in ("&self", "&mut self", "self", "mut self"): continue
        if re.match(r"(_?py)\s*:\s*Python", p): continue
        m = re.match(r"(?:mut\s+)?(\w+)\s*:", p)
        if not m: die("cannot read parameter %r" % p)
        names.append(m.group(1))
    return names


def h32(s):
    return int(hashlib.sha256(s.encode()).hexdigest()[:8], 16)


def strip_layers(b):
    layers = []
    b = b.strip()
    changed = True
    while changed:
        changed = False
        b = b.strip()
        if b.endswith(";"): b = b[:-1].strip(); changed = True; continue
        m = re.match(r"assert!\s*\(", b)
        if m:
            e = match(b, m.end() - 1, "(", ")")
            rest = b[e:].strip()
            if rest.startswith(";"):
                layers.append("assert"); b = rest[1:]; changed = True; continue
        m = re.match(r"Python::with_gil\(\|py\|\s*(.*)\)$", b)
        if m:
            inner = m.group(1).strip()
            if inner.startswith("{") and match(inner, 0, "{", "}") == len(inner): inner = inner[1:-1].strip()
            m2 = re.match(r"py\.allow_threads\(\|\|\s*(.*)\)$", inner.rstrip(";").strip())
            if m2:
                x = m2.group(1).strip()
                if x.startswith("{") and match(x, 0, "{", "}") == len(x): x = x[1:-1].strip()
                layers.append("gil"); b = x; changed = True; continue
        m = re.match(r"unsafe\s*\{\s*std::mem::transmute\((.*)\)\s*\}$", b)
        if m: layers.append("transmute"); b = m.group(1); changed = True; continue
        m = re.match(r"(Py\w+|Self)\((.*)\)$", b)
        if m and match(b, len(m.group(1)), "(", ")") == len(b):
            layers.append("wrap"); b = m.group(2); changed = True; continue
        m = re.match(r"(.*)\.try_into\(\)\s*\.(unwrap\(\)|expect\(\"[^\"]*\"\))$", b)
        if m: layers.append("conv"); b = m.group(1); changed = True; continue
        m = re.match(r"(Py\w+|Self)\s*\{\s*\w+\s*:\s*(.*?),?\s*\}$", b)
        if m and "," not in re.sub(r"\([^()]*\)", "", m.group(2)):
            layers.append("wrap"); b = m.group(2); changed = True; continue
        m = re.match(r"(.*?)\s*\.into_iter\(\)((?:\s*\.map\((?:[\w:]+|\|e\| i64::try_from\(e\)\.unwrap\(\))\))+)\s*\.collect\(\)$", b)
        if m: layers.append("mapwrap"); b = m.group(1); changed = True; continue
        m = re.match(r"(.*)\.map\(Py\w+\)$", b)
        if m: layers.append("mapwrap"); b = m.group(1); changed = True; continue
        if b.startswith("{") and match(b, 0, "{", "}") == len(b):
            b = b[1:-1]; changed = True; continue
    return b.strip(), layers


def norm_arg(a, params):
    a = a.strip()
    for _ in range(6):
        a0 = a
        a = re.sub(r"^&\s*(mut\s+)?", "", a)
        a = re.sub(r"\.try_into\(\)\s*\.(unwrap\(\)|expect\(\"[^\"]*\"\))$", "", a.strip())
        if not re.match(r"^-?[0-9]", a.strip()):
            a = re.sub(r"\.(0|state|clone\(\)|inner)$", "", a.strip())
        a = re.sub(r"\.map\(\|\w+\|\s*\w+\.0\)$", "", a.strip())
        a = re.sub(r"\s+as\s+_$", "", a.strip())
        m = re.match(r"Point2::from\(\[(\w+),\s*(\w+)\]\)$", a.strip())
        if m: return [("param", m.group(1)), ("param", m.group(2))]
        if a == a0: break
    a = a.strip()
    m = re.match(r"(\w+)\.unwrap_or\((.*)\)$", a)
    if m and m.group(1) in params:               # `p.unwrap_or(d)`: the parameter, and the value used for None
        return [("param", m.group(1)), ("expr", "unwrap_or " + m.group(2))]
    if a in params: return [("param", a)]
    if re.match(r"^-?[0-9][0-9_.]*(f32|f64|u64|usize|i64)?$", a): return [("lit", a)]
    return [("expr", a)]


def classify(body, params):
    b, layers = strip_layers(body)
    m = re.match(r"self((?:\s*\.\s*\w+)+)(\[\d+\])?(\.clone\(\))?$", b)
    if m and "(" not in m.group(1):
        path = [c.strip() for c in m.group(1).split(".") if c.strip()]
        if path and path[0] == "0": path = path[1:]
        if m.group(2): path.append(m.group(2))
        if path: return ("field", path), layers
    m = re.match(r"(\w+)::([A-Z]\w*)$", b)
    if m: return ("delegate", m.group(1), m.group(2), []), layers
    m = re.match(r"self\.0((?:\.\w+)+)\s*=\s*(.+)$", b)
    if m and "==" not in b:
        args = norm_arg(m.group(2), params)
        if len(args) == 1 and args[0][0] == "param":
            return ("setField", m.group(1).strip(".").split("."), args[0][1]), layers
    m = re.match(r"((?:self(?:\s*\.\s*\w+)*)|(?:\w+(?:::<[^>]*>)?))\s*(?:\.|::)\s*(\w+)\s*\((.*)\)$", b)
    if m and match(b, b.index("(", m.start(2)), "(", ")") == len(b):
        recv = re.sub(r"\s+", "", m.group(1))
        args = []
        for a in split_args(m.group(3)):
            args += norm_arg(a, params)
        return ("delegate", recv, m.group(2), args), layers
    return ("other", h32(body)), layers


def py_name(fn, attrs, kind):
    m = re.search(r'pyo3\(\s*name\s*=\s*"(\w+)"', attrs)
    if m: return m.group(1)
    if kind == "getter" and fn.startswith("get_"): return fn[4:]
    if kind == "setter" and fn.startswith("set_"): return fn[4:]
    if kind == "new": return "__new__"
    return fn


def kind_of(attrs):
    for k in ("getter", "setter", "new", "staticmethod", "classattr"):
        if re.search(r"#\[" + k + r"\b", attrs): return {"staticmethod": "static"}.get(k, k)
    return "method"


def defaults_of(attrs):
    m = re.search(r"signature\s*=\s*\(", attrs)
    if not m or "text_signature" in attrs[max(0, m.start() - 5):m.start() + 1]: return []
    e = match(attrs, m.end() - 1, "(", ")")
    out = []
    for a in split_args(attrs[m.end():e - 1]):
        if "=" in a:
            n, v = a.split("=", 1)
            out.append((n.strip(), norm(v)))
    return out


entries = []
for m in methods:
    if m["fn"].startswith("__"): continue            # __repr__ / __str__ / __hash__: Debug formatting, not part of the table
    kind = kind_of(m["attrs"])
    if kind == "classattr": continue
    params = param_names(m["params"])
    shape, layers = classify(m["body"], params)
    entries.append({"cls": cls_py[m["rs"]]["py"], "fn": m["fn"], "py": py_name(m["fn"], m["attrs"], kind), "kind": kind, "params": params,
                    "defaults": defaults_of(m["attrs"]), "shape": shape, "layers": layers, "body": m["body"], "file": m["file"]})
for f in funcs:
    params = param_names(f["params"])
    shape, layers = classify(f["body"], params)
    entries.append({"cls": "", "fn": f["fn"], "py": py_name(f["fn"], f["attrs"], "func"), "kind": "func", "params": params,
                    "defaults": defaults_of(f["attrs"]), "shape": shape, "layers": layers, "body": f["body"], "file": f["file"]})

# ---------------------------------------------------------------- emission
def enc(s):
    return "[" + ",".join(str(ord(c)) for c in s) + "]"


def lean_arg(a):
    return {"param": ".param ", "lit": ".lit ", "expr": ".expr "}[a[0]] + enc(a[1] if a[0] != "expr" else norm(a[1]))


def lean_shape(sh):
    if sh[0] == "field": return ".field [" + ",".join(enc(c) for c in sh[1]) + "]"
    if sh[0] == "setField": return ".setField [" + ",".join(enc(c) for c in sh[1]) + "] " + enc(sh[2])
    if sh[0] == "delegate": return ".delegate " + enc(sh[2]) + " [" + ",".join(lean_arg(a) for a in sh[3]) + "]"
    return ".other %d" % sh[1]


def lean_entry(e):
    return ("  -- %s.%s  (%s fn %s)  %s\n  { cls := %s, py := %s, kind := .%s, params := [%s], defaults := [%s],\n    shape := %s }" % (
        e["cls"] or "<module>", e["py"], e["file"], e["fn"], ("{ " + e["body"][:110] + (" …" if len(e["body"]) > 110 else "") + " }").replace("-/", "- /"),
        enc(e["cls"]), enc(e["py"]), e["kind"], ",".join(enc(p) for p in e["params"]),
        ",".join("(%s,%s)" % (enc(n), enc(v)) for n, v in e["defaults"]), lean_shape(e["shape"])))


out = ["/- GENERATED by translator/pytable.py from /repo/src on every run — do not edit. -/",
       "import SimVerif.Model.PyBind", "namespace SimVerif.Gen", "open SimVerif.PyBind", "",
       "/-- every method / function the `similari` Python module exposes (dunder methods excepted) -/",
       "def pyTable : List Entry := ["]
out.append(",\n".join(lean_entry(e) for e in entries))
out += ["]", "",
        "/-- registered classes: Python name -/",
        "def pyClasses : List Name := [" + ", ".join(enc(cls_py[c]["py"]) for c in sorted(cls_py)) + "]",
        "", "end SimVerif.Gen", ""]
put(os.path.join(gen_dir, "PyTable.lean"), "\n".join(out))

spec = json.load(open(spec_path))
sp = ["/- GENERATED by translator/pytable.py from /verif/spec/pyspec.json (hand-written specification) — edit the JSON. -/",
      "import SimVerif.Model.PyBind", "namespace SimVerif.Gen", "open SimVerif.PyBind", ""]
def rows(items):
    """items: (term, comment) -> lines with the separating comma BEFORE the comment"""
    return "\n".join("  %s%s   -- %s" % (t, "," if i + 1 < len(items) else "", c) for i, (t, c) in enumerate(items))
sp.append("/-- (class, python name, callee): reviewed cases where the wrapped method has another name -/")
sp.append("def specAliases : List (Name × Name × Name) := [")
sp.append(rows([("(%s, %s, %s)" % (enc(c), enc(p), enc(k)), "%s.%s -> %s" % (c, p, k)) for c, p, k in spec["aliases"]]))
sp.append("]\n")
sp.append("/-- (class, python name, extra argument): reviewed non-parameter arguments a delegating call may pass -/")
sp.append("def specExtraArgs : List (Name × Name × Name) := [")
sp.append(rows([("(%s, %s, %s)" % (enc(c), enc(p), enc(norm(k))), "%s.%s %s" % (c, p, k)) for c, p, k in spec["extra_args"]]))
sp.append("]\n")
sp.append("/-- (class, python name, hash of the normalised body): bodies outside the calculus, reviewed by hand -/")
sp.append("def specReviewed : List (Name × Name × Nat) := [")
sp.append(rows([("(%s, %s, %d)" % (enc(c), enc(p), h), "%s.%s: %s" % (c, p, why)) for c, p, h, why in spec["reviewed"]]))
sp.append("]\n")
sp.append("/-- (class, python name, parameter, default literal): the documented defaults -/")
sp.append("def specDefaults : List (Name × Name × Name × Name) := [")
sp.append(rows([("(%s, %s, %s, %s)" % (enc(c), enc(p), enc(a), enc(norm(v))), "%s.%s(%s = %s)" % (c, p, a, v)) for c, p, a, v in spec["defaults"]]))
sp.append("]\n")
sp.append("/-- (class, python name): everything the documented API exposes; each must have an entry in the table -/")
sp.append("def specExposed : List (Name × Name) := [")
sp.append(rows([("(%s, %s)" % (enc(c), enc(p)), "%s.%s" % (c, p)) for c, p in spec["exposed"]]))
sp.append("]\n")
sp.append("def pySpec : Spec := { aliases := specAliases, extraArgs := specExtraArgs, reviewed := specReviewed, defaults := specDefaults, exposed := specExposed }")
sp += ["", "end SimVerif.Gen", ""]
put(os.path.join(gen_dir, "PySpec.lean"), "\n".join(sp))

getters = {}
for e in entries:
    if e["kind"] == "getter":
        getters.setdefault(e["cls"], []).append(e["py"])
os.makedirs(os.path.dirname(json_out), exist_ok=True)
put(json_out, json.dumps({"getters": getters,
           "entries": [{k: e[k] for k in ("cls", "fn", "py", "kind", "params", "defaults", "shape", "layers", "body")} for e in entries]}, indent=1))
