import SimVerif.Props.Ren
/-!
# One `predict` call of the simple tracker under a renaming (helper lemmas for `C04_projection`)
-/
namespace SimVerif.Hist
open SimVerif.Tracker SimVerif.Ren SimVerif.C01 List

theorem awStep_nextId (cfg : Cfg) (st : St) : (awStep cfg st).nextId = st.nextId := by
  unfold awStep
  split <;> rfl

theorem sameButIds_refl (cfg : Cfg) : SameButIds cfg cfg := ⟨rfl, rfl, rfl, rfl, rfl, rfl⟩

/-- the id check of the simple trackers, as a proposition -/
theorem simple_fresh_iff (cfg : Cfg) (hb : cfg.batchIds = false) (st : St) (lo hi : Nat) (picks : List Pick) :
    freshIdsOk cfg st lo hi picks = true ↔
    Ren.freshIds picks = (List.range (Ren.freshIds picks).length).map (fun i => st.nextId + 1 + i) := by
  unfold freshIdsOk
  simp only [hb, Bool.false_eq_true, if_false, beq_iff_eq]
  exact Iff.rfl

/-- what a successful `predict` of the simple tracker knows: the invariants are kept, the fresh ids are
the next ids of the counter -/
theorem predict_facts (cfg : Cfg) (hb : cfg.batchIds = false) (st st' : St) (hinv : IdsBelow st)
    (hnd : (st.live.map (·.id)).Nodup) (scene : Nat) (dets : List Det) (table : List Entry) (picks : List Pick)
    (recs : List Rec) (h : predict cfg st scene dets table picks = some (st', recs)) :
    IdsBelow st' ∧ (st'.live.map (·.id)).Nodup ∧ st'.nextId = st.nextId + (Ren.freshIds picks).length ∧
    Ren.freshIds picks = (List.range (Ren.freshIds picks).length).map (fun i => st.nextId + 1 + i) := by
  unfold predict at h
  have hinv1 : IdsBelow (awStep cfg st) := (C01_reachable cfg st hinv).2.2.1
  have hnd1 := C06.awStep_nodup cfg st hnd
  obtain ⟨_, hgt, hinv'⟩ := C01_distinct_fresh cfg hb _ st' hinv1 scene dets table picks recs h
  obtain ⟨_, hf, _⟩ := predictScene_parts cfg _ st' scene dets table picks 0 0 recs h
  have hfr := (simple_fresh_iff cfg hb _ 0 0 picks).mp hf
  have hn1 : (setEpoch (awStep cfg st) scene (epochOf (awStep cfg st) scene + 1)).nextId = st.nextId :=
    awStep_nextId cfg st
  rw [hn1] at hfr
  obtain ⟨_, _, _, _, _, hnext, hids⟩ := C06.scene_fields cfg scene _ st' dets table picks 0 0 recs h
  rw [freshIds_eq] at hids
  have hgt' : ∀ id ∈ Ren.freshIds picks, (awStep cfg st).nextId < id := hgt
  refine ⟨hinv', ?_, ?_, hfr⟩
  · rw [hids, nodup_append]
    refine ⟨hnd1, ?_, ?_⟩
    · rw [hfr]
      refine Nodup.map_on ?_ nodup_range
      intro x _ y _ hxy; omega
    · intro x hx y hy hxy
      subst hxy
      obtain ⟨t, ht, rfl⟩ := mem_map.mp hx
      have h1 := hinv1.live t ht
      have h2 := hgt' _ hy
      omega
  · rw [hnext]
    simp only [hb, Bool.false_eq_true, if_false, freshCount_sum]
    rw [awStep_nextId]
    rfl

/-- **a call of a selected scene**, offered to B renamed: B answers with the renamed records, the relation
and the invariants are kept, B's counter advances by the number of fresh ids -/
theorem predict_sel (cfg : Cfg) (hb : cfg.batchIds = false) (ρ : Nat → Nat) (hρ : Function.Injective ρ)
    (sel : Nat → Bool) (a b : St) (h : Rel cfg cfg ρ sel a b) (ha : IdsBelow a) (hbI : IdsBelow b)
    (scene : Nat) (hs : sel scene = true) (dets : List Det) (table : List Entry) (picks : List Pick)
    (a' : St) (recs : List Rec) (hA : predict cfg a scene dets table picks = some (a', recs))
    (hmap : (Ren.freshIds picks).map ρ = (List.range (Ren.freshIds picks).length).map (fun i => b.nextId + 1 + i)) :
    ∃ b', predict cfg b scene dets (table.map (renEntry ρ)) (picks.map (renPick ρ)) = some (b', recs.map (renRec ρ)) ∧
      Rel cfg cfg ρ sel a' b' ∧ IdsBelow a' ∧ IdsBelow b' ∧ b'.nextId = b.nextId + (Ren.freshIds picks).length := by
  obtain ⟨hia', hnda', _, _⟩ := predict_facts cfg hb a a' ha h.nodupA scene dets table picks recs hA
  have hA' : predictScene cfg (awStep cfg a) scene dets table picks 0 0 = some (a', recs) := hA
  have h1 : Rel cfg cfg ρ sel (awStep cfg a) b := (rel_collect cfg cfg ρ sel a b h).2.2.1
  have h2 : Rel cfg cfg ρ sel (awStep cfg a) (awStep cfg b) := (rel_collect cfg cfg ρ sel _ b h1).2.2.2
  have hbI1 : IdsBelow (awStep cfg b) := (C01_reachable cfg b hbI).2.2.1
  have hfB : freshIdsOk cfg (setEpoch (awStep cfg b) scene (epochOf (awStep cfg b) scene + 1)) 0 0
      (picks.map (renPick ρ)) = true := by
    rw [simple_fresh_iff cfg hb, freshIds_ren, length_map]
    have hn1 : (setEpoch (awStep cfg b) scene (epochOf (awStep cfg b) scene + 1)).nextId = b.nextId :=
      awStep_nextId cfg b
    rw [hn1]
    exact hmap
  have hnew : ∀ id ∈ Ren.freshIds picks, ∀ t ∈ (awStep cfg b).live, t.id ≠ ρ id := by
    intro id hid t ht
    have hm : ρ id ∈ (Ren.freshIds picks).map ρ := mem_map_of_mem hid
    rw [hmap] at hm
    obtain ⟨i, _, hi⟩ := mem_map.mp hm
    have h3 := hbI1.live t ht
    rw [awStep_nextId] at h3
    omega
  obtain ⟨b', hB, hrel'⟩ := scene_job_rename cfg cfg (sameButIds_refl cfg) ρ sel _ _ h2 scene hs dets table picks
    0 0 0 0 a' recs hA' hnda' hfB (fun x _ y _ hxy => hρ hxy) hnew
  have hB' : predict cfg b scene dets (table.map (renEntry ρ)) (picks.map (renPick ρ)) = some (b', recs.map (renRec ρ)) := hB
  obtain ⟨hib', _, hnb', _⟩ := predict_facts cfg hb b b' hbI h.nodupB scene dets _ _ _ hB'
  refine ⟨b', hB', hrel', hia', hib', ?_⟩
  rw [hnb', freshIds_ren, length_map]

/-- **a call of another scene**: B does nothing -/
theorem predict_other (cfg : Cfg) (hb : cfg.batchIds = false) (ρ : Nat → Nat) (hρ : Function.Injective ρ)
    (sel : Nat → Bool) (a b : St) (h : Rel cfg cfg ρ sel a b) (ha : IdsBelow a)
    (scene : Nat) (hs : sel scene = false) (dets : List Det) (table : List Entry) (picks : List Pick)
    (a' : St) (recs : List Rec) (hA : predict cfg a scene dets table picks = some (a', recs)) :
    Rel cfg cfg ρ sel a' b ∧ IdsBelow a' := by
  obtain ⟨hia', hnda', _, _⟩ := predict_facts cfg hb a a' ha h.nodupA scene dets table picks recs hA
  have hA' : predictScene cfg (awStep cfg a) scene dets table picks 0 0 = some (a', recs) := hA
  have h1 : Rel cfg cfg ρ sel (awStep cfg a) b := (rel_collect cfg cfg ρ sel a b h).2.2.1
  exact ⟨other_scene_job cfg cfg ρ sel _ b h1 scene hs dets table picks 0 0 a' recs hA' hnda'
    (fun x _ y _ hxy => hρ hxy), hia'⟩

end SimVerif.Hist
