import SimVerif.Props.C03
import Mathlib.Data.List.Perm.Basic
import Mathlib.Data.List.Forall2
/-!
# Helper lemmas for C03 (GC timing unobservable): the simulation of `applyPicks` between two states
that agree on the tracks satisfying a predicate `q` (the unexpired ones) and hold the same tracks
overall (live ++ wasted, as multisets).
-/
namespace SimVerif.C03
open SimVerif.Tracker SimVerif.C01 List

/-! ### `expired`, `epochOf` read the state through `epochs` only -/

theorem epochOf_congr (a b : St) (h : a.epochs = b.epochs) (s : Nat) : epochOf a s = epochOf b s := by
  unfold epochOf; rw [h]

theorem expired_congr (cfg : Cfg) (a b : St) (h : a.epochs = b.epochs) : expired cfg a = expired cfg b := by
  funext t; unfold expired; rw [epochOf_congr a b h]

/-! ### generic list facts -/

theorem find_of_mem_nodup (l : List Trk) (hnd : (l.map (·.id)).Nodup) (t : Trk) (ht : t ∈ l) :
    l.find? (fun x => x.id == t.id) = some t := by
  induction l with
  | nil => cases ht
  | cons y l ih =>
    rw [map_cons, nodup_cons] at hnd
    rcases mem_cons.mp ht with rfl | ht
    · simp
    · have hne : (y.id == t.id) = false := by
        simp only [beq_eq_false_iff_ne, ne_eq]
        intro he
        exact hnd.1 (he ▸ mem_map_of_mem ht)
      rw [find?_cons, hne]
      exact ih hnd.2 ht

theorem find_map_replace (tid : Nat) (t' : Trk) (hid : t'.id = tid) (tid2 : Nat) (l : List Trk) :
    (l.map (fun x => if (x.id == tid) = true then t' else x)).find? (fun x => x.id == tid2) =
    (l.find? (fun x => x.id == tid2)).map (fun x => if (x.id == tid) = true then t' else x) := by
  induction l with
  | nil => rfl
  | cons y l ih =>
    rw [map_cons, find?_cons, find?_cons]
    have hyid : (if (y.id == tid) = true then t' else y).id = y.id := by
      split
      · rename_i h; simp only [beq_iff_eq] at h; rw [hid, h]
      · rfl
    rw [hyid]
    cases hy : (y.id == tid2) with
    | true => rfl
    | false => exact ih

theorem filter_map_same {α : Type} (q : α → Bool) (g : α → α) (l : List α) (h : ∀ x ∈ l, q (g x) = q x) :
    (l.map g).filter q = (l.filter q).map g := by
  induction l with
  | nil => rfl
  | cons y l ih =>
    have hy := h y mem_cons_self
    have ih' := ih (fun x hx => h x (mem_cons_of_mem _ hx))
    rw [map_cons, filter_cons, filter_cons, hy]
    split
    · rw [map_cons, ih']
    · exact ih'

theorem map_id_on {α : Type} (g : α → α) (l : List α) (h : ∀ x ∈ l, g x = x) : l.map g = l := by
  induction l with
  | nil => rfl
  | cons y l ih =>
    rw [map_cons, h y mem_cons_self, ih (fun x hx => h x (mem_cons_of_mem _ hx))]

theorem filter_of_imp {α : Type} (q q' : α → Bool) (l : List α) (h : ∀ x, q' x = true → q x = true) :
    l.filter q' = (l.filter q).filter q' := by
  rw [filter_filter]
  apply filter_congr
  intro x _
  cases hq' : q' x with
  | false => rfl
  | true => rw [h x hq']; rfl

/-- collecting only moves tracks from `live` to `wasted` -/
theorem collect_perm (cfg : Cfg) (s : St) :
    (collect cfg s).live ++ (collect cfg s).wasted ~ s.live ++ s.wasted := by
  have h := filter_split_perm (expired cfg s) s.live
  show s.live.filter (fun t => !expired cfg s t) ++ (s.wasted ++ s.live.filter (fun t => expired cfg s t)) ~
    s.live ++ s.wasted
  generalize s.live.filter (fun t => !expired cfg s t) = A at h ⊢
  generalize s.live.filter (fun t => expired cfg s t) = X at h ⊢
  calc A ++ (s.wasted ++ X) ~ A ++ (X ++ s.wasted) := Perm.append_left _ perm_append_comm
    _ = (A ++ X) ++ s.wasted := (append_assoc _ _ _).symm
    _ ~ s.live ++ s.wasted := Perm.append_right _ h

/-! ### the simulation invariant -/

/-- two states that agree on the `q`-tracks of `live` (in order), on the id counter and on the
multiset of all tracks held; ids unique and bounded by the counter -/
structure Inv (q : Trk → Bool) (a b : St) : Prop where
  nid : a.nextId = b.nextId
  live : a.live.filter q = b.live.filter q
  perm : a.live ++ a.wasted ~ b.live ++ b.wasted
  nd : ((a.live ++ a.wasted).map (·.id)).Nodup
  bd : ∀ t ∈ a.live ++ a.wasted, t.id ≤ a.nextId

theorem Inv.symm {q : Trk → Bool} {a b : St} (h : Inv q a b) : Inv q b a where
  nid := h.nid.symm
  live := h.live.symm
  perm := h.perm.symm
  nd := ((h.perm.map (·.id)).nodup_iff).mp h.nd
  bd := fun t ht => by rw [← h.nid]; exact h.bd t (h.perm.mem_iff.mpr ht)

theorem Inv.trans {q : Trk → Bool} {a b c : St} (h1 : Inv q a b) (h2 : Inv q b c) : Inv q a c where
  nid := h1.nid.trans h2.nid
  live := h1.live.trans h2.live
  perm := h1.perm.trans h2.perm
  nd := h1.nd
  bd := h1.bd

theorem Inv.mono {q q' : Trk → Bool} {a b : St} (h : Inv q a b) (hq : ∀ t, q' t = true → q t = true) :
    Inv q' a b where
  nid := h.nid
  live := by rw [filter_of_imp q q' a.live hq, filter_of_imp q q' b.live hq, h.live]
  perm := h.perm
  nd := h.nd
  bd := h.bd

theorem Inv.nd_live {q : Trk → Bool} {a b : St} (h : Inv q a b) : (a.live.map (·.id)).Nodup := by
  have := h.nd
  rw [map_append] at this
  exact this.of_append_left

/-- a live track is the only track (live or wasted) with its id -/
theorem Inv.uniq {q : Trk → Bool} {a b : St} (h : Inv q a b) (t : Trk) (ht : t ∈ a.live) (x : Trk)
    (hx : x ∈ a.live ++ a.wasted) (hid : x.id = t.id) : x = t :=
  inj_on_of_nodup_map h.nd hx (mem_append_left _ ht) hid

/-- a `q`-track found in the one state is found in the other -/
theorem Inv.find {q : Trk → Bool} {a b : St} (h : Inv q a b) (tid : Nat) (t : Trk)
    (hf : findLive a tid = some t) (hq : q t = true) : findLive b tid = some t := by
  have hm : t ∈ a.live.filter q := mem_filter.mpr ⟨findLive_mem _ _ _ hf, hq⟩
  rw [h.live] at hm
  have hid := findLive_id _ _ _ hf
  have := find_of_mem_nodup b.live h.symm.nd_live t (mem_filter.mp hm).1
  rw [hid] at this
  exact this

/-- continuing the `q`-track `t` (replaced by a `q`-track `t'` of the same id) in both states -/
theorem Inv.cont {q : Trk → Bool} {a b : St} (h : Inv q a b) (tid : Nat) (t t' : Trk)
    (hf : findLive a tid = some t) (hq : q t = true) (hq' : q t' = true) (hid' : t'.id = tid) :
    Inv q { a with live := a.live.map (fun x => if (x.id == tid) = true then t' else x) }
          { b with live := b.live.map (fun x => if (x.id == tid) = true then t' else x) } := by
  have key : ∀ (a b : St), Inv q a b → findLive a tid = some t →
      (a.live.map (fun x => if (x.id == tid) = true then t' else x)).filter q =
        (a.live.filter q).map (fun x => if (x.id == tid) = true then t' else x) ∧
      a.live.map (fun x => if (x.id == tid) = true then t' else x) ++ a.wasted =
        (a.live ++ a.wasted).map (fun x => if (x.id == tid) = true then t' else x) := by
    intro a b h hf
    have hid := findLive_id _ _ _ hf
    have hmem := findLive_mem _ _ _ hf
    constructor
    · apply filter_map_same
      intro x hx
      split
      · rename_i hxi
        simp only [beq_iff_eq] at hxi
        have : x = t := h.uniq t hmem x (mem_append_left _ hx) (hxi.trans hid.symm)
        rw [this, hq, hq']
      · rfl
    · rw [map_append]
      congr 1
      symm
      apply map_id_on
      intro x hx
      split
      · rename_i hxi
        simp only [beq_iff_eq] at hxi
        exfalso
        have hnd := h.nd
        rw [map_append] at hnd
        exact (nodup_append.mp hnd).2.2 _ (mem_map_of_mem hmem) _ (mem_map_of_mem hx) (hid.trans hxi.symm)
      · rfl
  have hfb := h.find tid t hf hq
  obtain ⟨ka1, ka2⟩ := key a b h hf
  obtain ⟨kb1, kb2⟩ := key b a h.symm hfb
  refine ⟨h.nid, ?_, ?_, ?_, ?_⟩
  · show (a.live.map _).filter q = (b.live.map _).filter q
    rw [ka1, kb1, h.live]
  · show a.live.map _ ++ a.wasted ~ b.live.map _ ++ b.wasted
    rw [ka2, kb2]
    exact h.perm.map _
  · show ((a.live.map _ ++ a.wasted).map (fun t : Trk => t.id)).Nodup
    rw [ka2, map_replace_ids tid t' hid']
    exact h.nd
  · intro x hx
    have hx' : x.id ∈ (a.live.map (fun x => if (x.id == tid) = true then t' else x) ++ a.wasted).map (·.id) :=
      mem_map_of_mem hx
    rw [ka2, map_replace_ids tid t' hid'] at hx'
    obtain ⟨y, hy, hyid⟩ := mem_map.mp hx'
    have := h.bd y hy
    show x.id ≤ a.nextId
    omega

/-- starting the track `x` with the next id in both states -/
theorem Inv.fresh {q : Trk → Bool} {a b : St} (h : Inv q a b) (x : Trk) (hx : x.id = a.nextId + 1) :
    Inv q { a with nextId := a.nextId + 1, live := a.live ++ [x] }
          { b with nextId := b.nextId + 1, live := b.live ++ [x] } := by
  have hp : ∀ s : St, (s.live ++ [x]) ++ s.wasted ~ x :: (s.live ++ s.wasted) := by
    intro s
    rw [append_assoc]
    exact perm_middle
  refine ⟨?_, ?_, ?_, ?_, ?_⟩
  · show a.nextId + 1 = b.nextId + 1
    rw [h.nid]
  · show (a.live ++ [x]).filter q = (b.live ++ [x]).filter q
    rw [filter_append, filter_append, h.live]
  · show (a.live ++ [x]) ++ a.wasted ~ (b.live ++ [x]) ++ b.wasted
    exact (hp a).trans ((h.perm.cons x).trans (hp b).symm)
  · show (((a.live ++ [x]) ++ a.wasted).map (·.id)).Nodup
    rw [((hp a).map (fun t : Trk => t.id)).nodup_iff, map_cons, nodup_cons]
    refine ⟨?_, h.nd⟩
    intro hm
    obtain ⟨y, hy, hyid⟩ := mem_map.mp hm
    have := h.bd y hy
    omega
  · intro y hy
    show y.id ≤ a.nextId + 1
    rcases mem_cons.mp ((hp a).mem_iff.mp hy) with rfl | hy
    · omega
    · have := h.bd y hy; omega

/-! ### `applyPick` of the simple trackers, explicitly -/

/-- the continued track after the update -/
def updTrk (cfg : Cfg) (e : Nat) (d : Det) (vis : Bool) (t : Trk) : Trk :=
  let g' := if cfg.visual then
      galleryUpdate cfg.maxObs t.gallery { quality := d.quality, feat := if d.collectOk then d.feat else 0, box := true }
    else t.gallery
  { t with lastUpd := e, len := t.len + 1, custom := d.custom,
           obsH := pushBounded t.obsH d.tok cfg.histLen, visual := vis,
           gallery := g', vcount := if cfg.visual then featCount g' else t.vcount,
           vt := if cfg.visual then some vis else t.vt,
           featH := if cfg.visual then pushBounded t.featH d.feat cfg.histLen else t.featH }

/-- the track started for a detection -/
def newTrk (cfg : Cfg) (scene e : Nat) (d : Det) (id : Nat) : Trk :=
  let g' : List GE := if cfg.visual then [{ quality := d.quality, feat := d.feat, box := true }] else []
  { id := id, scene := scene, lastUpd := e, len := 1, custom := d.custom, obsH := [d.tok], visual := false,
    gallery := g', vcount := featCount g', featH := if cfg.visual then [d.feat] else [] }

theorem applyPick_cont (cfg : Cfg) (hb : cfg.batchIds = false) (scene e : Nat) (st : St) (d : Det)
    (tid : Nat) (vis : Bool) (t : Trk) (hf : findLive st tid = some t) :
    applyPick cfg scene e st d (.cont tid vis) =
      some ({ st with live := st.live.map (fun x => if (x.id == tid) = true then updTrk cfg e d vis t else x) },
            { id := tid, epoch := e, scene := t.scene, len := t.len + 1, custom := d.custom, tok := d.tok, visual := vis }) := by
  unfold applyPick
  simp only [hb, Bool.false_eq_true, if_false, hf]
  rfl

theorem applyPick_cont_none (cfg : Cfg) (hb : cfg.batchIds = false) (scene e : Nat) (st : St) (d : Det)
    (tid : Nat) (vis : Bool) (hf : findLive st tid = none) :
    applyPick cfg scene e st d (.cont tid vis) = none := by
  unfold applyPick
  simp only [hb, Bool.false_eq_true, if_false, hf]

theorem applyPick_fresh (cfg : Cfg) (hb : cfg.batchIds = false) (scene e : Nat) (st : St) (d : Det) (id : Nat) :
    applyPick cfg scene e st d (.fresh id) =
      some ({ st with nextId := st.nextId + 1, live := st.live ++ [newTrk cfg scene e d id] },
            { id := id, epoch := e, scene := scene, len := 1, custom := d.custom, tok := d.tok, visual := false }) := by
  unfold applyPick
  simp only [hb, Bool.false_eq_true, if_false]
  rfl

theorem freshIds_cont (tid : Nat) (vis : Bool) (ps : List Pick) : freshIds (.cont tid vis :: ps) = freshIds ps := rfl
theorem freshIds_fresh (id : Nat) (ps : List Pick) : freshIds (.fresh id :: ps) = id :: freshIds ps := rfl

/-- **Simulation of `applyPicks`**: from related states, with every continued track a `q`-track of the
scene and the fresh ids issued consecutively, the same picks give the same records and related states. -/
theorem applyPicks_sim (cfg : Cfg) (hb : cfg.batchIds = false) (scene e : Nat) (q : Trk → Bool)
    (hq : ∀ t : Trk, t.scene = scene → t.lastUpd = e → q t = true)
    (dets : List Det) (picks : List Pick) (a b a' : St) (recs : List Rec) (h : Inv q a b)
    (hc : ∀ tid vis, Pick.cont tid vis ∈ picks → ∃ t, findLive a tid = some t ∧ t.scene = scene ∧ q t = true)
    (hfr : freshIds picks = (List.range (freshIds picks).length).map (fun i => a.nextId + 1 + i))
    (ha : applyPicks cfg scene e dets picks a = some (a', recs)) :
    ∃ b', applyPicks cfg scene e dets picks b = some (b', recs) ∧ Inv q a' b' := by
  induction dets generalizing picks a b recs with
  | nil =>
    cases picks with
    | nil =>
      simp only [applyPicks, Option.some.injEq, Prod.mk.injEq] at ha
      obtain ⟨h1, h2⟩ := ha
      subst h1; subst h2
      exact ⟨b, rfl, h⟩
    | cons p ps => simp [applyPicks] at ha
  | cons d ds ih =>
    cases picks with
    | nil => simp [applyPicks] at ha
    | cons p ps =>
      simp only [applyPicks] at ha
      cases h1 : applyPick cfg scene e a d p with
      | none => simp [h1] at ha
      | some x =>
        obtain ⟨a1, r⟩ := x
        simp only [h1] at ha
        cases h2 : applyPicks cfg scene e ds ps a1 with
        | none => simp [h2] at ha
        | some y =>
          obtain ⟨a2, rs⟩ := y
          simp only [h2, Option.some.injEq, Prod.mk.injEq] at ha
          obtain ⟨e1, e2⟩ := ha
          subst e1; subst e2
          cases p with
          | cont tid vis =>
            obtain ⟨t, hf, hs, hqt⟩ := hc tid vis mem_cons_self
            rw [applyPick_cont cfg hb scene e a d tid vis t hf] at h1
            simp only [Option.some.injEq, Prod.mk.injEq] at h1
            obtain ⟨e1, e2⟩ := h1
            have hfb := h.find tid t hf hqt
            have hqt' : q (updTrk cfg e d vis t) = true := hq _ hs rfl
            have hidt' : (updTrk cfg e d vis t).id = tid := (findLive_id _ _ _ hf : t.id = tid)
            have hinv := h.cont tid t (updTrk cfg e d vis t) hf hqt hqt' hidt'
            rw [e1] at hinv
            have hc' : ∀ tid2 vis2, Pick.cont tid2 vis2 ∈ ps →
                ∃ t2, findLive a1 tid2 = some t2 ∧ t2.scene = scene ∧ q t2 = true := by
              intro tid2 vis2 hp2
              obtain ⟨t2, hf2, hs2, hq2⟩ := hc tid2 vis2 (mem_cons_of_mem _ hp2)
              rw [← e1]
              unfold findLive at hf2 ⊢
              simp only
              rw [find_map_replace tid _ hidt' tid2 a.live, hf2]
              refine ⟨(if (t2.id == tid) = true then updTrk cfg e d vis t else t2), rfl, ?_, ?_⟩
              · split
                · exact hs
                · exact hs2
              · split
                · exact hqt'
                · exact hq2
            have hfr' : freshIds ps = (List.range (freshIds ps).length).map (fun i => a1.nextId + 1 + i) := by
              rw [← e1]; exact hfr
            obtain ⟨b2, hb2, hinv2⟩ := ih ps a1 _ rs hinv hc' hfr' h2
            refine ⟨b2, ?_, hinv2⟩
            simp only [applyPicks]
            rw [applyPick_cont cfg hb scene e b d tid vis t hfb]
            simp only [hb2, e2]
          | fresh id =>
            rw [applyPick_fresh cfg hb scene e a d id] at h1
            simp only [Option.some.injEq, Prod.mk.injEq] at h1
            obtain ⟨e1, e2⟩ := h1
            rw [freshIds_fresh, length_cons, range_succ_eq_map, map_cons, map_map, cons.injEq] at hfr
            obtain ⟨hid, hfr⟩ := hfr
            have hinv := h.fresh (newTrk cfg scene e d id) (by show id = _; omega)
            rw [e1] at hinv
            have hc' : ∀ tid2 vis2, Pick.cont tid2 vis2 ∈ ps →
                ∃ t2, findLive a1 tid2 = some t2 ∧ t2.scene = scene ∧ q t2 = true := by
              intro tid2 vis2 hp2
              obtain ⟨t2, hf2, hs2, hq2⟩ := hc tid2 vis2 (mem_cons_of_mem _ hp2)
              refine ⟨t2, ?_, hs2, hq2⟩
              rw [← e1]
              unfold findLive at hf2 ⊢
              simp only
              rw [find?_append, hf2]
              rfl
            have hfr' : freshIds ps = (List.range (freshIds ps).length).map (fun i => a1.nextId + 1 + i) := by
              rw [← e1]
              refine hfr.trans (map_congr_left ?_)
              intro i _
              simp only [Function.comp, Nat.succ_eq_add_one]
              omega
            obtain ⟨b2, hb2, hinv2⟩ := ih ps a1 _ rs hinv hc' hfr' h2
            refine ⟨b2, ?_, hinv2⟩
            simp only [applyPicks]
            rw [applyPick_fresh cfg hb scene e b d id]
            simp only [hb2, e2]

/-! ### validity of a choice, and the scene step -/

theorem entryOk_sim (cfg : Cfg) (q : Trk → Bool) (a b : St) (h : Inv q a b) (scene e : Nat)
    (hq : ∀ t : Trk, t.scene = scene → e - t.lastUpd ≤ cfg.maxIdle → q t = true) (x : Entry)
    (hx : entryOk cfg a scene e x = true) : entryOk cfg b scene e x = true := by
  unfold entryOk at hx ⊢
  cases hf : findLive a x.tid with
  | none => simp [hf] at hx
  | some t =>
    simp only [hf, Bool.and_eq_true, beq_iff_eq, decide_eq_true_eq] at hx
    rw [h.find x.tid t hf (hq t hx.1 hx.2)]
    simp [hx.1, hx.2]

theorem validChoice_sim (cfg : Cfg) (q : Trk → Bool) (a b : St) (h : Inv q a b) (scene e n : Nat)
    (hq : ∀ t : Trk, t.scene = scene → e - t.lastUpd ≤ cfg.maxIdle → q t = true)
    (table : List Entry) (picks : List Pick) :
    validChoice cfg a scene e n table picks = validChoice cfg b scene e n table picks := by
  have : entryOk cfg a scene e = entryOk cfg b scene e := by
    funext x
    apply Bool.eq_iff_iff.mpr
    exact ⟨entryOk_sim cfg q a b h scene e hq x, entryOk_sim cfg q b a h.symm scene e hq x⟩
  unfold validChoice
  rw [this]

theorem freshIdsOk_congr (cfg : Cfg) (hb : cfg.batchIds = false) (a b : St) (h : a.nextId = b.nextId)
    (lo hi : Nat) (picks : List Pick) : freshIdsOk cfg a lo hi picks = freshIdsOk cfg b lo hi picks := by
  unfold freshIdsOk
  simp only [hb, Bool.false_eq_true, if_false, h]

/-- **Simulation of the scene step**: from states with the same epochs that agree on the tracks
unexpired at the new epoch of the scene. -/
theorem predictScene_sim (cfg : Cfg) (hb : cfg.batchIds = false) (a b : St) (hep : a.epochs = b.epochs)
    (scene : Nat)
    (h : Inv (fun t => !expired cfg (setEpoch a scene (epochOf a scene + 1)) t) a b)
    (dets : List Det) (table : List Entry) (picks : List Pick) (a' : St) (recs : List Rec)
    (ha : predictScene cfg a scene dets table picks 0 0 = some (a', recs)) :
    ∃ b', predictScene cfg b scene dets table picks 0 0 = some (b', recs) ∧
      a'.epochs = (setEpoch a scene (epochOf a scene + 1)).epochs ∧ b'.epochs = a'.epochs ∧
      Inv (fun t => !expired cfg (setEpoch a scene (epochOf a scene + 1)) t) a' b' := by
  obtain ⟨hv, hf, hap⟩ := predictScene_parts cfg a a' scene dets table picks 0 0 recs ha
  have heb : epochOf b scene = epochOf a scene := (epochOf_congr a b hep scene).symm
  generalize hq : (fun t => !expired cfg (setEpoch a scene (epochOf a scene + 1)) t) = q at h ⊢
  have hinv : Inv q (setEpoch a scene (epochOf a scene + 1)) (setEpoch b scene (epochOf a scene + 1)) :=
    ⟨h.nid, h.live, h.perm, h.nd, h.bd⟩
  have hq1 : ∀ t : Trk, t.scene = scene → (epochOf a scene + 1) - t.lastUpd ≤ cfg.maxIdle → q t = true := by
    intro t hs hl
    rw [← hq]
    simp only [expired, epochOf_setEpoch, hs, if_true, Bool.not_eq_true', decide_eq_false_iff_not]
    omega
  have hq2 : ∀ t : Trk, t.scene = scene → t.lastUpd = epochOf a scene + 1 → q t = true :=
    fun t hs hl => hq1 t hs (by omega)
  obtain ⟨_, hc2⟩ := valid_conts cfg _ scene _ _ table picks hv
  have hc : ∀ tid vis, Pick.cont tid vis ∈ picks →
      ∃ t, findLive (setEpoch a scene (epochOf a scene + 1)) tid = some t ∧ t.scene = scene ∧ q t = true := by
    intro tid vis hp
    have hm : tid ∈ (picks.map contOf).filterMap id := by
      simp only [List.mem_filterMap, List.mem_map, id_eq, exists_eq_right]
      exact ⟨_, hp, rfl⟩
    obtain ⟨t, ht, hs, he⟩ := hc2 tid hm
    exact ⟨t, ht, hs, hq1 t hs he⟩
  have hfr : freshIds picks = (List.range (freshIds picks).length).map
      (fun i => (setEpoch a scene (epochOf a scene + 1)).nextId + 1 + i) := by
    unfold freshIdsOk at hf
    simp only [hb, Bool.false_eq_true, if_false, beq_iff_eq] at hf
    exact hf
  obtain ⟨b', hb', hinv'⟩ := applyPicks_sim cfg hb scene _ q hq2 dets picks _ _ a' recs hinv hc hfr hap
  have ea := (applyPicks_spec cfg scene _ dets picks _ a' recs hap).2.2.2.2.2.2.1
  have eb := (applyPicks_spec cfg scene _ dets picks _ b' recs hb').2.2.2.2.2.2.1
  refine ⟨b', ?_, ea, ?_, hinv'⟩
  · unfold predictScene
    simp only
    rw [heb, ← validChoice_sim cfg q _ _ hinv scene _ _ hq1 table picks,
      ← freshIdsOk_congr cfg hb _ _ hinv.nid 0 0 picks, hv, hf]
    exact hb'
  · rw [ea, eb]
    show b.epochs.filter _ ++ _ = a.epochs.filter _ ++ _
    rw [hep]

end SimVerif.C03
