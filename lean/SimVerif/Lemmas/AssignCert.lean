import SimVerif.Model.Assign
import SimVerif.Props.C05b
import SimVerif.Lemmas.AssignPerm
import Mathlib.Algebra.BigOperators.Group.List.Basic
import Mathlib.Tactic.Linarith
/-!
# The certified optimum is the optimum (weak duality)

`AssignX.certified s thr = some b → AssignX.best s thr = b`, hence `bestOf s thr = best s thr` for every
table: the potential-method solver `hungarian` is not trusted, only its checked certificate is used.
-/
namespace SimVerif.AssignCert
open SimVerif.AssignX SimVerif.Voting List

theorem isum_eq_sum (l : List Int) : isum l = l.sum := by
  induction l with
  | nil => rfl
  | cons a l ih => simp [isum, List.foldr_cons] at *; rw [← ih]

theorem nodupN_iff (l : List Nat) : nodupN l = true ↔ l.Nodup := by
  induction l with
  | nil => simp [nodupN]
  | cons a l ih => simp [nodupN, ih]

/-- a duplicate-free list inside `T` weighs at most `T` under a potential that is non-negative on `T` -/
theorem sum_le_of_nodup_subset (V : Nat → Int) (l T : List Nat) (hnd : l.Nodup) (hsub : ∀ x ∈ l, x ∈ T)
    (hV : ∀ t ∈ T, 0 ≤ V t) : (l.map V).sum ≤ (T.map V).sum := by
  induction l generalizing T with
  | nil =>
    simp only [map_nil, sum_nil]
    apply List.sum_nonneg
    intro x hx
    obtain ⟨t, ht, rfl⟩ := List.mem_map.mp hx
    exact hV t ht
  | cons x l ih =>
    have hx : x ∈ T := hsub x mem_cons_self
    have hp : T.Perm (x :: T.erase x) := perm_cons_erase hx
    have hsum : (T.map V).sum = V x + ((T.erase x).map V).sum := by
      rw [(hp.map V).sum_eq]; simp
    rw [hsum]
    simp only [map_cons, sum_cons]
    have hnd' := (nodup_cons.mp hnd)
    have := ih (T.erase x) hnd'.2
      (fun y hy => (mem_erase_of_ne (by rintro rfl; exact hnd'.1 hy)).mpr (hsub y (mem_cons_of_mem _ hy)))
      (fun t ht => hV t (mem_of_mem_erase ht))
    linarith

/-- weak duality, pointwise part: the objective of any aligned assignment into `T` is bounded by the row
potentials plus the potentials of the columns it uses -/
theorem objective_le_dual (s : List Entry) (thr : Int) (U V Vd : Nat → Int) (Q T : List Nat)
    (hW : ∀ q ∈ Q, ∀ t ∈ T, weightOf s q t ≤ U q + V t)
    (hT : ∀ q ∈ Q, thr ≤ U q + Vd q) (hVd : ∀ q ∈ Q, 0 ≤ Vd q)
    (qs : List Nat) (a : List (Option Nat)) (hqs : ∀ q ∈ qs, q ∈ Q) (hlen : a.length = qs.length)
    (hin : ∀ x ∈ a.filterMap id, x ∈ T) :
    objective s thr qs a ≤ (qs.map U).sum + (qs.map Vd).sum + ((a.filterMap id).map V).sum := by
  induction qs generalizing a with
  | nil =>
    cases a with
    | nil => simp [objective]
    | cons o rest => simp at hlen
  | cons q qs ih =>
    cases a with
    | nil => simp at hlen
    | cons o rest =>
      have hlen' : rest.length = qs.length := by simpa using hlen
      have hq : q ∈ Q := hqs q mem_cons_self
      have hqs' : ∀ q ∈ qs, q ∈ Q := fun x hx => hqs x (mem_cons_of_mem _ hx)
      cases o with
      | none =>
        have e : (none :: rest).filterMap id = rest.filterMap id := rfl
        have hin' : ∀ x ∈ rest.filterMap id, x ∈ T := by
          intro x hx; apply hin; rw [e]; exact hx
        have := ih rest hqs' hlen' hin'
        have h1 := hT q hq
        rw [e]
        simp only [objective, map_cons, sum_cons]
        linarith
      | some t =>
        have e : (some t :: rest).filterMap id = t :: rest.filterMap id := rfl
        have ht : t ∈ T := by apply hin; rw [e]; exact mem_cons_self
        have hin' : ∀ x ∈ rest.filterMap id, x ∈ T := by
          intro x hx; apply hin; rw [e]; exact mem_cons_of_mem _ hx
        have := ih rest hqs' hlen' hin'
        have h1 := hW q hq t ht
        have h2 := hVd q hq
        rw [e]
        simp only [objective, map_cons, sum_cons]
        linarith

/-- weak duality: every one-to-one partial assignment of the queries into the tracks stays below the dual bound -/
theorem dual_bound (s : List Entry) (thr : Int) (U V Vd : Nat → Int)
    (hW : ∀ q ∈ queries s, ∀ t ∈ tracks s, weightOf s q t ≤ U q + V t)
    (hT : ∀ q ∈ queries s, thr ≤ U q + Vd q) (hVd : ∀ q ∈ queries s, 0 ≤ Vd q) (hV : ∀ t ∈ tracks s, 0 ≤ V t)
    (a : List (Option Nat)) (hlen : a.length = (queries s).length)
    (hin : ∀ x ∈ a.filterMap id, x ∈ tracks s) (hnd : (a.filterMap id).Nodup) :
    objective s thr (queries s) a ≤
      ((queries s).map U).sum + ((queries s).map Vd).sum + ((tracks s).map V).sum := by
  have h1 := objective_le_dual s thr U V Vd (queries s) (tracks s) hW hT hVd (queries s) a (fun _ h => h) hlen hin
  have h2 := sum_le_of_nodup_subset V (a.filterMap id) (tracks s) hnd hin hV
  linarith

theorem certOK_spec (s : List Entry) (thr : Int) (U V Vd : Nat → Int) (a : List (Option Nat))
    (h : certOK s thr U V Vd a = true) :
    (∀ q ∈ queries s, ∀ t ∈ tracks s, weightOf s q t ≤ U q + V t) ∧
    (∀ q ∈ queries s, thr ≤ U q + Vd q) ∧ (∀ q ∈ queries s, 0 ≤ Vd q) ∧ (∀ t ∈ tracks s, 0 ≤ V t) ∧
    a.length = (queries s).length ∧ (∀ x ∈ a.filterMap id, x ∈ tracks s) ∧ (a.filterMap id).Nodup ∧
    objective s thr (queries s) a =
      ((queries s).map U).sum + ((queries s).map Vd).sum + ((tracks s).map V).sum := by
  unfold certOK at h
  simp only [Bool.and_eq_true, all_eq_true, decide_eq_true_eq, beq_iff_eq, nodupN_iff, isum_eq_sum,
    List.contains_iff_mem] at h
  obtain ⟨⟨⟨⟨⟨⟨hW, hT⟩, hV⟩, hlen⟩, hin⟩, hnd⟩, hobj⟩ := h
  exact ⟨hW, fun q hq => (hT q hq).1, fun q hq => (hT q hq).2, hV, hlen, hin, hnd, hobj⟩

/-- **a checked certificate pins the optimum**: dual feasibility bounds every assignment of the enumeration,
and the certified matching attains the bound -/
theorem certOK_best (s : List Entry) (thr : Int) (U V Vd : Nat → Int) (a : List (Option Nat))
    (h : certOK s thr U V Vd a = true) :
    best s thr = isum ((queries s).map U) + isum ((queries s).map Vd) + isum ((tracks s).map V) := by
  obtain ⟨hW, hT, hVd, hV, hlen, hin, hnd, hobj⟩ := certOK_spec s thr U V Vd a h
  simp only [isum_eq_sum]
  have hts : (tracks s).Nodup := firsts_nodup _
  apply le_antisymm
  · -- every candidate of the enumeration, and the all-unmatched start value, is below the bound
    have hall : ∀ a' ∈ allAssign (queries s) (tracks s), objective s thr (queries s) a' ≤
        ((queries s).map U).sum + ((queries s).map Vd).sum + ((tracks s).map V).sum := by
      intro a' ha'
      obtain ⟨hl, hi, hn⟩ := C05.allAssign_sound _ _ hts a' ha'
      exact dual_bound s thr U V Vd hW hT hVd hV a' hl hi hn
    have hinit : objective s thr (queries s) ((queries s).map (fun _ => none)) ≤
        ((queries s).map U).sum + ((queries s).map Vd).sum + ((tracks s).map V).sum := by
      apply dual_bound s thr U V Vd hW hT hVd hV
      · simp
      · intro x hx; simp at hx
      · simp
    unfold best
    rcases C05L.foldl_max_mem ((allAssign (queries s) (tracks s)).map (objective s thr (queries s)))
        (objective s thr (queries s) ((queries s).map (fun _ => none))) with h0 | h0
    · rw [h0]; exact hinit
    · obtain ⟨a', ha', he⟩ := List.mem_map.mp h0
      rw [← he]; exact hall a' ha'
  · rw [← hobj]
    exact C02.C02_best_max s thr a hlen hin hnd hts

theorem certified_eq_best (s : List Entry) (thr : Int) (b : Int) (h : certified s thr = some b) :
    best s thr = b := by
  unfold certified at h
  simp only at h
  split at h
  · rename_i hc
    rw [certOK_best s thr _ _ _ _ hc]
    exact Option.some.inj h
  · cases h

/-- **the optimum the model uses is the optimum over all one-to-one partial assignments**, for tables of
every size -/
theorem bestOf_eq_best (s : List Entry) (thr : Int) : bestOf s thr = best s thr := by
  unfold bestOf
  split
  · rfl
  · split
    · rename_i b hb; exact (certified_eq_best s thr b hb).symm
    · rfl

end SimVerif.AssignCert
