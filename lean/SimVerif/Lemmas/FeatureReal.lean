import SimVerif.Model.Feature
import Mathlib.Analysis.InnerProductSpace.PiL2
-- (add further single Mathlib modules as needed; do NOT `import Mathlib` wholesale)
namespace SimVerif.Feature
open Real

/-- cosine similarity on flat real vectors, exactly as src/distance.rs computes it:
`divided / sqrt(f1_divisor * f2_divisor)` -/
noncomputable def cosineR (a b : List ℝ) : ℝ := flatDot a b / Real.sqrt (flatDot a a * flatDot b b)

noncomputable def euclidR (a b : List ℝ) : ℝ := Real.sqrt (flatSq a b)

/-! ### structural lemmas on `flatDot` / `flatSq` -/

theorem flatDot_nil_left (b : List ℝ) : flatDot [] b = 0 := rfl
theorem flatDot_nil_right (a : List ℝ) : flatDot a [] = 0 := by cases a <;> rfl
theorem flatDot_cons (x y : ℝ) (a b : List ℝ) :
    flatDot (x :: a) (y :: b) = x * y + flatDot a b := rfl
theorem flatSq_nil_left (b : List ℝ) : flatSq [] b = 0 := rfl
theorem flatSq_nil_right (a : List ℝ) : flatSq a [] = 0 := by cases a <;> rfl
theorem flatSq_cons (x y : ℝ) (a b : List ℝ) :
    flatSq (x :: a) (y :: b) = (x - y) * (x - y) + flatSq a b := rfl

theorem flatDot_comm (a b : List ℝ) : flatDot a b = flatDot b a := by
  induction a generalizing b with
  | nil => rw [flatDot_nil_left, flatDot_nil_right]
  | cons x a ih =>
    cases b with
    | nil => rw [flatDot_nil_left, flatDot_nil_right]
    | cons y b => rw [flatDot_cons, flatDot_cons, ih b, mul_comm]

theorem flatSq_comm (a b : List ℝ) : flatSq a b = flatSq b a := by
  induction a generalizing b with
  | nil => rw [flatSq_nil_left, flatSq_nil_right]
  | cons x a ih =>
    cases b with
    | nil => rw [flatSq_nil_left, flatSq_nil_right]
    | cons y b => rw [flatSq_cons, flatSq_cons, ih b]; ring

theorem flatSq_self (a : List ℝ) : flatSq a a = 0 := by
  induction a with
  | nil => rfl
  | cons x a ih => rw [flatSq_cons, ih]; ring

theorem flatDot_self_nonneg (a : List ℝ) : 0 ≤ flatDot a a := by
  induction a with
  | nil => exact le_refl _
  | cons x a ih => rw [flatDot_cons]; exact add_nonneg (mul_self_nonneg x) ih

theorem flatDot_map_left (k : ℝ) (a b : List ℝ) :
    flatDot (a.map (k * ·)) b = k * flatDot a b := by
  induction a generalizing b with
  | nil => rw [List.map_nil, flatDot_nil_left, mul_zero]
  | cons x a ih =>
    cases b with
    | nil => rw [flatDot_nil_right, flatDot_nil_right, mul_zero]
    | cons y b => rw [List.map_cons, flatDot_cons, flatDot_cons, ih b]; ring

theorem flatDot_map_right (k : ℝ) (a b : List ℝ) :
    flatDot a (b.map (k * ·)) = k * flatDot a b := by
  rw [flatDot_comm, flatDot_map_left, flatDot_comm]

/-! ### `Finset.sum` representations (equal lengths) -/

theorem flatDot_eq_sum (a b : List ℝ) (h : a.length = b.length) :
    flatDot a b = ∑ i ∈ Finset.range a.length, a.getD i 0 * b.getD i 0 := by
  induction a generalizing b with
  | nil => simp [flatDot_nil_left]
  | cons x a ih =>
    cases b with
    | nil => simp at h
    | cons y b =>
      have h' : a.length = b.length := by simpa using h
      rw [flatDot_cons, ih b h', List.length_cons, Finset.sum_range_succ']
      simp [add_comm]

theorem flatSq_eq_sum (a b : List ℝ) (h : a.length = b.length) :
    flatSq a b = ∑ i ∈ Finset.range a.length, (a.getD i 0 - b.getD i 0) ^ 2 := by
  induction a generalizing b with
  | nil => simp [flatSq_nil_left]
  | cons x a ih =>
    cases b with
    | nil => simp at h
    | cons y b =>
      have h' : a.length = b.length := by simpa using h
      rw [flatSq_cons, ih b h', List.length_cons, Finset.sum_range_succ']
      simp [add_comm, sq]

/-- a list seen as a point of `EuclideanSpace ℝ (Fin n)` (padded with zeros / truncated) -/
noncomputable def toE (n : ℕ) (l : List ℝ) : EuclideanSpace ℝ (Fin n) :=
  WithLp.toLp 2 (fun i : Fin n => l.getD i 0)

theorem euclidR_eq_dist (a b : List ℝ) (h : a.length = b.length) :
    euclidR a b = dist (toE a.length a) (toE a.length b) := by
  rw [euclidR, flatSq_eq_sum a b h, EuclideanSpace.dist_eq,
    Finset.sum_range (fun i => (a.getD i 0 - b.getD i 0) ^ 2)]
  congr 1
  refine Finset.sum_congr rfl (fun i _ => ?_)
  simp [toE, Real.dist_eq, sq_abs]

/-! ### the theorems -/

theorem euclid_symm (a b : List ℝ) : euclidR a b = euclidR b a := by
  rw [euclidR, euclidR, flatSq_comm]

theorem euclid_self (a : List ℝ) : euclidR a a = 0 := by
  rw [euclidR, flatSq_self, Real.sqrt_zero]

theorem euclid_nonneg (a b : List ℝ) : 0 ≤ euclidR a b := Real.sqrt_nonneg _

theorem euclid_triangle (a b c : List ℝ) (hab : a.length = b.length) (hbc : b.length = c.length) :
    euclidR a c ≤ euclidR a b + euclidR b c := by
  rw [euclidR_eq_dist a c (hab.trans hbc), euclidR_eq_dist a b hab, euclidR_eq_dist b c hbc,
    ← hab]
  exact dist_triangle _ _ _

theorem cosine_symm (a b : List ℝ) : cosineR a b = cosineR b a := by
  rw [cosineR, cosineR, flatDot_comm a b, mul_comm]

theorem cosine_range (a b : List ℝ) (h : a.length = b.length) (ha : flatDot a a ≠ 0) (hb : flatDot b b ≠ 0) :
    -1 ≤ cosineR a b ∧ cosineR a b ≤ 1 := by
  have hpos : 0 < flatDot a a * flatDot b b :=
    mul_pos (lt_of_le_of_ne (flatDot_self_nonneg a) (Ne.symm ha))
      (lt_of_le_of_ne (flatDot_self_nonneg b) (Ne.symm hb))
  have hs : 0 < Real.sqrt (flatDot a a * flatDot b b) := Real.sqrt_pos.2 hpos
  have hcs : flatDot a b ^ 2 ≤ flatDot a a * flatDot b b := by
    rw [flatDot_eq_sum a b h, flatDot_eq_sum a a rfl, flatDot_eq_sum b b rfl, ← h]
    have := Finset.sum_mul_sq_le_sq_mul_sq (Finset.range a.length)
      (fun i => a.getD i 0) (fun i => b.getD i 0)
    simpa [sq] using this
  have habs : |flatDot a b| ≤ Real.sqrt (flatDot a a * flatDot b b) := Real.abs_le_sqrt hcs
  have hle := abs_le.1 habs
  unfold cosineR
  constructor
  · rw [le_div_iff₀ hs]; linarith [hle.1]
  · rw [div_le_iff₀ hs]; linarith [hle.2]

theorem cosine_parallel (a : List ℝ) (k : ℝ) (hk : 0 < k) (ha : flatDot a a ≠ 0) : cosineR a (a.map (k * ·)) = 1 := by
  have hD : 0 < flatDot a a := lt_of_le_of_ne (flatDot_self_nonneg a) (Ne.symm ha)
  have hkD : 0 < k * flatDot a a := mul_pos hk hD
  unfold cosineR
  rw [flatDot_map_right, flatDot_map_left, flatDot_map_right]
  have : flatDot a a * (k * (k * flatDot a a)) = (k * flatDot a a) * (k * flatDot a a) := by ring
  rw [this, Real.sqrt_mul_self hkD.le]
  exact div_self hkD.ne'

theorem cosine_opposite (a : List ℝ) (k : ℝ) (hk : k < 0) (ha : flatDot a a ≠ 0) : cosineR a (a.map (k * ·)) = -1 := by
  have hD : 0 < flatDot a a := lt_of_le_of_ne (flatDot_self_nonneg a) (Ne.symm ha)
  have hkD : 0 < -(k * flatDot a a) := by
    rw [← neg_mul]; exact mul_pos (neg_pos.2 hk) hD
  unfold cosineR
  rw [flatDot_map_right, flatDot_map_left, flatDot_map_right]
  have : flatDot a a * (k * (k * flatDot a a)) = (-(k * flatDot a a)) * (-(k * flatDot a a)) := by
    ring
  rw [this, Real.sqrt_mul_self hkD.le, div_neg, div_self (neg_ne_zero.1 hkD.ne')]

theorem cosine_scale (a b : List ℝ) (k : ℝ) (hk : 0 < k) : cosineR (a.map (k * ·)) b = cosineR a b := by
  unfold cosineR
  rw [flatDot_map_left, flatDot_map_left, flatDot_map_right]
  have : k * (k * flatDot a a) * flatDot b b = (k * k) * (flatDot a a * flatDot b b) := by ring
  rw [this, Real.sqrt_mul (mul_self_nonneg k), Real.sqrt_mul_self hk.le]
  exact mul_div_mul_left _ _ hk.ne'

end SimVerif.Feature
