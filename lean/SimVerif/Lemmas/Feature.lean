import SimVerif.Model.Feature
import Mathlib.Tactic.Set
namespace SimVerif.Feature
variable {α : Type} [Zero α] [Add α] [Sub α] [Mul α]

/-- what the loop state must look like after `n` elements -/
structure Consistent (st : PState α) (n : Nat) : Prop where
  len : st.acc.length = 8
  z0 : n = 0 → st.part = 0 ∧ st.acc = zeros
  zfull : n % 8 = 0 → 0 < n → st.part = 8
  zpart : n % 8 ≠ 0 → st.part = n % 8 - 1 ∧ st.acc.drop (n % 8) = List.replicate (8 - n % 8) 0

/-- elements of the block under construction -/
def cur (st : PState α) (n : Nat) : List α := if n % 8 = 0 then [] else st.acc.take (n % 8)

def padLen (m : Nat) : Nat := if m = 0 then 8 else (8 - m % 8) % 8

def finish (st : PState α) : List (List α) := if st.part < lanes then st.feature ++ [st.acc] else st.feature

theorem set_eq (l : List α) (k : Nat) (x : α) (h : k < l.length) :
    l.set k x = l.take k ++ x :: l.drop (k + 1) := by
  induction l generalizing k with
  | nil => simp at h
  | cons a l ih =>
    cases k with
    | zero => simp
    | succ k => simp [ih k (by simpa using h)]

theorem packLoop_spec (rest : List α) (n : Nat) (st : PState α) (hc : Consistent st n) :
    (finish (packLoop rest n st)).flatten =
      st.feature.flatten ++ cur st n ++ rest ++ List.replicate (padLen (n + rest.length)) 0 := by
  induction rest generalizing n st with
  | nil =>
    simp only [packLoop, finish, lanes, Gen.FEATURE_LANES_SIZE, List.length_nil, Nat.add_zero, List.append_nil, cur, padLen]
    by_cases h0 : n % 8 = 0
    · by_cases hn : n = 0
      · obtain ⟨hp, ha⟩ := hc.z0 hn
        simp [hp, ha, hn, zeros, lanes, Gen.FEATURE_LANES_SIZE, Gen.FEATURE_LANES_SIZE]
      · have hp := hc.zfull h0 (by omega)
        simp [hp, h0, hn]
    · obtain ⟨hp, hd⟩ := hc.zpart h0
      have hn : n ≠ 0 := by intro h; simp [h] at h0
      have hlt : st.part < 8 := by omega
      have hpad : (8 - n % 8) % 8 = 8 - n % 8 := by omega
      simp only [hlt, if_true, h0, if_false, hn, List.flatten_append, List.flatten_cons,
        List.flatten_nil, List.append_nil, hpad, List.append_assoc]
      congr 1
      rw [← hd, List.take_append_drop]
  | cons x rest ih =>
    simp only [packLoop]
    set part := n % 8 with hpart
    have hlt : part < 8 := Nat.mod_lt _ (by omega)
    -- the accumulator before writing
    set acc0 : List α := if part = 0 then zeros else st.acc with hacc0
    have hlen0 : acc0.length = 8 := by
      by_cases h : part = 0 <;> simp [hacc0, h, zeros, lanes, Gen.FEATURE_LANES_SIZE, hc.len]
    set acc1 := acc0.set part x with hacc1
    have hlen1 : acc1.length = 8 := by simp [hacc1, hlen0]
    have hset : acc1 = acc0.take part ++ x :: acc0.drop (part + 1) := set_eq acc0 part x (by omega)
    have hcur : cur st n = acc0.take part := by
      unfold cur
      by_cases h : part = 0
      · simp [← hpart, h]
      · simp [← hpart, h, hacc0]
    have hdrop0 : acc0.drop part = List.replicate (8 - part) 0 := by
      by_cases h : part = 0
      · simp [hacc0, h, zeros, lanes, Gen.FEATURE_LANES_SIZE, Gen.FEATURE_LANES_SIZE]
      · simp only [hacc0, h, if_false]
        exact (hc.zpart (by omega)).2
    have hdrop1 : acc0.drop (part + 1) = List.replicate (8 - part - 1) 0 := by
      have : acc0.drop (part + 1) = (acc0.drop part).drop 1 := by rw [List.drop_drop]
      rw [this, hdrop0]; simp
    by_cases h7 : part = 7
    · -- block completed
      have hstep : packStep st n x = { feature := st.feature ++ [acc1], acc := acc1, part := 8 } := by
        simp [packStep, lanes, Gen.FEATURE_LANES_SIZE, ← hpart, h7, hacc1, hacc0]
      rw [hstep]
      have hc' : Consistent ({ feature := st.feature ++ [acc1], acc := acc1, part := 8 } : PState α) (n + 1) :=
        { len := hlen1, z0 := by omega, zfull := fun _ _ => rfl, zpart := by omega }
      rw [ih (n + 1) _ hc', hcur]
      have h10 : (n + 1) % 8 = 0 := by omega
      have hd : acc0.drop (part + 1) = [] := by rw [hdrop1, h7]; rfl
      simp only [cur, h10, if_true, List.append_nil, List.flatten_append, List.flatten_cons,
        List.flatten_nil, hset, hd, List.length_cons]
      have : n + 1 + rest.length = n + (rest.length + 1) := by omega
      rw [this]
      simp [List.append_assoc]
    · have hstep : packStep st n x = { feature := st.feature, acc := acc1, part := part } := by
        simp [packStep, lanes, Gen.FEATURE_LANES_SIZE, ← hpart, h7, hacc1, hacc0]
      rw [hstep]
      have h1 : (n + 1) % 8 = part + 1 := by omega
      have hc' : Consistent ({ feature := st.feature, acc := acc1, part := part } : PState α) (n + 1) :=
        { len := hlen1, z0 := by omega, zfull := by omega,
          zpart := fun _ => by
            refine ⟨by simp [h1], ?_⟩
            rw [h1, hset, List.drop_append, hdrop1]
            have : (acc0.take part).length = part := by rw [List.length_take, hlen0]; omega
            have hd0 : List.drop (part + 1) (List.take part acc0) = [] :=
              List.drop_eq_nil_of_le (by omega)
            have h87 : 8 - part - 1 = 7 - part := by omega
            simp [this, hd0, h87] }
      rw [ih (n + 1) _ hc', hcur]
      have hne : ¬ ((n + 1) % 8 = 0) := by omega
      simp only [cur, hne, if_false, h1]
      have ht : acc1.take (part + 1) = acc0.take part ++ [x] := by
        have hl : (acc0.take part).length = part := by rw [List.length_take, hlen0]; omega
        rw [hset, List.take_append, hl, List.take_of_length_le (by omega)]
        simp
      rw [ht]
      have : n + 1 + rest.length = n + (rest.length + 1) := by omega
      simp [this, List.append_assoc]

end SimVerif.Feature
