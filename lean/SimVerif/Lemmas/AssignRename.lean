import SimVerif.Model.Assign
import SimVerif.Lemmas.Voting
import SimVerif.Lemmas.AssignCert
import Mathlib.Data.List.GetD
/-!
# The assignment optimum is invariant under an injective renaming of the track ids
-/
namespace SimVerif.RenA
open SimVerif.AssignX List

/-- rename the track of an assignment entry -/
def renE (ρ : Nat → Nat) (e : AssignX.Entry) : AssignX.Entry := { e with t := ρ e.t }

theorem renE_q (ρ : Nat → Nat) (e : AssignX.Entry) : (renE ρ e).q = e.q := rfl
theorem renE_t (ρ : Nat → Nat) (e : AssignX.Entry) : (renE ρ e).t = ρ e.t := rfl
theorem renE_w (ρ : Nat → Nat) (e : AssignX.Entry) : (renE ρ e).w = e.w := rfl

/-! ### generic list facts -/

theorem beq_inj_on (ρ : Nat → Nat) (x t : Nat) (h : ρ x = ρ t → x = t) : (ρ x == ρ t) = (x == t) := by
  by_cases hxt : x = t
  · subst hxt; simp
  · have h1 : (ρ x == ρ t) = false := by simpa using fun e => hxt (h e)
    have h2 : (x == t) = false := by simpa using hxt
    rw [h1, h2]

theorem bne_inj_on (ρ : Nat → Nat) (x t : Nat) (h : ρ x = ρ t → x = t) : (ρ x != ρ t) = (x != t) := by
  unfold bne; rw [beq_inj_on ρ x t h]

theorem find?_congr' {α : Type} (p q : α → Bool) (l : List α) (h : ∀ x ∈ l, p x = q x) :
    l.find? p = l.find? q := by
  induction l with
  | nil => rfl
  | cons a l ih =>
    rw [find?_cons, find?_cons, h a mem_cons_self, ih (fun x hx => h x (mem_cons_of_mem _ hx))]

theorem findIdx?_congr' {α : Type} (p q : α → Bool) (l : List α) (h : ∀ x ∈ l, p x = q x) :
    l.findIdx? p = l.findIdx? q := by
  induction l with
  | nil => rfl
  | cons a l ih =>
    rw [findIdx?_cons, findIdx?_cons, h a mem_cons_self, ih (fun x hx => h x (mem_cons_of_mem _ hx))]

/-- first-occurrence dedup commutes with a map that is injective on the list -/
theorem firsts_map (ρ : Nat → Nat) (l : List Nat) (h : ∀ x ∈ l, ∀ y ∈ l, ρ x = ρ y → x = y) :
    Voting.firsts (l.map ρ) = (Voting.firsts l).map ρ := by
  induction l with
  | nil => rfl
  | cons a l ih =>
    have ih' := ih (fun x hx y hy => h x (mem_cons_of_mem _ hx) y (mem_cons_of_mem _ hy))
    simp only [map_cons, Voting.firsts]
    rw [ih', filter_map]
    congr 2
    apply filter_congr
    intro b hb
    have hbl : b ∈ l := (Voting.mem_firsts l b).mp hb
    simp only [Function.comp]
    rw [beq_inj_on ρ b a (h b (mem_cons_of_mem _ hbl) a mem_cons_self)]

/-! ### queries, tracks, weights -/

theorem map_q_ren (ρ : Nat → Nat) (s : List AssignX.Entry) : (s.map (renE ρ)).map (·.q) = s.map (·.q) := by
  rw [map_map]; rfl

theorem map_t_ren (ρ : Nat → Nat) (s : List AssignX.Entry) : (s.map (renE ρ)).map (·.t) = (s.map (·.t)).map ρ := by
  rw [map_map, map_map]; rfl

theorem queries_ren (ρ : Nat → Nat) (s : List AssignX.Entry) : queries (s.map (renE ρ)) = queries s := by
  unfold queries; rw [map_q_ren]

theorem tracks_ren (ρ : Nat → Nat) (s : List AssignX.Entry)
    (h : ∀ x ∈ s, ∀ y ∈ s, ρ x.t = ρ y.t → x.t = y.t) : tracks (s.map (renE ρ)) = (tracks s).map ρ := by
  unfold tracks
  rw [map_t_ren]
  apply firsts_map
  intro x hx y hy
  obtain ⟨x0, hx0, rfl⟩ := mem_map.mp hx
  obtain ⟨y0, hy0, rfl⟩ := mem_map.mp hy
  exact h x0 hx0 y0 hy0

theorem mem_tracks (s : List AssignX.Entry) (t : Nat) : t ∈ tracks s ↔ ∃ e ∈ s, e.t = t := by
  unfold tracks
  rw [Voting.mem_firsts, mem_map]

theorem weightOf_ren (ρ : Nat → Nat) (s : List AssignX.Entry) (q t : Nat)
    (h : ∀ e ∈ s, ρ e.t = ρ t → e.t = t) : weightOf (s.map (renE ρ)) q (ρ t) = weightOf s q t := by
  unfold weightOf
  rw [← map_reverse, find?_map]
  have : s.reverse.find? ((fun e : AssignX.Entry => e.q == q && e.t == ρ t) ∘ renE ρ) =
      s.reverse.find? (fun e => e.q == q && e.t == t) := by
    apply find?_congr'
    intro e he
    have he' : e ∈ s := mem_reverse.mp he
    simp only [Function.comp, renE_q, renE_t]
    rw [beq_inj_on ρ e.t t (h e he')]
  rw [this]
  cases s.reverse.find? (fun e => e.q == q && e.t == t) with
  | none => rfl
  | some e => rfl

theorem objective_ren (ρ : Nat → Nat) (s : List AssignX.Entry) (thr : Int) (qs : List Nat) (a : List (Option Nat))
    (h : ∀ t, some t ∈ a → ∀ e ∈ s, ρ e.t = ρ t → e.t = t) :
    objective (s.map (renE ρ)) thr qs (a.map (Option.map ρ)) = objective s thr qs a := by
  induction qs generalizing a with
  | nil => cases a <;> simp [objective]
  | cons q qs ih =>
    cases a with
    | nil => simp [objective]
    | cons o a =>
      have ih' := ih a (fun t ht => h t (mem_cons_of_mem _ ht))
      cases o with
      | none => simp only [map_cons, Option.map_none, objective, ih']
      | some t =>
        simp only [map_cons, Option.map_some, objective, ih']
        rw [weightOf_ren ρ s q t (h t mem_cons_self)]

/-! ### the enumeration -/

theorem allAssign_mem (qs : List Nat) (ts : List Nat) (a : List (Option Nat)) (h : a ∈ allAssign qs ts) :
    ∀ t, some t ∈ a → t ∈ ts := by
  induction qs generalizing ts a with
  | nil =>
    simp only [allAssign, mem_singleton] at h
    subst h
    intro t ht; cases ht
  | cons q qs ih =>
    simp only [allAssign, mem_append, mem_map, mem_flatMap] at h
    rcases h with ⟨a0, ha0, rfl⟩ | ⟨t0, ht0, a0, ha0, rfl⟩
    · intro t ht
      rcases mem_cons.mp ht with h1 | h1
      · cases h1
      · exact ih ts a0 ha0 t h1
    · intro t ht
      rcases mem_cons.mp ht with h1 | h1
      · cases h1; exact ht0
      · exact (mem_filter.mp (ih _ a0 ha0 t h1)).1

theorem allAssign_map (ρ : Nat → Nat) (qs : List Nat) (ts : List Nat)
    (h : ∀ x ∈ ts, ∀ y ∈ ts, ρ x = ρ y → x = y) :
    allAssign qs (ts.map ρ) = (allAssign qs ts).map (List.map (Option.map ρ)) := by
  induction qs generalizing ts with
  | nil => rfl
  | cons q qs ih =>
    simp only [allAssign, map_append, map_map, flatMap_map, map_flatMap]
    rw [ih ts h]
    congr 1
    · rw [map_map]; rfl
    · apply flatMap_congr
      intro t ht
      have hf : (ts.map ρ).filter (fun x => x != ρ t) = (ts.filter (fun x => x != t)).map ρ := by
        rw [filter_map]
        congr 1
        apply filter_congr
        intro x hx
        simp only [Function.comp]
        exact bne_inj_on ρ x t (h x hx t ht)
      rw [hf, ih (ts.filter (fun x => x != t))
        (fun x hx y hy => h x (mem_filter.mp hx).1 y (mem_filter.mp hy).1)]
      rw [map_map]
      rfl

theorem best_ren (ρ : Nat → Nat) (s : List AssignX.Entry) (thr : Int)
    (h : ∀ x ∈ s, ∀ y ∈ s, ρ x.t = ρ y.t → x.t = y.t) : best (s.map (renE ρ)) thr = best s thr := by
  unfold best
  rw [queries_ren, tracks_ren ρ s h]
  have hts : ∀ x ∈ tracks s, ∀ y ∈ tracks s, ρ x = ρ y → x = y := by
    intro x hx y hy
    obtain ⟨x0, hx0, rfl⟩ := (mem_tracks s x).mp hx
    obtain ⟨y0, hy0, rfl⟩ := (mem_tracks s y).mp hy
    exact h x0 hx0 y0 hy0
  rw [allAssign_map ρ (queries s) (tracks s) hts, map_map]
  have h1 : (allAssign (queries s) (tracks s)).map
      (objective (s.map (renE ρ)) thr (queries s) ∘ List.map (Option.map ρ)) =
      (allAssign (queries s) (tracks s)).map (objective s thr (queries s)) := by
    apply map_congr_left
    intro a ha
    simp only [Function.comp]
    apply objective_ren
    intro t ht e he
    obtain ⟨y0, hy0, hy1⟩ := (mem_tracks s t).mp (allAssign_mem _ _ a ha t ht)
    rw [← hy1]
    exact h e he y0 hy0
  have h2 : objective (s.map (renE ρ)) thr (queries s) ((queries s).map (fun _ => none)) =
      objective s thr (queries s) ((queries s).map (fun _ => none)) := by
    have := objective_ren ρ s thr (queries s) ((queries s).map (fun _ => none))
      (fun t ht => by simp at ht)
    rw [map_map] at this
    exact this
  rw [h1, h2]

/-! ### the dynamic programme: it reads the tracks through their positions only -/

/-- the body of `bestDP`, with the queries, the number of tracks and the candidate lists
(position of the track, weight) of every query as parameters -/
def dpCore (qs : List Nat) (n : Nat) (candsOf : Nat → List (Nat × Int)) (thr : Int) : Int × Nat :=
  let size := 2 ^ n
  let init : Array (Option (Int × Nat)) := (Array.replicate size none).set! 0 (some (0, 1))
  let put (a : Array (Option (Int × Nat))) (m : Nat) (v : Int) (c : Nat) : Array (Option (Int × Nat)) :=
    match a.getD m none with
    | none => a.set! m (some (v, c))
    | some (v0, c0) => if v > v0 then a.set! m (some (v, c)) else if v == v0 then a.set! m (some (v0, c0 + c)) else a
  let final := qs.foldl (fun (cur : Array (Option (Int × Nat))) q =>
    let cands := candsOf q
    (List.range size).foldl (fun (nxt : Array (Option (Int × Nat))) m =>
      match cur.getD m none with
      | none => nxt
      | some (v, c) =>
        let nxt := put nxt m (v + thr) c
        cands.foldl (fun nxt (j, w) => if (m >>> j) % 2 == 1 then nxt else put nxt (m ||| (1 <<< j)) (v + w) c) nxt)
      (Array.replicate size none)) init
  final.foldl (fun (acc : Int × Nat) o => match o with
    | none => acc
    | some (v, c) => if acc.2 == 0 || v > acc.1 then (v, c) else if v == acc.1 then (acc.1, acc.2 + c) else acc) (0, 0)

/-- the candidate list of a query in `bestDP` -/
def candsOf (s : List AssignX.Entry) (q : Nat) : List (Nat × Int) :=
  (tracks (s.filter (fun e => e.q == q))).map (fun t => (((tracks s).findIdx? (· == t)).getD 0, weightOf s q t))

theorem bestDP_eq (s : List AssignX.Entry) (thr : Int) :
    bestDP s thr = dpCore (queries s) (tracks s).length (candsOf s) thr := rfl

theorem candsOf_ren (ρ : Nat → Nat) (s : List AssignX.Entry)
    (h : ∀ x ∈ s, ∀ y ∈ s, ρ x.t = ρ y.t → x.t = y.t) (q : Nat) :
    candsOf (s.map (renE ρ)) q = candsOf s q := by
  unfold candsOf
  have hf : (s.map (renE ρ)).filter (fun e => e.q == q) = (s.filter (fun e => e.q == q)).map (renE ρ) := by
    rw [filter_map]; rfl
  rw [hf, tracks_ren ρ (s.filter (fun e => e.q == q))
    (fun x hx y hy => h x (mem_filter.mp hx).1 y (mem_filter.mp hy).1), tracks_ren ρ s h, map_map]
  apply map_congr_left
  intro t ht
  obtain ⟨e0, he0, he1⟩ := (mem_tracks _ t).mp ht
  have he0s : e0 ∈ s := (mem_filter.mp he0).1
  simp only [Function.comp]
  have h1 : weightOf (s.map (renE ρ)) q (ρ t) = weightOf s q t := by
    apply weightOf_ren
    intro e he
    rw [← he1]
    exact h e he e0 he0s
  have h2 : ((tracks s).map ρ).findIdx? (fun x => x == ρ t) = (tracks s).findIdx? (fun x => x == t) := by
    rw [findIdx?_map]
    apply findIdx?_congr'
    intro x hx
    obtain ⟨x0, hx0, hx1⟩ := (mem_tracks s x).mp hx
    simp only [Function.comp]
    apply beq_inj_on
    intro e'
    rw [← hx1, ← he1]
    exact h x0 hx0 e0 he0s (by rw [hx1, he1]; exact e')
  rw [h1, h2]

/-- **the dynamic programme is invariant under the renaming** -/
theorem bestDP_rename (ρ : Nat → Nat) (s : List AssignX.Entry) (thr : Int)
    (h : ∀ x ∈ s, ∀ y ∈ s, ρ x.t = ρ y.t → x.t = y.t) : bestDP (s.map (renE ρ)) thr = bestDP s thr := by
  rw [bestDP_eq, bestDP_eq, queries_ren, tracks_ren ρ s h, length_map]
  have : candsOf (s.map (renE ρ)) = candsOf s := funext (candsOf_ren ρ s h)
  rw [this]

theorem small_ren (ρ : Nat → Nat) (s : List AssignX.Entry)
    (h : ∀ x ∈ s, ∀ y ∈ s, ρ x.t = ρ y.t → x.t = y.t) : small (s.map (renE ρ)) = small s := by
  unfold small
  rw [queries_ren, tracks_ren ρ s h, length_map]

/-- **the optimum used by `validChoice` is invariant under the renaming** -/
theorem bestOf_ren (ρ : Nat → Nat) (s : List AssignX.Entry) (thr : Int)
    (h : ∀ x ∈ s, ∀ y ∈ s, ρ x.t = ρ y.t → x.t = y.t) : bestOf (s.map (renE ρ)) thr = bestOf s thr := by
  rw [AssignCert.bestOf_eq_best, AssignCert.bestOf_eq_best, best_ren ρ s thr h]

end SimVerif.RenA
