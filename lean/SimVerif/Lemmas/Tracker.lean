import SimVerif.Model.Tracker
namespace SimVerif.Tracker

theorem nodupB_iff (l : List Nat) : nodupB l = true ↔ l.Nodup := by
  induction l with
  | nil => simp [nodupB]
  | cons a l ih => simp [nodupB, ih]

theorem epochOf_setEpoch (st : St) (s e s' : Nat) :
    epochOf (setEpoch st s e) s' = if s' = s then e else epochOf st s' := by
  unfold epochOf setEpoch
  simp only [List.find?_append]
  by_cases h : s' = s
  · subst h
    have : (st.epochs.filter (fun p => !(p.1 == s'))).find? (fun p => p.1 == s') = none := by
      rw [List.find?_eq_none]
      intro x hx
      have := (List.mem_filter.mp hx).2
      simpa using this
    simp [this]
  · have hs : (s == s') = false := by simp; exact fun e => h e.symm
    have : (st.epochs.filter (fun p => !(p.1 == s))).find? (fun p => p.1 == s') = st.epochs.find? (fun p => p.1 == s') := by
      induction st.epochs with
      | nil => rfl
      | cons p rest ih =>
        by_cases hp : p.1 = s
        · have hps : (p.1 == s') = false := by simp [hp]; exact fun e => h e.symm
          have hpf : (!(p.1 == s)) = false := by simp [hp]
          rw [List.filter_cons, if_neg (by simp [hpf]), List.find?_cons, hps]
          exact ih
        · have hp' : (!(p.1 == s)) = true := by simp [hp]
          rw [List.filter_cons, if_pos hp', List.find?_cons, List.find?_cons]
          split
          · rfl
          · exact ih
    rw [this, if_neg h]
    cases hf : st.epochs.find? (fun p => p.1 == s') with
    | some x => simp
    | none => simp [List.find?_cons, hs]

/-- the id a pick gives to its detection's record -/
def pickId : Pick → Nat
  | .cont tid _ => tid
  | .fresh id => id

theorem findLive_id (st : St) (tid : Nat) (t : Trk) (h : findLive st tid = some t) : t.id = tid := by
  unfold findLive at h
  have := List.find?_some h
  simpa using this

theorem findLive_mem (st : St) (tid : Nat) (t : Trk) (h : findLive st tid = some t) : t ∈ st.live :=
  List.mem_of_find?_eq_some h

theorem map_replace_ids (tid : Nat) (t' : Trk) (h : t'.id = tid) (l : List Trk) :
    (l.map (fun x => if (x.id == tid) = true then t' else x)).map (·.id) = l.map (·.id) := by
  induction l with
  | nil => rfl
  | cons x l ih =>
    simp only [List.map_cons, ih, List.cons.injEq, and_true]
    split
    · rename_i hx; simp only [beq_iff_eq] at hx; simp [h, hx]
    · rfl

/-- what one pick returns and how it changes the state -/
theorem applyPick_spec (cfg : Cfg) (scene e : Nat) (st st' : St) (d : Det) (p : Pick) (r : Rec)
    (h : applyPick cfg scene e st d p = some (st', r)) :
    r.id = pickId p ∧ r.tok = d.tok ∧ r.custom = d.custom ∧ r.epoch = e ∧
    st'.epochs = st.epochs ∧ st'.wasted = st.wasted ∧ st'.handed = st.handed ∧ st'.cleared = st.cleared ∧
    st.nextId ≤ st'.nextId ∧
    (∀ tid vis, p = .cont tid vis → ∃ t, findLive st tid = some t ∧ r.scene = t.scene ∧ r.len = t.len + 1 ∧
        st'.live.map (·.id) = st.live.map (·.id) ∧ r.visual = vis) ∧
    (∀ id, p = .fresh id → r.scene = scene ∧ r.len = 1 ∧ st'.live.map (·.id) = st.live.map (·.id) ++ [id] ∧
        st.nextId < st'.nextId) := by
  unfold applyPick at h
  cases p with
  | cont tid vis =>
    simp only at h
    cases hf : findLive (if cfg.batchIds = true then { st with nextId := st.nextId + 1 } else st) tid with
    | none => simp [hf] at h
    | some t =>
      have hf' : findLive st tid = some t := by
        split at hf <;> exact hf
      simp only [hf, Option.some.injEq, Prod.mk.injEq] at h
      obtain ⟨h1, h2⟩ := h
      subst h1; subst h2
      have hid := findLive_id st tid t hf'
      refine ⟨rfl, rfl, rfl, rfl, ?_, ?_, ?_, ?_, ?_, ?_, ?_⟩
      all_goals try (split <;> rfl)
      · split <;> simp
      · intro tid' vis' hp
        injection hp with h1 h2
        subst h1; subst h2
        refine ⟨t, hf', rfl, rfl, ?_, rfl⟩
        split <;> exact map_replace_ids _ _ (by simp [hid]) _
      · intro id hp; cases hp
  | fresh id =>
    simp only [Option.some.injEq, Prod.mk.injEq] at h
    obtain ⟨h1, h2⟩ := h
    subst h1; subst h2
    refine ⟨rfl, rfl, rfl, rfl, ?_, ?_, ?_, ?_, ?_, ?_, ?_⟩
    all_goals try (cases cfg.batchIds <;> rfl)
    · cases cfg.batchIds <;> simp
    · intro tid vis hp; cases hp
    · intro id' hp
      injection hp with hp
      subst hp
      refine ⟨rfl, rfl, ?_, ?_⟩
      · cases cfg.batchIds <;> simp
      · cases cfg.batchIds <;> simp

theorem applyPicks_spec (cfg : Cfg) (scene e : Nat) (dets : List Det) (picks : List Pick) (st st' : St)
    (recs : List Rec) (h : applyPicks cfg scene e dets picks st = some (st', recs)) :
    recs.length = dets.length ∧ picks.length = dets.length ∧
    recs.map (·.id) = picks.map pickId ∧
    recs.map (·.tok) = dets.map (·.tok) ∧ recs.map (·.custom) = dets.map (·.custom) ∧
    (∀ r ∈ recs, r.epoch = e) ∧
    st'.epochs = st.epochs ∧ st'.wasted = st.wasted ∧ st'.handed = st.handed ∧ st'.cleared = st.cleared ∧
    st.nextId ≤ st'.nextId ∧
    st'.live.map (·.id) = st.live.map (·.id) ++ picks.filterMap (fun p => match p with | .fresh id => some id | _ => none) := by
  induction dets generalizing picks st recs with
  | nil =>
    cases picks with
    | nil => simp only [applyPicks, Option.some.injEq, Prod.mk.injEq] at h; obtain ⟨h1, h2⟩ := h; subst h1; subst h2; simp
    | cons p ps => simp [applyPicks] at h
  | cons d ds ih =>
    cases picks with
    | nil => simp [applyPicks] at h
    | cons p ps =>
      simp only [applyPicks] at h
      cases h1 : applyPick cfg scene e st d p with
      | none => simp [h1] at h
      | some x =>
        obtain ⟨st1, r⟩ := x
        simp only [h1] at h
        cases h2 : applyPicks cfg scene e ds ps st1 with
        | none => simp [h2] at h
        | some y =>
          obtain ⟨st2, rs⟩ := y
          simp only [h2, Option.some.injEq, Prod.mk.injEq] at h
          obtain ⟨hst, hrecs⟩ := h
          subst hst; subst hrecs
          obtain ⟨a1, a2, a3, a4, a5, a6, a7, a8, a9, a10, a11⟩ := applyPick_spec cfg scene e st st1 d p r h1
          obtain ⟨b1, b2, b3, b4, b5, b6, b7, b8, b9, b10, b11, b12⟩ := ih ps st1 rs h2
          refine ⟨by simp [b1], by simp [b2], by simp [a1, b3], by simp [a2, b4], by simp [a3, b5], ?_,
            b7.trans a5, b8.trans a6, b9.trans a7, b10.trans a8, Nat.le_trans a9 b11, ?_⟩
          · intro r' hr'
            rcases List.mem_cons.mp hr' with rfl | hr'
            · exact a4
            · exact b6 r' hr'
          · rw [b12]
            cases p with
            | cont tid vis =>
              obtain ⟨t, _, _, _, hl, _⟩ := a10 tid vis rfl
              simp [hl]
            | fresh id =>
              obtain ⟨_, _, hl, _⟩ := a11 id rfl
              simp [hl]

end SimVerif.Tracker

namespace SimVerif.Tracker

def freshCount (p : Pick) : Nat := match p with | .fresh _ => 1 | .cont _ _ => 0

theorem applyPick_nextId (cfg : Cfg) (scene e : Nat) (st st' : St) (d : Det) (p : Pick) (r : Rec)
    (h : applyPick cfg scene e st d p = some (st', r)) :
    st'.nextId = st.nextId + (if cfg.batchIds then 1 else freshCount p) := by
  unfold applyPick at h
  cases p with
  | cont tid vis =>
    simp only at h
    split at h
    · cases h
    · simp only [Option.some.injEq, Prod.mk.injEq] at h
      rw [← h.1]
      cases cfg.batchIds <;> simp [freshCount]
  | fresh id =>
    simp only [Option.some.injEq, Prod.mk.injEq] at h
    rw [← h.1]
    cases cfg.batchIds <;> simp [freshCount]

theorem applyPicks_nextId (cfg : Cfg) (scene e : Nat) (dets : List Det) (picks : List Pick) (st st' : St)
    (recs : List Rec) (h : applyPicks cfg scene e dets picks st = some (st', recs)) :
    st'.nextId = st.nextId + (if cfg.batchIds then picks.length else (picks.map freshCount).sum) := by
  induction dets generalizing picks st st' recs with
  | nil =>
    cases picks with
    | nil => simp only [applyPicks, Option.some.injEq, Prod.mk.injEq] at h; rw [← h.1]; simp
    | cons p ps => simp [applyPicks] at h
  | cons d ds ih =>
    cases picks with
    | nil => simp [applyPicks] at h
    | cons p ps =>
      simp only [applyPicks] at h
      cases h1 : applyPick cfg scene e st d p with
      | none => simp [h1] at h
      | some x =>
        obtain ⟨st1, r⟩ := x
        simp only [h1] at h
        cases h2 : applyPicks cfg scene e ds ps st1 with
        | none => simp [h2] at h
        | some y =>
          obtain ⟨st2, rs⟩ := y
          simp only [h2, Option.some.injEq, Prod.mk.injEq] at h
          rw [← h.1, ih ps st1 st2 rs h2, applyPick_nextId cfg scene e st st1 d p r h1]
          cases cfg.batchIds <;> simp [List.sum_cons] <;> omega

theorem freshCount_sum (picks : List Pick) :
    (picks.map freshCount).sum = (picks.filterMap (fun p => match p with | .fresh id => some id | _ => none)).length := by
  induction picks with
  | nil => rfl
  | cons p ps ih => cases p <;> simp [freshCount, ih] <;> omega

end SimVerif.Tracker
