import SimVerif.Model.Voting
import Mathlib.Tactic.Linarith
import Mathlib.Data.List.Perm.Basic
import Mathlib.Data.List.Nodup

namespace SimVerif.Voting
open List

/-! ### `firsts` -/
theorem mem_firsts {α : Type} [BEq α] [LawfulBEq α] (l : List α) (a : α) : a ∈ firsts l ↔ a ∈ l := by
  induction l with
  | nil => simp [firsts]
  | cons b l ih =>
    simp only [firsts, mem_cons, mem_filter, ih, Bool.not_eq_true', beq_eq_false_iff_ne, ne_eq]
    constructor
    · rintro (h | ⟨h, _⟩)
      · exact Or.inl h
      · exact Or.inr h
    · intro h
      by_cases hab : a = b
      · exact Or.inl hab
      · rcases h with h | h
        · exact absurd h hab
        · exact Or.inr ⟨h, hab⟩

theorem firsts_nodup {α : Type} [BEq α] [LawfulBEq α] (l : List α) : (firsts l).Nodup := by
  induction l with
  | nil => simp [firsts]
  | cons b l ih =>
    simp only [firsts, nodup_cons, mem_filter, bne_self_eq_false, Bool.not_eq_true', beq_self_eq_true,
      Bool.true_eq_false, and_false, not_false_eq_true, true_and]
    exact ih.filter _

/-! ### permutation invariance of the ingredients -/
theorem maxStep_comm (z : Rat) (x y : Dist) :
    maxStep (maxStep z x) y = maxStep (maxStep z y) x := by
  unfold maxStep
  cases hx : x.d <;> cases hy : y.d <;> simp only []
  split_ifs <;> first | rfl | linarith

theorem maxSeen_perm {s₁ s₂ : List Dist} (h : s₁ ~ s₂) : maxSeen s₁ = maxSeen s₂ :=
  Perm.foldl_eq' h (fun x _ y _ z => maxStep_comm z x y) _

theorem kept_perm (maxD : Rat) {s₁ s₂ : List Dist} (h : s₁ ~ s₂) : kept maxD s₁ ~ kept maxD s₂ :=
  h.filterMap _

theorem rsum_perm {l₁ l₂ : List Rat} (h : l₁ ~ l₂) : rsum l₁ = rsum l₂ :=
  Perm.foldr_eq' h (fun x _ y _ z => by linarith) _

theorem groupOf_perm (k : Nat × Nat) {l₁ l₂ : List ((Nat × Nat) × Rat)} (h : l₁ ~ l₂) :
    groupOf k l₁ ~ groupOf k l₂ := (h.filter _).map _

/-! ### characterisation of the candidate list -/
def weightOf (maxD : Rat) (s : List Dist) (k : Nat × Nat) : Rat :=
  rsum ((groupOf k (kept maxD s)).map (fun d => maxSeen s - d))

def votes (maxD : Rat) (s : List Dist) (k : Nat × Nat) : Nat := (groupOf k (kept maxD s)).length

theorem mkCand_some (ks : List ((Nat × Nat) × Rat)) (m : Rat) (mv : Nat) (k : Nat × Nat) (e : Elt) :
    mkCand ks m mv k = some e ↔
      (e.q, e.w) = k ∧ mv ≤ (groupOf k ks).length ∧ e.weight = rsum ((groupOf k ks).map (fun d => m - d)) := by
  unfold mkCand
  split
  · rename_i hv
    constructor
    · intro h; injection h with h; subst h; exact ⟨rfl, hv, rfl⟩
    · rintro ⟨h1, _, h3⟩
      cases e; cases k
      simp only [Prod.mk.injEq] at h1
      obtain ⟨rfl, rfl⟩ := h1
      simp only at h3
      simp [h3]
  · rename_i hv
    constructor
    · intro h; cases h
    · rintro ⟨_, h2, _⟩; exact absurd h2 hv

theorem mem_cands (maxD : Rat) (mv : Nat) (s : List Dist) (e : Elt) :
    e ∈ cands maxD mv s ↔
      (e.q, e.w) ∈ (kept maxD s).map (·.1) ∧ mv ≤ votes maxD s (e.q, e.w) ∧
      e.weight = weightOf maxD s (e.q, e.w) := by
  unfold cands votes weightOf
  simp only [mem_filterMap, mem_firsts, mkCand_some]
  constructor
  · rintro ⟨k, hk, rfl, hv, hw⟩
    exact ⟨hk, hv, hw⟩
  · rintro ⟨hk, hv, hw⟩
    exact ⟨_, hk, rfl, hv, hw⟩

theorem cands_keys_nodup (maxD : Rat) (mv : Nat) (s : List Dist) :
    ((cands maxD mv s).map (fun e => (e.q, e.w))).Nodup := by
  unfold cands
  have hnd := firsts_nodup ((kept maxD s).map (·.1))
  generalize firsts ((kept maxD s).map (·.1)) = ks at hnd
  induction ks with
  | nil => simp
  | cons k ks ih =>
    obtain ⟨hk, hnd'⟩ := nodup_cons.mp hnd
    rw [filterMap_cons]
    split
    · exact ih hnd'
    · rename_i e he
      rw [mkCand_some] at he
      simp only [map_cons, nodup_cons]
      refine ⟨?_, ih hnd'⟩
      intro hmem
      obtain ⟨e', he', hk'⟩ := mem_map.mp hmem
      obtain ⟨k', hk'mem, hk'some⟩ := mem_filterMap.mp he'
      rw [mkCand_some] at hk'some
      rw [hk', he.1] at hk'some
      exact hk (hk'some.1 ▸ hk'mem)

theorem cands_nodup (maxD : Rat) (mv : Nat) (s : List Dist) : (cands maxD mv s).Nodup :=
  Nodup.of_map _ (cands_keys_nodup maxD mv s)

theorem weightOf_perm (maxD : Rat) {s₁ s₂ : List Dist} (h : s₁ ~ s₂) (k : Nat × Nat) :
    weightOf maxD s₁ k = weightOf maxD s₂ k := by
  unfold weightOf
  rw [maxSeen_perm h]
  exact rsum_perm ((groupOf_perm k (kept_perm maxD h)).map _)

theorem votes_perm (maxD : Rat) {s₁ s₂ : List Dist} (h : s₁ ~ s₂) (k : Nat × Nat) :
    votes maxD s₁ k = votes maxD s₂ k := (groupOf_perm k (kept_perm maxD h)).length_eq

/-- the candidate lists of two permutations of a stream are permutations of each other -/
theorem cands_perm (maxD : Rat) (mv : Nat) {s₁ s₂ : List Dist} (h : s₁ ~ s₂) :
    cands maxD mv s₁ ~ cands maxD mv s₂ := by
  apply (perm_ext_iff_of_nodup (cands_nodup _ _ _) (cands_nodup _ _ _)).mpr
  intro e
  rw [mem_cands, mem_cands, votes_perm maxD h, weightOf_perm maxD h]
  have : (e.q, e.w) ∈ (kept maxD s₁).map (·.1) ↔ (e.q, e.w) ∈ (kept maxD s₂).map (·.1) :=
    ((kept_perm maxD h).map _).mem_iff
  rw [this]

theorem wGE_trans (a b c : Elt) : wGE a b = true → wGE b c = true → wGE a c = true := by
  simp only [wGE, decide_eq_true_eq]; intro h1 h2; linarith
theorem wGE_total (a b : Elt) : (wGE a b || wGE b a) = true := by
  simp only [wGE, Bool.or_eq_true, decide_eq_true_eq]; exact le_total _ _

/-- sorting two permutations of a list whose weights are pairwise distinct gives the same list -/
theorem sort_perm_eq {l₁ l₂ : List Elt} (h : l₁ ~ l₂)
    (hd : ∀ a ∈ l₁, ∀ b ∈ l₁, a.weight = b.weight → a = b) :
    l₁.mergeSort wGE = l₂.mergeSort wGE := by
  have p1 := mergeSort_perm l₁ wGE
  have p2 := mergeSort_perm l₂ wGE
  have s1 := pairwise_mergeSort (le := wGE) wGE_trans wGE_total l₁
  have s2 := pairwise_mergeSort (le := wGE) wGE_trans wGE_total l₂
  refine Perm.eq_of_pairwise (le := fun a b => wGE a b = true) ?_ s1 s2 (p1.trans (h.trans p2.symm))
  intro a b ha hb hab hba
  simp only [wGE, decide_eq_true_eq] at hab hba
  exact hd a (p1.subset ha) b (h.symm.subset (p2.subset hb)) (le_antisymm hba hab)

end SimVerif.Voting

namespace SimVerif.Voting
open List

/-! ### BestFit greedy pass -/
theorem award_congr (l : List Elt) (t₁ t₂ : List Nat) (h : ∀ x, x ∈ t₁ ↔ x ∈ t₂) :
    award l t₁ = award l t₂ := by
  induction l generalizing t₁ t₂ with
  | nil => rfl
  | cons c rest ih =>
    unfold award
    have hc : t₁.contains c.w = t₂.contains c.w := by
      rw [Bool.eq_iff_iff]; simp [h c.w]
    rw [hc]
    split
    · rw [ih t₁ t₂ h]
    · rw [ih (c.w :: t₁) (c.w :: t₂) (fun x => by simp [h x])]

theorem award_append (l₁ l₂ : List Elt) (t : List Nat) :
    award (l₁ ++ l₂) t = award l₁ t ++ award l₂ (l₁.map (·.w) ++ t) := by
  induction l₁ generalizing t with
  | nil => simp [award]
  | cons c rest ih =>
    simp only [cons_append, award, map_cons]
    split
    · rename_i hc
      rw [ih t]
      congr 2
      apply award_congr
      intro x
      simp only [mem_append, mem_map, mem_cons]
      constructor
      · rintro (h | h)
        · exact Or.inr (Or.inl h)
        · exact Or.inr (Or.inr h)
      · rintro (rfl | h | h)
        · exact Or.inr (by simpa using hc)
        · exact Or.inl h
        · exact Or.inr h
    · rw [ih (c.w :: t)]
      congr 2
      apply award_congr
      intro x
      simp only [mem_append, mem_map, mem_cons]
      constructor
      · rintro (h | rfl | h)
        · exact Or.inr (Or.inl h)
        · exact Or.inl rfl
        · exact Or.inr (Or.inr h)
      · rintro (rfl | h | h)
        · exact Or.inr (Or.inl rfl)
        · exact Or.inl h
        · exact Or.inr (Or.inr h)

/-- tracks really awarded are pairwise distinct and were not taken before -/
theorem award_real_nodup (l : List Elt) (t : List Nat) :
    (((award l t).filter (·.2)).map (·.1.w)).Nodup ∧
    ∀ x ∈ ((award l t).filter (·.2)).map (·.1.w), x ∉ t := by
  induction l generalizing t with
  | nil => simp [award]
  | cons c rest ih =>
    unfold award
    split
    · rename_i hc
      simpa using ih t
    · rename_i hc
      obtain ⟨h1, h2⟩ := ih (c.w :: t)
      simp only [filter_cons, if_true, map_cons, nodup_cons]
      refine ⟨⟨?_, h1⟩, ?_⟩
      · intro hm
        exact h2 _ hm (by simp)
      · intro x hx
        rcases mem_cons.mp hx with rfl | hx
        · simpa using hc
        · exact fun hxt => h2 x hx (mem_cons_of_mem _ hxt)

theorem award_length (l : List Elt) (t : List Nat) : (award l t).length = l.length := by
  induction l generalizing t with
  | nil => rfl
  | cons c rest ih => unfold award; split <;> simp [ih]

end SimVerif.Voting
