import Mathlib.Algebra.Order.BigOperators.Group.Finset
import Mathlib.Data.Fintype.Sum
import Mathlib.Data.Fintype.BigOperators
import Mathlib.Tactic.Linarith
open Finset
namespace SimVerif.Assign
variable {c t : ℕ}

abbrev Col (c t : ℕ) := Fin c ⊕ Fin t

/-- the code's c × (c+t) matrix: own column worth `thr`, other own columns 0, track columns W -/
def M (thr : ℤ) (W : Fin c → Fin t → ℤ) (i : Fin c) : Col c t → ℤ
  | .inl j => if i = j then thr else 0
  | .inr k => W i k

def total (thr : ℤ) (W : Fin c → Fin t → ℤ) (σ : Fin c → Col c t) : ℤ := ∑ i, M thr W i (σ i)

structure IsOpt (thr : ℤ) (W : Fin c → Fin t → ℤ) (σ : Fin c → Col c t) : Prop where
  inj : Function.Injective σ
  max : ∀ τ : Fin c → Col c t, Function.Injective τ → total thr W τ ≤ total thr W σ

def good (thr : ℤ) (W : Fin c → Fin t → ℤ) (i : Fin c) : Col c t → Prop
  | .inl j => j = i
  | .inr k => thr ≤ W i k

instance (thr : ℤ) (W : Fin c → Fin t → ℤ) (i : Fin c) (x : Col c t) : Decidable (good thr W i x) := by
  cases x <;> unfold good <;> infer_instance

theorem decode_ok {thr : ℤ} {W : Fin c → Fin t → ℤ} {σ : Fin c → Col c t}
    (hthr : 0 < thr) (h : IsOpt thr W σ) (i : Fin c) : good thr W i (σ i) := by
  by_contra hbad
  let τ : Fin c → Col c t := fun r => if good thr W r (σ r) then σ r else .inl r
  have hτinj : Function.Injective τ := by
    intro a b hab
    simp only [τ] at hab
    by_cases ha : good thr W a (σ a) <;> by_cases hb : good thr W b (σ b) <;> simp only [ha, hb, if_true, if_false] at hab
    · exact h.inj hab
    · cases hσ : σ a with
      | inl j => rw [hσ] at hab ha; simp only [good] at ha; rw [Sum.inl.injEq] at hab; omega
      | inr k => rw [hσ] at hab; cases hab
    · cases hσ : σ b with
      | inl j => rw [hσ] at hab hb; simp only [good] at hb; rw [Sum.inl.injEq] at hab; omega
      | inr k => rw [hσ] at hab; cases hab
    · simpa using hab
  have hle : ∀ r ∈ (univ : Finset (Fin c)), M thr W r (σ r) ≤ M thr W r (τ r) := by
    intro r _
    simp only [τ]
    by_cases hr : good thr W r (σ r)
    · simp [hr]
    · simp only [hr, if_false]
      cases hσ : σ r with
      | inl j => rw [hσ] at hr; simp only [good] at hr
                 have : r ≠ j := fun e => hr e.symm
                 simp [M, this]; omega
      | inr k => rw [hσ] at hr; simp only [good, not_le] at hr; simp [M]; omega
  have hlt : M thr W i (σ i) < M thr W i (τ i) := by
    simp only [τ, hbad, if_false]
    cases hσ : σ i with
    | inl j => rw [hσ] at hbad; simp only [good] at hbad
               have : i ≠ j := fun e => hbad e.symm
               simp [M, this]; omega
    | inr k => rw [hσ] at hbad; simp only [good, not_le] at hbad; simp [M]; omega
  have : total thr W σ < total thr W τ := Finset.sum_lt_sum hle ⟨i, mem_univ _, hlt⟩
  have := h.max τ hτinj
  omega


/-- property-level assignment: each detection continues a track or stays unmatched -/
def obj (thr : ℤ) (W : Fin c → Fin t → ℤ) (m : Fin c → Option (Fin t)) : ℤ :=
  ∑ i, (match m i with | some k => W i k | none => thr)

def InjOnSome (m : Fin c → Option (Fin t)) : Prop := ∀ a b k, m a = some k → m b = some k → a = b

def embed (m : Fin c → Option (Fin t)) : Fin c → Col c t := fun i =>
  match m i with | some k => .inr k | none => .inl i

def decode (σ : Fin c → Col c t) : Fin c → Option (Fin t) := fun i =>
  match σ i with | .inr k => some k | .inl _ => none

theorem embed_inj {m : Fin c → Option (Fin t)} (h : InjOnSome m) : Function.Injective (embed m) := by
  intro a b hab
  simp only [embed] at hab
  cases ha : m a <;> cases hb : m b <;> simp only [ha, hb] at hab
  · simpa using hab
  · cases hab
  · cases hab
  · rw [Sum.inr.injEq] at hab; subst hab; exact h a b _ ha hb

theorem total_embed (thr : ℤ) (W : Fin c → Fin t → ℤ) (m : Fin c → Option (Fin t)) :
    total thr W (embed m) = obj thr W m := by
  unfold total obj
  refine Finset.sum_congr rfl (fun i _ => ?_)
  simp only [embed]
  cases m i <;> simp [M]

/-- C02: decoded optimum is gated, one-to-one, and maximal among ALL one-to-one partial assignments -/
theorem decode_optimal {thr : ℤ} {W : Fin c → Fin t → ℤ} {σ : Fin c → Col c t}
    (hthr : 0 < thr) (h : IsOpt thr W σ) :
    InjOnSome (decode σ) ∧ (∀ i k, decode σ i = some k → thr ≤ W i k) ∧
    (∀ m : Fin c → Option (Fin t), InjOnSome m → obj thr W m ≤ obj thr W (decode σ)) := by
  have hg := decode_ok hthr h
  refine ⟨?_, ?_, ?_⟩
  · intro a b k ha hb
    simp only [decode] at ha hb
    cases hσa : σ a with
    | inl j => rw [hσa] at ha; cases ha
    | inr k1 =>
      cases hσb : σ b with
      | inl j => rw [hσb] at hb; cases hb
      | inr k2 =>
        rw [hσa] at ha; rw [hσb] at hb
        simp only [Option.some.injEq] at ha hb
        subst ha; subst hb
        exact h.inj (hσa.trans hσb.symm)
  · intro i k hk
    have := hg i
    simp only [decode] at hk
    cases hσ : σ i with
    | inl j => rw [hσ] at hk; cases hk
    | inr k' => rw [hσ] at hk this; simp only [Option.some.injEq] at hk; subst hk; exact this
  · intro m hm
    have h1 := h.max (embed m) (embed_inj hm)
    rw [total_embed] at h1
    have h2 : total thr W σ = obj thr W (decode σ) := by
      unfold total obj
      refine Finset.sum_congr rfl (fun i _ => ?_)
      have := hg i
      simp only [decode]
      cases hσ : σ i with
      | inl j => rw [hσ] at this; simp only [good] at this; subst this; simp [M]
      | inr k => simp [M]
    omega

end SimVerif.Assign
