import SimVerif.Props.C02
import SimVerif.Lemmas.Voting
import Mathlib.Data.List.Perm.Basic
import Mathlib.Data.List.Nodup
import Mathlib.Algebra.BigOperators.Group.List.Basic
/-! Helper lemmas for C05 (Thm.lean). -/
namespace SimVerif.C05L
open SimVerif.AssignX List

/-! ### `weightOf` through membership -/
theorem weightOf_of_mem (s : List Entry) (hnd : (s.map (fun e => (e.q, e.t))).Nodup)
    (e : Entry) (he : e ∈ s) : weightOf s e.q e.t = e.w := by
  unfold weightOf
  cases hf : s.reverse.find? (fun e' => e'.q == e.q && e'.t == e.t) with
  | none =>
    rw [find?_eq_none] at hf
    have := hf e (mem_reverse.mpr he)
    simp at this
  | some e' =>
    have hp := find?_some hf
    have hm : e' ∈ s := mem_reverse.mp (mem_of_find?_eq_some hf)
    simp only [Bool.and_eq_true, beq_iff_eq] at hp
    have : e' = e := inj_on_of_nodup_map hnd hm he (by simp [hp.1, hp.2])
    simp [this]

theorem weightOf_of_not_mem (s : List Entry) (q t : Nat)
    (h : ∀ e ∈ s, ¬ (e.q = q ∧ e.t = t)) : weightOf s q t = 0 := by
  unfold weightOf
  have : s.reverse.find? (fun e => e.q == q && e.t == t) = none := by
    rw [find?_eq_none]
    intro e he
    simpa using h e (mem_reverse.mp he)
  rw [this]

/-! ### `foldl max` -/
theorem foldl_max_mem (l : List Int) (init : Int) : l.foldl max init = init ∨ l.foldl max init ∈ l := by
  induction l generalizing init with
  | nil => left; rfl
  | cons a l ih =>
    simp only [foldl_cons, mem_cons]
    rcases ih (max init a) with h | h
    · rw [h]
      rcases Int.le_total init a with hle | hle
      · right; left; exact Int.max_eq_right hle
      · left; exact Int.max_eq_left hle
    · right; right; exact h

/-! ### the objective as a sum over the zipped pairs -/
def term (s : List Entry) (thr : Int) (p : Nat × Option Nat) : Int :=
  match p.2 with
  | some t => weightOf s p.1 t
  | none => thr

theorem objective_eq_sum (s : List Entry) (thr : Int) (qs : List Nat) (a : List (Option Nat)) :
    objective s thr qs a = ((qs.zip a).map (term s thr)).sum := by
  induction qs generalizing a with
  | nil => simp [objective]
  | cons q qs ih =>
    cases a with
    | nil => simp [objective]
    | cons o a =>
      cases o with
      | none => simp [objective, term, ih]
      | some t => simp [objective, term, ih]

/-! ### look-up in an association list with distinct keys -/
theorem find_of_nodup {β : Type} (L : List (Nat × β)) (hnd : (L.map Prod.fst).Nodup)
    (p : Nat × β) (hp : p ∈ L) : L.find? (fun x => x.1 == p.1) = some p := by
  induction L with
  | nil => cases hp
  | cons x L ih =>
    simp only [map_cons, nodup_cons] at hnd
    rcases mem_cons.mp hp with rfl | hp'
    · simp
    · have hne : ¬ x.1 = p.1 := fun e => hnd.1 (e ▸ mem_map_of_mem hp')
      rw [find?_cons_of_neg (by simpa using hne)]
      exact ih hnd.2 hp'

/-- re-reading of an assignment `a₁` (aligned with `qs₁`) along `qs₂` -/
def reread (qs₁ : List Nat) (a₁ : List (Option Nat)) (q : Nat) : Option Nat :=
  ((qs₁.zip a₁).find? (fun p => p.1 == q)).bind (·.2)

theorem zip_eq_map_reread (qs₁ : List Nat) (a₁ : List (Option Nat)) (hnd : qs₁.Nodup)
    (hlen : a₁.length = qs₁.length) :
    qs₁.zip a₁ = qs₁.map (fun q => (q, reread qs₁ a₁ q)) := by
  have hfst : (qs₁.zip a₁).map Prod.fst = qs₁ := map_fst_zip (by omega)
  have h1 : (qs₁.zip a₁).map (fun p => (p.1, reread qs₁ a₁ p.1)) = qs₁.zip a₁ := by
    conv_rhs => rw [← map_id (qs₁.zip a₁)]
    apply map_congr_left
    intro p hp
    unfold reread
    rw [find_of_nodup _ (by rw [hfst]; exact hnd) p hp]
    rfl
  calc qs₁.zip a₁ = (qs₁.zip a₁).map (fun p => (p.1, reread qs₁ a₁ p.1)) := h1.symm
    _ = ((qs₁.zip a₁).map Prod.fst).map (fun q => (q, reread qs₁ a₁ q)) := by rw [map_map]; rfl
    _ = qs₁.map (fun q => (q, reread qs₁ a₁ q)) := by rw [hfst]

theorem zip_reread_perm (qs₁ qs₂ : List Nat) (a₁ : List (Option Nat)) (hnd : qs₁.Nodup)
    (hlen : a₁.length = qs₁.length) (hp : qs₁ ~ qs₂) :
    qs₂.zip (qs₂.map (reread qs₁ a₁)) ~ qs₁.zip a₁ := by
  rw [zip_eq_map_reread qs₁ a₁ hnd hlen]
  have : qs₂.zip (qs₂.map (reread qs₁ a₁)) = qs₂.map (fun q => (q, reread qs₁ a₁ q)) := by
    have := zip_map' (f := id) (g := reread qs₁ a₁) (l := qs₂)
    simpa using this
  rw [this]
  exact (hp.map _).symm

theorem filterMap_id_map_none {α : Type} (l : List α) :
    (l.map (fun _ => (none : Option Nat))).filterMap id = [] := by
  induction l with
  | nil => rfl
  | cons x l ih => simp

end SimVerif.C05L
