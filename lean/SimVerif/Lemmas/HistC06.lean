import SimVerif.Props.Ren
/-!
# Helper lemmas for `C06_refines_simple` (a batch tracker refines the simple tracker, whole histories)

Only statements about the model (`SimVerif.Tracker`) and the renaming relation (`SimVerif.Ren`);
the history-level definitions (`Job`, `runSimple`, `runBatch`) live in `P/Thm.lean`.
-/
namespace SimVerif.HistC06
open SimVerif.Tracker SimVerif.Ren List

/-! ### numbering of a list of ids by `ρ`: `ρ` sends the list to `k+1, k+2, …` -/

def Numbered (ρ : Nat → Nat) (k : Nat) (l : List Nat) : Prop := l.map ρ = List.range' (k + 1) l.length

theorem numbered_append (ρ : Nat → Nat) (k : Nat) (l₁ l₂ : List Nat) (h : Numbered ρ k (l₁ ++ l₂)) :
    Numbered ρ k l₁ ∧ Numbered ρ (k + l₁.length) l₂ := by
  unfold Numbered at h ⊢
  rw [map_append, length_append, ← range'_append_1] at h
  have := append_inj h (by simp)
  refine ⟨this.1, ?_⟩
  rw [this.2]
  congr 1
  omega

theorem numbered_gt (ρ : Nat → Nat) (k : Nat) (l : List Nat) (h : Numbered ρ k l) :
    ∀ id ∈ l, k < ρ id ∧ ρ id ≤ k + l.length := by
  intro id hid
  have : ρ id ∈ l.map ρ := mem_map_of_mem hid
  rw [h, mem_range'_1] at this
  omega

/-- the numbering `ρ` of a duplicate-free list `F`: position + 1 on `F`, beyond `F.length` elsewhere -/
def numbering (F : List Nat) (x : Nat) : Nat := if x ∈ F then F.idxOf x + 1 else F.length + 1 + x

theorem numbering_inj (F : List Nat) : ∀ x y, numbering F x = numbering F y → x = y := by
  intro x y h
  unfold numbering at h
  by_cases hx : x ∈ F <;> by_cases hy : y ∈ F
  · rw [if_pos hx, if_pos hy] at h
    exact (idxOf_inj hx).mp (by omega)
  · rw [if_pos hx, if_neg hy] at h
    have := idxOf_lt_length_of_mem hx
    omega
  · rw [if_neg hx, if_pos hy] at h
    have := idxOf_lt_length_of_mem hy
    omega
  · rw [if_neg hx, if_neg hy] at h
    omega

theorem numbering_numbered (F : List Nat) (hF : F.Nodup) : Numbered (numbering F) 0 F := by
  unfold Numbered
  apply ext_getElem
  · simp
  · intro i h1 h2
    rw [getElem_map, getElem_range']
    have hi : i < F.length := by simpa using h1
    unfold numbering
    rw [if_pos (getElem_mem hi), hF.idxOf_getElem i hi]
    omega

/-! ### small facts about `awStep` and the simple id check -/

theorem awStep_nextId (cfg : Cfg) (st : St) : (awStep cfg st).nextId = st.nextId := by
  unfold awStep
  split <;> rfl

theorem awStep_live_sub (cfg : Cfg) (st : St) : ∀ t ∈ (awStep cfg st).live, t ∈ st.live := by
  intro t ht
  unfold awStep at ht
  split at ht
  · exact (mem_filter.mp ht).1
  · exact ht

theorem simple_fresh_ok (cfg : Cfg) (hb : cfg.batchIds = false) (st : St) (ρ : Nat → Nat) (picks : List Pick)
    (lo hi : Nat) (h : Numbered ρ st.nextId (freshIds picks)) :
    freshIdsOk cfg st lo hi (picks.map (renPick ρ)) = true := by
  unfold freshIdsOk
  simp only [hb, Bool.false_eq_true, if_false, beq_iff_eq]
  show freshIds (picks.map (renPick ρ)) =
    (range (freshIds (picks.map (renPick ρ))).length).map (fun i => st.nextId + 1 + i)
  rw [freshIds_ren, h, length_range', range'_eq_map_range]

end SimVerif.HistC06
