import SimVerif.Model.OwnArea
import Mathlib.Tactic.Ring
import Mathlib.Tactic.Linarith
import Mathlib.Data.List.Perm.Basic
import Mathlib.Algebra.Order.Field.Rat
/-!
# Helper lemmas for C15 (grid model of the exclusively-owned area)
-/
namespace SimVerif.C15
open SimVerif.OwnArea List

/-! ### rsum -/

@[simp] theorem rsum_nil : rsum [] = 0 := rfl
@[simp] theorem rsum_cons (a : Rat) (l : List Rat) : rsum (a :: l) = a + rsum l := rfl

theorem rsum_append (l₁ l₂ : List Rat) : rsum (l₁ ++ l₂) = rsum l₁ + rsum l₂ := by
  induction l₁ with
  | nil => simp
  | cons a l ih => simp [ih, add_assoc]

theorem rsum_map_mul_left {α} (r : Rat) (f : α → Rat) (l : List α) :
    rsum (l.map (fun x => r * f x)) = r * rsum (l.map f) := by
  induction l with
  | nil => simp
  | cons a l ih => simp [ih, mul_add]

theorem rsum_map_mul_right {α} (r : Rat) (f : α → Rat) (l : List α) :
    rsum (l.map (fun x => f x * r)) = rsum (l.map f) * r := by
  induction l with
  | nil => simp
  | cons a l ih => simp [ih, add_mul]

theorem rsum_map_flatMap {α β} (F : α → List β) (h : β → Rat) (l : List α) :
    rsum ((l.flatMap F).map h) = rsum (l.map (fun a => rsum ((F a).map h))) := by
  induction l with
  | nil => simp
  | cons a l ih => simp [ih, rsum_append]

theorem rsum_map_le {α} (f g : α → Rat) (l : List α) (h : ∀ x ∈ l, f x ≤ g x) :
    rsum (l.map f) ≤ rsum (l.map g) := by
  induction l with
  | nil => simp
  | cons a l ih =>
    simp only [map_cons, rsum_cons]
    have h1 := h a (by simp)
    have h2 := ih (fun x hx => h x (by simp [hx]))
    linarith

theorem rsum_map_nonneg {α} (f : α → Rat) (l : List α) (h : ∀ x ∈ l, 0 ≤ f x) :
    0 ≤ rsum (l.map f) := by
  induction l with
  | nil => simp
  | cons a l ih =>
    simp only [map_cons, rsum_cons]
    have h1 := h a (by simp)
    have h2 := ih (fun x hx => h x (by simp [hx]))
    linarith

theorem rsum_map_congr {α} (f g : α → Rat) (l : List α) (h : ∀ x ∈ l, f x = g x) :
    rsum (l.map f) = rsum (l.map g) := by
  rw [List.map_congr_left h]

theorem rsum_map_zero {α} (f : α → Rat) (l : List α) (h : ∀ x ∈ l, f x = 0) :
    rsum (l.map f) = 0 := by
  induction l with
  | nil => simp
  | cons a l ih =>
    simp only [map_cons, rsum_cons]
    rw [h a (by simp), ih (fun x hx => h x (by simp [hx]))]; simp

/-! ### insertion sort -/

theorem ins_perm (a : Rat) (l : List Rat) : ins a l ~ a :: l := by
  induction l with
  | nil => simp [ins]
  | cons b l ih =>
    unfold ins
    split
    · exact Perm.refl _
    · exact (Perm.cons b ih).trans (Perm.swap a b l)

theorem isort_perm (l : List Rat) : isort l ~ l := by
  induction l with
  | nil => simp [isort]
  | cons a l ih => exact (ins_perm a (isort l)).trans (Perm.cons a ih)

theorem ins_sorted (a : Rat) (l : List Rat) (h : l.Pairwise (· ≤ ·)) :
    (ins a l).Pairwise (· ≤ ·) := by
  induction l with
  | nil => simp [ins]
  | cons b l ih =>
    unfold ins
    split
    · rename_i hab
      rw [pairwise_cons] at h ⊢
      refine ⟨?_, pairwise_cons.2 h⟩
      intro c hc
      rcases mem_cons.1 hc with rfl | hc
      · exact hab
      · exact le_trans hab (h.1 c hc)
    · rename_i hab
      have hba : b ≤ a := le_of_lt (not_le.1 hab)
      rw [pairwise_cons] at h ⊢
      refine ⟨?_, ih h.2⟩
      intro c hc
      rcases mem_cons.1 ((ins_perm a l).mem_iff.1 hc) with rfl | hc
      · exact hba
      · exact h.1 c hc

theorem isort_sorted (l : List Rat) : (isort l).Pairwise (· ≤ ·) := by
  induction l with
  | nil => simp [isort]
  | cons a l ih => exact ins_sorted a _ ih

theorem mem_isort {x : Rat} {l : List Rat} : x ∈ isort l ↔ x ∈ l := (isort_perm l).mem_iff

theorem isort_congr {l₁ l₂ : List Rat} (h : l₁ ~ l₂) : isort l₁ = isort l₂ := by
  apply Perm.eq_of_pairwise (le := (· ≤ ·)) _ (isort_sorted l₁) (isort_sorted l₂)
  · exact (isort_perm l₁).trans (h.trans (isort_perm l₂).symm)
  · intro a b _ _ h1 h2; exact le_antisymm h1 h2

/-! ### segs of a sorted list -/

theorem segs_mem {l : List Rat} {s : Rat × Rat} (hs : s ∈ segs l) : s.1 ∈ l ∧ s.2 ∈ l := by
  induction l with
  | nil => simp [segs] at hs
  | cons a l ih =>
    cases l with
    | nil => simp [segs] at hs
    | cons b l =>
      simp only [segs, mem_cons] at hs
      rcases hs with rfl | hs
      · simp
      · have := ih (by simpa using hs)
        exact ⟨mem_cons_of_mem _ this.1, mem_cons_of_mem _ this.2⟩

theorem segs_le {l : List Rat} (hl : l.Pairwise (· ≤ ·)) {s : Rat × Rat} (hs : s ∈ segs l) :
    s.1 ≤ s.2 := by
  induction l with
  | nil => simp [segs] at hs
  | cons a l ih =>
    cases l with
    | nil => simp [segs] at hs
    | cons b l =>
      simp only [segs, mem_cons] at hs
      rw [pairwise_cons] at hl
      rcases hs with rfl | hs
      · exact hl.1 b (by simp)
      · exact ih hl.2 hs

/-- consecutive cuts: no member of a sorted list lies strictly between the ends of a segment -/
theorem segs_consecutive {l : List Rat} (hl : l.Pairwise (· ≤ ·)) {s : Rat × Rat} (hs : s ∈ segs l)
    {w : Rat} (hw : w ∈ l) : w ≤ s.1 ∨ s.2 ≤ w := by
  induction l with
  | nil => simp [segs] at hs
  | cons a l ih =>
    cases l with
    | nil => simp [segs] at hs
    | cons b l =>
      simp only [segs, mem_cons] at hs
      rw [pairwise_cons] at hl
      rcases hs with rfl | hs
      · rcases mem_cons.1 hw with rfl | hw
        · left; exact le_refl _
        · right
          rcases mem_cons.1 hw with rfl | hw
          · exact le_refl _
          · exact (pairwise_cons.1 hl.2).1 w hw
      · rcases mem_cons.1 hw with rfl | hw
        · left; exact hl.1 _ (segs_mem hs).1
        · exact ih hl.2 hs hw

/-! ### 1-D telescoping -/

/-- last element of `a :: l` -/
def lst : Rat → List Rat → Rat
  | a, [] => a
  | _, b :: l => lst b l

theorem le_lst {a : Rat} {l : List Rat} (hl : (a :: l).Pairwise (· ≤ ·)) {x : Rat}
    (hx : x ∈ a :: l) : x ≤ lst a l := by
  induction l generalizing a x with
  | nil => simp at hx; simp [lst, hx]
  | cons b l ih =>
    rw [pairwise_cons] at hl
    simp only [lst]
    rcases mem_cons.1 hx with rfl | hx
    · exact le_trans (hl.1 b (by simp)) (ih hl.2 (by simp))
    · exact ih hl.2 hx

theorem telescope (g : Rat → Rat) (a : Rat) (l : List Rat) :
    rsum ((segs (a :: l)).map (fun s => g s.2 - g s.1)) = g (lst a l) - g a := by
  induction l generalizing a with
  | nil => simp [segs, lst]
  | cons b l ih =>
    simp only [segs, map_cons, rsum_cons, lst]
    rw [ih b]; ring

/-- the segments of a sorted list lying in `[a, b]` (both cuts) have total length `b - a` -/
theorem segs_sum {l : List Rat} (hl : l.Pairwise (· ≤ ·)) {a b : Rat} (ha : a ∈ l) (hb : b ∈ l)
    (hab : a ≤ b) :
    rsum ((segs l).map (fun s => if a ≤ s.1 ∧ s.2 ≤ b then s.2 - s.1 else 0)) = b - a := by
  cases l with
  | nil => simp at ha
  | cons h t =>
    obtain ⟨g, hg⟩ : ∃ g : Rat → Rat, g = fun t => max a (min t b) := ⟨_, rfl⟩
    have key : ∀ s ∈ segs (h :: t),
        (if a ≤ s.1 ∧ s.2 ≤ b then s.2 - s.1 else 0) = g s.2 - g s.1 := by
      intro s hs
      rw [hg]
      have h12 := segs_le hl hs
      have hca := segs_consecutive hl hs ha
      have hcb := segs_consecutive hl hs hb
      simp only
      split
      · rename_i hc
        rw [min_eq_left hc.2, min_eq_left (le_trans h12 hc.2), max_eq_right hc.1,
          max_eq_right (le_trans hc.1 h12)]
      · rename_i hc
        by_cases h1 : a ≤ s.1
        · have h2 : b < s.2 := by
            by_contra h2; exact hc ⟨h1, not_lt.1 h2⟩
          have h3 : b ≤ s.1 := by
            rcases hcb with h | h
            · exact h
            · exact absurd h (not_le.2 h2)
          rw [min_eq_right (le_of_lt h2), min_eq_right h3]; ring
        · have h1' : s.1 < a := not_le.1 h1
          have h3 : s.2 ≤ a := by
            rcases hca with h | h
            · exact absurd h (not_le.2 h1')
            · exact h
          rw [min_eq_left (le_trans h3 hab), min_eq_left (le_trans (le_of_lt h1') hab),
            max_eq_left h3, max_eq_left (le_of_lt h1')]; ring
    rw [rsum_map_congr _ _ _ key, telescope]
    have hh : h ≤ a := by
      rw [pairwise_cons] at hl
      rcases mem_cons.1 ha with rfl | ha
      · exact le_refl _
      · exact hl.1 a ha
    have hl' : b ≤ lst h t := le_lst hl hb
    rw [hg]
    simp only
    rw [min_eq_right hl', min_eq_left (le_trans hh hab), max_eq_right hab, max_eq_left hh]

/-! ### the grid -/

theorem inside_iff (c : Cell) (b : ABox) :
    inside c b = true ↔ b.x0 ≤ c.xa ∧ c.xb ≤ b.x1 ∧ b.y0 ≤ c.ya ∧ c.yb ≤ b.y1 := by
  simp [inside, and_assoc]

theorem mem_cells {all : List ABox} {c : Cell} :
    c ∈ cells all ↔ ∃ sx ∈ segs (xcuts all), ∃ sy ∈ segs (ycuts all),
      c = ⟨sx.1, sx.2, sy.1, sy.2⟩ := by
  simp only [cells, mem_flatMap, mem_map]
  constructor
  · rintro ⟨sx, hsx, sy, hsy, rfl⟩; exact ⟨sx, hsx, sy, hsy, rfl⟩
  · rintro ⟨sx, hsx, sy, hsy, rfl⟩; exact ⟨sx, hsx, sy, hsy, rfl⟩

theorem xcuts_sorted (all : List ABox) : (xcuts all).Pairwise (· ≤ ·) := isort_sorted _
theorem ycuts_sorted (all : List ABox) : (ycuts all).Pairwise (· ≤ ·) := isort_sorted _

theorem mem_xcuts {all : List ABox} {a : ABox} (ha : a ∈ all) :
    a.x0 ∈ xcuts all ∧ a.x1 ∈ xcuts all := by
  simp only [xcuts, mem_isort, mem_flatMap]
  exact ⟨⟨a, ha, by simp⟩, ⟨a, ha, by simp⟩⟩

theorem mem_ycuts {all : List ABox} {a : ABox} (ha : a ∈ all) :
    a.y0 ∈ ycuts all ∧ a.y1 ∈ ycuts all := by
  simp only [ycuts, mem_isort, mem_flatMap]
  exact ⟨⟨a, ha, by simp⟩, ⟨a, ha, by simp⟩⟩

theorem cell_le {all : List ABox} {c : Cell} (hc : c ∈ cells all) : c.xa ≤ c.xb ∧ c.ya ≤ c.yb := by
  obtain ⟨sx, hsx, sy, hsy, rfl⟩ := mem_cells.1 hc
  exact ⟨segs_le (xcuts_sorted all) hsx, segs_le (ycuts_sorted all) hsy⟩

theorem cell_area_nonneg' {all : List ABox} {c : Cell} (hc : c ∈ cells all) : 0 ≤ c.area := by
  have h := cell_le hc
  unfold Cell.area
  exact mul_nonneg (by linarith [h.1]) (by linarith [h.2])

theorem summand_factor (b : ABox) (xa xb ya yb : Rat) :
    (if inside ⟨xa, xb, ya, yb⟩ b then (Cell.mk xa xb ya yb).area else 0)
      = (if b.x0 ≤ xa ∧ xb ≤ b.x1 then xb - xa else 0)
        * (if b.y0 ≤ ya ∧ yb ≤ b.y1 then yb - ya else 0) := by
  by_cases hx : b.x0 ≤ xa ∧ xb ≤ b.x1 <;> by_cases hy : b.y0 ≤ ya ∧ yb ≤ b.y1
  · have : inside ⟨xa, xb, ya, yb⟩ b = true := (inside_iff _ _).2 ⟨hx.1, hx.2, hy.1, hy.2⟩
    rw [if_pos this, if_pos hx, if_pos hy]; rfl
  · have : ¬ inside ⟨xa, xb, ya, yb⟩ b = true := fun h =>
      hy ⟨((inside_iff _ _).1 h).2.2.1, ((inside_iff _ _).1 h).2.2.2⟩
    rw [if_neg this, if_neg hy]; simp
  · have : ¬ inside ⟨xa, xb, ya, yb⟩ b = true := fun h =>
      hx ⟨((inside_iff _ _).1 h).1, ((inside_iff _ _).1 h).2.1⟩
    rw [if_neg this, if_neg hx]; simp
  · have : ¬ inside ⟨xa, xb, ya, yb⟩ b = true := fun h =>
      hx ⟨((inside_iff _ _).1 h).1, ((inside_iff _ _).1 h).2.1⟩
    rw [if_neg this, if_neg hx]; simp

theorem cells_congr {l₁ l₂ : List ABox} (h : l₁ ~ l₂) : cells l₁ = cells l₂ := by
  have hx : xcuts l₁ = xcuts l₂ := isort_congr (h.flatMap_right _)
  have hy : ycuts l₁ = ycuts l₂ := isort_congr (h.flatMap_right _)
  unfold cells; rw [hx, hy]

theorem EPS_pos : 0 < Gen.EPS := by
  unfold Gen.EPS; norm_num

/-! ### index-free form of `shares` -/

/-- one result per element, every element against all the others -/
def eachVsRest (f : ABox → List ABox → Rat) : List ABox → List Rat
  | [] => []
  | a :: l => f a l :: eachVsRest (fun b o => f b (a :: o)) l

theorem idx_eq_eachVsRest (f : ABox → List ABox → Rat) (l : List ABox) :
    (List.range l.length).map (fun i => match l[i]? with
      | some b => f b (l.eraseIdx i)
      | none => 0) = eachVsRest f l := by
  induction l generalizing f with
  | nil => simp [eachVsRest]
  | cons a l ih =>
    rw [length_cons, range_succ_eq_map, map_cons, map_map, eachVsRest, ← ih]
    congr 1

theorem eachVsRest_perm {l₁ l₂ : List ABox} (h : l₁ ~ l₂) :
    ∀ f : ABox → List ABox → Rat, (∀ b o₁ o₂, o₁ ~ o₂ → f b o₁ = f b o₂) →
      eachVsRest f l₁ ~ eachVsRest f l₂ := by
  induction h with
  | nil => intro f _; exact Perm.refl _
  | cons a h ih =>
    intro f hf
    simp only [eachVsRest]
    rw [hf a _ _ h]
    exact Perm.cons _ (ih _ (fun b o₁ o₂ ho => hf b _ _ (Perm.cons a ho)))
  | swap a b l =>
    intro f hf
    simp only [eachVsRest]
    have : (fun c o => f c (b :: a :: o)) = (fun c o => f c (a :: b :: o)) := by
      funext c o; exact hf c _ _ (Perm.swap a b o)
    rw [this]
    exact Perm.swap _ _ _
  | trans _ _ ih₁ ih₂ =>
    intro f hf
    exact (ih₁ f hf).trans (ih₂ f hf)

end SimVerif.C15
