import SimVerif.Props.C13
import SimVerif.Props.C03
import SimVerif.Lemmas.TrackerBatch
/-!
# Helper lemmas for `P/Thm.lean` (C13 over every reachable state)

* `pushBounded` keeps a history within its bound and never empties it;
* `galleryUpdate`: non-empty, at most one entry with a box;
* frame lemmas: for an arbitrary predicate `P` on tracks that is kept by `updTrk` and holds for every
  `newTrk`, every operation of the tracker keeps `AllT P` (= `P` holds for every track held, live or
  collected).
-/
namespace SimVerif.C13
open SimVerif.Tracker SimVerif.C03 SimVerif.C06 List

/-! ### histories -/

theorem pushBounded_length_le (h : List Nat) (x n : Nat) (hn : 1 ≤ n) (hl : h.length ≤ n) :
    (pushBounded h x n).length ≤ n := by
  unfold pushBounded
  simp only
  split
  · simp only [length_drop, length_append, length_singleton]; omega
  · rename_i hc
    simp only [Bool.and_eq_true, decide_eq_true_eq, not_and, length_append, length_singleton] at hc ⊢
    omega

theorem pushBounded_length_pos (h : List Nat) (x n : Nat) : 1 ≤ (pushBounded h x n).length := by
  unfold pushBounded
  simp only
  split
  · rename_i hc
    simp only [Bool.and_eq_true, decide_eq_true_eq, length_append, length_singleton] at hc
    simp only [length_drop, length_append, length_singleton]; omega
  · simp only [length_append, length_singleton]; omega

/-! ### galleries -/

theorem galleryUpdate_length_pos (maxObs : Nat) (old : List GE) (new : GE) :
    1 ≤ (galleryUpdate maxObs old new).length := by
  obtain ⟨hh, _⟩ := C13_survivors maxObs old new
  generalize galleryUpdate maxObs old new = g at hh
  cases g with
  | nil => simp at hh
  | cons a l => simp

theorem galleryUpdate_boxes (maxObs : Nat) (old : List GE) (new : GE) :
    ((galleryUpdate maxObs old new).filter (·.box)).length ≤ 1 := by
  obtain ⟨_, ht⟩ := C13_survivors maxObs old new
  generalize galleryUpdate maxObs old new = g at ht
  cases g with
  | nil => simp
  | cons a l =>
    have hl : l.filter (·.box) = [] := by
      rw [filter_eq_nil_iff]
      intro g hg
      simp [(ht g hg).1]
    rw [filter_cons]
    split <;> simp [hl]

/-! ### frame lemmas -/

/-- `P` holds for every track the tracker holds, live or collected -/
def AllT (P : Trk → Prop) (st : St) : Prop := ∀ t ∈ st.live ++ st.wasted, P t

/-- `AllT` only depends on the tracks held -/
theorem AllT.of_subset {P : Trk → Prop} {a b : St} (h : AllT P a)
    (hs : ∀ t ∈ b.live ++ b.wasted, t ∈ a.live ++ a.wasted) : AllT P b :=
  fun t ht => h t (hs t ht)

theorem AllT.congr {P : Trk → Prop} {a b : St} (h : AllT P a) (hl : b.live = a.live) (hw : b.wasted = a.wasted) :
    AllT P b := by
  unfold AllT at *
  rw [hl, hw]; exact h

theorem allT_init (P : Trk → Prop) : AllT P {} := by
  intro t ht
  simp at ht

section frame
variable (P : Trk → Prop) (cfg : Cfg)

theorem applyPick_allT
    (hupd : ∀ t, P t → ∀ e d vis, P (updTrk cfg e d vis t))
    (hnew : ∀ scene e d id, P (newTrk cfg scene e d id))
    (scene e : Nat) (st st' : St) (d : Det) (p : Pick) (r : Rec)
    (h : applyPick cfg scene e st d p = some (st', r)) (hi : AllT P st) : AllT P st' := by
  cases p with
  | cont tid vis =>
    cases hf : findLive st tid with
    | none => rw [applyPick_cont_none cfg scene e st d tid vis hf] at h; cases h
    | some t =>
      rw [applyPick_cont_eq cfg scene e st d tid vis t hf] at h
      simp only [Option.some.injEq, Prod.mk.injEq] at h
      rw [← h.1]
      have hPt : P t := hi t (mem_append_left _ (findLive_mem st tid t hf))
      intro x hx
      rcases mem_append.mp hx with hx | hx
      · obtain ⟨y, hy, rfl⟩ := mem_map.mp hx
        split
        · exact hupd t hPt e d vis
        · exact hi y (mem_append_left _ hy)
      · exact hi x (mem_append_right _ hx)
  | fresh id =>
    rw [applyPick_fresh_eq] at h
    simp only [Option.some.injEq, Prod.mk.injEq] at h
    rw [← h.1]
    intro x hx
    rcases mem_append.mp hx with hx | hx
    · rcases mem_append.mp hx with hx | hx
      · exact hi x (mem_append_left _ hx)
      · rw [mem_singleton.mp hx]; exact hnew scene e d id
    · exact hi x (mem_append_right _ hx)

theorem applyPicks_allT
    (hstep : ∀ scene e st st' d p r, applyPick cfg scene e st d p = some (st', r) → AllT P st → AllT P st')
    (scene e : Nat) (dets : List Det) (picks : List Pick) (st st' : St) (recs : List Rec)
    (h : applyPicks cfg scene e dets picks st = some (st', recs)) (hi : AllT P st) : AllT P st' := by
  induction dets generalizing picks st recs with
  | nil =>
    cases picks with
    | nil => simp only [applyPicks, Option.some.injEq, Prod.mk.injEq] at h; rw [← h.1]; exact hi
    | cons p ps => simp [applyPicks] at h
  | cons d ds ih =>
    cases picks with
    | nil => simp [applyPicks] at h
    | cons p ps =>
      obtain ⟨st1, r, rs, h1, h2, _⟩ := applyPicks_cons cfg scene e d ds p ps st st' recs h
      exact ih ps st1 rs h2 (hstep scene e st st1 d p r h1 hi)

theorem setEpoch_allT (st : St) (s e : Nat) (hi : AllT P st) : AllT P (setEpoch st s e) :=
  hi.congr rfl rfl

theorem collect_allT (st : St) (hi : AllT P st) : AllT P (collect cfg st) :=
  hi.of_subset (fun _ ht => (collect_perm cfg st).subset ht)

theorem awStep_allT (st : St) (hi : AllT P st) : AllT P (awStep cfg st) := by
  unfold awStep
  split
  · exact (collect_allT P cfg st hi).congr rfl rfl
  · exact hi.congr rfl rfl

theorem skip_allT (st : St) (scene n : Nat) (hi : AllT P st) : AllT P (skip cfg st scene n) :=
  collect_allT P cfg _ (setEpoch_allT P st scene _ hi)

theorem wastedOp_allT (st : St) (hi : AllT P st) : AllT P (wastedOp cfg st).1 := by
  have hc := collect_allT P cfg st hi
  intro t ht
  have ht' : t ∈ (collect cfg st).live ++ [] := ht
  rw [append_nil] at ht'
  exact hc t (mem_append_left _ ht')

theorem clearWasted_allT (st : St) (hi : AllT P st) : AllT P (clearWasted st) := by
  intro t ht
  have ht' : t ∈ st.live ++ [] := ht
  rw [append_nil] at ht'
  exact hi t (mem_append_left _ ht')

theorem setAutoWaste_allT (st : St) (p : Nat) (hi : AllT P st) : AllT P (setAutoWaste st p) :=
  hi.congr rfl rfl

theorem predictSceneV_allT
    (hstep : ∀ scene e st st' d p r, applyPick cfg scene e st d p = some (st', r) → AllT P st → AllT P st')
    (st st' : St) (scene : Nat) (dets : List Det) (table : List VEntry) (picks : List Pick) (lo hi : Nat)
    (recs : List Rec) (h : predictSceneV cfg st scene dets table picks lo hi = some (st', recs))
    (hinv : AllT P st) : AllT P st' := by
  unfold predictSceneV at h
  simp only at h
  split at h
  · exact applyPicks_allT P cfg hstep _ _ _ _ _ _ _ h (setEpoch_allT P st scene _ hinv)
  · cases h

theorem batchScenesV_allT
    (hstep : ∀ scene e st st' d p r, applyPick cfg scene e st d p = some (st', r) → AllT P st → AllT P st')
    (lo hi : Nat) (scenes : List (Nat × List Det × List VEntry × List Pick)) (st st' : St)
    (out : List (Nat × List Rec)) (h : batchScenesV cfg lo hi scenes st = some (st', out))
    (hinv : AllT P st) : AllT P st' := by
  induction scenes generalizing st out with
  | nil => simp only [batchScenesV, Option.some.injEq, Prod.mk.injEq] at h; rw [← h.1]; exact hinv
  | cons s rest ih =>
    obtain ⟨scene, dets, table, picks⟩ := s
    simp only [batchScenesV] at h
    cases h1 : predictSceneV cfg st scene dets table picks lo hi with
    | none => simp [h1] at h
    | some x =>
      obtain ⟨st1, recs⟩ := x
      simp only [h1] at h
      cases h2 : batchScenesV cfg lo hi rest st1 with
      | none => simp [h2] at h
      | some y =>
        obtain ⟨st2, out2⟩ := y
        simp only [h2, Option.some.injEq, Prod.mk.injEq] at h
        obtain ⟨h, _⟩ := h
        subst h
        exact ih st1 out2 h2 (predictSceneV_allT P cfg hstep st st1 scene dets table picks lo hi recs h1 hinv)

theorem predictV_allT
    (hstep : ∀ scene e st st' d p r, applyPick cfg scene e st d p = some (st', r) → AllT P st → AllT P st')
    (st st' : St) (scene : Nat) (dets : List Det) (table : List VEntry) (picks : List Pick)
    (recs : List Rec) (h : predictV cfg st scene dets table picks = some (st', recs))
    (hinv : AllT P st) : AllT P st' :=
  predictSceneV_allT P cfg hstep _ st' scene dets table picks 0 0 recs h (awStep_allT P cfg st hinv)

theorem predictBatchV_allT
    (hstep : ∀ scene e st st' d p r, applyPick cfg scene e st d p = some (st', r) → AllT P st → AllT P st')
    (st st' : St) (scenes : List (Nat × List Det × List VEntry × List Pick))
    (out : List (Nat × List Rec)) (h : predictBatchV cfg st scenes = some (st', out))
    (hinv : AllT P st) : AllT P st' := by
  unfold predictBatchV at h
  simp only at h
  cases h1 : batchScenesV cfg (awStep cfg st).nextId
      ((awStep cfg st).nextId + (scenes.map (fun s => s.2.1.length)).foldl (· + ·) 0) scenes (awStep cfg st) with
  | none => simp [h1] at h
  | some y =>
    obtain ⟨st2, out2⟩ := y
    simp only [h1, Option.map_some, Option.some.injEq, Prod.mk.injEq] at h
    rw [← h.1]
    exact (batchScenesV_allT P cfg hstep _ _ scenes _ st2 out2 h1 (awStep_allT P cfg st hinv)).congr rfl rfl

end frame

end SimVerif.C13
