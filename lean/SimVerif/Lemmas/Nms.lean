import SimVerif.Model.Nms

namespace SimVerif.Nms
variable {α : Type} (cov : Box α → Box α → Bool)

theorem mem_inner (cb : Box α × Nat) (obs : List (Box α × Nat)) (ex : List Nat) (x : Nat) :
    x ∈ inner cov cb obs ex ↔ x ∈ ex ∨ ∃ ob ∈ obs, ob.2 = x ∧ cov cb.1 ob.1 = true := by
  induction obs generalizing ex with
  | nil => simp [inner]
  | cons ob rest ih =>
    unfold inner
    split
    · rename_i h
      rw [ih]
      constructor
      · rintro (h1 | ⟨o, ho, rfl, hc⟩)
        · exact Or.inl h1
        · exact Or.inr ⟨o, List.mem_cons_of_mem _ ho, rfl, hc⟩
      · rintro (h1 | ⟨o, ho, rfl, hc⟩)
        · exact Or.inl h1
        · rcases List.mem_cons.mp ho with rfl | ho
          · exact Or.inl (by simpa using h)
          · exact Or.inr ⟨o, ho, rfl, hc⟩
    · split
      · rename_i h hc
        rw [ih]
        constructor
        · rintro (h1 | ⟨o, ho, rfl, hc'⟩)
          · rcases List.mem_cons.mp h1 with rfl | h1
            · exact Or.inr ⟨ob, by simp, rfl, hc⟩
            · exact Or.inl h1
          · exact Or.inr ⟨o, List.mem_cons_of_mem _ ho, rfl, hc'⟩
        · rintro (h1 | ⟨o, ho, rfl, hc'⟩)
          · exact Or.inl (List.mem_cons_of_mem _ h1)
          · rcases List.mem_cons.mp ho with rfl | ho
            · exact Or.inl (by simp)
            · exact Or.inr ⟨o, ho, rfl, hc'⟩
      · rename_i h hc
        rw [ih]
        constructor
        · rintro (h1 | ⟨o, ho, rfl, hc'⟩)
          · exact Or.inl h1
          · exact Or.inr ⟨o, List.mem_cons_of_mem _ ho, rfl, hc'⟩
        · rintro (h1 | ⟨o, ho, rfl, hc'⟩)
          · exact Or.inl h1
          · rcases List.mem_cons.mp ho with rfl | ho
            · exact absurd hc' hc
            · exact Or.inr ⟨o, ho, rfl, hc'⟩

theorem outer_mono (l : List (Box α × Nat)) (ex : List Nat) (x : Nat) (h : x ∈ ex) :
    x ∈ outer cov l ex := by
  induction l generalizing ex with
  | nil => simpa [outer]
  | cons cb rest ih =>
    unfold outer
    split
    · exact ih ex h
    · exact ih _ ((mem_inner cov cb rest ex x).mpr (Or.inl h))

theorem outer_only (l : List (Box α × Nat)) (ex : List Nat) (x : Nat) (h : x ∈ outer cov l ex) :
    x ∈ ex ∨ ∃ o ∈ l, o.2 = x := by
  induction l generalizing ex with
  | nil => exact Or.inl (by simpa [outer] using h)
  | cons cb rest ih =>
    unfold outer at h
    split at h
    · rcases ih ex h with h1 | ⟨o, ho, rfl⟩
      · exact Or.inl h1
      · exact Or.inr ⟨o, List.mem_cons_of_mem _ ho, rfl⟩
    · rcases ih _ h with h1 | ⟨o, ho, rfl⟩
      · rcases (mem_inner cov cb rest ex x).mp h1 with h2 | ⟨o, ho, rfl, _⟩
        · exact Or.inl h2
        · exact Or.inr ⟨o, List.mem_cons_of_mem _ ho, rfl⟩
      · exact Or.inr ⟨o, List.mem_cons_of_mem _ ho, rfl⟩

theorem nodup_map_inj {β γ : Type} {f : β → γ} : ∀ {l : List β}, (l.map f).Nodup →
    ∀ {a b : β}, a ∈ l → b ∈ l → f a = f b → a = b := by
  intro l
  induction l with
  | nil => intro _ a b ha; cases ha
  | cons x xs ih =>
    intro h a b ha hb hab
    rw [List.map_cons, List.nodup_cons] at h
    rcases List.mem_cons.mp ha with rfl | ha' <;> rcases List.mem_cons.mp hb with rfl | hb'
    · rfl
    · exact absurd (hab ▸ List.mem_map_of_mem (f := f) hb') h.1
    · exact absurd (hab.symm ▸ List.mem_map_of_mem (f := f) ha') h.1
    · exact ih h.2 ha' hb' hab

/-- The excluded-set double loop computes the structural walk. -/
theorem loop_eq_walk (l : List (Box α × Nat)) (ex : List Nat) (kept : List (Box α))
    (hnd : (l.map (·.2)).Nodup)
    (hex : ∀ o ∈ l, (o.2 ∈ ex ↔ kept.any (fun a => cov a o.1) = true)) :
    (l.filter (fun c => !(outer cov l ex).contains c.2)).map (·.1) = walk cov kept (l.map (·.1)) := by
  induction l generalizing ex kept with
  | nil => simp [walk]
  | cons cb rest ih =>
    rw [List.map_cons, List.nodup_cons] at hnd
    have hnd' : (rest.map (·.2)).Nodup := hnd.2
    have hcb : ∀ o ∈ rest, o.2 ≠ cb.2 := by
      intro o ho heq
      exact hnd.1 (heq ▸ List.mem_map_of_mem (f := (·.2)) ho)
    by_cases hc : cb.2 ∈ ex
    · have hk : kept.any (fun a => cov a cb.1) = true := (hex cb (by simp)).mp hc
      have hin : cb.2 ∈ outer cov (cb :: rest) ex := outer_mono cov _ _ _ hc
      have hout : outer cov (cb :: rest) ex = outer cov rest ex := by
        simp [outer, hc]
      rw [hout] at hin ⊢
      have := ih ex kept hnd' (fun o ho => hex o (List.mem_cons_of_mem _ ho))
      rw [List.filter_cons_of_neg (by simpa using hin)]
      simp only [List.map_cons, walk, hk, ↓reduceIte]
      exact this
    · have hk : ¬ kept.any (fun a => cov a cb.1) = true := fun h => hc ((hex cb (by simp)).mpr h)
      have hout : outer cov (cb :: rest) ex = outer cov rest (inner cov cb rest ex) := by
        simp [outer, hc]
      have hnin : cb.2 ∉ outer cov (cb :: rest) ex := by
        intro h
        rw [hout] at h
        rcases outer_only cov _ _ _ h with h1 | ⟨o, ho, heq⟩
        · rcases (mem_inner cov cb rest ex cb.2).mp h1 with h2 | ⟨o, ho, heq, _⟩
          · exact hc h2
          · exact hcb o ho heq
        · exact hcb o ho heq
      rw [hout] at hnin ⊢
      rw [List.filter_cons_of_pos (by simpa using hnin)]
      simp only [List.map_cons, walk, hk, ↓reduceIte, Bool.false_eq_true]
      congr 1
      have := ih (inner cov cb rest ex) (cb.1 :: kept) hnd' (by
        intro o ho
        rw [mem_inner, List.any_cons, Bool.or_eq_true, hex o (List.mem_cons_of_mem _ ho)]
        constructor
        · rintro (h1 | ⟨o', ho', heq, hcv⟩)
          · exact Or.inr h1
          · have : o' = o := nodup_map_inj hnd' ho' ho heq
            exact Or.inl (this ▸ hcv)
        · rintro (h1 | h1)
          · exact Or.inr ⟨o, ho, rfl, h1⟩
          · exact Or.inl h1)
      exact this

theorem zipIdx_map_snd_nodup (l : List β) (k : Nat) : ((l.zipIdx k).map (·.2)).Nodup := by
  induction l generalizing k with
  | nil => simp
  | cons a l ih =>
    simp only [List.zipIdx_cons, List.map_cons, List.nodup_cons]
    refine ⟨?_, ih (k + 1)⟩
    intro h
    obtain ⟨⟨b, j⟩, hb, hj⟩ := List.mem_map.mp h
    have := List.mem_zipIdx hb
    simp at hj
    omega

/-- The code's `nms` is the structural walk over the stably rank-sorted, filtered input. -/
theorem nms_eq_walk (scoreThr : Option Rat) (l : List (Box α)) :
    nms cov scoreThr l = walk cov [] ((l.filter (passes scoreThr)).mergeSort rankGE) := by
  unfold nms sortedCands
  have hperm := List.mergeSort_perm ((l.filter (passes scoreThr)).zipIdx) (fun a b => rankGE a.1 b.1)
  have hnd : ((((l.filter (passes scoreThr)).zipIdx).mergeSort (fun a b => rankGE a.1 b.1)).map (·.2)).Nodup :=
    (List.Perm.nodup_iff (hperm.map _)).mpr (zipIdx_map_snd_nodup _ 0)
  have := loop_eq_walk cov _ [] [] hnd (by intro o _; simp)
  simp only at this ⊢
  rw [this]
  congr 1
  rw [List.map_mergeSort (s := rankGE) (f := fun (p : Box α × Nat) => p.1)]
  · simp
  · intro a _ b _; rfl

end SimVerif.Nms

namespace SimVerif.Nms
variable {α : Type} (cov : Box α → Box α → Bool)

theorem walk_sublist (kept l : List (Box α)) : (walk cov kept l).Sublist l := by
  induction l generalizing kept with
  | nil => simp [walk]
  | cons b rest ih =>
    unfold walk
    split
    · exact (ih kept).cons _
    · exact (ih _).cons₂ _

theorem walk_indep (kept l : List (Box α)) :
    (∀ b ∈ walk cov kept l, ∀ a ∈ kept, cov a b = false) ∧
    (walk cov kept l).Pairwise (fun a b => cov a b = false) := by
  induction l generalizing kept with
  | nil => simp [walk]
  | cons b rest ih =>
    unfold walk
    split
    · exact ih kept
    · rename_i h
      obtain ⟨h3, h4⟩ := ih (b :: kept)
      simp only [List.any_eq_true, not_exists, not_and, Bool.not_eq_true] at h
      refine ⟨?_, List.pairwise_cons.mpr ⟨fun x hx => h3 x hx b List.mem_cons_self, h4⟩⟩
      intro x hx a ha
      rcases List.mem_cons.mp hx with rfl | hx
      · exact h a ha
      · exact h3 x hx a (List.mem_cons_of_mem _ ha)

theorem any_congr_mem {β : Type} {l₁ l₂ : List β} (h : ∀ x, x ∈ l₁ ↔ x ∈ l₂) (p : β → Bool) :
    l₁.any p = l₂.any p := by
  rw [Bool.eq_iff_iff]
  simp only [List.any_eq_true]
  exact ⟨fun ⟨x, hx, hp⟩ => ⟨x, (h x).mp hx, hp⟩, fun ⟨x, hx, hp⟩ => ⟨x, (h x).mpr hx, hp⟩⟩

/-- `walk` depends on `kept` only as a set -/
theorem walk_congr (k₁ k₂ l : List (Box α)) (h : ∀ x, x ∈ k₁ ↔ x ∈ k₂) :
    walk cov k₁ l = walk cov k₂ l := by
  induction l generalizing k₁ k₂ with
  | nil => simp [walk]
  | cons b rest ih =>
    unfold walk
    rw [any_congr_mem h]
    split
    · exact ih _ _ h
    · congr 1
      exact ih _ _ (fun x => by simp [h x])

theorem walk_append (kept l₁ l₂ : List (Box α)) :
    walk cov kept (l₁ ++ l₂) = walk cov kept l₁ ++ walk cov ((walk cov kept l₁).reverse ++ kept) l₂ := by
  induction l₁ generalizing kept with
  | nil => simp [walk]
  | cons b rest ih =>
    simp only [List.cons_append, walk]
    split
    · exact ih kept
    · rw [ih (b :: kept)]
      simp

theorem walk_fix (kept l : List (Box α))
    (h1 : ∀ b ∈ l, ∀ a ∈ kept, cov a b = false)
    (h2 : l.Pairwise (fun a b => cov a b = false)) : walk cov kept l = l := by
  induction l generalizing kept with
  | nil => simp [walk]
  | cons b rest ih =>
    unfold walk
    have : ¬ (kept.any (fun a => cov a b) = true) := by
      simp only [List.any_eq_true, not_exists, not_and, Bool.not_eq_true]
      exact fun a ha => h1 b List.mem_cons_self a ha
    rw [if_neg this]
    congr 1
    obtain ⟨h2a, h2b⟩ := List.pairwise_cons.mp h2
    apply ih _ _ h2b
    intro x hx a ha
    rcases List.mem_cons.mp ha with rfl | ha
    · exact h2a x hx
    · exact h1 x (List.mem_cons_of_mem _ hx) a ha

theorem rankGE_trans (a b c : Box α) : rankGE a b = true → rankGE b c = true → rankGE a c = true := by
  simp only [rankGE, decide_eq_true_eq]
  exact fun h1 h2 => Rat.le_trans h2 h1

theorem rankGE_total (a b : Box α) : (rankGE a b || rankGE b a) = true := by
  simp only [rankGE, Bool.or_eq_true, decide_eq_true_eq]
  exact (Rat.le_total).symm

end SimVerif.Nms
