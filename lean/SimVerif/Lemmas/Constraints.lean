import SimVerif.Model.Constraints
namespace SimVerif.Constraints

theorem keyLE_trans (a b c : Entry) : keyLE a b = true → keyLE b c = true → keyLE a c = true := by
  simp only [keyLE, decide_eq_true_eq]; omega
theorem keyLE_total (a b : Entry) : (keyLE a b || keyLE b a) = true := by
  simp only [keyLE, Bool.or_eq_true, decide_eq_true_eq]; omega

/-- stability: the stable sort keeps, for every gap, the entries with that gap in input order -/
theorem mergeSort_filter_key (l : List Entry) (g : Nat) :
    (l.mergeSort keyLE).filter (fun e => e.1 == g) = l.filter (fun e => e.1 == g) := by
  have hsub : (l.filter (fun e => e.1 == g)).Sublist (l.mergeSort keyLE) := by
    apply List.sublist_mergeSort keyLE_trans keyLE_total
    · apply List.Pairwise.imp_of_mem (R := fun _ _ => True)
      · intro a b ha hb _
        have ha' := (List.mem_filter.mp ha).2
        have hb' := (List.mem_filter.mp hb).2
        simp only [beq_iff_eq] at ha' hb'
        simp [keyLE, ha', hb']
      · exact List.pairwise_of_forall (fun _ _ => trivial)
    · exact List.filter_sublist
  have h2 : (l.filter (fun e => e.1 == g)).Sublist ((l.mergeSort keyLE).filter (fun e => e.1 == g)) := by
    have := hsub.filter (fun e => e.1 == g)
    simpa using this
  have hlen : ((l.mergeSort keyLE).filter (fun e => e.1 == g)).length = (l.filter (fun e => e.1 == g)).length :=
    ((List.mergeSort_perm l keyLE).filter _).length_eq
  exact (h2.eq_of_length hlen.symm).symm

theorem find_eq_head_filter (l : List Entry) (p : Entry → Bool) : l.find? p = (l.filter p).head? := by
  induction l with
  | nil => rfl
  | cons a l ih =>
    by_cases h : p a = true
    · rw [List.find?_cons_of_pos h, List.filter_cons_of_pos h]; rfl
    · rw [List.find?_cons_of_neg h, List.filter_cons_of_neg h]; exact ih

/-- on a key-sorted list whose head key is `prev`'s, `dedupAux` keeps first occurrences -/
theorem dedupAux_find (prev : Entry) (l : List Entry) (hs : (prev :: l).Pairwise (fun a b => a.1 ≤ b.1))
    (g : Nat) (hg : g ≠ prev.1) :
    (dedupAux prev l).find? (fun e => e.1 == g) = l.find? (fun e => e.1 == g) := by
  induction l generalizing prev with
  | nil => rfl
  | cons b rest ih =>
    obtain ⟨h1, h2⟩ := List.pairwise_cons.mp hs
    obtain ⟨h3, h4⟩ := List.pairwise_cons.mp h2
    unfold dedupAux
    split
    · rename_i hb
      have : (b.1 == g) = false := by simp [hb]; exact fun h => hg h.symm
      rw [List.find?_cons, this]
      apply ih prev _ hg
      exact List.pairwise_cons.mpr ⟨fun x hx => h1 x (List.mem_cons_of_mem _ hx), h4⟩
    · rename_i hb
      by_cases hbg : b.1 = g
      · simp [List.find?_cons, hbg]
      · have hbg' : (b.1 == g) = false := by simp [hbg]
        simp only [List.find?_cons, hbg']
        exact ih b h2 (fun h => hbg h.symm)

theorem dedupAux_sorted (prev : Entry) (l : List Entry) (hs : (prev :: l).Pairwise (fun a b => a.1 ≤ b.1)) :
    (prev :: dedupAux prev l).Pairwise (fun a b => a.1 < b.1) := by
  induction l generalizing prev with
  | nil => simp [dedupAux]
  | cons b rest ih =>
    obtain ⟨h1, h2⟩ := List.pairwise_cons.mp hs
    obtain ⟨h3, h4⟩ := List.pairwise_cons.mp h2
    unfold dedupAux
    split
    · exact ih prev (List.pairwise_cons.mpr ⟨fun x hx => h1 x (List.mem_cons_of_mem _ hx), h4⟩)
    · rename_i hb
      have ihb := ih b h2
      have hlt : prev.1 < b.1 := by
        have := h1 b List.mem_cons_self
        omega
      refine List.pairwise_cons.mpr ⟨?_, ihb⟩
      intro x hx
      rcases List.mem_cons.mp hx with rfl | hx
      · exact hlt
      · have := (List.pairwise_cons.mp ihb).1 x hx
        omega

theorem dedupFirst_sorted (l : List Entry) (hs : l.Pairwise (fun a b => a.1 ≤ b.1)) :
    (dedupFirst l).Pairwise (fun a b => a.1 < b.1) := by
  cases l with
  | nil => simp [dedupFirst]
  | cons a rest => exact dedupAux_sorted a rest hs

theorem dedupFirst_find (l : List Entry) (hs : l.Pairwise (fun a b => a.1 ≤ b.1)) (g : Nat) :
    (dedupFirst l).find? (fun e => e.1 == g) = l.find? (fun e => e.1 == g) := by
  cases l with
  | nil => rfl
  | cons a rest =>
    unfold dedupFirst
    by_cases hag : a.1 = g
    · simp [List.find?_cons, hag]
    · have : (a.1 == g) = false := by simp [hag]
      simp only [List.find?_cons, this]
      exact dedupAux_find a rest hs g (fun h => hag h.symm)

theorem mergeSort_sorted (l : List Entry) : (l.mergeSort keyLE).Pairwise (fun a b => a.1 ≤ b.1) := by
  have := List.pairwise_mergeSort (le := keyLE) keyLE_trans keyLE_total l
  simpa [keyLE] using this

/-- one successful `add_constraints`: strictly sorted by gap; per gap, the first entry of
`old ++ new` with that gap -/
theorem add_spec (cs new t : List Entry) (h : addConstraints cs new = some t) :
    t.Pairwise (fun a b => a.1 < b.1) ∧
    ∀ g, t.find? (fun e => e.1 == g) = (cs ++ new).find? (fun e => e.1 == g) := by
  unfold addConstraints at h
  split at h
  · injection h with h; subst h
    refine ⟨dedupFirst_sorted _ (mergeSort_sorted _), fun g => ?_⟩
    rw [dedupFirst_find _ (mergeSort_sorted _), find_eq_head_filter, mergeSort_filter_key,
      ← find_eq_head_filter]
  · cases h

end SimVerif.Constraints
