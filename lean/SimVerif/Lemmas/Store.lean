import SimVerif.Model.Store
namespace SimVerif.Store
open SimVerif.Track
variable {TA M OA U Q E : Type}

/-! ### association-list level -/
abbrev AL (TA M OA : Type) := List (Nat × Track TA M OA)

def afind (sh : AL TA M OA) (id : Nat) : Option (Track TA M OA) := (sh.find? (fun p => p.1 == id)).map (·.2)

def aput (sh : AL TA M OA) (id : Nat) (t : Track TA M OA) : AL TA M OA :=
  sh.filter (fun p => !(p.1 == id)) ++ [(id, t)]

theorem afind_append_single (l : AL TA M OA) (id id' : Nat) (t : Track TA M OA) :
    afind (l ++ [(id, t)]) id' = (afind l id').or (if id' = id then some t else none) := by
  simp only [afind, List.find?_append]
  cases h : l.find? (fun p => p.1 == id') with
  | some x => simp
  | none =>
    by_cases h2 : id' = id
    · simp [h2]
    · have : (id == id') = false := by simp; exact fun e => h2 e.symm
      simp [h2, List.find?_cons, this]

theorem afind_remove (sh : AL TA M OA) (id id' : Nat) :
    afind (sh.filter (fun p => !(p.1 == id))) id' = if id' = id then none else afind sh id' := by
  unfold afind
  induction sh with
  | nil => simp
  | cons p rest ih =>
    by_cases hp : p.1 = id
    · simp only [List.filter_cons, hp, beq_self_eq_true, Bool.not_true, Bool.false_eq_true, if_false, List.find?_cons]
      by_cases h : id' = id
      · simpa [h] using ih
      · have : (id == id') = false := by simp; exact fun e => h e.symm
        simp only [this, h, if_false] at ih ⊢
        exact ih
    · have hp' : (p.1 == id) = false := by simp [hp]
      simp only [List.filter_cons, hp', Bool.not_false, if_true, List.find?_cons]
      by_cases hpi : p.1 = id'
      · have : id' ≠ id := fun e => hp (hpi.trans e)
        simp [hpi, this]
      · have : (p.1 == id') = false := by simp [hpi]
        simp only [this]
        exact ih

theorem afind_aput (sh : AL TA M OA) (id id' : Nat) (t : Track TA M OA) :
    afind (aput sh id t) id' = if id' = id then some t else afind sh id' := by
  unfold aput
  rw [afind_append_single, afind_remove]
  by_cases h : id' = id <;> simp [h]

/-! ### store level -/

/-- shape invariant: exactly `n > 0` shards -/
structure Shape (s : Store TA M OA) : Prop where
  pos : 0 < s.n
  len : s.shards.length = s.n

theorem find_eq (s : Store TA M OA) (id : Nat) : find s id = afind (getShard s (shardOf s id)) id := rfl

theorem getShard_setShard (s : Store TA M OA) (k k' : Nat) (sh : AL TA M OA) (hk : k < s.shards.length) :
    getShard (setShard s k sh) k' = if k' = k then sh else getShard s k' := by
  unfold getShard setShard
  simp only [List.getD_eq_getElem?_getD, List.getElem?_set]
  by_cases h : k' = k
  · subst h; simp [hk]
  · have : ¬ k = k' := fun e => h e.symm
    simp [h, this]

theorem shape_setShard (s : Store TA M OA) (k : Nat) (sh : AL TA M OA) (h : Shape s) : Shape (setShard s k sh) :=
  ⟨h.pos, by simp [setShard, h.len]⟩

theorem shape_put (s : Store TA M OA) (id : Nat) (t : Track TA M OA) (h : Shape s) : Shape (put s id t) :=
  shape_setShard _ _ _ h

theorem shape_remove (s : Store TA M OA) (id : Nat) (h : Shape s) : Shape (remove s id) :=
  shape_setShard _ _ _ h

theorem put_eq (s : Store TA M OA) (id : Nat) (t : Track TA M OA) :
    put s id t = setShard s (shardOf s id) (aput (getShard s (shardOf s id)) id t) := rfl

/-- the store is a map: reading after a write -/
theorem find_put (s : Store TA M OA) (h : Shape s) (id id' : Nat) (t : Track TA M OA) :
    find (put s id t) id' = if id' = id then some t else find s id' := by
  have hk : shardOf s id < s.shards.length := by rw [h.len]; exact Nat.mod_lt _ h.pos
  rw [put_eq, find_eq]
  have hn : (setShard s (shardOf s id) (aput (getShard s (shardOf s id)) id t)).n = s.n := rfl
  have hsh : shardOf (setShard s (shardOf s id) (aput (getShard s (shardOf s id)) id t)) id' = shardOf s id' := rfl
  rw [hsh, getShard_setShard _ _ _ _ hk]
  by_cases hkk : shardOf s id' = shardOf s id
  · rw [if_pos hkk, afind_aput, ← hkk]; rfl
  · rw [if_neg hkk]
    have : id' ≠ id := fun e => hkk (by rw [e])
    rw [if_neg this]; rfl

theorem find_remove (s : Store TA M OA) (h : Shape s) (id id' : Nat) :
    find (remove s id) id' = if id' = id then none else find s id' := by
  have hk : shardOf s id < s.shards.length := by rw [h.len]; exact Nat.mod_lt _ h.pos
  unfold remove
  simp only []
  rw [find_eq]
  have hsh : shardOf (setShard s (shardOf s id) ((getShard s (shardOf s id)).filter (fun p => !(p.1 == id)))) id' = shardOf s id' := rfl
  rw [hsh, getShard_setShard _ _ _ _ hk]
  by_cases hkk : shardOf s id' = shardOf s id
  · rw [if_pos hkk, afind_remove, ← hkk]; rfl
  · rw [if_neg hkk]
    have : id' ≠ id := fun e => hkk (by rw [e])
    rw [if_neg this]; rfl

theorem find_clear (s : Store TA M OA) (id : Nat) : find (clear s) id = none := by
  unfold find getShard clear shardOf
  simp only [List.getD_eq_getElem?_getD, List.getElem?_replicate]
  split <;> simp

theorem shape_clear (s : Store TA M OA) (h : Shape s) : Shape (clear s) := ⟨h.pos, by simp [clear]⟩

theorem shape_empty (n : Nat) (a : TA) (m : M) (hn : 0 < n) : Shape (empty n a m : Store TA M OA) :=
  ⟨hn, by simp [empty]⟩

theorem find_empty (n : Nat) (a : TA) (m : M) (id : Nat) : find (empty n a m : Store TA M OA) id = none := by
  unfold find getShard empty shardOf
  simp only [List.getD_eq_getElem?_getD, List.getElem?_replicate]
  split <;> simp

end SimVerif.Store
