import SimVerif.Props.C03b
import Mathlib.Data.List.Perm.Basic
/-!
# Helper lemmas for C06 (the scenes of one batch may be processed in any order)

* explicit forms of `applyPick` for every configuration;
* `GInv`: the simulation invariant between two states whose `σ`-tracks (the tracks of the call's
  scene; all tracks for the congruence theorem) agree up to order, and `applyPicks_gsim`;
* `scene_sim`: the scene step gives the same records from two such states;
* `applyPicks_frameq`, `scene_frame`: the scene step leaves the tracks of other scenes untouched
  (as lists);
* the unary facts about one scene step (`scene_epoch`, `scene_fields`, `scene_ids`, `scene_nodup`).
-/
namespace SimVerif.C06
open SimVerif.Tracker SimVerif.C01 SimVerif.C03 List

/-! ### `applyPick`, explicitly, for every configuration -/

theorem applyPick_cont_eq (cfg : Cfg) (scene e : Nat) (st : St) (d : Det)
    (tid : Nat) (vis : Bool) (t : Trk) (hf : findLive st tid = some t) :
    applyPick cfg scene e st d (.cont tid vis) =
      some ({ st with nextId := st.nextId + (if cfg.batchIds then 1 else 0),
                      live := st.live.map (fun x => if (x.id == tid) = true then updTrk cfg e d vis t else x) },
            { id := tid, epoch := e, scene := t.scene, len := t.len + 1, custom := d.custom, tok := d.tok, visual := vis }) := by
  unfold applyPick
  cases hb : cfg.batchIds with
  | false =>
    simp only [Bool.false_eq_true, if_false, hf]
    rfl
  | true =>
    have hf' : findLive { st with nextId := st.nextId + 1 } tid = some t := hf
    simp only [if_true, hf']
    rfl

theorem applyPick_cont_none (cfg : Cfg) (scene e : Nat) (st : St) (d : Det)
    (tid : Nat) (vis : Bool) (hf : findLive st tid = none) :
    applyPick cfg scene e st d (.cont tid vis) = none := by
  unfold applyPick
  cases hb : cfg.batchIds with
  | false => simp only [Bool.false_eq_true, if_false, hf]
  | true =>
    have hf' : findLive { st with nextId := st.nextId + 1 } tid = none := hf
    simp only [if_true, hf']

theorem applyPick_fresh_eq (cfg : Cfg) (scene e : Nat) (st : St) (d : Det) (id : Nat) :
    applyPick cfg scene e st d (.fresh id) =
      some ({ st with nextId := st.nextId + 1, live := st.live ++ [newTrk cfg scene e d id] },
            { id := id, epoch := e, scene := scene, len := 1, custom := d.custom, tok := d.tok, visual := false }) := by
  unfold applyPick
  cases hb : cfg.batchIds with
  | false => simp only [Bool.false_eq_true, if_false]; rfl
  | true => simp only [if_true]; rfl

theorem updTrk_id (cfg : Cfg) (e : Nat) (d : Det) (vis : Bool) (t : Trk) : (updTrk cfg e d vis t).id = t.id := rfl
theorem updTrk_scene (cfg : Cfg) (e : Nat) (d : Det) (vis : Bool) (t : Trk) : (updTrk cfg e d vis t).scene = t.scene := rfl
theorem newTrk_id (cfg : Cfg) (scene e : Nat) (d : Det) (id : Nat) : (newTrk cfg scene e d id).id = id := rfl
theorem newTrk_scene (cfg : Cfg) (scene e : Nat) (d : Det) (id : Nat) : (newTrk cfg scene e d id).scene = scene := rfl

/-- the countdown fields are not touched by a pick -/
theorem applyPick_aw (cfg : Cfg) (scene e : Nat) (st st' : St) (d : Det) (p : Pick) (r : Rec)
    (h : applyPick cfg scene e st d p = some (st', r)) :
    st'.awPeriod = st.awPeriod ∧ st'.awCounter = st.awCounter := by
  cases p with
  | cont tid vis =>
    cases hf : findLive st tid with
    | none => rw [applyPick_cont_none cfg scene e st d tid vis hf] at h; cases h
    | some t =>
      rw [applyPick_cont_eq cfg scene e st d tid vis t hf] at h
      simp only [Option.some.injEq, Prod.mk.injEq] at h
      rw [← h.1]
      exact ⟨rfl, rfl⟩
  | fresh id =>
    rw [applyPick_fresh_eq] at h
    simp only [Option.some.injEq, Prod.mk.injEq] at h
    rw [← h.1]
    exact ⟨rfl, rfl⟩

/-- destructuring one step of `applyPicks` -/
theorem applyPicks_cons (cfg : Cfg) (scene e : Nat) (d : Det) (ds : List Det) (p : Pick) (ps : List Pick)
    (st st' : St) (recs : List Rec) (h : applyPicks cfg scene e (d :: ds) (p :: ps) st = some (st', recs)) :
    ∃ st1 r rs, applyPick cfg scene e st d p = some (st1, r) ∧
      applyPicks cfg scene e ds ps st1 = some (st', rs) ∧ recs = r :: rs := by
  simp only [applyPicks] at h
  cases h1 : applyPick cfg scene e st d p with
  | none => simp [h1] at h
  | some x =>
    obtain ⟨st1, r⟩ := x
    simp only [h1] at h
    cases h2 : applyPicks cfg scene e ds ps st1 with
    | none => simp [h2] at h
    | some y =>
      obtain ⟨st2, rs⟩ := y
      simp only [h2, Option.some.injEq, Prod.mk.injEq] at h
      exact ⟨st1, r, rs, rfl, by rw [← h.1]; exact h2, h.2.symm⟩

theorem applyPicks_cons_eq (cfg : Cfg) (scene e : Nat) (d : Det) (ds : List Det) (p : Pick) (ps : List Pick)
    (st st1 st' : St) (r : Rec) (rs : List Rec) (h1 : applyPick cfg scene e st d p = some (st1, r))
    (h2 : applyPicks cfg scene e ds ps st1 = some (st', rs)) :
    applyPicks cfg scene e (d :: ds) (p :: ps) st = some (st', r :: rs) := by
  simp only [applyPicks, h1, h2]

theorem applyPicks_aw (cfg : Cfg) (scene e : Nat) (dets : List Det) (picks : List Pick) (st st' : St)
    (recs : List Rec) (h : applyPicks cfg scene e dets picks st = some (st', recs)) :
    st'.awPeriod = st.awPeriod ∧ st'.awCounter = st.awCounter := by
  induction dets generalizing picks st recs with
  | nil =>
    cases picks with
    | nil => simp only [applyPicks, Option.some.injEq, Prod.mk.injEq] at h; rw [← h.1]; exact ⟨rfl, rfl⟩
    | cons p ps => simp [applyPicks] at h
  | cons d ds ih =>
    cases picks with
    | nil => simp [applyPicks] at h
    | cons p ps =>
      obtain ⟨st1, r, rs, h1, h2, _⟩ := applyPicks_cons cfg scene e d ds p ps st st' recs h
      obtain ⟨a1, a2⟩ := applyPick_aw cfg scene e st st1 d p r h1
      obtain ⟨b1, b2⟩ := ih ps st1 rs h2
      exact ⟨b1.trans a1, b2.trans a2⟩

/-! ### the simulation invariant -/

/-- `a.live = A ++ N`, `b.live = B ++ N`: the old tracks `A`, `B` (ids unique) hold the same `σ`-tracks
up to order, `N` are the `σ`-tracks started in this call; the other old tracks of `b` share no id with `N` -/
structure GInv (σ : Trk → Bool) (a b : St) (A B N : List Trk) : Prop where
  la : a.live = A ++ N
  lb : b.live = B ++ N
  pm : A.filter σ ~ B.filter σ
  na : (A.map (·.id)).Nodup
  nb : (B.map (·.id)).Nodup
  ns : ∀ x ∈ N, σ x = true
  sep : ∀ x ∈ B, σ x = false → ∀ y ∈ N, y.id ≠ x.id

theorem find_id_unique (l : List Trk) (hnd : (l.map (·.id)).Nodup) (tid : Nat) (x t : Trk) (hx : x ∈ l)
    (hxid : x.id = tid) (hf : l.find? (fun y => y.id == tid) = some t) : x = t := by
  have := find_of_mem_nodup l hnd x hx
  rw [hxid, hf] at this
  exact (Option.some.inj this).symm

/-- a `σ`-track found in the one state is found in the other -/
theorem GInv.find {σ : Trk → Bool} {a b : St} {A B N : List Trk} (h : GInv σ a b A B N) (tid : Nat) (t : Trk)
    (hf : findLive a tid = some t) (hs : σ t = true) : findLive b tid = some t := by
  unfold findLive at hf ⊢
  rw [h.la, find?_append] at hf
  rw [h.lb, find?_append]
  cases hA : A.find? (fun y => y.id == tid) with
  | none =>
    rw [hA, Option.none_or] at hf
    have htN : t ∈ N := mem_of_find?_eq_some hf
    have htid : t.id = tid := by simpa using find?_some hf
    have hB : B.find? (fun y => y.id == tid) = none := by
      rw [find?_eq_none]
      intro x hx hxid
      simp only [beq_iff_eq] at hxid
      cases hsx : σ x with
      | false => exact h.sep x hx hsx t htN (htid.trans hxid.symm)
      | true =>
        have : x ∈ A.filter σ := h.pm.mem_iff.mpr (mem_filter.mpr ⟨hx, hsx⟩)
        have hxA := (mem_filter.mp this).1
        rw [find?_eq_none] at hA
        exact hA x hxA (by simpa using hxid)
    rw [hB, Option.none_or]
    exact hf
  | some t0 =>
    rw [hA, Option.some_or] at hf
    have e0 : t0 = t := Option.some.inj hf
    subst e0
    have htA : t0 ∈ A := mem_of_find?_eq_some hA
    have htid : t0.id = tid := by simpa using find?_some hA
    have htB : t0 ∈ B := (mem_filter.mp (h.pm.mem_iff.mp (mem_filter.mpr ⟨htA, hs⟩))).1
    have := find_of_mem_nodup B h.nb t0 htB
    rw [htid] at this
    rw [this, Option.some_or]

/-- the old tracks with the id of a found `σ`-track are that track -/
theorem GInv.uniqA {σ : Trk → Bool} {a b : St} {A B N : List Trk} (h : GInv σ a b A B N) (tid : Nat) (t : Trk)
    (hf : findLive a tid = some t) (x : Trk) (hx : x ∈ A) (hxid : x.id = tid) : x = t := by
  unfold findLive at hf
  rw [h.la, find?_append] at hf
  have := find_of_mem_nodup A h.na x hx
  rw [hxid] at this
  rw [this, Option.some_or] at hf
  exact Option.some.inj hf

theorem GInv.uniqB {σ : Trk → Bool} {a b : St} {A B N : List Trk} (h : GInv σ a b A B N) (tid : Nat) (t : Trk)
    (hf : findLive a tid = some t) (hs : σ t = true) (x : Trk) (hx : x ∈ B) (hxid : x.id = tid) : x = t := by
  have hfb := h.find tid t hf hs
  unfold findLive at hfb
  rw [h.lb, find?_append] at hfb
  have := find_of_mem_nodup B h.nb x hx
  rw [hxid] at this
  rw [this, Option.some_or] at hfb
  exact Option.some.inj hfb

/-- continuing the `σ`-track `t` (replaced by a `σ`-track `t'` of the same id) in both states -/
theorem GInv.cont {σ : Trk → Bool} {a b : St} {A B N : List Trk} (h : GInv σ a b A B N) (tid : Nat) (t t' : Trk)
    (hf : findLive a tid = some t) (hs : σ t = true) (hs' : σ t' = true) (hid' : t'.id = tid)
    (a1 b1 : St) (ha1 : a1.live = a.live.map (fun x => if (x.id == tid) = true then t' else x))
    (hb1 : b1.live = b.live.map (fun x => if (x.id == tid) = true then t' else x)) :
    GInv σ a1 b1 (A.map (fun x => if (x.id == tid) = true then t' else x))
      (B.map (fun x => if (x.id == tid) = true then t' else x))
      (N.map (fun x => if (x.id == tid) = true then t' else x)) := by
  have hgA : ∀ x ∈ A, σ (if (x.id == tid) = true then t' else x) = σ x := by
    intro x hx
    split
    · rename_i hxi
      simp only [beq_iff_eq] at hxi
      rw [h.uniqA tid t hf x hx hxi, hs, hs']
    · rfl
  have hgB : ∀ x ∈ B, σ (if (x.id == tid) = true then t' else x) = σ x := by
    intro x hx
    split
    · rename_i hxi
      simp only [beq_iff_eq] at hxi
      rw [h.uniqB tid t hf hs x hx hxi, hs, hs']
    · rfl
  have hgid : ∀ x : Trk, (if (x.id == tid) = true then t' else x).id = x.id := by
    intro x
    split
    · rename_i hxi
      simp only [beq_iff_eq] at hxi
      rw [hid', hxi]
    · rfl
  refine ⟨?_, ?_, ?_, ?_, ?_, ?_, ?_⟩
  · rw [ha1, h.la, map_append]
  · rw [hb1, h.lb, map_append]
  · rw [filter_map_same σ _ A hgA, filter_map_same σ _ B hgB]
    exact h.pm.map _
  · rw [map_replace_ids tid t' hid']; exact h.na
  · rw [map_replace_ids tid t' hid']; exact h.nb
  · intro x hx
    obtain ⟨y, hy, rfl⟩ := mem_map.mp hx
    split
    · exact hs'
    · exact h.ns y hy
  · intro x hx hsx y hy
    obtain ⟨x0, hx0, rfl⟩ := mem_map.mp hx
    obtain ⟨y0, hy0, rfl⟩ := mem_map.mp hy
    rw [hgB x0 hx0] at hsx
    rw [hgid, hgid]
    exact h.sep x0 hx0 hsx y0 hy0

/-- starting the `σ`-track `x` in both states -/
theorem GInv.fresh {σ : Trk → Bool} {a b : St} {A B N : List Trk} (h : GInv σ a b A B N) (x : Trk)
    (hs : σ x = true) (hx : ∀ y ∈ B, σ y = false → y.id ≠ x.id)
    (a1 b1 : St) (ha1 : a1.live = a.live ++ [x]) (hb1 : b1.live = b.live ++ [x]) :
    GInv σ a1 b1 A B (N ++ [x]) := by
  refine ⟨?_, ?_, h.pm, h.na, h.nb, ?_, ?_⟩
  · rw [ha1, h.la, append_assoc]
  · rw [hb1, h.lb, append_assoc]
  · intro y hy
    rcases mem_append.mp hy with hy | hy
    · exact h.ns y hy
    · rw [mem_singleton.mp hy]; exact hs
  · intro y hy hsy z hz
    rcases mem_append.mp hz with hz | hz
    · exact h.sep y hy hsy z hz
    · rw [mem_singleton.mp hz]; exact (hx y hy hsy).symm

/-- the `σ`-tracks of the two states agree up to order -/
theorem GInv.perm {σ : Trk → Bool} {a b : St} {A B N : List Trk} (h : GInv σ a b A B N) :
    a.live.filter σ ~ b.live.filter σ := by
  rw [h.la, h.lb, filter_append, filter_append]
  exact h.pm.append_right _

/-- **Simulation of `applyPicks`**: from related states, with every continued track a `σ`-track and
the fresh ids different from the ids of the non-`σ` tracks of `b`, the same picks give the same
records and related states. -/
theorem applyPicks_gsim (cfg : Cfg) (scene e : Nat) (σ : Trk → Bool)
    (hσ : ∀ t t' : Trk, t.scene = t'.scene → σ t = σ t') (hσs : ∀ t : Trk, t.scene = scene → σ t = true)
    (dets : List Det) (picks : List Pick) (a b a' : St) (recs : List Rec) (A B N : List Trk)
    (h : GInv σ a b A B N)
    (hc : ∀ tid vis, Pick.cont tid vis ∈ picks → ∃ t, findLive a tid = some t ∧ σ t = true)
    (hfr : ∀ id ∈ freshIds picks, ∀ y ∈ B, σ y = false → y.id ≠ id)
    (ha : applyPicks cfg scene e dets picks a = some (a', recs)) :
    ∃ b' A' B' N', applyPicks cfg scene e dets picks b = some (b', recs) ∧ GInv σ a' b' A' B' N' := by
  induction dets generalizing picks a b recs A B N with
  | nil =>
    cases picks with
    | nil =>
      simp only [applyPicks, Option.some.injEq, Prod.mk.injEq] at ha
      obtain ⟨h1, h2⟩ := ha
      subst h1; subst h2
      exact ⟨b, A, B, N, rfl, h⟩
    | cons p ps => simp [applyPicks] at ha
  | cons d ds ih =>
    cases picks with
    | nil => simp [applyPicks] at ha
    | cons p ps =>
      obtain ⟨a1, r, rs, h1, h2, hr⟩ := applyPicks_cons cfg scene e d ds p ps a a' recs ha
      subst hr
      cases p with
      | cont tid vis =>
        obtain ⟨t, hf, hst⟩ := hc tid vis mem_cons_self
        rw [applyPick_cont_eq cfg scene e a d tid vis t hf] at h1
        simp only [Option.some.injEq, Prod.mk.injEq] at h1
        obtain ⟨e1, e2⟩ := h1
        have hfb := h.find tid t hf hst
        have hst' : σ (updTrk cfg e d vis t) = true := (hσ _ t (updTrk_scene cfg e d vis t)).trans hst
        have hidt' : (updTrk cfg e d vis t).id = tid := (findLive_id _ _ _ hf : t.id = tid)
        have hinv := h.cont tid t (updTrk cfg e d vis t) hf hst hst' hidt' a1
          { b with nextId := b.nextId + (if cfg.batchIds then 1 else 0),
                   live := b.live.map (fun x => if (x.id == tid) = true then updTrk cfg e d vis t else x) }
          (by rw [← e1]) rfl
        have hc' : ∀ tid2 vis2, Pick.cont tid2 vis2 ∈ ps → ∃ t2, findLive a1 tid2 = some t2 ∧ σ t2 = true := by
          intro tid2 vis2 hp2
          obtain ⟨t2, hf2, hs2⟩ := hc tid2 vis2 (mem_cons_of_mem _ hp2)
          rw [← e1]
          unfold findLive at hf2 ⊢
          simp only
          rw [find_map_replace tid _ hidt' tid2 a.live, hf2]
          refine ⟨(if (t2.id == tid) = true then updTrk cfg e d vis t else t2), rfl, ?_⟩
          split
          · exact hst'
          · exact hs2
        have hfr' : ∀ id ∈ freshIds ps,
            ∀ y ∈ B.map (fun x => if (x.id == tid) = true then updTrk cfg e d vis t else x), σ y = false → y.id ≠ id := by
          intro id hid y hy hsy
          obtain ⟨y0, hy0, rfl⟩ := mem_map.mp hy
          split at hsy
          · rw [hst'] at hsy; cases hsy
          · rename_i hne
            rw [if_neg hne]
            exact hfr id hid y0 hy0 hsy
        obtain ⟨b2, A', B', N', hb2, hinv2⟩ := ih ps a1 _ rs _ _ _ hinv hc' hfr' h2
        refine ⟨b2, A', B', N', ?_, hinv2⟩
        rw [← e2]
        exact applyPicks_cons_eq cfg scene e d ds _ ps b _ b2 _ rs
          (applyPick_cont_eq cfg scene e b d tid vis t hfb) hb2
      | fresh id =>
        rw [applyPick_fresh_eq cfg scene e a d id] at h1
        simp only [Option.some.injEq, Prod.mk.injEq] at h1
        obtain ⟨e1, e2⟩ := h1
        have hinv := h.fresh (newTrk cfg scene e d id) (hσs _ (newTrk_scene cfg scene e d id))
          (fun y hy hsy => hfr id (by simp [freshIds]) y hy hsy) a1
          { b with nextId := b.nextId + 1, live := b.live ++ [newTrk cfg scene e d id] }
          (by rw [← e1]) rfl
        have hc' : ∀ tid2 vis2, Pick.cont tid2 vis2 ∈ ps → ∃ t2, findLive a1 tid2 = some t2 ∧ σ t2 = true := by
          intro tid2 vis2 hp2
          obtain ⟨t2, hf2, hs2⟩ := hc tid2 vis2 (mem_cons_of_mem _ hp2)
          refine ⟨t2, ?_, hs2⟩
          rw [← e1]
          unfold findLive at hf2 ⊢
          simp only
          rw [find?_append, hf2]
          rfl
        have hfr' : ∀ id' ∈ freshIds ps, ∀ y ∈ B, σ y = false → y.id ≠ id' :=
          fun id' hid' => hfr id' (by simp only [freshIds, filterMap_cons, mem_cons]; exact Or.inr hid')
        obtain ⟨b2, A', B', N', hb2, hinv2⟩ := ih ps a1 _ rs _ _ _ hinv hc' hfr' h2
        refine ⟨b2, A', B', N', ?_, hinv2⟩
        rw [← e2]
        exact applyPicks_cons_eq cfg scene e d ds _ ps b _ b2 _ rs
          (applyPick_fresh_eq cfg scene e b d id) hb2

/-! ### validity of a choice, and the scene step -/

theorem GInv.start (σ : Trk → Bool) (a b : St) (s e : Nat) (hna : (a.live.map (·.id)).Nodup)
    (hnb : (b.live.map (·.id)).Nodup) (hp : a.live.filter σ ~ b.live.filter σ) :
    GInv σ (setEpoch a s e) (setEpoch b s e) a.live b.live [] :=
  ⟨(append_nil _).symm, (append_nil _).symm, hp, hna, hnb, fun _ hx => (by cases hx), fun _ _ _ _ hy => (by cases hy)⟩

theorem entryOk_gsim (cfg : Cfg) (σ : Trk → Bool) (a b : St) (A B N : List Trk) (h : GInv σ a b A B N)
    (scene e : Nat) (hσs : ∀ t : Trk, t.scene = scene → σ t = true) (x : Entry)
    (hx : entryOk cfg a scene e x = true) : entryOk cfg b scene e x = true := by
  unfold entryOk at hx ⊢
  cases hf : findLive a x.tid with
  | none => simp [hf] at hx
  | some t =>
    simp only [hf, Bool.and_eq_true, beq_iff_eq, decide_eq_true_eq] at hx
    rw [h.find x.tid t hf (hσs t hx.1)]
    simp [hx.1, hx.2]

/-- **Simulation of the scene step**: two states (ids unique) that give the scene the same epoch and
hold the same `σ`-tracks up to order, `σ` containing the tracks of the scene; the fresh ids pass the
check in `b` and differ from the ids of the non-`σ` tracks of `b`. -/
theorem scene_sim (cfg : Cfg) (scene : Nat) (σ : Trk → Bool)
    (hσ : ∀ t t' : Trk, t.scene = t'.scene → σ t = σ t') (hσs : ∀ t : Trk, t.scene = scene → σ t = true)
    (a b : St) (hna : (a.live.map (·.id)).Nodup) (hnb : (b.live.map (·.id)).Nodup)
    (hp : a.live.filter σ ~ b.live.filter σ) (he : epochOf a scene = epochOf b scene)
    (dets : List Det) (table : List Entry) (picks : List Pick) (lo hi : Nat)
    (hfb : freshIdsOk cfg (setEpoch b scene (epochOf b scene + 1)) lo hi picks = true)
    (hfr : ∀ id ∈ freshIds picks, ∀ y ∈ b.live, σ y = false → y.id ≠ id)
    (a' : St) (recs : List Rec) (ha : predictScene cfg a scene dets table picks lo hi = some (a', recs)) :
    ∃ b', predictScene cfg b scene dets table picks lo hi = some (b', recs) ∧
      a'.live.filter σ ~ b'.live.filter σ := by
  obtain ⟨hv, _, hap⟩ := predictScene_parts cfg a a' scene dets table picks lo hi recs ha
  have hinv := GInv.start σ a b scene (epochOf a scene + 1) hna hnb hp
  have hinv' := GInv.start σ b a scene (epochOf a scene + 1) hnb hna hp.symm
  obtain ⟨_, hc2⟩ := valid_conts cfg _ scene _ _ table picks hv
  have hc : ∀ tid vis, Pick.cont tid vis ∈ picks →
      ∃ t, findLive (setEpoch a scene (epochOf a scene + 1)) tid = some t ∧ σ t = true := by
    intro tid vis hpk
    have hm : tid ∈ (picks.map contOf).filterMap id := by
      simp only [List.mem_filterMap, List.mem_map, id_eq, exists_eq_right]
      exact ⟨_, hpk, rfl⟩
    obtain ⟨t, ht, hs, _⟩ := hc2 tid hm
    exact ⟨t, ht, hσs t hs⟩
  obtain ⟨b', _, _, _, hb', hinv2⟩ := applyPicks_gsim cfg scene _ σ hσ hσs dets picks _ _ a' recs _ _ _ hinv hc hfr hap
  have hentry : entryOk cfg (setEpoch a scene (epochOf a scene + 1)) scene (epochOf a scene + 1) =
      entryOk cfg (setEpoch b scene (epochOf a scene + 1)) scene (epochOf a scene + 1) := by
    funext x
    apply Bool.eq_iff_iff.mpr
    exact ⟨entryOk_gsim cfg σ _ _ _ _ _ hinv scene _ hσs x, entryOk_gsim cfg σ _ _ _ _ _ hinv' scene _ hσs x⟩
  have hvb : validChoice cfg (setEpoch b scene (epochOf a scene + 1)) scene (epochOf a scene + 1) dets.length table picks = true := by
    rw [← hv]
    unfold validChoice
    rw [hentry]
  refine ⟨b', ?_, hinv2.perm⟩
  unfold predictScene
  simp only
  rw [← he, hvb]
  rw [← he] at hfb
  rw [hfb]
  exact hb'

/-! ### frame: the tracks of other scenes are untouched, as lists -/

theorem filter_map_replace_q (q : Trk → Bool) (tid : Nat) (t' : Trk) (hq' : q t' = false) (l : List Trk)
    (h : ∀ x ∈ l, x.id = tid → q x = false) :
    (l.map (fun x => if (x.id == tid) = true then t' else x)).filter q = l.filter q := by
  induction l with
  | nil => rfl
  | cons y l ih =>
    have ih' := ih (fun x hx => h x (mem_cons_of_mem _ hx))
    rw [map_cons, filter_cons, filter_cons, ih']
    by_cases hy : y.id = tid
    · have h1 : (y.id == tid) = true := by simpa using hy
      rw [if_pos h1, hq', h y mem_cons_self hy]
      rfl
    · have h1 : ¬ ((y.id == tid) = true) := by simpa using hy
      rw [if_neg h1]

/-- `applyPicks` of a call on `scene` keeps the list of the tracks satisfying `q`, a property no track
of `scene` has -/
theorem applyPicks_frameq (cfg : Cfg) (scene e : Nat) (q : Trk → Bool) (hq : ∀ t : Trk, t.scene = scene → q t = false)
    (dets : List Det) (picks : List Pick) (a a' : St) (recs : List Rec)
    (hK : ∀ tid vis, Pick.cont tid vis ∈ picks → ∀ x ∈ a.live, x.id = tid → x.scene = scene)
    (ha : applyPicks cfg scene e dets picks a = some (a', recs)) : a'.live.filter q = a.live.filter q := by
  induction dets generalizing picks a recs with
  | nil =>
    cases picks with
    | nil =>
      simp only [applyPicks, Option.some.injEq, Prod.mk.injEq] at ha
      rw [← ha.1]
    | cons p ps => simp [applyPicks] at ha
  | cons d ds ih =>
    cases picks with
    | nil => simp [applyPicks] at ha
    | cons p ps =>
      obtain ⟨a1, r, rs, h1, h2, _⟩ := applyPicks_cons cfg scene e d ds p ps a a' recs ha
      cases p with
      | cont tid vis =>
        cases hf : findLive a tid with
        | none => rw [applyPick_cont_none cfg scene e a d tid vis hf] at h1; cases h1
        | some t =>
          rw [applyPick_cont_eq cfg scene e a d tid vis t hf] at h1
          simp only [Option.some.injEq, Prod.mk.injEq] at h1
          obtain ⟨e1, _⟩ := h1
          have hts : t.scene = scene := hK tid vis mem_cons_self t (findLive_mem _ _ _ hf) (findLive_id _ _ _ hf)
          have hl1 : a1.live = a.live.map (fun x => if (x.id == tid) = true then updTrk cfg e d vis t else x) := by
            rw [← e1]
          have hK' : ∀ tid2 vis2, Pick.cont tid2 vis2 ∈ ps → ∀ x ∈ a1.live, x.id = tid2 → x.scene = scene := by
            intro tid2 vis2 hp2 x hx hxid
            rw [hl1] at hx
            obtain ⟨x0, hx0, rfl⟩ := mem_map.mp hx
            split
            · exact hts
            · rename_i hne
              rw [if_neg hne] at hxid
              exact hK tid2 vis2 (mem_cons_of_mem _ hp2) x0 hx0 hxid
          rw [ih ps a1 rs hK' h2, hl1]
          exact filter_map_replace_q q tid _ (hq _ ((updTrk_scene cfg e d vis t).trans hts)) a.live
            (fun x hx hxid => hq x (hK tid vis mem_cons_self x hx hxid))
      | fresh id =>
        rw [applyPick_fresh_eq cfg scene e a d id] at h1
        simp only [Option.some.injEq, Prod.mk.injEq] at h1
        obtain ⟨e1, _⟩ := h1
        have hl1 : a1.live = a.live ++ [newTrk cfg scene e d id] := by rw [← e1]
        have hK' : ∀ tid2 vis2, Pick.cont tid2 vis2 ∈ ps → ∀ x ∈ a1.live, x.id = tid2 → x.scene = scene := by
          intro tid2 vis2 hp2 x hx hxid
          rw [hl1] at hx
          rcases mem_append.mp hx with hx | hx
          · exact hK tid2 vis2 (mem_cons_of_mem _ hp2) x hx hxid
          · rw [mem_singleton.mp hx]; rfl
        rw [ih ps a1 rs hK' h2, hl1, filter_append]
        have : [newTrk cfg scene e d id].filter q = [] := by
          rw [filter_cons, hq _ (newTrk_scene cfg scene e d id)]
          rfl
        rw [this, append_nil]

/-- **Frame, as lists**: a scene step keeps the list of the tracks satisfying `q`, a property no
track of the scene has (ids unique) -/
theorem scene_frame (cfg : Cfg) (scene : Nat) (q : Trk → Bool) (hq : ∀ t : Trk, t.scene = scene → q t = false)
    (a a' : St) (hna : (a.live.map (·.id)).Nodup) (dets : List Det) (table : List Entry) (picks : List Pick)
    (lo hi : Nat) (recs : List Rec) (ha : predictScene cfg a scene dets table picks lo hi = some (a', recs)) :
    a'.live.filter q = a.live.filter q := by
  obtain ⟨hv, _, hap⟩ := predictScene_parts cfg a a' scene dets table picks lo hi recs ha
  obtain ⟨_, hc2⟩ := valid_conts cfg _ scene _ _ table picks hv
  have hK : ∀ tid vis, Pick.cont tid vis ∈ picks →
      ∀ x ∈ (setEpoch a scene (epochOf a scene + 1)).live, x.id = tid → x.scene = scene := by
    intro tid vis hpk x hx hxid
    have hm : tid ∈ (picks.map contOf).filterMap id := by
      simp only [List.mem_filterMap, List.mem_map, id_eq, exists_eq_right]
      exact ⟨_, hpk, rfl⟩
    obtain ⟨t, ht, hs, _⟩ := hc2 tid hm
    have : x = t := find_id_unique a.live hna tid x t hx hxid ht
    rw [this]; exact hs
  exact applyPicks_frameq cfg scene _ q hq dets picks (setEpoch a scene (epochOf a scene + 1)) a' recs hK hap

/-! ### one scene step: epochs, the other fields, ids -/

theorem scene_epoch (cfg : Cfg) (scene : Nat) (a a' : St) (dets : List Det) (table : List Entry) (picks : List Pick)
    (lo hi : Nat) (recs : List Rec) (ha : predictScene cfg a scene dets table picks lo hi = some (a', recs)) (s : Nat) :
    epochOf a' s = if s = scene then epochOf a scene + 1 else epochOf a s := by
  obtain ⟨_, _, hap⟩ := predictScene_parts cfg a a' scene dets table picks lo hi recs ha
  have b7 := (applyPicks_spec cfg scene _ dets picks _ a' recs hap).2.2.2.2.2.2.1
  rw [epochOf_congr a' _ b7, epochOf_setEpoch]

theorem scene_fields (cfg : Cfg) (scene : Nat) (a a' : St) (dets : List Det) (table : List Entry) (picks : List Pick)
    (lo hi : Nat) (recs : List Rec) (ha : predictScene cfg a scene dets table picks lo hi = some (a', recs)) :
    a'.wasted = a.wasted ∧ a'.handed = a.handed ∧ a'.cleared = a.cleared ∧ a'.awPeriod = a.awPeriod ∧
    a'.awCounter = a.awCounter ∧
    a'.nextId = a.nextId + (if cfg.batchIds then picks.length else (picks.map freshCount).sum) ∧
    a'.live.map (·.id) = a.live.map (·.id) ++ freshIds picks := by
  obtain ⟨_, _, hap⟩ := predictScene_parts cfg a a' scene dets table picks lo hi recs ha
  obtain ⟨_, _, _, _, _, _, _, b8, b9, b10, _, b12⟩ := applyPicks_spec cfg scene _ dets picks _ a' recs hap
  obtain ⟨c1, c2⟩ := applyPicks_aw cfg scene _ dets picks _ a' recs hap
  exact ⟨b8, b9, b10, c1, c2, applyPicks_nextId cfg scene _ dets picks (setEpoch a scene (epochOf a scene + 1)) a' recs hap, b12⟩

/-- the id check of the batch trackers, as a proposition -/
theorem batch_fresh_iff (cfg : Cfg) (hb : cfg.batchIds = true) (st : St) (lo hi : Nat) (picks : List Pick) :
    freshIdsOk cfg st lo hi picks = true ↔
    (∀ id ∈ freshIds picks, lo < id ∧ id ≤ hi ∧ id ∉ st.live.map (·.id)) ∧ (freshIds picks).Nodup := by
  unfold freshIdsOk
  simp only [hb, if_true, Bool.and_eq_true, List.all_eq_true, decide_eq_true_eq, Bool.not_eq_true',
    List.any_eq_false, beq_iff_eq, nodupB_iff]
  constructor
  · rintro ⟨h1, h2⟩
    refine ⟨fun id hid => ?_, h2⟩
    obtain ⟨⟨x1, x2⟩, x3⟩ := h1 id hid
    refine ⟨x1, x2, ?_⟩
    intro hm
    obtain ⟨t, ht, htid⟩ := mem_map.mp hm
    exact x3 t ht htid
  · rintro ⟨h1, h2⟩
    refine ⟨fun id hid => ?_, h2⟩
    obtain ⟨x1, x2, x3⟩ := h1 id hid
    exact ⟨⟨x1, x2⟩, fun t ht htid => x3 (mem_map.mpr ⟨t, ht, htid⟩)⟩

/-- the id check of the simple trackers reads the counter only -/
theorem simple_fresh_congr (cfg : Cfg) (hb : cfg.batchIds = false) (a b : St) (h : a.nextId = b.nextId)
    (lo hi : Nat) (picks : List Pick) : freshIdsOk cfg a lo hi picks = freshIdsOk cfg b lo hi picks := by
  unfold freshIdsOk
  simp only [hb, Bool.false_eq_true, if_false, h]

/-- what a successful batch scene step knows about its fresh ids -/
theorem scene_fresh (cfg : Cfg) (hb : cfg.batchIds = true) (scene : Nat) (a a' : St) (dets : List Det)
    (table : List Entry) (picks : List Pick) (lo hi : Nat) (recs : List Rec)
    (ha : predictScene cfg a scene dets table picks lo hi = some (a', recs)) :
    (∀ id ∈ freshIds picks, lo < id ∧ id ≤ hi ∧ id ∉ a.live.map (·.id)) ∧ (freshIds picks).Nodup := by
  obtain ⟨_, hf, _⟩ := predictScene_parts cfg a a' scene dets table picks lo hi recs ha
  exact (batch_fresh_iff cfg hb _ lo hi picks).mp hf

/-- a batch scene step keeps the ids unique -/
theorem scene_nodup (cfg : Cfg) (hb : cfg.batchIds = true) (scene : Nat) (a a' : St) (hna : (a.live.map (·.id)).Nodup)
    (dets : List Det) (table : List Entry) (picks : List Pick) (lo hi : Nat) (recs : List Rec)
    (ha : predictScene cfg a scene dets table picks lo hi = some (a', recs)) : (a'.live.map (·.id)).Nodup := by
  obtain ⟨h1, h2⟩ := scene_fresh cfg hb scene a a' dets table picks lo hi recs ha
  rw [(scene_fields cfg scene a a' dets table picks lo hi recs ha).2.2.2.2.2.2]
  rw [nodup_append]
  refine ⟨hna, h2, ?_⟩
  intro x hx y hy hxy
  subst hxy
  exact (h1 x hy).2.2 hx

/-! ### splitting a list of tracks by two disjoint properties -/

theorem split3_perm (p q : Trk → Bool) (hpq : ∀ t, q t = true → p t = false) (l : List Trk) :
    l ~ l.filter p ++ (l.filter q ++ l.filter (fun t => !p t && !q t)) := by
  have h1 := (filter_append_perm p l).symm
  have h2 := (filter_append_perm q (l.filter (fun t => !p t))).symm
  rw [filter_filter, filter_filter] at h2
  have e1 : l.filter (fun t => q t && !p t) = l.filter q := by
    apply filter_congr
    intro t _
    cases hq : q t with
    | false => rfl
    | true => rw [hpq t hq]; rfl
  have e2 : l.filter (fun t => (!q t) && !p t) = l.filter (fun t => !p t && !q t) := by
    apply filter_congr
    intro t _
    exact Bool.and_comm _ _
  rw [e1, e2] at h2
  exact h1.trans (Perm.append_left _ h2)

end SimVerif.C06
