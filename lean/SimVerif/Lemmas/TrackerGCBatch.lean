import SimVerif.Props.C03b
import SimVerif.Props.C06b
import SimVerif.Props.C12
/-!
# Helper lemmas for C03 (GC timing unobservable) on VisualSORT and the batch trackers
-/
namespace SimVerif.C03
open SimVerif.Tracker SimVerif.C01 SimVerif.C06 SimVerif.C12 SimVerif.Voting List

/-! ### generic: from two one-directional simulations to the symmetric statement -/

theorem both_of_sim {α : Type} (fa fb : Option (St × α)) (R : St → St → Prop)
    (h1 : ∀ a' r, fa = some (a', r) → ∃ b', fb = some (b', r) ∧ R a' b')
    (h2 : ∀ b' r, fb = some (b', r) → ∃ a', fa = some (a', r) ∧ R a' b') :
    (fa = none ∧ fb = none) ∨ ∃ a' b' r, fa = some (a', r) ∧ fb = some (b', r) ∧ R a' b' := by
  cases ha : fa with
  | some x =>
    obtain ⟨a', r⟩ := x
    obtain ⟨b', hb', hr⟩ := h1 a' r ha
    exact Or.inr ⟨a', b', r, rfl, hb', hr⟩
  | none =>
    cases hb : fb with
    | some y =>
      obtain ⟨b', r⟩ := y
      obtain ⟨a', ha', _⟩ := h2 b' r hb
      rw [ha] at ha'
      cases ha'
    | none => exact Or.inl ⟨rfl, rfl⟩

/-! ### the appearance stage awards only tracks of the table -/

theorem award_true_mem (l : List Elt) (t : List Nat) (e : Elt) (h : (e, true) ∈ award l t) : e ∈ l := by
  induction l generalizing t with
  | nil => simp [award] at h
  | cons c rest ih =>
    unfold award at h
    split at h
    · rcases mem_cons.mp h with h | h
      · cases h
      · exact mem_cons_of_mem _ (ih t h)
    · rcases mem_cons.mp h with h | h
      · injection h with h1 _
        rw [h1]; exact mem_cons_self
      · exact mem_cons_of_mem _ (ih _ h)

theorem decided_in_table (cfg : Cfg) (table : List VEntry) (i tid : Nat)
    (h : (i, some tid) ∈ visualDecided cfg table) : ∃ x ∈ table, x.tid = tid := by
  unfold visualDecided at h
  simp only at h
  obtain ⟨q, _, hq⟩ := mem_map.mp h
  unfold decideOne at hq
  split at hq
  · rename_i e real hf
    cases real with
    | false => simp at hq
    | true =>
      simp only [if_true, Prod.mk.injEq, Option.some.injEq] at hq
      have hm : (e, true) ∈ bestfitAll Nms.F32_MAX cfg.minVotes (featStream table) := mem_of_find?_eq_some hf
      unfold bestfitAll at hm
      have he := award_true_mem _ _ _ hm
      have he' : e ∈ cands Nms.F32_MAX cfg.minVotes (featStream table) := (mergeSort_perm _ _).mem_iff.mp he
      have hk := ((mem_cands _ _ _ e).mp he').1
      obtain ⟨k, hk1, hk2⟩ := mem_map.mp hk
      unfold kept at hk1
      obtain ⟨d, hd, hdk⟩ := mem_filterMap.mp hk1
      have hdw : d.w = e.w := by
        split at hdk
        · split at hdk
          · simp only [Option.some.injEq] at hdk
            rw [← hdk] at hk2
            simp only [Prod.mk.injEq] at hk2
            exact hk2.2
          · cases hdk
        · cases hdk
      unfold featStream at hd
      obtain ⟨x, hx, hxd⟩ := mem_map.mp hd
      refine ⟨x, hx, ?_⟩
      rw [← hq.2, ← hdw, ← hxd]
  · simp at hq

/-- in a valid VisualSORT choice every continued track is live, of the scene, and unexpired -/
theorem visual_conts (cfg : Cfg) (st : St) (scene e n : Nat) (table : List VEntry) (picks : List Pick)
    (h : validVisualChoice cfg st scene e n table picks = true) :
    ∀ tid vis, Pick.cont tid vis ∈ picks →
      ∃ t, findLive st tid = some t ∧ t.scene = scene ∧ e - t.lastUpd ≤ cfg.maxIdle := by
  intro tid vis hp
  have htab : ∀ x ∈ table, entryOk cfg st scene e { det := x.det, tid := x.tid, w := 0 } = true := by
    unfold validVisualChoice at h
    simp only [Bool.and_eq_true] at h
    obtain ⟨⟨⟨_, htab⟩, _⟩, _⟩ := h
    exact fun x hx => (List.all_eq_true.mp htab) x hx
  have fin : ∀ x ∈ table, x.tid = tid →
      ∃ t, findLive st tid = some t ∧ t.scene = scene ∧ e - t.lastUpd ≤ cfg.maxIdle := by
    intro x hx hxt
    have hok := htab x hx
    unfold entryOk at hok
    simp only [hxt] at hok
    cases hf : findLive st tid with
    | none => simp [hf] at hok
    | some t =>
      simp only [hf, Bool.and_eq_true, beq_iff_eq, decide_eq_true_eq] at hok
      exact ⟨t, rfl, hok.1, hok.2⟩
  obtain ⟨i, hi⟩ := List.getElem?_of_mem hp
  obtain ⟨_, hdec, _⟩ := valid_parts cfg st scene e n table picks h
  have hd := hdec i _ hi
  cases hdi : decisionOf cfg table i with
  | none =>
    obtain ⟨y, hy, _, hyt, _, _⟩ := (C12_positional cfg st scene e n table picks h).1 i tid vis hi hdi
    exact fin y hy hyt
  | some d =>
    obtain ⟨j, o⟩ := d
    rw [hdi] at hd
    cases o with
    | none => obtain ⟨id, hid⟩ := hd; cases hid
    | some t =>
      simp only at hd
      injection hd with h1 _
      subst h1
      obtain ⟨x, hx, hxt⟩ := decided_in_table cfg table i tid (decision_mem cfg table i j _ hdi)
      exact fin x hx hxt

/-! ### validity of a VisualSORT choice under the simulation invariant -/

theorem entryOk_eq (cfg : Cfg) (q : Trk → Bool) (a b : St) (h : Inv q a b) (scene e : Nat)
    (hq : ∀ t : Trk, t.scene = scene → e - t.lastUpd ≤ cfg.maxIdle → q t = true) :
    entryOk cfg a scene e = entryOk cfg b scene e := by
  funext x
  apply Bool.eq_iff_iff.mpr
  exact ⟨entryOk_sim cfg q a b h scene e hq x, entryOk_sim cfg q b a h.symm scene e hq x⟩

theorem validVisualChoice_sim (cfg : Cfg) (q : Trk → Bool) (a b : St) (h : Inv q a b) (scene e n : Nat)
    (hq : ∀ t : Trk, t.scene = scene → e - t.lastUpd ≤ cfg.maxIdle → q t = true)
    (table : List VEntry) (picks : List Pick) :
    validVisualChoice cfg a scene e n table picks = validVisualChoice cfg b scene e n table picks := by
  have h1 := entryOk_eq cfg q a b h scene e hq
  have h2 : validChoice cfg a scene e n = validChoice cfg b scene e n := by
    funext t p
    exact validChoice_sim cfg q a b h scene e n hq t p
  unfold validVisualChoice
  rw [h1, h2]

theorem predictSceneV_parts (cfg : Cfg) (st st' : St) (scene : Nat) (dets : List Det) (table : List VEntry)
    (picks : List Pick) (lo hi : Nat) (recs : List Rec)
    (h : predictSceneV cfg st scene dets table picks lo hi = some (st', recs)) :
    validVisualChoice cfg (setEpoch st scene (epochOf st scene + 1)) scene (epochOf st scene + 1) dets.length table picks = true ∧
    freshIdsOk cfg (setEpoch st scene (epochOf st scene + 1)) lo hi picks = true ∧
    applyPicks cfg scene (epochOf st scene + 1) dets picks (setEpoch st scene (epochOf st scene + 1)) = some (st', recs) := by
  unfold predictSceneV at h
  simp only at h
  split at h
  · rename_i hv
    simp only [Bool.and_eq_true] at hv
    exact ⟨hv.1, hv.2, h⟩
  · cases h

/-- the scene step of the simple VisualSORT tracker (mirror of `predictScene_sim`) -/
theorem predictSceneV_sim (cfg : Cfg) (hb : cfg.batchIds = false) (a b : St) (hep : a.epochs = b.epochs)
    (scene : Nat)
    (h : Inv (fun t => !expired cfg (setEpoch a scene (epochOf a scene + 1)) t) a b)
    (dets : List Det) (table : List VEntry) (picks : List Pick) (a' : St) (recs : List Rec)
    (ha : predictSceneV cfg a scene dets table picks 0 0 = some (a', recs)) :
    ∃ b', predictSceneV cfg b scene dets table picks 0 0 = some (b', recs) ∧
      a'.epochs = (setEpoch a scene (epochOf a scene + 1)).epochs ∧ b'.epochs = a'.epochs ∧
      Inv (fun t => !expired cfg (setEpoch a scene (epochOf a scene + 1)) t) a' b' := by
  obtain ⟨hv, hf, hap⟩ := predictSceneV_parts cfg a a' scene dets table picks 0 0 recs ha
  have heb : epochOf b scene = epochOf a scene := (epochOf_congr a b hep scene).symm
  generalize hq : (fun t => !expired cfg (setEpoch a scene (epochOf a scene + 1)) t) = q at h ⊢
  have hinv : Inv q (setEpoch a scene (epochOf a scene + 1)) (setEpoch b scene (epochOf a scene + 1)) :=
    ⟨h.nid, h.live, h.perm, h.nd, h.bd⟩
  have hq1 : ∀ t : Trk, t.scene = scene → (epochOf a scene + 1) - t.lastUpd ≤ cfg.maxIdle → q t = true := by
    intro t hs hl
    rw [← hq]
    simp only [expired, epochOf_setEpoch, hs, if_true, Bool.not_eq_true', decide_eq_false_iff_not]
    omega
  have hq2 : ∀ t : Trk, t.scene = scene → t.lastUpd = epochOf a scene + 1 → q t = true :=
    fun t hs hl => hq1 t hs (by omega)
  have hc : ∀ tid vis, Pick.cont tid vis ∈ picks →
      ∃ t, findLive (setEpoch a scene (epochOf a scene + 1)) tid = some t ∧ t.scene = scene ∧ q t = true := by
    intro tid vis hp
    obtain ⟨t, ht, hs, he⟩ := visual_conts cfg _ scene _ _ table picks hv tid vis hp
    exact ⟨t, ht, hs, hq1 t hs he⟩
  have hfr : freshIds picks = (List.range (freshIds picks).length).map
      (fun i => (setEpoch a scene (epochOf a scene + 1)).nextId + 1 + i) := by
    unfold freshIdsOk at hf
    simp only [hb, Bool.false_eq_true, if_false, beq_iff_eq] at hf
    exact hf
  obtain ⟨b', hb', hinv'⟩ := applyPicks_sim cfg hb scene _ q hq2 dets picks _ _ a' recs hinv hc hfr hap
  have ea := (applyPicks_spec cfg scene _ dets picks _ a' recs hap).2.2.2.2.2.2.1
  have eb := (applyPicks_spec cfg scene _ dets picks _ b' recs hb').2.2.2.2.2.2.1
  refine ⟨b', ?_, ea, ?_, hinv'⟩
  · unfold predictSceneV
    simp only
    rw [heb, ← validVisualChoice_sim cfg q _ _ hinv scene _ _ hq1 table picks,
      ← freshIdsOk_congr cfg hb _ _ hinv.nid 0 0 picks, hv, hf]
    exact hb'
  · rw [ea, eb]
    show b.epochs.filter _ ++ _ = a.epochs.filter _ ++ _
    rw [hep]

theorem equiv_predictV (cfg : Cfg) (hb : cfg.batchIds = false) (a b : St) (h : Equiv cfg a b)
    (scene : Nat) (dets : List Det) (table : List VEntry) (picks : List Pick) (a' : St) (recs : List Rec)
    (ha : predictV cfg a scene dets table picks = some (a', recs)) :
    ∃ b', predictV cfg b scene dets table picks = some (b', recs) ∧ Equiv cfg a' b' := by
  obtain ⟨_, _, _, _, nda, ndb, bda, bdb⟩ := id h
  have h1 : Equiv cfg (awStep cfg a) (awStep cfg b) :=
    (equiv_awStep cfg a nda bda).symm.trans (h.trans (equiv_awStep cfg b ndb bdb))
  have h2 := equiv_setEpoch cfg _ _ h1 scene (epochOf (awStep cfg a) scene + 1) (by omega)
  obtain ⟨he, hi⟩ := (equiv_iff cfg _ _).mp h2
  obtain ⟨he1, _⟩ := (equiv_iff cfg _ _).mp h1
  have hi' : Inv (fun t => !expired cfg (setEpoch (awStep cfg a) scene (epochOf (awStep cfg a) scene + 1)) t)
      (awStep cfg a) (awStep cfg b) := ⟨hi.nid, hi.live, hi.perm, hi.nd, hi.bd⟩
  obtain ⟨b', hb', ea, eb, hinv⟩ := predictSceneV_sim cfg hb _ _ he1 scene hi' dets table picks a' recs ha
  refine ⟨b', hb', (equiv_iff cfg _ _).mpr ⟨eb.symm, ?_⟩⟩
  rw [expired_congr cfg a' _ ea]
  exact hinv

/-! ## the batch trackers (`batchIds = true`) -/

/-- the state with the id counter overwritten (the counter is only written, never read, by the
picks of a batch tracker; the id bound of `Inv` is kept at the end `hi` of the batch's range) -/
abbrev setN (s : St) (n : Nat) : St := { s with nextId := n }

theorem entryOk_setN (cfg : Cfg) (s : St) (n : Nat) : entryOk cfg (setN s n) = entryOk cfg s := rfl
theorem validChoice_setN (cfg : Cfg) (s : St) (n : Nat) : validChoice cfg (setN s n) = validChoice cfg s := rfl
theorem validVisualChoice_setN (cfg : Cfg) (s : St) (n : Nat) :
    validVisualChoice cfg (setN s n) = validVisualChoice cfg s := rfl

/-- starting the track `x` (an id not held, within the bound) in both states, counters untouched -/
theorem Inv.freshB {q : Trk → Bool} {a b : St} (h : Inv q a b) (x : Trk)
    (hx : x.id ∉ (a.live ++ a.wasted).map (·.id)) (hle : x.id ≤ a.nextId) :
    Inv q { a with live := a.live ++ [x] } { b with live := b.live ++ [x] } := by
  have hp : ∀ s : St, (s.live ++ [x]) ++ s.wasted ~ x :: (s.live ++ s.wasted) := by
    intro s
    rw [append_assoc]
    exact perm_middle
  refine ⟨h.nid, ?_, ?_, ?_, ?_⟩
  · show (a.live ++ [x]).filter q = (b.live ++ [x]).filter q
    rw [filter_append, filter_append, h.live]
  · show (a.live ++ [x]) ++ a.wasted ~ (b.live ++ [x]) ++ b.wasted
    exact (hp a).trans ((h.perm.cons x).trans (hp b).symm)
  · show (((a.live ++ [x]) ++ a.wasted).map (·.id)).Nodup
    rw [((hp a).map (fun t : Trk => t.id)).nodup_iff, map_cons, nodup_cons]
    exact ⟨hx, h.nd⟩
  · intro y hy
    show y.id ≤ a.nextId
    rcases mem_cons.mp ((hp a).mem_iff.mp hy) with rfl | hy
    · exact hle
    · exact h.bd y hy

/-- **Simulation of `applyPicks`, batch trackers**: every pick bumps the counter; the fresh ids are
not held by the state, pairwise distinct and within the bound `hi`. -/
theorem applyPicks_bsim (cfg : Cfg) (_hb : cfg.batchIds = true) (scene e : Nat) (q : Trk → Bool)
    (hq : ∀ t : Trk, t.scene = scene → t.lastUpd = e → q t = true) (hi : Nat)
    (dets : List Det) (picks : List Pick) (a b a' : St) (recs : List Rec)
    (hn : a.nextId = b.nextId) (h : Inv q (setN a hi) (setN b hi))
    (hc : ∀ tid vis, Pick.cont tid vis ∈ picks → ∃ t, findLive a tid = some t ∧ t.scene = scene ∧ q t = true)
    (hfr : ∀ id ∈ freshIds picks, id ≤ hi ∧ id ∉ (a.live ++ a.wasted).map (·.id))
    (hnd : (freshIds picks).Nodup)
    (ha : applyPicks cfg scene e dets picks a = some (a', recs)) :
    ∃ b', applyPicks cfg scene e dets picks b = some (b', recs) ∧ a'.nextId = b'.nextId ∧
      Inv q (setN a' hi) (setN b' hi) := by
  induction dets generalizing picks a b recs with
  | nil =>
    cases picks with
    | nil =>
      simp only [applyPicks, Option.some.injEq, Prod.mk.injEq] at ha
      obtain ⟨h1, h2⟩ := ha
      subst h1; subst h2
      exact ⟨b, rfl, hn, h⟩
    | cons p ps => simp [applyPicks] at ha
  | cons d ds ih =>
    cases picks with
    | nil => simp [applyPicks] at ha
    | cons p ps =>
      obtain ⟨a1, r, rs, h1, h2, hr⟩ := applyPicks_cons cfg scene e d ds p ps a a' recs ha
      subst hr
      cases p with
      | cont tid vis =>
        obtain ⟨t, hf, hs, hqt⟩ := hc tid vis mem_cons_self
        rw [applyPick_cont_eq cfg scene e a d tid vis t hf] at h1
        simp only [Option.some.injEq, Prod.mk.injEq] at h1
        obtain ⟨e1, e2⟩ := h1
        have hfb : findLive b tid = some t := h.find tid t hf hqt
        have hqt' : q (updTrk cfg e d vis t) = true := hq _ hs rfl
        have hidt' : (updTrk cfg e d vis t).id = tid := (findLive_id _ _ _ hf : t.id = tid)
        have hinv := h.cont tid t (updTrk cfg e d vis t) hf hqt hqt' hidt'
        have hn1 : a1.nextId = ({ b with nextId := b.nextId + (if cfg.batchIds then 1 else 0), live := b.live.map (fun x => if (x.id == tid) = true then updTrk cfg e d vis t else x) } : St).nextId := by
          rw [← e1]
          show a.nextId + _ = b.nextId + _
          rw [hn]
        have hinv1 : Inv q (setN a1 hi) (setN ({ b with nextId := b.nextId + (if cfg.batchIds then 1 else 0), live := b.live.map (fun x => if (x.id == tid) = true then updTrk cfg e d vis t else x) } : St) hi) := by
          rw [← e1]
          exact hinv
        have hc' : ∀ tid2 vis2, Pick.cont tid2 vis2 ∈ ps →
            ∃ t2, findLive a1 tid2 = some t2 ∧ t2.scene = scene ∧ q t2 = true := by
          intro tid2 vis2 hp2
          obtain ⟨t2, hf2, hs2, hq2⟩ := hc tid2 vis2 (mem_cons_of_mem _ hp2)
          rw [← e1]
          unfold findLive at hf2 ⊢
          simp only
          rw [find_map_replace tid _ hidt' tid2 a.live, hf2]
          refine ⟨(if (t2.id == tid) = true then updTrk cfg e d vis t else t2), rfl, ?_, ?_⟩
          · split
            · exact hs
            · exact hs2
          · split
            · exact hqt'
            · exact hq2
        have hfr' : ∀ id ∈ freshIds ps, id ≤ hi ∧ id ∉ (a1.live ++ a1.wasted).map (·.id) := by
          intro id hid
          obtain ⟨g1, g2⟩ := hfr id (by rw [freshIds_cont]; exact hid)
          refine ⟨g1, ?_⟩
          rw [← e1]
          show id ∉ (a.live.map _ ++ a.wasted).map (fun t : Trk => t.id)
          rw [map_append, map_replace_ids tid _ hidt', ← map_append]
          exact g2
        have hnd' : (freshIds ps).Nodup := by rw [freshIds_cont] at hnd; exact hnd
        obtain ⟨b2, hb2, hn2, hinv2⟩ := ih ps a1 _ rs hn1 hinv1 hc' hfr' hnd' h2
        refine ⟨b2, ?_, hn2, hinv2⟩
        rw [← e2]
        exact applyPicks_cons_eq cfg scene e d ds _ ps b _ b2 _ rs
          (applyPick_cont_eq cfg scene e b d tid vis t hfb) hb2
      | fresh id =>
        rw [applyPick_fresh_eq cfg scene e a d id] at h1
        simp only [Option.some.injEq, Prod.mk.injEq] at h1
        obtain ⟨e1, e2⟩ := h1
        rw [freshIds_fresh, nodup_cons] at hnd
        obtain ⟨g1, g2⟩ := hfr id (by rw [freshIds_fresh]; exact mem_cons_self)
        have hinv := h.freshB (newTrk cfg scene e d id) g2 g1
        have hn1 : a1.nextId = ({ b with nextId := b.nextId + 1, live := b.live ++ [newTrk cfg scene e d id] } : St).nextId := by
          rw [← e1]
          show a.nextId + 1 = b.nextId + 1
          rw [hn]
        have hinv1 : Inv q (setN a1 hi)
            (setN ({ b with nextId := b.nextId + 1, live := b.live ++ [newTrk cfg scene e d id] } : St) hi) := by
          rw [← e1]
          exact hinv
        have hc' : ∀ tid2 vis2, Pick.cont tid2 vis2 ∈ ps →
            ∃ t2, findLive a1 tid2 = some t2 ∧ t2.scene = scene ∧ q t2 = true := by
          intro tid2 vis2 hp2
          obtain ⟨t2, hf2, hs2, hq2⟩ := hc tid2 vis2 (mem_cons_of_mem _ hp2)
          refine ⟨t2, ?_, hs2, hq2⟩
          rw [← e1]
          unfold findLive at hf2 ⊢
          simp only
          rw [find?_append, hf2]
          rfl
        have hfr' : ∀ id' ∈ freshIds ps, id' ≤ hi ∧ id' ∉ (a1.live ++ a1.wasted).map (·.id) := by
          intro id' hid'
          obtain ⟨k1, k2⟩ := hfr id' (by rw [freshIds_fresh]; exact mem_cons_of_mem _ hid')
          refine ⟨k1, ?_⟩
          rw [← e1]
          show id' ∉ ((a.live ++ [newTrk cfg scene e d id]) ++ a.wasted).map (fun t : Trk => t.id)
          intro hm
          obtain ⟨y, hy, hyid⟩ := mem_map.mp hm
          rcases mem_append.mp hy with hy | hy
          · rcases mem_append.mp hy with hy | hy
            · exact k2 (mem_map.mpr ⟨y, mem_append_left _ hy, hyid⟩)
            · rw [mem_singleton.mp hy] at hyid
              have : id = id' := hyid
              exact hnd.1 (this ▸ hid')
          · exact k2 (mem_map.mpr ⟨y, mem_append_right _ hy, hyid⟩)
        obtain ⟨b2, hb2, hn2, hinv2⟩ := ih ps a1 _ rs hn1 hinv1 hc' hfr' hnd.2 h2
        refine ⟨b2, ?_, hn2, hinv2⟩
        rw [← e2]
        exact applyPicks_cons_eq cfg scene e d ds _ ps b _ b2 _ rs
          (applyPick_fresh_eq cfg scene e b d id) hb2

/-- the relation carried through the scenes of one batch: same epochs and counter, agreement on the
unexpired live tracks, the same tracks held overall, ids unique and at most `hi`; collected tracks
are older than the batch (ids at most `lo`) -/
structure BRel (cfg : Cfg) (lo hi : Nat) (a b : St) : Prop where
  ep : a.epochs = b.epochs
  nid : a.nextId = b.nextId
  inv : Inv (fun t => !expired cfg a t) (setN a hi) (setN b hi)
  wa : ∀ t ∈ a.wasted, t.id ≤ lo
  wb : ∀ t ∈ b.wasted, t.id ≤ lo

theorem BRel.symm {cfg : Cfg} {lo hi : Nat} {a b : St} (h : BRel cfg lo hi a b) : BRel cfg lo hi b a := by
  refine ⟨h.ep.symm, h.nid.symm, ?_, h.wb, h.wa⟩
  rw [← expired_congr cfg a b h.ep]
  exact h.inv.symm

/-- the common part of the scene step of the two batch trackers: id check and picks -/
theorem scene_core (cfg : Cfg) (hb : cfg.batchIds = true) (lo hi : Nat) (a b : St) (h : BRel cfg lo hi a b)
    (scene : Nat) (dets : List Det) (picks : List Pick) (a' : St) (recs : List Rec)
    (hc : ∀ tid vis, Pick.cont tid vis ∈ picks →
      ∃ t, findLive a tid = some t ∧ t.scene = scene ∧ (epochOf a scene + 1) - t.lastUpd ≤ cfg.maxIdle)
    (hf : freshIdsOk cfg (setEpoch a scene (epochOf a scene + 1)) lo hi picks = true)
    (hap : applyPicks cfg scene (epochOf a scene + 1) dets picks (setEpoch a scene (epochOf a scene + 1)) = some (a', recs)) :
    (∀ t : Trk, t.scene = scene → (epochOf a scene + 1) - t.lastUpd ≤ cfg.maxIdle →
        (!expired cfg (setEpoch a scene (epochOf a scene + 1)) t) = true) ∧
    Inv (fun t => !expired cfg (setEpoch a scene (epochOf a scene + 1)) t)
      (setN (setEpoch a scene (epochOf a scene + 1)) hi) (setN (setEpoch b scene (epochOf a scene + 1)) hi) ∧
    ∃ b', freshIdsOk cfg (setEpoch b scene (epochOf a scene + 1)) lo hi picks = true ∧
      applyPicks cfg scene (epochOf a scene + 1) dets picks (setEpoch b scene (epochOf a scene + 1)) = some (b', recs) ∧
      BRel cfg lo hi a' b' := by
  generalize hq : (fun t => !expired cfg (setEpoch a scene (epochOf a scene + 1)) t) = q
  have hq1 : ∀ t : Trk, t.scene = scene → (epochOf a scene + 1) - t.lastUpd ≤ cfg.maxIdle → q t = true := by
    intro t hs hl
    rw [← hq]
    simp only [expired, epochOf_setEpoch, hs, if_true, Bool.not_eq_true', decide_eq_false_iff_not]
    omega
  have hq2 : ∀ t : Trk, t.scene = scene → t.lastUpd = epochOf a scene + 1 → q t = true :=
    fun t hs hl => hq1 t hs (by omega)
  have hm : Inv q (setN a hi) (setN b hi) := by
    rw [← hq]
    refine h.inv.mono ?_
    intro t ht
    simp only [expired, epochOf_setEpoch, Bool.not_eq_true', decide_eq_false_iff_not] at ht ⊢
    split at ht <;> rename_i hs
    · rw [hs]; omega
    · exact ht
  have hinv : Inv q (setN (setEpoch a scene (epochOf a scene + 1)) hi) (setN (setEpoch b scene (epochOf a scene + 1)) hi) :=
    ⟨hm.nid, hm.live, hm.perm, hm.nd, hm.bd⟩
  obtain ⟨f1, f2⟩ := (batch_fresh_iff cfg hb _ lo hi picks).mp hf
  have hfa : ∀ id ∈ freshIds picks, id ≤ hi ∧
      id ∉ ((setEpoch a scene (epochOf a scene + 1)).live ++ (setEpoch a scene (epochOf a scene + 1)).wasted).map (·.id) := by
    intro id hid
    obtain ⟨g1, g2, g3⟩ := f1 id hid
    refine ⟨g2, ?_⟩
    intro hmem
    obtain ⟨y, hy, hyid⟩ := mem_map.mp hmem
    rcases mem_append.mp hy with hy | hy
    · exact g3 (mem_map.mpr ⟨y, hy, hyid⟩)
    · have := h.wa y hy
      omega
  have hca : ∀ tid vis, Pick.cont tid vis ∈ picks →
      ∃ t, findLive (setEpoch a scene (epochOf a scene + 1)) tid = some t ∧ t.scene = scene ∧ q t = true := by
    intro tid vis hp
    obtain ⟨t, ht, hs, he⟩ := hc tid vis hp
    exact ⟨t, ht, hs, hq1 t hs he⟩
  obtain ⟨b', hb', hn', hinv'⟩ := applyPicks_bsim cfg hb scene _ q hq2 hi dets picks
    (setEpoch a scene (epochOf a scene + 1)) (setEpoch b scene (epochOf a scene + 1)) a' recs h.nid hinv hca hfa f2 hap
  obtain ⟨_, _, _, _, _, _, ea, wa', _⟩ := applyPicks_spec cfg scene _ dets picks _ a' recs hap
  obtain ⟨_, _, _, _, _, _, eb, wb', _⟩ := applyPicks_spec cfg scene _ dets picks _ b' recs hb'
  subst hq
  refine ⟨hq1, hinv, b', ?_, hb', ?_, hn', ?_, ?_, ?_⟩
  · refine (batch_fresh_iff cfg hb _ lo hi picks).mpr ⟨?_, f2⟩
    intro id hid
    obtain ⟨g1, g2, g3⟩ := f1 id hid
    refine ⟨g1, g2, ?_⟩
    intro hmem
    obtain ⟨y, hy, hyid⟩ := mem_map.mp hmem
    have hy' : y ∈ (setN a hi).live ++ (setN a hi).wasted :=
      hm.perm.mem_iff.mpr (mem_append_left _ hy)
    exact (hfa id hid).2 (mem_map.mpr ⟨y, hy', hyid⟩)
  · rw [ea, eb]
    show a.epochs.filter _ ++ _ = b.epochs.filter _ ++ _
    rw [h.ep]
  · rw [expired_congr cfg a' _ ea]
    exact hinv'
  · intro t ht
    rw [wa'] at ht
    exact h.wa t ht
  · intro t ht
    rw [wb'] at ht
    exact h.wb t ht

/-- **scene step, batch SORT** -/
theorem predictScene_bsim (cfg : Cfg) (hb : cfg.batchIds = true) (lo hi : Nat) (a b : St) (h : BRel cfg lo hi a b)
    (scene : Nat) (dets : List Det) (table : List Entry) (picks : List Pick) (a' : St) (recs : List Rec)
    (ha : predictScene cfg a scene dets table picks lo hi = some (a', recs)) :
    ∃ b', predictScene cfg b scene dets table picks lo hi = some (b', recs) ∧ BRel cfg lo hi a' b' := by
  obtain ⟨hv, hf, hap⟩ := predictScene_parts cfg a a' scene dets table picks lo hi recs ha
  have heb : epochOf b scene = epochOf a scene := (epochOf_congr a b h.ep scene).symm
  obtain ⟨_, hc2⟩ := valid_conts cfg _ scene _ _ table picks hv
  have hc : ∀ tid vis, Pick.cont tid vis ∈ picks →
      ∃ t, findLive a tid = some t ∧ t.scene = scene ∧ (epochOf a scene + 1) - t.lastUpd ≤ cfg.maxIdle := by
    intro tid vis hp
    have hm : tid ∈ (picks.map contOf).filterMap id := by
      simp only [List.mem_filterMap, List.mem_map, id_eq, exists_eq_right]
      exact ⟨_, hp, rfl⟩
    exact hc2 tid hm
  obtain ⟨hq1, hinv, b', hfb, hapb, hrel⟩ := scene_core cfg hb lo hi a b h scene dets picks a' recs hc hf hap
  refine ⟨b', ?_, hrel⟩
  have hvb : validChoice cfg (setEpoch a scene (epochOf a scene + 1)) scene (epochOf a scene + 1) dets.length table picks =
      validChoice cfg (setEpoch b scene (epochOf a scene + 1)) scene (epochOf a scene + 1) dets.length table picks :=
    validChoice_sim cfg _ _ _ hinv scene _ dets.length hq1 table picks
  rw [hv] at hvb
  unfold predictScene
  simp only
  rw [heb, ← hvb, hfb]
  exact hapb

/-- **scene step, batch VisualSORT** -/
theorem predictSceneV_bsim (cfg : Cfg) (hb : cfg.batchIds = true) (lo hi : Nat) (a b : St) (h : BRel cfg lo hi a b)
    (scene : Nat) (dets : List Det) (table : List VEntry) (picks : List Pick) (a' : St) (recs : List Rec)
    (ha : predictSceneV cfg a scene dets table picks lo hi = some (a', recs)) :
    ∃ b', predictSceneV cfg b scene dets table picks lo hi = some (b', recs) ∧ BRel cfg lo hi a' b' := by
  obtain ⟨hv, hf, hap⟩ := predictSceneV_parts cfg a a' scene dets table picks lo hi recs ha
  have heb : epochOf b scene = epochOf a scene := (epochOf_congr a b h.ep scene).symm
  have hc := visual_conts cfg _ scene _ _ table picks hv
  obtain ⟨hq1, hinv, b', hfb, hapb, hrel⟩ := scene_core cfg hb lo hi a b h scene dets picks a' recs hc hf hap
  refine ⟨b', ?_, hrel⟩
  have hvb : validVisualChoice cfg (setEpoch a scene (epochOf a scene + 1)) scene (epochOf a scene + 1) dets.length table picks =
      validVisualChoice cfg (setEpoch b scene (epochOf a scene + 1)) scene (epochOf a scene + 1) dets.length table picks :=
    validVisualChoice_sim cfg _ _ _ hinv scene _ dets.length hq1 table picks
  rw [hv] at hvb
  unfold predictSceneV
  simp only
  rw [heb, ← hvb, hfb]
  exact hapb

/-- the scenes of a batch, one after the other (batch SORT) -/
theorem batchScenes_bsim (cfg : Cfg) (hb : cfg.batchIds = true) (lo hi : Nat)
    (scenes : List (Nat × List Det × List Entry × List Pick)) (a b : St) (h : BRel cfg lo hi a b)
    (a' : St) (out : List (Nat × List Rec)) (ha : batchScenes cfg lo hi scenes a = some (a', out)) :
    ∃ b', batchScenes cfg lo hi scenes b = some (b', out) ∧ BRel cfg lo hi a' b' := by
  induction scenes generalizing a b out with
  | nil =>
    simp only [batchScenes, Option.some.injEq, Prod.mk.injEq] at ha
    obtain ⟨e1, e2⟩ := ha
    subst e1; subst e2
    exact ⟨b, rfl, h⟩
  | cons x rest ih =>
    obtain ⟨a1, r, out', h1, h2, ho⟩ := batchScenes_cons_inv cfg lo hi x rest a a' out ha
    subst ho
    obtain ⟨b1, hb1, hrel1⟩ := predictScene_bsim cfg hb lo hi a b h x.1 x.2.1 x.2.2.1 x.2.2.2 a1 r h1
    obtain ⟨b2, hb2, hrel2⟩ := ih a1 b1 hrel1 out' h2
    exact ⟨b2, batchScenes_cons_eq cfg lo hi x rest b b1 b2 r out' hb1 hb2, hrel2⟩

/-- the scenes of a batch, one after the other (batch VisualSORT) -/
theorem batchScenesV_bsim (cfg : Cfg) (hb : cfg.batchIds = true) (lo hi : Nat)
    (scenes : List (Nat × List Det × List VEntry × List Pick)) (a b : St) (h : BRel cfg lo hi a b)
    (a' : St) (out : List (Nat × List Rec)) (ha : batchScenesV cfg lo hi scenes a = some (a', out)) :
    ∃ b', batchScenesV cfg lo hi scenes b = some (b', out) ∧ BRel cfg lo hi a' b' := by
  induction scenes generalizing a b out with
  | nil =>
    simp only [batchScenesV, Option.some.injEq, Prod.mk.injEq] at ha
    obtain ⟨e1, e2⟩ := ha
    subst e1; subst e2
    exact ⟨b, rfl, h⟩
  | cons x rest ih =>
    obtain ⟨scene, dets, table, picks⟩ := x
    simp only [batchScenesV] at ha
    cases h1 : predictSceneV cfg a scene dets table picks lo hi with
    | none => simp [h1] at ha
    | some y =>
      obtain ⟨a1, r⟩ := y
      simp only [h1] at ha
      cases h2 : batchScenesV cfg lo hi rest a1 with
      | none => simp [h2] at ha
      | some z =>
        obtain ⟨a2, out'⟩ := z
        simp only [h2, Option.some.injEq, Prod.mk.injEq] at ha
        obtain ⟨e1, e2⟩ := ha
        subst e1; subst e2
        obtain ⟨b1, hb1, hrel1⟩ := predictSceneV_bsim cfg hb lo hi a b h scene dets table picks a1 r h1
        obtain ⟨b2, hb2, hrel2⟩ := ih a1 b1 hrel1 out' h2
        refine ⟨b2, ?_, hrel2⟩
        simp only [batchScenesV, hb1, hb2]

/-- entering a batch: after the countdown, indistinguishable states are related -/
theorem brel_start (cfg : Cfg) (a b : St) (h : Equiv cfg a b) (n : Nat) :
    (awStep cfg b).nextId = (awStep cfg a).nextId ∧
    BRel cfg (awStep cfg a).nextId ((awStep cfg a).nextId + n) (awStep cfg a) (awStep cfg b) := by
  obtain ⟨_, _, _, _, nda, ndb, bda, bdb⟩ := id h
  have h1 : Equiv cfg (awStep cfg a) (awStep cfg b) :=
    (equiv_awStep cfg a nda bda).symm.trans (h.trans (equiv_awStep cfg b ndb bdb))
  obtain ⟨he1, hi1⟩ := (equiv_iff cfg _ _).mp h1
  refine ⟨hi1.nid.symm, he1, hi1.nid, ⟨rfl, hi1.live, hi1.perm, hi1.nd, ?_⟩, ?_, ?_⟩
  · intro t ht
    have := hi1.bd t ht
    show t.id ≤ (awStep cfg a).nextId + n
    omega
  · intro t ht
    exact hi1.bd t (mem_append_right _ ht)
  · intro t ht
    have := hi1.symm.bd t (mem_append_right _ ht)
    rw [hi1.nid]
    exact this

/-- leaving a batch: the counter is set to the end of the range -/
theorem brel_finish (cfg : Cfg) (lo hi : Nat) (a b : St) (h : BRel cfg lo hi a b) :
    Equiv cfg { a with nextId := hi } { b with nextId := hi } :=
  (equiv_iff cfg _ _).mpr ⟨h.ep, h.inv⟩

theorem equiv_predictBatch (cfg : Cfg) (hb : cfg.batchIds = true) (a b : St) (h : Equiv cfg a b)
    (scenes : List (Nat × List Det × List Entry × List Pick)) (a' : St) (out : List (Nat × List Rec))
    (ha : predictBatch cfg a scenes = some (a', out)) :
    ∃ b', predictBatch cfg b scenes = some (b', out) ∧ Equiv cfg a' b' := by
  obtain ⟨hnb, hrel⟩ := brel_start cfg a b h ((scenes.map (fun s => s.2.1.length)).foldl (· + ·) 0)
  unfold predictBatch at ha ⊢
  simp only at ha ⊢
  rw [hnb]
  generalize (awStep cfg a).nextId + (scenes.map (fun s => s.2.1.length)).foldl (· + ·) 0 = hi at ha hrel ⊢
  cases hbs : batchScenes cfg (awStep cfg a).nextId hi scenes (awStep cfg a) with
  | none => rw [hbs] at ha; cases ha
  | some x =>
    obtain ⟨s₁, o₁⟩ := x
    rw [hbs] at ha
    simp only [Option.map_some, Option.some.injEq, Prod.mk.injEq] at ha
    obtain ⟨e1, e2⟩ := ha
    subst e1; subst e2
    obtain ⟨s₂, g1, g2⟩ := batchScenes_bsim cfg hb _ hi scenes _ _ hrel s₁ o₁ hbs
    exact ⟨{ s₂ with nextId := hi }, by rw [g1]; rfl, brel_finish cfg _ hi s₁ s₂ g2⟩

theorem equiv_predictBatchV (cfg : Cfg) (hb : cfg.batchIds = true) (a b : St) (h : Equiv cfg a b)
    (scenes : List (Nat × List Det × List VEntry × List Pick)) (a' : St) (out : List (Nat × List Rec))
    (ha : predictBatchV cfg a scenes = some (a', out)) :
    ∃ b', predictBatchV cfg b scenes = some (b', out) ∧ Equiv cfg a' b' := by
  obtain ⟨hnb, hrel⟩ := brel_start cfg a b h ((scenes.map (fun s => s.2.1.length)).foldl (· + ·) 0)
  unfold predictBatchV at ha ⊢
  simp only at ha ⊢
  rw [hnb]
  generalize (awStep cfg a).nextId + (scenes.map (fun s => s.2.1.length)).foldl (· + ·) 0 = hi at ha hrel ⊢
  cases hbs : batchScenesV cfg (awStep cfg a).nextId hi scenes (awStep cfg a) with
  | none => rw [hbs] at ha; cases ha
  | some x =>
    obtain ⟨s₁, o₁⟩ := x
    rw [hbs] at ha
    simp only [Option.map_some, Option.some.injEq, Prod.mk.injEq] at ha
    obtain ⟨e1, e2⟩ := ha
    subst e1; subst e2
    obtain ⟨s₂, g1, g2⟩ := batchScenesV_bsim cfg hb _ hi scenes _ _ hrel s₁ o₁ hbs
    exact ⟨{ s₂ with nextId := hi }, by rw [g1]; rfl, brel_finish cfg _ hi s₁ s₂ g2⟩

end SimVerif.C03
