import SimVerif.Driver.Common
import SimVerif.Driver.Kf
import SimVerif.Model.SortMetric
namespace SimVerif.Driver.SMetricD
open SimVerif.Wire SimVerif.Geom SimVerif.Kalman SimVerif.SortMetric SimVerif.Driver

/-- `xc yc angle|- aspect height conf cos sin` -/
def parseSeen : List String → Option ((UBox Rat × Rat × Rat) × List String)
  | xc :: yc :: ang :: asp :: h :: cf :: c :: s :: ts => do
    let xc ← rat? xc; let yc ← rat? yc; let ang ← optTok rat? ang; let asp ← rat? asp; let h ← rat? h
    let cf ← rat? cf; let c ← rat? c; let s ← rat? s
    pure (({ xc := xc, yc := yc, angle := ang, aspect := asp, height := h, conf := cf }, c, s), ts)
  | _ => none

def handleWith (wp wv : Rat) (args impl : List String) : String :=
  let method? : Option (Option Rat × List String) := match args with
    | "iou" :: t :: rest => (rat? t).map (fun t => (some t, rest))
    | "maha" :: rest => some (none, rest)
    | _ => none
  match method? with
  | none => bad "method"
  | some (thr?, rest) =>
    match rest with
    | mcT :: _ =>
      match rat? mcT, impl with
      | some minconf, "C" :: r1 =>
        match parseSeen r1 with
        | some ((cb, cc, sc), "T" :: r2) =>
          match parseSeen r2 with
          | some ((tb, ct, st), "S" :: r3) =>
            match KfD.takeRats 26 r3 with
            | some (sraw, "N" :: nT :: attrs) =>
              match KfD.decodeState 5 sraw, nT.toNat? with
              | some (state, _), some n =>
                let implAttr : Option (Option Rat) := if n == 0 then none else
                  match attrs with
                  | [a] => (optTok rat? a)
                  | _ => none
                let tf := tooFar cb tb
                -- C02 speaks of the track's *last estimated box*: the box the metric sees for the track must be the box of the
                -- track's filter state (positions 0..4 of the mean; angle `None` iff the state's angle is 0), bit for bit
                let means := state.map (·.p)
                let isEst := tb.xc == means.getD 0 0 && tb.yc == means.getD 1 0 && tb.angle.getD 0 == means.getD 2 0 &&
                  tb.aspect == means.getD 3 0 && tb.height == means.getD 4 0
                let ra := radiusSq cb; let rb := radiusSq tb
                let dd := (cb.xc - tb.xc) * (cb.xc - tb.xc) + (cb.yc - tb.yc) * (cb.yc - tb.yc)
                let rsum := ra + rb + 2 * ratSqrt (ra * rb)
                let nearBand := decide (rabs (dd - rsum) ≤ rsum / 100000)
                let conf := confOf minconf cb.conf
                match thr? with
                | some thr =>
                  let m := metricIoU thr minconf cb tb cc sc ct st
                  let mw : Option Rat := (iou cb tb cc sc ct st).map (fun e => e * conf)
                  -- guard band around the threshold (f32 rounding of IoU * conf)
                  let nearThr := match mw with | some w => decide (rabs (w - thr) ≤ thr / 20000 + 1 / 1000000) | none => false
                  let same := match m, implAttr with
                    | none, none => true
                    | some none, some none => true
                    | some (some a), some (some b) => close a b (1/5000) (1/1000000)
                    | _, _ => false
                  -- independent statement of the gate: appears with weight w iff not too far, overlap, w = IoU*max(conf,minconf) >= thr
                  let spec : Option (Option Rat) := if tf then none else some (match mw with
                    | some w => if thr ≤ w then some w else none | none => none)
                  let oSame := match spec, implAttr with
                    | none, none => true
                    | some none, some none => true
                    | some (some a), some (some b) => close a b (1/5000) (1/1000000)
                    | _, _ => false
                  res (nearBand || nearThr || same) ((nearBand || nearThr || oSame) && isEst)
                    (flag (!isEst) "track-box-is-not-the-filter-estimate" ++ flag tf "too-far" ++ flag (m == some none) "below-gate" ++ flag (match m with | some (some _) => true | _ => false) "gated-in" ++
                     flag (decide (cb.conf < minconf)) "confidence-raised" ++ flag nearThr "guard-band" ++ flag (cb.angle.isSome || tb.angle.isSome) "rotated")
                    s!"model={m.map (fun o => o.map showRat)} impl={implAttr.map (fun o => o.map showRat)}"
                | none =>
                  let cfg := KfD.boxCfg wp wv
                  let z := [cb.xc, cb.yc, cb.angle.getD 0, cb.aspect, cb.height]
                  let d := boxDistance cfg state z
                  let gate := Gen.CHI2INV95.getD Gen.boxCostGateInverted 0
                  let m := metricMaha gate Gen.CHI2_UPPER_BOUND minconf cb tb d
                  let nearGate := decide (rabs (d - gate) ≤ gate / 2000)
                  let same := match m, implAttr with
                    | none, none => true
                    | some (some a), some (some b) => close a b (1/500) (1/1000)
                    | _, _ => false
                  -- the property's gate: weight >= 1 (the voting threshold) iff within the chi-square gate and not too far
                  let g95 := Gen.CHI2INV95.getD 4 0
                  let oGate := match implAttr with
                    | none => tf
                    | some (some w) => !tf && (decide (w ≥ 1) == decide (d ≤ g95))
                    | some none => false
                  res (nearBand || nearGate || same) ((nearBand || nearGate || oGate) && isEst)
                    (flag (!isEst) "track-box-is-not-the-filter-estimate" ++ flag tf "too-far" ++ flag (decide (d > gate)) "beyond-chi2-gate" ++ flag (decide (d ≤ gate) && !tf) "gated-in" ++
                     flag (decide (cb.conf < minconf)) "confidence-raised" ++ flag nearGate "guard-band")
                    s!"d={showRat d} model={m.map (fun o => o.map showRat)} impl={implAttr.map (fun o => o.map showRat)}"
              | _, _ => bad "state"
            | _ => bad "state floats"
          | _ => bad "track box"
        | _ => bad "cand box"
      | _, _ => bad "minconf"
    | _ => bad "args"

def handle (args impl : List String) : String :=
  handleWith Gen.defaultPositionWeight Gen.defaultVelocityWeight args impl

/-- `smetricw <method> minconf wp wv k …`: the same with the track's Kalman weights given -/
def handleW (args impl : List String) : String :=
  let (m, rest) : List String × List String := match args with
    | "iou" :: t :: r => (["iou", t], r)
    | "maha" :: r => (["maha"], r)
    | r => ([], r)
  match rest with
  | mc :: wpT :: wvT :: r =>
    match rat? wpT, rat? wvT with
    | some wp, some wv =>
      let out := handleWith wp wv (m ++ mc :: r) impl
      if wp != Gen.defaultPositionWeight || wv != Gen.defaultVelocityWeight then
        out.replace " F=" " F=non-default-kalman-weights," else out
    | _, _ => bad "smetricw weights"
  | _ => bad "smetricw"

end SimVerif.Driver.SMetricD
