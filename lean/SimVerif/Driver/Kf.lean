import SimVerif.Driver.Common
import SimVerif.Model.Kalman
namespace SimVerif.Driver.KfD
open SimVerif.Wire SimVerif.Kalman SimVerif.Driver

def boxCfg (wp wv : Rat) : BoxCfg Rat :=
  { wp := wp, wv := wv, initPosK := Gen.initPosK, initPosC := Gen.initPosC, initVelK := Gen.initVelK, initVelC := Gen.initVelC,
    predPosK := Gen.predPosK, predPosC := Gen.predPosC, predVelK := Gen.predVelK, predVelC := Gen.predVelC,
    projPosK := Gen.projPosK, projPosC := Gen.projPosC, constIdx := Gen.stdConstIndex }

def ptCfg (wp wv : Rat) : PtCfg Rat :=
  { wp := wp, wv := wv, initPosK := Gen.ptInitPosK, initVelK := Gen.ptInitVelK, predPosK := Gen.ptPredPosK,
    predVelK := Gen.ptPredVelK, projPosK := Gen.ptProjPosK }

def takeRats : Nat → List String → Option (List Rat × List String)
  | 0, ts => some ([], ts)
  | n+1, t :: ts => do
    let r ← rat? t
    let (rest, ts') ← takeRats n ts
    pure (r :: rest, ts')
  | _, _ => none

/-- decode `2n means, 3n covariance entries, off` into coordinates -/
def decodeState (n : Nat) (l : List Rat) : Option (List (C1 Rat) × Rat) :=
  if l.length != 5 * n + 1 then none else
  let means := l.take (2 * n)
  let covs := (l.drop (2 * n)).take (3 * n)
  let off := l.getD (5 * n) 0
  some ((List.range n).map (fun i =>
    { p := means.getD i 0, v := means.getD (n + i) 0, a := covs.getD (3 * i) 0, b := covs.getD (3 * i + 1) 0, d := covs.getD (3 * i + 2) 0 }), off)

def closeR (a b scale : Rat) : Bool := decide (rabs (a - b) ≤ rabs b / 5000 + scale / 1000000)

def stateClose (m i : List (C1 Rat)) : Bool :=
  let sc := (i.map (fun c => rabs c.p)).foldl max 1
  let sc2 := (i.map (fun c => rabs c.a + rabs c.d)).foldl max (1 / 1000000)
  m.length == i.length && (m.zip i).all (fun (x, y) =>
    closeR x.p y.p sc && closeR x.v y.v sc && closeR x.a y.a sc2 && closeR x.b y.b sc2 && closeR x.d y.d sc2)

def spd (c : C1 Rat) : Bool := decide (0 < c.a) && decide (0 < c.d) && decide (c.b * c.b < c.a * c.d)

/-- box measurement vector -/
def parseBoxes : Nat → List String → Option (List (List Rat) × List String)
  | 0, ts => some ([], ts)
  | n+1, xc :: yc :: ang :: asp :: h :: ts => do
    let xc ← rat? xc; let yc ← rat? yc; let ang ← optTok rat? ang; let asp ← rat? asp; let h ← rat? h
    let (rest, ts') ← parseBoxes n ts
    pure ([xc, yc, ang.getD 0, asp, h] :: rest, ts')
  | _, _ => none

def parsePts : Nat → Nat → List String → Option (List (List Rat) × List String)
  | 0, _, ts => some ([], ts)
  | n+1, k, ts => do
    let (v, ts') ← takeRats k ts
    let (rest, ts'') ← parsePts n k ts'
    pure (v :: rest, ts'')

structure Acc where
  k : Bool := true
  o : Bool := true
  steps : Nat := 0
  why : String := ""

/-- walk the implementation's trajectory: every step is compared with the exact model step taken from
the implementation's own previous state -/
def walk (n : Nat) (initF : List Rat → List (C1 Rat)) (predF : List (C1 Rat) → List (C1 Rat))
    (updF : List (C1 Rat) → List Rat → List (C1 Rat)) (distF : List (C1 Rat) → List Rat → Rat)
    (zs : List (List Rat)) (impl : List String) : Option Acc :=
  match zs, impl with
  | z0 :: zrest, "I" :: rest =>
    match takeRats (5 * n + 1) rest with
    | none => none
    | some (s0, rest') =>
      match decodeState n s0 with
      | none => none
      | some (i0, off0) =>
        let acc0 : Acc := { k := stateClose (initF z0) i0, o := i0.all spd && off0 == 0 }
        let stationary := zrest.all (· == z0)
        let rec go : List (List Rat) → List String → List (C1 Rat) → Acc → Nat → Option Acc
          | [], _, _, acc, _ => some acc
          | _, _, _, _, 0 => none
          | z :: zs', ts, prev, acc, fuel+1 =>
            match ts with
            | "P" :: r1 =>
              match takeRats (5 * n + 1) r1 with
              | some (sp, "D" :: dT :: "U" :: r2) =>
                match takeRats (5 * n + 1) r2, rat? dT with
                | some (su, r3), some dI =>
                  match decodeState n sp, decodeState n su with
                  | some (ip, offp), some (iu, offu) =>
                    let mp := predF prev
                    let md := distF ip z
                    let mu := updF ip z
                    let scale2 := (ip.map (fun c => rabs c.a + rabs c.d)).foldl max (1 / 1000000)
                    let kk := stateClose mp ip && stateClose mu iu && close md dI (1/1000) (1/100000)
                    let offOk := decide (rabs offp ≤ scale2 / 100000) && decide (rabs offu ≤ scale2 / 100000)
                    let statOk := !stationary || ((ip.zip z0).all (fun (c, zi) => closeR c.p zi (rabs zi + 1) && decide (rabs c.v ≤ (rabs zi + 1) / 100000)) &&
                                                   (iu.zip z0).all (fun (c, zi) => closeR c.p zi (rabs zi + 1)))
                    let oo := ip.all spd && iu.all spd && offOk && decide (0 ≤ dI) && statOk
                    go zs' r3 iu { k := acc.k && kk, o := acc.o && oo, steps := acc.steps + 1,
                                   why := if kk && oo then acc.why else s!"step {acc.steps + 1}: k={kk} spd/off/stat={oo} offp={showRat offp}" } fuel
                  | _, _ => none
                | _, _ => none
              | _ => none
            | _ => none
        go zrest rest' i0 acc0 (zrest.length + 1)
  | _, _ => none

def handle (args impl : List String) : String :=
  match args with
  | kind :: "cost" :: dT :: invT :: [] =>
    match rat? dT, impl with
    | some d, [vT] =>
      match rat? vT with
      | none => bad "cost value"
      | some v =>
        let (gd, gi) := if kind == "box" then (Gen.boxCostGateDirect, Gen.boxCostGateInverted)
                        else (Gen.pointCostGateDirect, Gen.pointCostGateInverted)
        let gate (i : Nat) : Rat := Gen.CHI2INV95.getD i 0
        let m := if invT == "1" then costInverted (gate gi) Gen.CHI2_UPPER_BOUND d else costDirect (gate gd) Gen.CHI2_UPPER_BOUND d
        -- oracle: both conversions gate at the 95% quantile for the filter's measurement dimension
        let g := gate (if kind == "box" then 4 else 1)
        let spec := if invT == "1" then costInverted g Gen.CHI2_UPPER_BOUND d else costDirect g Gen.CHI2_UPPER_BOUND d
        let tol : Rat := 1 / 100000
        res (decide (rabs (m - v) ≤ tol)) (decide (rabs (spec - v) ≤ tol))
          (flag (decide (d > g)) "beyond-gate" ++ flag (decide (d ≤ g)) "within-gate" ++ flag (invT == "1") "inverted" ++
           flag (decide (gate 1 < d) && decide (d ≤ gate 4)) "between-2dof-and-5dof-gates")
          s!"model={showRat m} spec={showRat spec} impl={showRat v}"
    | _, _ => bad "cost args"
  | "box" :: "traj" :: wpT :: wvT :: nT :: rest =>
    match rat? wpT, rat? wvT, nT.toNat? with
    | some wp, some wv, some n =>
      match parseBoxes n rest with
      | some (zs, []) =>
        let cfg := boxCfg wp wv
        match walk 5 (boxInitiate cfg) (boxPredict cfg) (boxUpdate cfg) (boxDistance cfg) zs impl with
        | some acc => res acc.k (acc.o && acc.k) (flag (n > 1) "multi-step" ++ flag (n > 50) "long" ++ flag (zs.tail.all (· == zs.headD [])) "stationary" ++
            flag (zs.any (fun z => z.getD 2 0 != 0)) "rotated") s!"steps={acc.steps} {acc.why}"
        | none => bad "box traj: cannot parse implementation answer"
      | _ => bad "box traj boxes"
    | _, _, _ => bad "box traj params"
  | "point" :: "traj" :: wpT :: wvT :: nT :: rest =>
    match rat? wpT, rat? wvT, nT.toNat? with
    | some wp, some wv, some n =>
      match parsePts n 2 rest with
      | some (zs, []) =>
        let cfg := ptCfg wp wv
        match walk 2 (ptInitiate cfg) (ptPredict cfg) (ptUpdate cfg) (ptDistance cfg) zs impl with
        | some acc => res acc.k (acc.o && acc.k) (flag (n > 1) "multi-step" ++ flag (zs.tail.all (· == zs.headD [])) "stationary") s!"steps={acc.steps} {acc.why}"
        | none => bad "point traj: cannot parse implementation answer"
      | _ => bad "point traj points"
    | _, _, _ => bad "point traj params"
  | "vec" :: "traj" :: wpT :: wvT :: npT :: nT :: rest =>
    match rat? wpT, rat? wvT, npT.toNat?, nT.toNat? with
    | some wp, some wv, some np, some n =>
      match parsePts n (2 * np) rest, impl with
      | some (zs, []), sameT :: cntT :: irest =>
        let cfg := ptCfg wp wv
        -- exact model trajectory, every point on its own
        let split (z : List Rat) : List (List Rat) := (List.range np).map (fun i => [z.getD (2 * i) 0, z.getD (2 * i + 1) 0])
        let init := (split (zs.headD [])).map (ptInitiate cfg)
        let final := zs.tail.foldl (fun sts z => vecUpdate cfg (vecPredict cfg sts) (split z)) init
        let rec dec : Nat → List String → List (List (C1 Rat)) → Option (List (List (C1 Rat)))
          | 0, _, acc => some acc.reverse
          | m+1, ts, acc => match takeRats 11 ts with
            | some (l, ts') => (decodeState 2 l).bind (fun (s, _) => dec m ts' (s :: acc))
            | none => none
        match dec np irest [] with
        | some is =>
          let k := cntT == toString np && (final.zip is).all (fun (m, i) =>
            let sc := (i.map (fun c => rabs c.p)).foldl max 1
            (m.zip i).all (fun (x, y) => decide (rabs (x.p - y.p) ≤ sc / 1000) && decide (rabs (x.a - y.a) ≤ rabs y.a / 100 + 1 / 1000000)))
          res k (sameT == "1" && is.all (fun s => s.all spd)) (flag (np > 1) "multi-point" ++ flag (n > 1) "multi-step") s!"same={sameT}"
        | none => bad "vec states"
      | _, _ => bad "vec traj points"
    | _, _, _, _ => bad "vec traj params"
  | "vec" :: "trajl" :: wpT :: wvT :: npT :: nT :: lateT :: rest =>
    -- the last point joins at frame `late`: every point is still its own point filter over its own frames
    match rat? wpT, rat? wvT, npT.toNat?, nT.toNat?, lateT.toNat? with
    | some wp, some wv, some np, some n, some late =>
      match parsePts n (2 * np) rest, impl with
      | some (zs, []), sameT :: cntT :: irest =>
        let cfg := ptCfg wp wv
        let pt (j : Nat) (z : List Rat) : List Rat := [z.getD (2 * j) 0, z.getD (2 * j + 1) 0]
        let traj (j : Nat) : List (C1 Rat) :=
          let frames := (zs.drop (if j + 1 == np then late else 0)).map (pt j)
          frames.tail.foldl (fun st z => ptUpdate cfg (ptPredict cfg st) z) (ptInitiate cfg (frames.headD []))
        let final := (List.range np).map traj
        let rec decL : Nat → List String → List (List (C1 Rat)) → Option (List (List (C1 Rat)))
          | 0, _, acc => some acc.reverse
          | m+1, ts, acc => match takeRats 11 ts with
            | some (l, ts') => (decodeState 2 l).bind (fun (s, _) => decL m ts' (s :: acc))
            | none => none
        match decL np irest [] with
        | some is =>
          let k := cntT == toString np && (final.zip is).all (fun (m, i) =>
            let sc := (i.map (fun c => rabs c.p)).foldl max 1
            (m.zip i).all (fun (x, y) => decide (rabs (x.p - y.p) ≤ sc / 1000) && decide (rabs (x.a - y.a) ≤ rabs y.a / 100 + 1 / 1000000)))
          res k (sameT == "1" && is.all (fun s => s.all spd)) (["mixed-age-vector"] ++ flag (n > 1) "multi-step") s!"same={sameT}"
        | none => bad "vec states"
      | _, _ => bad "vec trajl points"
    | _, _, _, _, _ => bad "vec trajl params"
  | _ => bad "kf op"

end SimVerif.Driver.KfD
