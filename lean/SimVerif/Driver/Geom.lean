import SimVerif.Driver.Common
import SimVerif.Model.Geom
import SimVerif.Gen.Consts
namespace SimVerif.Driver.GeomD
open SimVerif.Wire SimVerif.Geom SimVerif.Driver

abbrev P := Pt Rat

def EPS : Rat := Gen.EPS   -- regenerated from src/lib.rs

def parseU : List String → Option (UBox Rat × List String)
  | xc :: yc :: ang :: asp :: h :: ts => do
    let xc ← rat? xc; let yc ← rat? yc; let ang ← optTok rat? ang; let asp ← rat? asp; let h ← rat? h
    pure ({ xc := xc, yc := yc, angle := ang, aspect := asp, height := h, conf := 1 }, ts)
  | _ => none

def parseRats : Nat → List String → Option (List Rat × List String)
  | 0, ts => some ([], ts)
  | n+1, t :: ts => do
    let r ← rat? t
    let (rest, ts') ← parseRats n ts
    pure (r :: rest, ts')
  | _, _ => none

/-! ### independent exact reference: area of the intersection of two convex polygons -/

def crossP (o a b : P) : Rat := (a.1 - o.1) * (b.2 - o.2) - (a.2 - o.2) * (b.1 - o.1)

def edges (poly : List P) : List (P × P) :=
  match poly with
  | [] => []
  | p :: _ => poly.zip (poly.tail ++ [p])

/-- inside-or-on a convex polygon (either orientation) -/
def insideConvex (poly : List P) (q : P) : Bool :=
  let cs := (edges poly).map (fun e => crossP e.1 e.2 q)
  cs.all (fun c => decide (c ≥ 0)) || cs.all (fun c => decide (c ≤ 0))

/-- proper or touching intersection point of two segments (none when parallel) -/
def segInter (a b c d : P) : Option P :=
  let r := (b.1 - a.1, b.2 - a.2)
  let s := (d.1 - c.1, d.2 - c.2)
  let den := r.1 * s.2 - r.2 * s.1
  if den == 0 then none else
  let t := ((c.1 - a.1) * s.2 - (c.2 - a.2) * s.1) / den
  let u := ((c.1 - a.1) * r.2 - (c.2 - a.2) * r.1) / den
  if 0 ≤ t ∧ t ≤ 1 ∧ 0 ≤ u ∧ u ≤ 1 then some (a.1 + t * r.1, a.2 + t * r.2) else none

def lexLE (a b : P) : Bool := decide (a.1 < b.1) || (decide (a.1 = b.1) && decide (a.2 ≤ b.2))

/-- Andrew's monotone chain: half hull of lexicographically sorted points -/
def halfHull (pts : List P) : List P :=
  pts.foldl (fun (st : List P) p =>
    let rec pop : Nat → List P → List P
      | 0, st => st
      | n+1, st => match st with
        | b :: a :: rest => if crossP a b p ≤ 0 then pop n (a :: rest) else st
        | _ => st
    p :: pop st.length st) []

def hull (pts : List P) : List P :=
  let s := (pts.mergeSort lexLE).eraseDups
  if s.length < 3 then s else
  let lower := (halfHull s).reverse
  let upper := (halfHull s.reverse).reverse
  lower.dropLast ++ upper.dropLast

def shoelaceAbs (poly : List P) : Rat :=
  let s := ((edges poly).map (fun e => e.1.1 * e.2.2 - e.2.1 * e.1.2)).foldl (· + ·) 0
  rabs s / 2

def refInterArea (p q : List P) : Rat :=
  let pts := p.filter (insideConvex q) ++ q.filter (insideConvex p) ++
    (edges p).flatMap (fun e => (edges q).filterMap (fun f => segInter e.1 e.2 f.1 f.2))
  shoelaceAbs (hull pts)

/-- the tokens after the `CS` marker of an answer -/
def afterCS : List String → Option (List String)
  | [] => none
  | t :: rest => if t == "CS" then some rest else afterCS rest

def showP (p : P) : String := s!"({showRat p.1},{showRat p.2})"

def b2s (b : Bool) : String := if b then "1" else "0"

def sq (x : Rat) : Rat := x * x

/-! ### handlers -/

def handleInter (args impl : List String) : String :=
  match parseU args with
  | none => bad "u1"
  | some (u1, rest) =>
  match parseU rest with
  | some (u2, []) =>
    -- impl: c1 s1 c2 s2 (f64) tooFar inter(f64) iou(f32|-) interRev iouRev dist2r(f32)
    match impl with
    | [c1, s1, c2, s2, tf, inter, iouT, interR, iouRT, d2r] =>
      match rat? c1, rat? s1, rat? c2, rat? s2, rat? inter, optTok rat? iouT, rat? interR, optTok rat? iouRT, rat? d2r with
      | some c1, some s1, some c2, some s2, some iI, some iouI, some iR, some iouR, some d2rI =>
        let v1 := vertices u1 c1 s1; let v2 := vertices u2 c2 s2
        let a1 := area u1; let a2 := area u2
        let amin := if a1 < a2 then a1 else a2
        let tol := amin / 1000000 + 1 / 1000000000
        -- model
        let mTooFar := tooFar u1 u2
        let mInter := intersection u1 u2 c1 s1 c2 s2
        -- guard band for the pre-filter decision (f32 rounding of radii / products)
        let ra := radiusSq u1; let rb := radiusSq u2
        let dd := sq (u1.xc - u2.xc) + sq (u1.yc - u2.yc)
        let rsum := ra + rb + 2 * ratSqrt (ra * rb)
        let nearBand := decide (rabs (dd - rsum) ≤ rsum / 100000)
        let kTooFar := nearBand || (b2s mTooFar == tf)
        let kInter := nearBand || close iI mInter 0 tol
        let mIou : Option Rat := if mInter == 0 then none else some (mInter / (a1 + a2 - mInter))
        let tiny := decide (rabs mInter ≤ tol) || decide (rabs iI ≤ tol)
        let kIou := nearBand || tiny || (match mIou, iouI with
          | some m, some i => close m i (1/10000) (1/100000)
          | none, none => true
          | _, _ => false)
        -- dist_in_2r
        let mD2r := ratSqrt (dist2rSq EPS (ratSqrt (ra * rb)) u1 u2)
        let kD2r := close mD2r d2rI (1/10000) (1/1000000)
        -- oracle: independent exact reference
        let refA := refInterArea v1 v2
        let oExact := nearBand || close iI refA 0 tol
        let oSymm := close iI iR 0 tol && (tiny || (match iouI, iouR with
          | some a, some b => close a b (1/100000) (1/1000000)
          | none, none => true
          | _, _ => false))
        let oRange := match iouI with | some i => decide (0 ≤ i) && decide (i ≤ 1 + 1/100000) | none => true
        let oNone := (iouI.isNone == (iI == 0))
        let oSound := nearBand || !(decide (refA > tol) && tf == "1")
        let oIouDef := tiny || nearBand || (match iouI with
          | some i => close i (refA / (a1 + a2 - refA)) (1/10000) (1/100000)
          | none => decide (refA ≤ tol))
        -- axis-aligned closed form
        let aa := u1.angle.isNone && u2.angle.isNone
        let oAabb := !aa || nearBand || (match toLtwh u1, toLtwh u2 with
          | some b1, some b2 => close iI (aabbInter b1 b2) 0 tol
          | _, _ => true)
        let ident := u1 == u2
        let oIdent := !ident || (match iouI with | some i => close i 1 (1/100000) 0 | none => false)
        res (kTooFar && kInter && kIou && kD2r)
            (oExact && oSymm && oRange && oNone && oSound && oIouDef && oAabb && oIdent && kD2r)
          (flag (decide (refA > tol)) "overlap" ++ flag (u1.angle.isSome || u2.angle.isSome) "rotated" ++
           flag mTooFar "too-far" ++ flag (!mTooFar && decide (refA ≤ tol)) "near-disjoint" ++
           flag nearBand "guard-band" ++ flag ident "identical" ++ flag aa "axis-aligned" ++
           flag (decide (refA > tol) && decide (rabs (refA - amin) ≤ tol)) "nested")
          s!"mInter={showRat mInter} ref={showRat refA} tooFar={mTooFar} k=[{kTooFar},{kInter},{kIou},{kD2r}] o=[{oExact},{oSymm},{oRange},{oNone},{oSound},{oIouDef},{oAabb},{oIdent}]"
      | _, _, _, _, _, _, _, _, _ => bad "inter impl parse"
    | _ => bad "inter impl arity"
  | _ => bad "u2"

def handlePoly (args impl : List String) : String :=
  match parseU args with
  | some (u, []) =>
    match impl with
    | c :: s :: rest =>
      match rat? c, rat? s, parseRats 8 rest with
      | some c, some s, some (vs, [areaT, radT]) =>
        match rat? areaT, rat? radT with
        | some areaI, some radI =>
          let mv := vertices u c s
          let iv : List P := match vs with
            | [a, b, c, d, e, f, g, h] => [(a, b), (c, d), (e, f), (g, h)]
            | _ => []
          let w := u.height * u.aspect
          let scale := rabs u.xc + rabs u.yc + w + u.height
          let tolv := scale / 1000000000000
          let kV := (mv.zip iv).all (fun (m, i) => decide (rabs (m.1 - i.1) ≤ tolv) && decide (rabs (m.2 - i.2) ≤ tolv)) && iv.length == 4
          let kA := close areaI (area u) (1/1000000) 0
          let kR := close (sq radI) (radiusSq u) (1/100000) 0
          -- oracle on the implementation's polygon: rectangle w×h rotated about the centre
          let rsq := radiusSq u
          let tolr := 1 / 1000000
          let oArea := close (shoelaceAbs iv) (w * u.height) tolr 0
          let cx := (iv.map (·.1)).foldl (· + ·) 0 / 4
          let cy := (iv.map (·.2)).foldl (· + ·) 0 / 4
          let oCentre := decide (rabs (cx - u.xc) ≤ tolv * 10) && decide (rabs (cy - u.yc) ≤ tolv * 10)
          let oRadius := iv.all (fun p => close (sq (p.1 - u.xc) + sq (p.2 - u.yc)) rsq tolr 0)
          -- side lengths: consecutive vertices are w, h, w, h apart; clockwise orientation sign fixed
          let oSides := match iv with
            | [p1, p2, p3, p4] =>
              close (sq (p2.1 - p1.1) + sq (p2.2 - p1.2)) (sq w) tolr 0 &&
              close (sq (p3.1 - p2.1) + sq (p3.2 - p2.2)) (sq u.height) tolr 0 &&
              close (sq (p4.1 - p3.1) + sq (p4.2 - p3.2)) (sq w) tolr 0 &&
              -- first edge direction = (cos, sin) * w  (rotation by the box angle)
              decide (rabs ((p2.1 - p1.1) - w * c) ≤ tolv * 10) && decide (rabs ((p2.2 - p1.2) - w * s) ≤ tolv * 10)
            | _ => false
          res (kV && kA && kR) (oArea && oCentre && oRadius && oSides && kA && kR)
            (flag u.angle.isSome "rotated" ++ flag (decide (scale > 1000)) "large" ++ flag (decide (w < 1)) "small")
            s!"k=[{kV},{kA},{kR}] o=[{oArea},{oCentre},{oRadius},{oSides}]"
        | _, _ => bad "poly area/radius"
      | _, _, _ => bad "poly impl parse"
    | _ => bad "poly impl"
  | _ => bad "poly args"

/-- `box polyrot U5 angle`: `gen_vertices()` then the consuming `rotate(angle)` — the polygon the rotated box carries
(if any) and the polygon it clips with must be the rectangle at the NEW angle -/
def handlePolyRot (args impl : List String) : String :=
  match parseU args with
  | some (u, [angT]) =>
    match rat? angT, impl with
    | some ang, c :: s :: rest =>
      match rat? c, rat? s with
      | some c, some s =>
        let u' := { u with angle := some ang }
        let mv := vertices u' c s
        let w := u.height * u.aspect
        let scale := rabs u.xc + rabs u.yc + w + u.height
        let tolv := scale / 1000000000
        let (cachedOk, hasCache, rest') : Bool × Bool × List String := match rest with
          | "-" :: r => (true, false, r)
          | "P" :: r => (match parseRats 8 r with
            | some ([a, b, c2, d, e, f, g, h], r') =>
              let iv : List P := [(a, b), (c2, d), (e, f), (g, h)]
              ((mv.zip iv).all (fun (m, i) => decide (rabs (m.1 - i.1) ≤ tolv) && decide (rabs (m.2 - i.2) ≤ tolv)), true, r')
            | _ => (false, true, []))
          | r => (false, false, r)
        match rest' with
        | [clipT, areaT] =>
          match rat? clipT, rat? areaT with
          | some clip, some areaI =>
            let kClip := close clip (w * u.height) (1/100000) (1/1000000)
            let kArea := close areaI (w * u.height) (1/100000) 0
            res (cachedOk && kClip && kArea && close (c * c + s * s) 1 (1/1000000000) 0) (cachedOk && kClip)
              (["rotate-after-gen"] ++ flag hasCache "cache-carried" ++ flag u.angle.isSome "was-rotated")
              s!"cached={cachedOk} clip={kClip}"
          | _, _ => bad "polyrot numbers"
        | _ => bad "polyrot tail"
      | _, _ => bad "polyrot cs"
    | _, _ => bad "polyrot impl"
  | _ => bad "polyrot args"

def handleConv (args impl : List String) : String :=
  match parseRats 5 args, parseRats 8 impl with
  | some ([l, t, w, h, cf], []), some ([xc, yc, asp, hh, l2, t2, w2, h2], []) =>
    let b : BBox Rat := { left := l, top := t, width := w, height := h, conf := cf }
    let u := toUniversal b
    let back := toLtwh u
    let tol : Rat := 1 / 1000000
    let sc := rabs l + rabs t + w + h
    let cl (a b : Rat) := decide (rabs (a - b) ≤ tol * sc)
    let kU := cl u.xc xc && cl u.yc yc && close u.aspect asp tol 0 && cl u.height hh
    let kB := match back with
      | some bb => cl bb.left l2 && cl bb.top t2 && cl bb.width w2 && cl bb.height h2
      | none => false
    -- oracle: the round trip on the implementation returns the input box
    let o := cl l l2 && cl t t2 && cl w w2 && cl h h2 &&
      cl (l + w / 2) xc && cl (t + h / 2) yc && close (w / h) asp tol 0
    res (kU && kB) o (flag (decide (sc > 1000)) "large" ++ flag (decide (w < 1)) "small" ++ flag (decide (w / h > 3)) "wide")
      s!"kU={kU} kB={kB}"
  | _, _ => bad "conv parse"

/-- the tolerance relation of C19 on one coordinate difference -/
def verdict (diffs : List Rat) (guard : Rat) : Option Bool :=
  if diffs.all (fun d => decide (rabs d < EPS - guard)) then some true
  else if diffs.any (fun d => decide (rabs d > EPS + guard)) then some false
  else none   -- inside the guard band around EPS: either answer accepted

def handleEq (args impl : List String) : String :=
  match parseU args with
  | none => bad "eq u1"
  | some (a, rest) =>
  match parseU rest, impl with
  | some (b, []), [ab, ba, aa] =>
    let mAB := ueq EPS a b
    let mBA := ueq EPS b a
    let guard := EPS / 500
    let diffs := [a.xc - b.xc, a.yc - b.yc, a.angle.getD 0 - b.angle.getD 0, a.aspect - b.aspect, a.height - b.height]
    -- f32 subtraction of nearby values is exact (Sterbenz) unless magnitudes differ wildly; guard band covers the rest
    let v := verdict diffs guard
    let inBand := v.isNone
    let k := inBand || (b2s mAB == ab && b2s mBA == ba)
    let o := aa == "1" && (inBand || (ab == ba && (match v with | some x => b2s x == ab | none => true)))
    res k o (flag (v == some false) "far" ++ flag (v == some true) "close" ++ flag inBand "guard-band" ++
             flag (diffs.any (fun d => decide (d < 0 - EPS))) "negative-diff" ++ flag (mAB != mBA) "model-asymmetric")
      s!"model=({mAB},{mBA}) impl=({ab},{ba},{aa}) spec={v}"
  | _, _ => bad "eq u2/impl"

def handleBeq (args impl : List String) : String :=
  match parseRats 10 args, impl with
  | some ([l1, t1, w1, h1, c1, l2, t2, w2, h2, c2], []), [ab, ba, aa] =>
    let a : BBox Rat := { left := l1, top := t1, width := w1, height := h1, conf := c1 }
    let b : BBox Rat := { left := l2, top := t2, width := w2, height := h2, conf := c2 }
    let mAB := beq EPS a b
    let mBA := beq EPS b a
    let guard := EPS / 500
    let diffs := [l1 - l2, t1 - t2, w1 - w2, h1 - h2, c1 - c2]
    let v := verdict diffs guard
    let inBand := v.isNone
    let k := inBand || (b2s mAB == ab && b2s mBA == ba)
    let o := aa == "1" && (inBand || (ab == ba && (match v with | some x => b2s x == ab | none => true)))
    res k o (flag (v == some false) "far" ++ flag (v == some true) "close" ++ flag inBand "guard-band" ++
             flag (diffs.any (fun d => decide (d < 0 - EPS))) "negative-diff" ++ flag (mAB != mBA) "model-asymmetric")
      s!"model=({mAB},{mBA}) impl=({ab},{ba},{aa}) spec={v}"
  | _, _ => bad "beq parse"

def PIX2 : Rat := rat? "f40c90fdb" |>.getD 6   -- 2.0 * PI in f32

def handleNorm (args impl : List String) : String :=
  match args, impl with
  | [aT], [rT] =>
    match rat? aT, rat? rT with
    | some a, some r =>
      let m := normalizeAngle (fun x => (x.floor : Rat)) PIX2 a
      -- rounding: the f32 quotient/product lose |a|·2^-23
      let tol := (rabs a + 7) / 2000000
      let wrapClose (x y : Rat) := decide (rabs (x - y) ≤ tol) || decide (rabs (rabs (x - y) - PIX2) ≤ tol)
      let k := wrapClose m r
      let turns := (a - r) / PIX2
      let o := decide (0 ≤ r) && decide (r ≤ PIX2 + tol) && decide (rabs (turns - (roundHalfEven turns : Rat)) ≤ tol)
      res k o (flag (decide (a < 0)) "negative" ++ flag (decide (rabs a > PIX2)) "multi-turn" ++ flag (decide (0 ≤ a) && decide (a < PIX2)) "in-range")
        s!"model={showRat m} impl={showRat r}"
    | _, _ => bad "norm parse"
  | _, _ => bad "norm args"

def handleBox (args impl : List String) : String :=
  match args with
  | "conv" :: a => handleConv a impl
  | "poly" :: a => handlePoly a impl
  | "polystale" :: a => handlePoly a impl
  | "polyregen" :: a => handlePoly a impl   -- `gen_vertices()` again after the fields changed: the carried polygon is the current rectangle
  | "polyrot" :: a => handlePolyRot a impl
  | "eq" :: a => handleEq a impl
  | "beq" :: a => handleBeq a impl
  | "norm" :: a => handleNorm a impl
  | _ => bad "box op"

def handleGeom (args impl : List String) : String :=
  match args with
  | "inter" :: a => handleInter a impl
  | "interstale" :: a => handleInter a impl
  | _ => bad "geom op"

end SimVerif.Driver.GeomD
