import SimVerif.Driver.Common
import SimVerif.Model.Store
namespace SimVerif.Driver.StoreD
open SimVerif.Wire SimVerif.Track SimVerif.Store SimVerif.Driver

/-! concrete callbacks — mirror of harness/src/fam_store.rs -/
structure TA where
  a : Int
  b : Int
deriving Repr, BEq

structure OA where
  oa : Option Int
  feat : Option Int
deriving Repr, BEq

structure U where
  delta : Int
  fail : Bool
deriving Repr, BEq

abbrev MS := Int
abbrev QQ := Int
abbrev EE := Unit

def emod (x : Int) (m : Int) : Int := Int.emod x m

def oaKey (o : OA) : Int := o.oa.getD (-1000)

def cbs : Cb TA MS OA U QQ EE where
  apply u t := if u.fail then .error () else .ok { t with a := t.a + u.delta }
  mergeA s o := if emod o.a 7 == 6 then .error () else .ok { s with a := s.a + o.a }
  optimize m _cls hist attrs obs prev isMerge :=
    let m' := m + 1
    let attrs' := { attrs with b := attrs.b + hist.length + prev + m' }
    let sorted := obs.mergeSort (fun x y => decide (oaKey y ≤ oaKey x))
    let poison : Int := if isMerge then 13 else -1
    if sorted.any (fun o => o.oa == some poison) then .error () else .ok (m', attrs', sorted.take 4)
  compatible x y := emod (x.a + y.a) 3 != 0
  baked t _ := match emod t.a 4 with
    | 0 => .ok .ready
    | 1 => .ok .pending
    | 2 => .ok .wasted
    | _ => .error ()
  metric cls _ c _ t :=
    let cv := c.oa.getD 0; let tv := t.oa.getD 0
    if emod (cv + tv + cls) 5 == 0 then none else
    some (some (cv - tv), match c.feat, t.feat with
      | some x, some y => some (((x - y).natAbs : Nat) : Rat)
      | _, _ => none)
  postprocess _ v := v.filter (fun e => e.attr != some 0)
  lookup k t _ hist := emod (t.a + hist.length) k == 0

abbrev Trk := Track TA MS OA
abbrev Sto := Store TA MS OA

structure St where
  store : Option Sto := none
  tracks : List (Option Trk) := [none, none, none, none]
  prevImpl : String := ""       -- the implementation's previous dump (store or slot), for the atomicity oracle
  prevSlots : List String := ["NONE", "NONE", "NONE", "NONE"]
  plan : Option (List String) := none   -- schedule plan for the next distance query

/-! rendering (must equal the executor's) -/
def optI (x : Option Int) : String := match x with | some v => toString v | none => "-"

def sortObs (obs : List (Nat × List OA)) : List (Nat × List OA) := obs.mergeSort (fun a b => decide (a.1 ≤ b.1))

def dumpTrack (t : Trk) : String :=
  let obs := sortObs t.obs
  joinSp ([toString t.id, toString t.attrs.a, toString t.attrs.b, showNats t.hist, toString obs.length] ++
    obs.flatMap (fun (c, l) => [toString c, toString l.length] ++ l.flatMap (fun o => [optI o.oa, optI o.feat])))

def dumpStore (s : Sto) : String :=
  String.join (s.shards.map (fun sh =>
    let sorted := sh.mergeSort (fun a b => decide (a.1 ≤ b.1))
    s!" S {sorted.length}" ++ String.join (sorted.map (fun p => " T " ++ dumpTrack p.2))))

def errTok : Err EE → String
  | .cb _ => "CB" | .dup _ => "DUP" | .notFound _ => "NOTFOUND" | .same _ => "SAME"
  | .incompat => "INCOMPAT" | .noClass => "NOCLASS"

def resTok {β : Type} : Except (Err EE) β → String
  | .ok _ => "OK" | .error e => errTok e

/-! parsing -/
def optInt (t : String) : Option (Option Int) := optTok int? t

def parseUpd (t : String) : Option (Option U) :=
  if t == "-" then some none else
  match t.splitOn ":" with
  | [d, f] => (int? d).map (fun d => some { delta := d, fail := f == "1" })
  | _ => none

def parseObs : List String → Option ((Nat × Option OA × Option U) × List String)
  | c :: oa :: f :: u :: ts => do
    let c ← c.toNat?; let oa ← optInt oa; let f ← optInt f; let u ← parseUpd u
    let o : Option OA := if oa.isNone && f.isNone then none else some { oa := oa, feat := f }
    pure ((c, o, u), ts)
  | _ => none

def parseObsN : Nat → List String → Option (List (Nat × Option OA × Option U) × List String)
  | 0, ts => some ([], ts)
  | n+1, ts => do
    let (o, ts') ← parseObs ts
    let (rest, ts'') ← parseObsN n ts'
    pure (o :: rest, ts'')

/-- `id a b nobs (cls oa feat upd)*` → built track (or the build error) and notifications -/
def parseBuild (ts : List String) : Option ((Except (Err EE) Trk × Nat) × List String) :=
  match ts with
  | id :: a :: b :: n :: rest => do
    let id ← id.toNat?; let a ← int? a; let b ← int? b; let n ← n.toNat?
    let (obs, rest') ← parseObsN n rest
    pure (build cbs id (0 : Int) { a := a, b := b } obs, rest')
  | _ => none

def parseClasses (ts : List String) : Option (Option (List Nat) × List String) :=
  match ts with
  | "-" :: rest => some (none, rest)
  | _ => (natList ts).map (fun (l, r) => (some l, r))

def splitBar (impl : List String) : List (List String) :=
  let rec go : List String → List String → List (List String) → List (List String)
    | [], cur, acc => (cur.reverse :: acc).reverse
    | t :: ts, cur, acc => if t == "|" then go ts [] (cur.reverse :: acc) else go ts (t :: cur) acc
  go impl [] []

def implParts (impl : List String) : String × String × String :=
  match splitBar impl with
  | [r, d, n] => (joinSp r, joinSp d, joinSp n)
  | [r, d, n, _] => (joinSp r, joinSp d, joinSp n)
  | _ => ("?", "?", "?")

/-- the schedule trace the executor appended: `T <timeouts> <k> <shard ids…>` -/
def implTrace (impl : List String) : Option (Nat × List Nat) :=
  match splitBar impl with
  | [_, _, _, "T" :: to :: rest] => do
    let to ← to.toNat?
    let (l, _) ← natList rest
    pure (to, l)
  | _ => none

/-- a trace is a path of the sharded-query protocol: every shard executes exactly one command per
candidate, and the prescribed order (if any) was followed -/
def traceOk (tr : Option (Nat × List Nat)) (plan : Option (List String)) (nShards nCands : Nat) : Bool × List String :=
  match plan with
  | none => (true, [])
  | some p =>
    match tr with
    | none => (false, ["trace-missing"])
    | some (timeouts, l) =>
      let counts := (List.range nShards).all (fun k => (l.filter (· == k)).length == nCands)
      let follows := match p with
        | "order" :: _ :: ids => l.map toString == ids
        | _ => true
      (timeouts == 0 && counts && l.length == nShards * nCands && follows,
       ["trace-validated"] ++ flag (l.length > 1 && l != l.mergeSort (fun a b => decide (a ≤ b))) "interleaved-shards")

def showDists (v : List DistOk) : String :=
  let key (e : DistOk) : List Int := [e.frm, e.to, (e.attr.getD (-100000)), (e.feat.map (fun r => r.floor)).getD (-100000)]
  let rec le : List Int → List Int → Bool
    | [], _ => true
    | _, [] => false
    | a :: as, b :: bs => if a < b then true else if a > b then false else le as bs
  let sorted := v.mergeSort (fun x y => le (key x) (key y))
  joinSp (toString sorted.length :: sorted.flatMap (fun e =>
    [toString e.frm, toString e.to, optI e.attr, optI (e.feat.map (fun r => r.floor))]))

def showStatus (v : List (Nat × Except EE Status)) : String :=
  let sorted := v.mergeSort (fun a b => decide (a.1 ≤ b.1))
  joinSp (toString sorted.length :: sorted.flatMap (fun (id, r) => [toString id, match r with
    | .ok .ready => "READY" | .ok .pending => "PENDING" | .ok .wasted => "WASTED" | .error _ => "ERR"]))

def setSlot {β : Type} (l : List β) (i : Nat) (v : β) : List β := l.set i v

/-! ### `track …` -/
def handleTrack (st : St) (args impl : List String) : St × String :=
  let (iRes, iDump, iNotes) := implParts impl
  match args with
  | "new" :: slotT :: rest =>
    match slotT.toNat?, parseBuild rest with
    | some slot, some ((r, n), []) =>
      let (tok, d, tr) : String × String × Option Trk := match r with
        | .ok t => ("OK", dumpTrack t, some t)
        | .error e => (errTok e, "NONE", none)
      let k := tok == iRes && d == iDump && toString n == iNotes
      ({ st with tracks := setSlot st.tracks slot tr, prevSlots := setSlot st.prevSlots slot iDump },
       res k k (flag (tok != "OK") "build-fails") s!"model={tok} | {d} | {n}")
    | _, _ => (st, bad "track new")
  | "add" :: slotT :: rest =>
    match slotT.toNat?, parseObs rest with
    | some slot, some ((cls, o, u), []) =>
      match st.tracks.getD slot none with
      | none => (st, res (iRes == "EMPTY") (iRes == "EMPTY") ["empty-slot"] "slot is empty (its build failed)")
      | some t =>
        let (r, t', n) := addObservation cbs t cls o u
        let tok := resTok r
        let d := dumpTrack t'
        let k := tok == iRes && d == iDump && toString n == iNotes
        -- oracle (C11_add_atomic on the implementation): error ⇒ unchanged and silent; ok ⇒ one notification
        let before := st.prevSlots.getD slot ""
        let o1 := if iRes == "OK" then iNotes == "1" else (iDump == before && iNotes == "0")
        ({ st with tracks := setSlot st.tracks slot (some t'), prevSlots := setSlot st.prevSlots slot iDump },
         res k o1 (flag (tok != "OK") "fails" ++ flag (tok != "OK" && u.isSome) "fails-after-update" ++
                  flag (o.isNone) "no-observation" ++ flag ((getObs t.obs cls).isSome) "existing-class" ++
                  flag (((getObs t.obs cls).getD []).length ≥ 4) "truncation")
           s!"model={tok} | {d} | {n}")
    | _, _ => (st, bad "track add")
  | "merge" :: dT :: sT :: rest =>
    match dT.toNat?, sT.toNat?, parseClasses rest with
    | some d, some s, some (cls, [flagT]) =>
      match st.tracks.getD d none, st.tracks.getD s none with
      | some dst, some src =>
        let flag' := flagT == "1"
        let classes := cls.getD []
        let (r, dst', n) := merge cbs dst src classes flag'
        let tok := resTok r
        let dmp := dumpTrack dst'
        let k := tok == iRes && dmp == iDump && toString n == iNotes
        let before := st.prevSlots.getD d ""
        -- history rule, read off the implementation's dump: token 4.. is the history list
        let histOf (dump : String) : Option (List Nat) :=
          match (dump.splitOn " ").drop 3 with
          | ts => (natList ts).map (·.1)
        let anyPresent := classes.any (fun c => (getObs dst.obs c).isSome || (getObs src.obs c).isSome)
        let expectedHist := if flag' && anyPresent then dst.hist ++ src.hist else dst.hist
        let o1 := if iRes == "OK" then iNotes == "1" && histOf iDump == some expectedHist
                  else (iDump == before && iNotes == "0")
        ({ st with tracks := setSlot st.tracks d (some dst'), prevSlots := setSlot st.prevSlots d iDump },
         res k o1 (Driver.flag (tok != "OK") "fails" ++ Driver.flag flag' "history-on" ++ Driver.flag (!anyPresent) "no-class-present" ++
                  Driver.flag (classes.length ≥ 2) "multi-class" ++ Driver.flag (classes.eraseDups.length < classes.length) "dup-class" ++
                  Driver.flag (tok != "OK" && classes.length ≥ 2) "fails-multi-class")
           s!"model={tok} | {dmp} | {n}")
      | _, _ => (st, res (iRes == "EMPTY") (iRes == "EMPTY") ["empty-slot"] "slot is empty (its build failed)")
    | _, _, _ => (st, bad "track merge")
  | _ => (st, bad "track op")

def cands : Nat → List String → List Trk → Nat → Option (List Trk × Nat × Bool)
  | 0, [], acc, n => some (acc.reverse, n, false)
  | 0, _, _, _ => none
  | m+1, ts, acc, n => match parseBuild ts with
    | some ((.ok t, nb), ts') => cands m ts' (t :: acc) (n + nb)
    | some ((.error _, nb), _) => some (acc.reverse, n + nb, true)
    | none => none

/-! ### `store …` -/
def handleStore (st : St) (args impl : List String) : St × String :=
  let (iRes, iDump, iNotes) := implParts impl
  let iDump := " " ++ iDump     -- the executor's dump starts with a blank that tokenisation removed
  let finish (st : St) (s' : Sto) (tok : String) (n : Nat) (flags : List String) (atomicOp : Bool) (buildNotes : Nat := 0) : St × String :=
    let d := dumpStore s'
    let k := tok == iRes && d == iDump && toString n == iNotes
    let failed := !(iRes.startsWith "OK" || iRes.startsWith "FETCHED")
    -- oracle: a failing mutation leaves the store as it was and is silent
    -- (notifications of building an external argument track are not part of the operation)
    let o1 := !atomicOp || !failed || (iDump == st.prevImpl && iNotes == toString buildNotes)
    ({ st with store := some s', prevImpl := iDump }, res k (o1 && k) flags s!"model={tok} |{d} | {n}")
  match args with
  | "sched" :: p => ({ st with plan := some p }, res true true ["sched"] "plan recorded")
  | ["new", nT, aT, bT] =>
    match nT.toNat?, int? aT, int? bT with
    | some n, some a, some b =>
      let s : Sto := empty n { a := a, b := b } (0 : Int)
      finish st s "OK" 0 [] false
    | _, _, _ => (st, bad "store new")
  | op :: rest =>
    match st.store with
    | none => (st, bad "no store")
    | some s =>
      match op with
      | "addt" =>
        match parseBuild rest with
        | some ((.ok t, n), []) =>
          let (r, s') := addTrack (E := EE) s t
          finish st s' (resTok r) n (flag (resTok r == "DUP") "dup") true n
        | some ((.error e, n), []) => finish st s ("BUILD-" ++ errTok e) n ["build-fails"] false
        | _ => (st, bad "addt")
      | "add" =>
        match rest with
        | idT :: r2 =>
          match idT.toNat?, parseObs r2 with
          | some id, some ((cls, o, u), []) =>
            let missing := (find s id).isNone
            let (r, s', n) := add cbs s id cls o u
            finish st s' (resTok r) n (flag missing "add-missing" ++ flag (resTok r != "OK") "fails" ++
              flag (missing && o.isNone) "add-missing-empty-observation") true (if missing then n else 0)
          | _, _ => (st, bad "add")
        | _ => (st, bad "add")
      | "fetch" =>
        match natList rest with
        | some (ids, []) =>
          let (ts, s') := fetchTracks s ids
          let tok := joinSp (["FETCHED", toString ts.length] ++ ts.flatMap (fun t => ["T", dumpTrack t]))
          finish st s' tok 0 (flag (ts.length < ids.length) "fetch-missing" ++ flag (ts.length > 0) "fetch-hit") false
        | _ => (st, bad "fetch")
      | "mext" | "mextnb" =>
        match rest with
        | dT :: r2 =>
          match dT.toNat?, parseBuild r2 with
          | some dest, some ((.ok src, nb), r3) =>
            match parseClasses r3 with
            | some (cls, [flagT]) =>
              let (r, s', n) := mergeExternal cbs s dest src cls (flagT == "1")
              finish st s' (resTok r) (nb + n) (flag (resTok r != "OK") ("merge-" ++ resTok r)) true nb
            | _ => (st, bad "mext classes")
          | some dest, some ((.error e, nb), _) => let _ := dest; finish st s ("BUILD-" ++ errTok e) nb ["build-fails"] false
          | _, _ => (st, bad "mext")
        | _ => (st, bad "mext")
      | "mown" =>
        match rest with
        | dT :: sT :: r2 =>
          match dT.toNat?, sT.toNat?, parseClasses r2 with
          | some dest, some srcId, some (cls, [rmT, flagT]) =>
            let (r, s', n) := mergeOwned cbs s dest srcId cls (rmT == "1") (flagT == "1")
            let tok := match r with
              | .ok (some t) => "OK-REMOVED T " ++ dumpTrack t
              | .ok none => "OK"
              | .error e => errTok e
            finish st s' tok n (flag (resTok r != "OK") ("merge-" ++ resTok r) ++ flag (rmT == "1") "remove-src") true
          | _, _, _ => (st, bad "mown")
        | _ => (st, bad "mown")
      | "lookup" =>
        match rest with
        | [kT] => match int? kT with
          | some k => finish st s (showStatus (lookupQ cbs s k)) 0 ["lookup"] false
          | none => (st, bad "lookup")
        | _ => (st, bad "lookup")
      | "usable" => finish st s (showStatus (findUsable cbs s)) 0 ["usable"] false
      | "clear" => finish st (clear s) "OK" 0 ["clear"] false
      | "stats" => finish st s (showNats (shardStats s)) 0 ["stats"] false
      | "fdist" | "odist" | "fdisti" | "odisti" =>
        match rest with
        | clsT :: obT :: kT :: r2 =>
          match clsT.toNat?, kT.toNat? with
          | some cls, some k =>
            let onlyBaked := obT == "1"
            if op == "odist" || op == "odisti" then
              match natList (kT :: r2) with
              | some (ids, []) =>
                let (d, e) := ownedDistances cbs s ids cls onlyBaked
                let (tok, tfl) := traceOk (implTrace impl) st.plan s.n (ids.filterMap (find s)).length
                -- a plan that the executor could not realise in time (machine under load) is not an error of anybody:
                -- the answer is still the answer under some schedule and is compared as such
                finish { st with plan := none } s s!"{showDists d} E {e}" 0
                  (flag (!tok) "plan-not-realised" ++ flag (d.length > 0) "results" ++ flag (e > 0) "errors" ++ flag ((ids.filterMap (find s)).length ≥ 2) "owned-multi" ++ tfl ++ flag (op == "odisti") "iterator" ++
                   flag (st.plan.isSome) ("plan-" ++ (st.plan.getD []).headD "")) false
              | _ => (st, bad "odist ids")
            else
              match cands k r2 [] 0 with
              | some (cs, nb, false) =>
                let (d, e) := foreignDistances cbs s cs cls onlyBaked
                let (tok, tfl) := traceOk (implTrace impl) st.plan s.n cs.length
                finish { st with plan := none } s s!"{showDists d} E {e}" nb
                  (flag (!tok) "plan-not-realised" ++ flag (d.length > 0) "results" ++ flag (e > 0) "errors" ++ flag (cs.length ≥ 2) "multi-cand" ++ flag onlyBaked "only-baked" ++ tfl ++ flag (op == "fdisti") "iterator") false
              | some (_, _, true) => (st, bad "candidate build fails (generator should avoid)")
              | none => (st, bad "fdist cands")
          | _, _ => (st, bad "dist args")
        | _ => (st, bad "dist")
      | _ => (st, bad "store op")
  | _ => (st, bad "store")

end SimVerif.Driver.StoreD
