import SimVerif.Driver.Common
import SimVerif.Model.Constraints
namespace SimVerif.Driver.ConstrD
open SimVerif.Wire SimVerif.Constraints SimVerif.Driver

structure St where
  table : Option (List Entry) := some []   -- `none`: an `add` panicked, the object is in an unspecified state
  hist : List Entry := []                  -- every entry configured so far, chronological

def parseEntries : Nat → List String → Option (List Entry)
  | 0, [] => some []
  | n+1, g :: l :: ts => do
    let g ← g.toNat?
    let l ← rat? l
    let rest ← parseEntries n ts
    pure ((g, l) :: rest)
  | _, _ => none

/-- the specification, computed from the configuration history alone: smallest configured gap `≥ d`,
its first configured limit -/
def specLimit (hist : List Entry) (d : Nat) : Option Rat :=
  let gaps := (hist.map (·.1)).filter (fun g => decide (g ≥ d))
  match gaps with
  | [] => none
  | g0 :: gs =>
    let g := gs.foldl min g0
    (hist.find? (fun e => e.1 == g)).map (·.2)

def handle (st : St) (args impl : List String) : St × String :=
  match args with
  | ["new"] => ({}, res true true [] "")
  | "add" :: kTok :: rest =>
    match kTok.toNat? >>= (parseEntries · rest) with
    | none => (st, bad "entries")
    | some new =>
      match st.table with
      | none => (st, bad "poisoned")
      | some t =>
        let m := addConstraints t new
        let implPanic := impl.head? == some "PANIC"
        match m with
        | none =>
          -- the code asserts on a non-positive limit
          ({ st with table := none }, res implPanic implPanic ["assert"] s!"model=PANIC impl={impl}")
        | some t' =>
          let dup := (t ++ new).length != t'.length
          ({ table := some t', hist := st.hist ++ new },
           res (!implPanic) (!implPanic) (flag dup "dup-gap" ++ flag (t != []) "second-call")
              s!"table={t'.map (fun e => (e.1, showRat e.2))} impl={impl}")
  | ["val", gTok, dTok] =>
    match gTok.toNat?, rat? dTok with
    | some g, some d =>
      match st.table with
      | none => (st, bad "poisoned")
      | some t =>
        let m := validate t g d
        let implAns : Option Bool := match impl with
          | ["1"] => some true | ["0"] => some false | _ => none
        let spec : Option Bool := if d < 0 then none else
          some (match specLimit st.hist g with | none => true | some l => decide (d ≤ l))
        let lim := limitFor t g
        (st, res (m == implAns) (spec == implAns)
                (flag (m == some false) "rejected" ++ flag (lim.isSome && m == some true) "admitted-under-limit" ++
                         flag (lim.isNone) "no-limit" ++ flag (m.isNone) "assert" ++
                         flag ((lim.map (fun e => decide (e.2 = d))).getD false) "at-limit" ++
                         flag ((lim.map (fun e => decide (e.1 > g))).getD false) "larger-gap-entry")
                s!"model={m} spec={spec} impl={impl}")
    | _, _ => (st, bad "val args")
  | _ => (st, bad "constr op")

end SimVerif.Driver.ConstrD
