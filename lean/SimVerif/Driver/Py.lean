import SimVerif.Driver.Common
import SimVerif.Gen.PyTable
/-!
`py …` requests (C18): the line carries the answer of the Rust executor (wrapped API called
directly) and, after a second `=>`, the answer of the Python executor (the module built from the
current tree). Values are compared structurally; objects are compared field by field, the Python
getter names being mapped to Rust field names through the generated table (`K`) and by the rule
"a getter returns the field it names" (`O`).
-/
namespace SimVerif.Driver.PyD
open SimVerif.Wire SimVerif.PyBind SimVerif.Driver

inductive Val where
  | prim (t : String)
  | obj (cls : String) (fields : List (String × Val))
  | list (items : List Val)
deriving Repr, Inhabited

def enc (s : String) : Name := s.toList.map Char.toNat
def dec (n : Name) : String := String.ofList (n.map Char.ofNat)

mutual
def parseVal : Nat → List String → Option (Val × List String)
  | 0, _ => none
  | _, [] => none
  | fuel+1, "{" :: cls :: rest => (parseFields fuel rest []).map (fun (fs, r) => (.obj cls fs, r))
  | fuel+1, "[" :: rest => (parseItems fuel rest []).map (fun (is, r) => (.list is, r))
  | _, "}" :: _ => none
  | _, "]" :: _ => none
  | _, t :: rest => some (.prim t, rest)
def parseFields : Nat → List String → List (String × Val) → Option (List (String × Val) × List String)
  | 0, _, _ => none
  | _, [], _ => none
  | _, "}" :: rest, acc => some (acc.reverse, rest)
  | fuel+1, name :: rest, acc =>
    if !name.endsWith "=" then none else
    match parseVal fuel rest with
    | some (v, r) => parseFields fuel r ((String.ofList name.toList.dropLast, v) :: acc)
    | none => none
def parseItems : Nat → List String → List Val → Option (List Val × List String)
  | 0, _, _ => none
  | _, [], _ => none
  | _, "]" :: rest, acc => some (acc.reverse, rest)
  | fuel+1, ts, acc =>
    match parseVal fuel ts with
    | some (v, r) => parseItems fuel r (v :: acc)
    | none => none
end

def parseAll : Nat → List String → Option (List Val)
  | 0, _ => none
  | _, [] => some []
  | fuel+1, ts => match parseVal (ts.length + 1) ts with
    | some (v, r) => (parseAll fuel r).map (v :: ·)
    | none => none

/-- the Rust field a Python getter of class `cls` is wired to, according to the generated table -/
def fieldFor (cls py : String) : Option String :=
  ((getterMap Gen.pyTable (enc cls)).find? (fun p => p.1 == enc py)).map (fun p => dec p.2)

def nGetters (cls : String) : Nat := (getterMap Gen.pyTable (enc cls)).length

/-- `repr` of a wrapper object without getters shows the wrapper: `s:PyVotingType(Positional)` stands for `s:Positional` -/
def normPrim (t : String) : String :=
  let cs := t.toList
  if cs.take 4 == "s:Py".toList && cs.getLast? == some ')' then
    match (cs.drop 2).dropWhile (· != '(') with
    | _ :: inner => "s:" ++ String.ofList inner.dropLast
    | [] => t
  else t

/-- `viewEq byTable py rust`: the Python value is the projection of the Rust value -/
partial def viewEq (byTable : Bool) : Val → Val → Bool
  | .prim a, .prim b => normPrim a == normPrim b
  | .list xs, .list ys => xs.length == ys.length && (xs.zip ys).all (fun (x, y) => viewEq byTable x y)
  | .obj c fp, .obj c' fr =>
    c == c' &&
    -- every Python getter shows the Rust field it is wired to / it names
    fp.all (fun (n, v) =>
      match (if byTable then fieldFor c n else some n) with
      | some f => (match fr.find? (fun q => q.1 == f) with
        | some (_, rv) => viewEq byTable v rv
        | none => false)
      | none => false) &&
    -- every Rust field is exposed by some getter, and the dump used all the getters of the table
    fr.all (fun (f, _) => fp.any (fun (n, _) => (if byTable then fieldFor c n else some n) == some f)) &&
    (!byTable || fp.length == nGetters c)
  | _, _ => false

partial def depth : Val → Nat
  | .prim _ => 0
  | .list xs => 1 + (xs.map depth).foldl max 0
  | .obj _ fs => 1 + (fs.map (fun f => depth f.2)).foldl max 0

partial def hasObj : Val → Bool
  | .prim _ => false
  | .list xs => xs.any hasObj
  | .obj _ _ => true

partial def classesOf : Val → List String
  | .prim _ => []
  | .list xs => xs.flatMap classesOf
  | .obj c fs => c :: fs.flatMap (fun f => classesOf f.2)

def handle (args impl : List String) : String :=
  let (rust, py) := splitAt "=>" impl
  if py.isEmpty then bad "py: no Python answer on the line (pipeline without the Python stage?)" else
  match parseAll (rust.length + 2) rust, parseAll (py.length + 2) py with
  | some rv, some pv =>
    let k := rv.length == pv.length && (pv.zip rv).all (fun (p, r) => viewEq true p r)
    let o := rv.length == pv.length && (pv.zip rv).all (fun (p, r) => viewEq false p r)
    let op := match args with
      | "trk" :: op :: _ => "trk-" ++ op
      | op :: _ => op
      | [] => "?"
    let cls := (rv.flatMap classesOf).eraseDups
    let dflt := match args with
      | "trk" :: "new" :: kind :: n :: _ => (kind == "sort" && n != "8") || (kind == "bsort" && n != "9")
      | "kfbox" :: "-" :: _ => true
      | "kfpt" :: "-" :: _ => true
      | "kfvec" :: "-" :: _ => true
      | _ => false
    res k o ([op] ++ flag (rv.any hasObj) "objects-compared" ++ flag (rv.any (fun v => depth v ≥ 3)) "nested-objects" ++
        flag (rust.contains "ERR") "err-branch" ++ flag dflt "defaults-used" ++ cls.map (fun c => "class-" ++ c) ++
        flag (rv.any (fun v => match v with | .list (_ :: _ :: _) => true | _ => false)) "multi-element-list")
      s!"values={rv.length}"
  | none, _ => bad "py: cannot parse the Rust answer"
  | _, none =>
    -- the Python side raised / panicked where the Rust API answered
    res false false ["python-exception"] s!"python answer: {joinSp (py.take 6)}"

end SimVerif.Driver.PyD
