import SimVerif.Driver.Common
import SimVerif.Model.Nms
import SimVerif.Driver.Geom
namespace SimVerif.Driver.NmsD
open SimVerif.Wire SimVerif.Nms SimVerif.Driver

/-- geometry of the boxes of the request (the NMS model itself only needs rank data) -/
def parseGeo : Nat → List String → Option (List (Geom.UBox Rat))
  | 0, _ => some []
  | n+1, a :: h :: _s :: xc :: yc :: ang :: _stale :: ts => do
    let a ← rat? a; let h ← rat? h; let xc ← rat? xc; let yc ← rat? yc; let ang ← optTok rat? ang
    let rest ← parseGeo n ts
    pure ({ xc := xc, yc := yc, angle := ang, aspect := a, height := h, conf := 1 } :: rest)
  | _, _ => none

/-- request: `n (aspect height score|- xc yc angle|- stale)*n thr sthr|- => covbits(n*n of 0/1, row a col b = cov a b) kept(list) again(list)` -/
def parseBoxes : Nat → Nat → List String → Option (List (Box Nat) × List String)
  | 0, _, ts => some ([], ts)
  | n+1, i, a :: h :: s :: _xc :: _yc :: _ang :: _stale :: ts => do
    let a ← rat? a
    let h ← rat? h
    let s ← optTok rat? s
    let (rest, ts') ← parseBoxes n (i+1) ts
    pure ({ item := i, score := s, height := h, aspect := a } :: rest, ts')
  | _, _, _ => none

/-- executable statement of C14 on an arbitrary claimed output `out` (positions) -/
def oracle (cov : Box Nat → Box Nat → Bool) (sthr : Option Rat) (l : List (Box Nat)) (out : List (Box Nat)) : Bool :=
  let ranked := (l.filter (passes sthr)).mergeSort rankGE
  -- subset of filtered, in rank order
  out.all (fun b => ranked.any (fun c => c.item == b.item)) &&
  (out.map (·.item)).eraseDups.length == out.length &&
  (out.zip out.tail).all (fun (a, b) => decide (rank b ≤ rank a)) &&
  -- top kept
  (match ranked with
    | [] => out.isEmpty
    | t :: _ => (out.head?.map (fun b => decide (rank b = rank t))).getD false) &&
  -- independence: no kept box covered by an earlier kept one
  (List.range out.length).all (fun j => (List.range j).all (fun i =>
      match out[i]?, out[j]? with
      | some a, some b => !cov a b
      | _, _ => true)) &&
  -- maximality: each dropped candidate is covered by a kept box of at least its rank
  ranked.all (fun b => out.any (fun c => c.item == b.item) ||
      out.any (fun a => cov a b && decide (rank b ≤ rank a)))

def handle (args impl : List String) : String :=
  match args with
  | nTok :: rest =>
    match nTok.toNat? with
    | none => bad "n"
    | some n =>
    match parseBoxes n 0 rest with
    | none => bad "boxes"
    | some (boxes, rest) =>
    match rest with
    | [_thr, sthrTok] =>
      match optTok rat? sthrTok with
      | none => bad "sthr"
      | some sthr =>
      -- implementation side
      let covBits := impl.take (n * n)
      let rest2 := impl.drop (n * n)
      match natList rest2 with
      | none => bad "kept"
      | some (kept, rest3) =>
      match natList rest3 with
      | none => bad "again"
      | some (again, _) =>
      let covArr := covBits.toArray
      let cov : Box Nat → Box Nat → Bool := fun a b => covArr.getD (a.item * n + b.item) "0" == "1"
      -- the driver's own coverage predicate: exact intersection of the model polygons (cos / sin of the angles from the
      -- executor) over the area of the covered box, against the nms threshold; inside a guard band the implementation's bit stands
      let geo := (parseGeo n (args.drop 1)).getD []
      let thr := (rat? _thr).getD 0
      let csTail : List String := (GeomD.afterCS impl).getD []
      let csVals : List Rat := csTail.filterMap rat?
      let polys : Array (List GeomD.P) := ((List.range n).map (fun i =>
        match geo[i]? with
        | some u => Geom.vertices u (csVals.getD (2 * i) 1) (csVals.getD (2 * i + 1) 0)
        | none => [])).toArray
      let validB (i : Nat) : Bool := match geo[i]? with | some u => decide (u.height > 0) && decide (u.aspect > 0) | none => false
      let refBit (a b : Nat) : Option Bool :=     -- none: undecided (guard band / no geometry)
        if a == b || !validB a || !validB b then some false else
        match geo[a]?, geo[b]? with
        | some ua, some ub =>
          let dd := (ua.xc - ub.xc) * (ua.xc - ub.xc) + (ua.yc - ub.yc) * (ua.yc - ub.yc)
          if dd > 2 * (Geom.radiusSq ua + Geom.radiusSq ub) then some false else
          let ratio := GeomD.refInterArea (polys.getD a []) (polys.getD b []) / Geom.area ub
          if rabs (ratio - thr) ≤ 1 / 5000 then none else some (decide (ratio > thr))
        | _, _ => none
      let haveCS := csVals.length == 2 * n && geo.length == n
      let covMismatch := haveCS && (List.range n).any (fun a => (List.range n).any (fun b =>
        match refBit a b with
        | some r => r != (covArr.getD (a * n + b) "0" == "1")
        | none => false))
      let model := (nms cov sthr boxes).map (·.item)
      let implOut := kept.filterMap (fun i => boxes[i]?)
      let o1 := oracle cov sthr boxes implOut
      -- idempotence on the implementation: second run over its own output returns all of it, in order
      let o2 := again == List.range kept.length
      let nPass := (boxes.filter (passes sthr)).length
      let ranks := (boxes.filter (passes sthr)).map rank
      let res : Res := {
        k := model == kept
        o := o1 && o2 && !covMismatch
        flags := flag (model.length < nPass) "dropped" ++ flag (model.length > 1) "multi-kept" ++
                 flag (nPass < n) "filtered" ++ flag (ranks.eraseDups.length < ranks.length) "rank-tie" ++
                 flag (n == 0) "empty" ++ flag haveCS "coverage-reference-checked" ++ flag covMismatch "coverage-predicate-wrong"
        detail := s!"model={model} impl={kept} again={again} o1={o1} o2={o2} covMismatch={covMismatch}" }
      res.line
    | _ => bad "tail"
  | _ => bad "args"

end SimVerif.Driver.NmsD
