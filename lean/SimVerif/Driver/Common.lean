import SimVerif.Model.Wire
/-! Result lines of the model driver: `R K=<0|1> O=<0|1> F=<flags> | <detail>`.
`K` = the model's answer equals the implementation's (correspondence),
`O` = the property oracle (the executable statement of the theorem) holds on the implementation's
answer, `F` = which interesting branches this request reached (for the evidence). -/
namespace SimVerif.Driver
open SimVerif.Wire

structure Res where
  k : Bool := true
  o : Bool := true
  flags : List String := []
  detail : String := ""

def Res.line (r : Res) : String :=
  let oneLine (t : String) : String := String.ofList (t.toList.map (fun c => if c == '\n' || c == '\r' then ' ' else c))
  s!"R K={if r.k then 1 else 0} O={if r.o then 1 else 0} F={",".intercalate r.flags} | {oneLine r.detail}"

def res (k o : Bool) (flags : List String) (detail : String) : String :=
  ({ k := k, o := o, flags := flags, detail := detail } : Res).line

def bad (why : String) : String := s!"BAD {why}"

def flag (b : Bool) (name : String) : List String := if b then [name] else []

end SimVerif.Driver
