import SimVerif.Driver.Common
import SimVerif.Model.Voting
import SimVerif.Model.Assign
namespace SimVerif.Driver.VoteD
open SimVerif.Wire SimVerif.Voting SimVerif.Driver

def parseStream : Nat → List String → Option (List Dist × List String)
  | 0, ts => some ([], ts)
  | n+1, q :: w :: d :: ts => do
    let q ← q.toNat?
    let w ← w.toNat?
    let d ← optTok rat? d
    let (rest, ts') ← parseStream n ts
    pure ({ q := q, w := w, d := d } :: rest, ts')
  | _, _ => none

/-- implementation result map: `nq (q cnt (w weight)*cnt)*nq` -/
def parseGroup : Nat → List String → Option (List (Nat × Rat) × List String)
  | 0, ts => some ([], ts)
  | n+1, w :: wt :: ts => do
    let w ← w.toNat?
    let wt ← rat? wt
    let (rest, ts') ← parseGroup n ts
    pure ((w, wt) :: rest, ts')
  | _, _ => none

def parseMap : Nat → List String → Option (List (Nat × List (Nat × Rat)))
  | 0, [] => some []
  | n+1, q :: cnt :: ts => do
    let q ← q.toNat?
    let cnt ← cnt.toNat?
    let (g, ts') ← parseGroup cnt ts
    let rest ← parseMap n ts'
    pure ((q, g) :: rest)
  | _, _ => none

def sortNat (l : List Nat) : List Nat := l.mergeSort (fun a b => decide (a ≤ b))

def distinctWeights (l : List Elt) : Bool := (l.map (·.weight)).eraseDups.length == l.length

def descending (l : List Rat) : Bool := (l.zip l.tail).all (fun (a, b) => decide (b ≤ a))

def handleTopn (args impl : List String) : String :=
  match args with
  | nT :: mdT :: mvT :: kT :: rest =>
    match nT.toNat?, rat? mdT, mvT.toNat?, kT.toNat? with
    | some n, some maxD, some mv, some k =>
      match parseStream k rest, impl with
      | some (s, []), nqT :: irest =>
        match nqT.toNat? >>= (parseMap · irest) with
        | none => bad "impl map"
        | some im =>
          let cs := cands maxD mv s
          let keys := sortNat (topnKeys maxD mv s)
          let implKeys := im.map (·.1)
          let perQ := keys.map (fun q => (q, topn n maxD mv s q))
          let tie := perQ.any (fun (q, _) => !distinctWeights (cs.filter (·.q == q)))
          -- exact comparison (unique outcome when no ties)
          let exact := implKeys == keys && (List.zip perQ im).all (fun ((_, m), (_, g)) =>
            m.map (fun e => (e.w, e.weight)) == g)
          -- executable statement of C17_topn_spec on the implementation's map
          let oracle := implKeys == keys && im.all (fun (q, g) =>
            let cq := cs.filter (·.q == q)
            g.all (fun (w, wt) => cq.any (fun c => c.w == w && c.weight == wt)) &&
            (g.map (·.1)).eraseDups.length == g.length &&
            descending (g.map (·.2)) &&
            g.length == min n cq.length &&
            cq.all (fun c => g.any (fun (w, _) => w == c.w) || g.all (fun (_, wt) => decide (c.weight ≤ wt))))
          -- n = 0 keeps the key with an empty list
          res (if tie then oracle else exact) oracle
            (flag tie "tie" ++ flag (cs.length > 1) "multi-cand" ++ flag (perQ.any (fun (q, l) => l.length < (cs.filter (·.q == q)).length)) "truncated" ++
             flag (s.any (fun e => match e.d with | some d => decide (d > maxD) | none => false)) "over-max" ++
             flag ((kept maxD s).length > cs.length) "multi-vote-or-dropped" ++ flag (keys.length > 1) "multi-query")
            s!"model={perQ.map (fun (p : Nat × List Elt) => (p.1, p.2.map (fun (e : Elt) => (e.w, showRat e.weight))))} tie={tie}"
      | _, _ => bad "stream"
    | _, _, _, _ => bad "topn params"
  | _ => bad "topn args"

def handleBest (args impl : List String) : String :=
  match args with
  | mdT :: mvT :: kT :: rest =>
    match rat? mdT, mvT.toNat?, kT.toNat? with
    | some maxD, some mv, some k =>
      match parseStream k rest, impl with
      | some (s, []), nqT :: irest =>
        match nqT.toNat? >>= (parseMap · irest) with
        | none => bad "impl map"
        | some im =>
          let cs := cands maxD mv s
          let all := bestfitAll maxD mv s
          let keys := sortNat (firsts (cs.map (·.q)))
          let tie := !distinctWeights cs
          let perQ := keys.map (fun q => (q, bestfit maxD mv s q))
          let exact := im.map (·.1) == keys && (List.zip perQ im).all (fun ((_, m), (_, g)) =>
            m.map (fun e => (e.w, e.weight)) == g)
          -- oracle: every candidate accounted for once, with its own track or itself; a track goes to
          -- exactly one claimant and no claimant of a track is strictly heavier than its holder
          let implFlat : List (Nat × Nat × Rat) := im.flatMap (fun (q, g) => g.map (fun (w, wt) => (q, w, wt)))
          let holders := implFlat.filter (fun (q, w, _) => cs.any (fun c => c.q == q && c.w == w))
          let oracle := im.map (·.1) == keys &&
            implFlat.length == cs.length &&
            cs.all (fun c => implFlat.any (fun (q, w, wt) => q == c.q && wt == c.weight && (w == c.w || w == c.q))) &&
            ((holders.map (fun (_, w, _) => w)).eraseDups.length == holders.length) &&
            cs.all (fun c =>
              -- the track c claims is held by somebody at least as heavy as c
              holders.any (fun (_, w, wt) => w == c.w && decide (c.weight ≤ wt))) &&
            im.all (fun (_, g) => descending (g.map (·.2)))
          res (if tie then oracle else exact) oracle
            (flag tie "tie" ++ flag (all.any (fun e => !e.2)) "fallback" ++ flag (cs.length > 1) "multi-cand" ++
             flag (s.any (fun e => match e.d with | some d => decide (d > maxD) | none => false)) "over-max" ++
             flag (keys.length > 1) "multi-query")
            s!"model={perQ.map (fun (p : Nat × List Elt) => (p.1, p.2.map (fun (e : Elt) => (e.w, showRat e.weight))))} tie={tie}"
      | _, _ => bad "stream"
    | _, _, _ => bad "best params"
  | _ => bad "best args"

open SimVerif.AssignX in
def handleHung (args impl : List String) : String :=
  match args with
  | thrT :: cnT :: tnT :: kT :: rest =>
    match rat? thrT, cnT.toNat?, tnT.toNat?, kT.toNat? with
    | some thr, some cnum, some tnum, some k =>
      match parseStream k rest with
      | some (s, []) =>
        let es : List Entry := s.map (fun e => { q := e.q, t := e.w, w := quantise (e.d.getD 0) })
        let thrQ := quantise thr
        let qs := queries es
        let ts := tracks es
        match impl with
        | npT :: prest =>
          match npT.toNat? >>= (fun np => parseList 2 (fun r => match r with
              | [a, b] => do pure ((← a.toNat?), (← b.toNat?)) | _ => none) (toString np :: prest)) with
          | none => bad "impl pairs"
          | some (pairs, _) =>
            if tnum == 0 then res (pairs == []) (pairs == []) ["no-tracks"] "track_num=0 -> empty" else
            -- decode the implementation's answer into a partial assignment aligned with qs
            let implA : List (Option Nat) := qs.map (fun q => match pairs.find? (fun p => p.1 == q) with
              | some (_, t) => if t == q then none else some t
              | none => some 0)   -- missing entry: marked with the impossible track 0
            let wellFormed := (sortNat (pairs.map (·.1))) == sortNat qs &&
              implA.all (fun o => match o with | some t => ts.contains t | none => true) &&
              ((implA.filterMap id).eraseDups.length == (implA.filterMap id).length)
            let b := best es thrQ
            let implObj := objective es thrQ qs implA
            let gated := (List.zip qs implA).all (fun (q, o) => match o with
              | some t => decide (thrQ ≤ weightOf es q t) | none => true)
            let opts := optimal es thrQ
            let oracle := wellFormed && implObj == b && (gated || thrQ ≤ 0)
            let unique := opts.length == 1
            let greedyDiffers :=
              -- row-greedy choice (each query its heaviest free gated track in order) is not optimal
              let g := qs.foldl (fun (acc : List (Option Nat)) q =>
                let free := ts.filter (fun t => !(acc.filterMap id).contains t && decide (thrQ ≤ weightOf es q t))
                let bestT := free.foldl (fun (bt : Option Nat) t => match bt with
                  | none => some t
                  | some b => if weightOf es q t > weightOf es q b then some t else some b) none
                acc ++ [bestT]) []
              objective es thrQ qs g < b
            res (if unique then some implA == opts.head? else oracle) oracle
              (flag (!unique) "tie" ++ flag greedyDiffers "greedy-suboptimal" ++ flag (implA.any Option.isSome) "match" ++
               flag (implA.any Option.isNone) "unmatched" ++ flag (qs.length > 1 && ts.length > 1) "multi" ++
               flag (qs.length < cnum) "unused-rows" ++ flag (es.any (fun e => e.w == thrQ)) "at-threshold")
              s!"best={b} implObj={implObj} wellFormed={wellFormed} gated={gated} nopt={opts.length} model={opts.head?}"
        | _ => bad "impl"
      | _ => bad "stream"
    | _, _, _, _ => bad "hung params"
  | _ => bad "hung args"

def handle (args impl : List String) : String :=
  match args with
  | "topn" :: a => handleTopn a impl
  | "best" :: a => handleBest a impl
  | "hung" :: a => handleHung a impl
  | _ => bad "vote op"

end SimVerif.Driver.VoteD
