import SimVerif.Driver.Common
import SimVerif.Model.Feature
namespace SimVerif.Driver.FeatD
open SimVerif.Wire SimVerif.Feature SimVerif.Driver

def parseVec (ts : List String) : Option (List Rat × List String) :=
  parseList 1 (fun r => match r with | [t] => rat? t | _ => none) ts

/-- textbook reference on the original vectors: zero-pad each to its packed length, cut both to the
common packed prefix -/
def padTo8 (v : List Rat) : List Rat :=
  let n := if v.length == 0 then 8 else ((v.length + 7) / 8) * 8
  v ++ List.replicate (n - v.length) 0

def refVecs (a b : List Rat) : List Rat × List Rat :=
  let pa := padTo8 a; let pb := padTo8 b
  let m := min pa.length pb.length
  (pa.take m, pb.take m)

def sumR (l : List Rat) : Rat := l.foldl (· + ·) 0

def handle (args impl : List String) : String :=
  match args with
  | "pack" :: rest =>
    match parseVec rest, parseVec impl with
    | some (v, []), some (out, []) =>
      let m := unpack (pack v)
      let spec := padTo8 v
      res (m == out) (spec == out) (flag (v.length % 8 != 0) "partial-block" ++ flag (v.length == 0) "empty" ++
        flag (v.length > 8) "multi-block") s!"len={v.length} modelLen={m.length} implLen={out.length}"
    | _, _ => bad "pack parse"
  | "dist" :: rest =>
    match parseVec rest with
    | some (a, rest2) =>
      match parseVec rest2, impl with
      | some (b, []), [eab, eba, cab, cba, eaa, caa] =>
        match fl? eab, fl? eba, fl? cab, fl? cba, fl? eaa, fl? caa with
        | some (.fin eab), some (.fin eba), some cabF, some cbaF, some (.fin eaa), some caaF =>
          let fa := pack a; let fb := pack b
          let len := min fa.length fb.length
          let sq := sqEuclid fa fb
          let dt := dot fa fb
          let n1 := sqNorm fa len; let n2 := sqNorm fb len
          -- textbook reference
          let (ra, rb) := refVecs a b
          let sqRef := sumR ((ra.zip rb).map (fun p => (p.1 - p.2) * (p.1 - p.2)))
          let dtRef := sumR ((ra.zip rb).map (fun p => p.1 * p.2))
          let n1Ref := sumR (ra.map (fun x => x * x)); let n2Ref := sumR (rb.map (fun x => x * x))
          let tol : Rat := 1 / 5000
          let eOk (sqv : Rat) := if sqv == 0 then eab == 0 else close (eab * eab) sqv tol 0
          let nonzero := n1Ref != 0 && n2Ref != 0
          let cOk (d n1 n2 : Rat) (c : Fl) : Bool :=
            if n1 == 0 || n2 == 0 then true   -- 0/0: outside the property (non-zero vectors)
            else match c with
              | .fin c => decide (rabs (c - d / ratSqrt (n1 * n2)) ≤ tol)
              | _ => false
          let symm := eab == eba && cabF == cbaF
          let self := eaa == 0 && (if n1Ref == 0 || a.length == 0 then true else match caaF with
              | .fin c => decide (rabs (c - 1) ≤ tol) | _ => false)
          let range := match cabF with | .fin c => decide (rabs c ≤ 1 + tol) | _ => !nonzero
          res (eOk sq && cOk dt n1 n2 cabF) (eOk sqRef && cOk dtRef n1Ref n2Ref cabF && symm && self && range)
            (flag (a.length != b.length) "diff-len" ++ flag (fa.length != fb.length) "diff-blocks" ++
             flag (a.length % 8 != 0 || b.length % 8 != 0) "partial-block" ++ flag nonzero "nonzero" ++
             flag (decide (n1Ref * n2Ref < 1/100) && nonzero) "small-magnitude" ++ flag (decide (dtRef < 0)) "negative-dot")
            s!"sq={showRat sq} sqRef={showRat sqRef} symm={symm} self={self} range={range}"
        | _, _, _, _, _, _ => bad "dist impl floats"
      | _, _ => bad "dist parse b"
    | none => bad "dist parse a"
  | _ => bad "feat op"

end SimVerif.Driver.FeatD
