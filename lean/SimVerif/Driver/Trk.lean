import SimVerif.Driver.Common
import SimVerif.Model.Tracker
import SimVerif.Model.BatchProtocol
import SimVerif.Model.Constraints
import SimVerif.Model.VisualMetric
namespace SimVerif.Driver.TrkD
open SimVerif.Wire SimVerif.Tracker SimVerif.Driver

structure St where
  cfg : Cfg := { maxIdle := 0, histLen := 1, batchIds := false, thr := 0 }
  st : Tracker.St := {}
  shards : Nat := 1
  batch : Bool := false
  nextTok : Nat := 0
  issued : List Nat := []       -- every track id seen in a record so far (ghost, for the freshness oracle)
  handedSeen : List Nat := []   -- ids returned by wasted() so far
  tieScenes : List Nat := []    -- scenes for which some call had more than one optimal choice
  vshards : Nat := 1            -- voting workers of a batch tracker
  visual : Bool := false
  qCollect : Rat := 0           -- VisualSORT collect thresholds (Layer-G decision `collectOk` is taken here)
  minArea : Rat := 0
  ownCollect : Rat := 0
  vCosine : Bool := false        -- VisualSORT appearance metric: cosine (else Euclidean)
  vThr : Rat := 0
  minLen : Nat := 1             -- `visual_minimal_track_length`
  qUse : Rat := 0               -- use thresholds (Layer-G decision `useOk` is taken here)
  ownUse : Rat := 0
  constr : List Constraints.Entry := []   -- the tracker's spatio-temporal constraint table
  constrained : Bool := false   -- spatio-temporal constraints configured (compatibility then also depends on geometry)
  featVecs : List (Nat × List Rat) := []   -- feature token ↦ the feature vector of that detection
  desynced : Bool := false      -- after `pipe` (no distance tables): the slot is only good for `cmp`

/-! parsing -/
/-- one detection: `xc yc angle aspect height conf custom` and, for the VisualSORT kinds,
`quality|- nfeat f*`; returns custom id, quality (default 1), whether a feature is present -/
def dropDet (visual : Bool) (ts : List String) : Option ((Option Int × Rat × Bool) × List String) :=
  match ts with
  | _xc :: _yc :: _ang :: _asp :: _h :: _conf :: cu :: rest => do
    let c ← optTok int? cu
    if !visual then pure ((c, 1, false), rest) else
    match rest with
    | q :: nf :: rest2 => do
      let q ← optTok rat? q
      let nf ← nf.toNat?
      if rest2.length < nf then none else pure ((c, q.getD 1, nf > 0), rest2.drop nf)
    | _ => none
  | _ => none

def parseDets (visual : Bool) : Nat → Nat → List String → Option (List Det × List String)
  | 0, _, ts => some ([], ts)
  | n+1, tok, ts => do
    let ((cu, q, hasF), rest) ← dropDet visual ts
    let (ds, rest') ← parseDets visual n (tok + 1) rest
    pure ({ tok := tok + 1, custom := cu, quality := q, feat := if hasF then tok + 1 else 0 } :: ds, rest')

def parseScenes (visual : Bool) : Nat → Nat → List String → Option (List (Nat × List Det) × Nat × List String)
  | 0, tok, ts => some ([], tok, ts)
  | n+1, tok, sc :: k :: ts => do
    let sc ← sc.toNat?; let k ← k.toNat?
    let (ds, rest) ← parseDets visual k tok ts
    let (more, tok', rest') ← parseScenes visual n (tok + k) rest
    pure ((sc, ds) :: more, tok', rest')
  | _, _, _ => none

/-- `G n (area share|-)*`: per detection the box area and own-area share the implementation computed -/
def parseG : List String → Option (List (Rat × Option Rat) × List String)
  | "G" :: n :: rest => do
    let n ← n.toNat?
    let rec go : Nat → List String → Option (List (Rat × Option Rat) × List String)
      | 0, ts => some ([], ts)
      | m+1, a :: sh :: ts => do
        let a ← rat? a; let sh ← optTok rat? sh
        let (r, ts') ← go m ts
        pure ((a, sh) :: r, ts')
      | _, _ => none
    go n rest
  | _ => none

/-- `C m (cand track gap|- dist|-)*`: per pair of the table the epoch gap and the centre distance (in units of the
two bounding radii) that `compatible()` applied the spatio-temporal constraints to -/
def parseC : List String → Option (List (Nat × Nat × Nat × Rat) × List String)
  | "C" :: m :: rest => do
    let m ← m.toNat?
    let rec go : Nat → List String → Option (List (Nat × Nat × Nat × Rat) × List String)
      | 0, ts => some ([], ts)
      | k+1, f :: t :: g :: d :: ts => do
        let (r, ts') ← go k ts
        match f.toNat?, t.toNat?, g.toNat?, rat? d with
        | some f, some t, some g, some d => pure ((f, t, g, d) :: r, ts')
        | _, _, _, _ => pure (r, ts')      -- `-`: the track could not be read back
      | _, _ => none
    go m rest
  | ts => some ([], ts)

/-- every pair the table mentions is admitted by the constraint table for its epoch gap and distance -/
def constrOk (cs : List Constraints.Entry) (geo : List (Nat × Nat × Nat × Rat)) : Bool :=
  geo.all (fun (_, _, g, d) => Constraints.validate cs g d == some true)

def constrNear (cs : List Constraints.Entry) (geo : List (Nat × Nat × Nat × Rat)) : Bool :=
  geo.any (fun (_, _, g, d) => match Constraints.limitFor cs g with
    | some e => decide (e.2 / 2 ≤ d)
    | none => false)

/-- section of the implementation answer starting with a marker -/
def afterMarker (m : String) (ts : List String) : Option (List String) :=
  match ts with
  | [] => none
  | t :: rest => if t == m then some rest else afterMarker m rest

structure IRec where
  id : Nat
  epoch : Nat
  scene : Nat
  len : Nat
  custom : Option Int
  vt : Bool
  echo : Bool
  tok : Nat
deriving Repr, BEq

def parseRecs : Nat → List String → Option (List IRec × List String)
  | 0, ts => some ([], ts)
  | n+1, id :: ep :: sc :: ln :: cu :: vt :: ec :: tk :: ts => do
    let id ← id.toNat?; let ep ← ep.toNat?; let sc ← sc.toNat?; let ln ← ln.toNat?
    let cu ← optTok int? cu; let tk ← tk.toNat?
    let (rest, ts') ← parseRecs n ts
    pure ({ id := id, epoch := ep, scene := sc, len := ln, custom := cu, vt := vt == "1", echo := ec == "1", tok := tk } :: rest, ts')
  | _, _ => none

def parseTable : Nat → List String → Option (List (Nat × Nat × Option Rat × Option Rat) × List String)
  | 0, ts => some ([], ts)
  | n+1, f :: t :: a :: d :: ts => do
    let f ← f.toNat?; let t ← t.toNat?; let a ← optTok rat? a; let d ← optTok rat? d
    let (rest, ts') ← parseTable n ts
    pure ((f, t, a, d) :: rest, ts')
  | _, _ => none

/-- `K m (…)*` -/
def tableAt (ts : List String) : Option (List (Nat × Nat × Option Rat × Option Rat) × List String) :=
  match ts with
  | "K" :: m :: rest => m.toNat? >>= (parseTable · rest)
  | _ => none

/-- `S scene R n (…)*` -/
def recsAt (ts : List String) : Option (Nat × List IRec × List String) :=
  match ts with
  | "S" :: sc :: "R" :: n :: rest => do
    let sc ← sc.toNat?; let n ← n.toNat?
    let (rs, rest') ← parseRecs n rest
    pure (sc, rs, rest')
  | _ => none

/-! rendering of the model state in the executor's dump format -/
def optI (x : Option Int) : String := match x with | some v => toString v | none => "-"

/-- a rational that is an exact f32 back to its wire token is not needed: qualities are compared by
value, so they are rendered as exact rationals on both sides (see `normDump`) -/
def dumpTrk (visual : Bool) (t : Trk) : String :=
  let base := [toString t.id, toString t.scene, toString t.lastUpd, toString t.len, optI t.custom, showNats t.obsH, toString t.obsH.length]
  if !visual then joinSp base else
  joinSp (base ++ ["V", toString t.vcount, (match t.vt with | none => "-" | some true => "1" | some false => "0"), showNats t.featH,
    toString t.gallery.length] ++ t.gallery.flatMap (fun g => [showRat g.quality, toString g.feat, if g.box then "1" else "0"]))

def sortTrks (l : List Trk) : List Trk := l.mergeSort (fun a b => decide (a.id ≤ b.id))

def dumpState (n : Nat) (st : Tracker.St) (visual : Bool := false) : String :=
  let l := sortTrks st.live; let w := sortTrks st.wasted
  joinSp (["L", toString l.length] ++ l.map (dumpTrk visual) ++ ["W", toString w.length] ++ w.map (dumpTrk visual) ++
    ["A", showNats (shardCounts n st.live), "X", showNats (shardCounts n st.wasted)])

/-- the implementation's dump with every float token replaced by its exact rational (gallery qualities) -/
def implDump (impl : List String) : String :=
  match afterMarker "L" impl with
  | some rest => joinSp ("L" :: (rest.takeWhile (· != "EV")).map (fun t =>
      if t.length == 9 && t.startsWith "f" then (match rat? t with | some r => showRat r | none => t) else t))
  | none => "?"

/-! ### validation of a logged batch-protocol trace against `BatchProtocol.step` -/
open SimVerif.BatchProtocol in
/-- events of one thread: `(kind, arg)` -/
def parseThreads : Nat → List String → Option (List (List (String × Nat)))
  | 0, _ => some []
  | n+1, lenT :: ts => do
    let len ← lenT.toNat?
    let rec evs : Nat → List String → Option (List (String × Nat) × List String)
      | 0, ts => some ([], ts)
      | m+1, k :: a :: ts => do
        let a ← a.toNat?
        let (rest, ts') ← evs m ts
        pure ((k, a) :: rest, ts')
      | _, _ => none
    let (e, ts') ← evs len ts
    let rest ← parseThreads n ts'
    pure (e :: rest)
  | _, _ => none

open SimVerif.BatchProtocol in
/-- Is there an interleaving of the per-thread event sequences that is a path of the protocol model?
Greedy search: repeatedly fire the head event of the first thread whose head is enabled (events of
different threads that are both enabled commute). `P n` (consumer probe: `n` results had been sent
when the slow consumer woke up) is enabled once the model has performed `n` sends and requires
`n ≤ 1 + #received` (the channel holds at most one result). Returns (valid, steps, final state ok). -/
def validateTrace (V : Nat) (threads : List (List (String × Nat))) : Bool × Nat × String :=
  let scenes := (threads.flatMap id).filterMap (fun (k, a) => if k == "D" then some a else none)
  let total := (threads.map List.length).foldl (· + ·) 0
  let rec go : Nat → PS → List (List (String × Nat)) → Nat → Bool × Nat × String
    | 0, _, _, n => (false, n, "fuel")
    | fuel+1, s, ths, n =>
      if ths.all List.isEmpty then
        (decide (s.todo = []) && s.jobs.all (fun j => j.phase == .done) && s.chan.isNone && s.monitor == 0 &&
         s.delivered.length == scenes.length, n, "end")
      else
        let sentCount := (s.jobs.filter (fun j => j.phase == .sent || j.phase == .done)).length
        -- the consumer receives in the order the results were sent (capacity 1): a send may only be
        -- scheduled when it is the next result the consumer's log says it received
        let nextR : Option Nat := ((ths.flatMap id).find? (fun e => e.1 == "R")).map (·.2)
        let tryFire (e : String × Nat) : Option PS :=
          match e.1 with
          | "B" => if e.2 == scenes.length then some s else none
          | "D" => step V s (.dispatch e.2)
          | "T" => step V s (.take e.2)
          | "S" => if nextR.isNone || nextR == some e.2 then step V s (.send e.2) else none
          | "M" => step V s (.decr e.2)
          | "R" => step V s (.recv e.2)
          | "P" => if sentCount ≥ e.2 && e.2 ≤ 1 + s.delivered.length then some s else none
          | _ => none
        let rec pick : List (List (String × Nat)) → List (List (String × Nat)) → Option (PS × List (List (String × Nat)))
          | _, [] => none
          | before, [] :: after => pick (before ++ [[]]) after
          | before, (e :: es) :: after =>
            match tryFire e with
            | some s' => some (s', before ++ [es] ++ after)
            | none => pick (before ++ [e :: es]) after
        match pick [] ths with
        | some (s', ths') => go fuel s' ths' (n + 1)
        | none => (false, n, s!"stuck at {ths.map (fun t => t.head?)}")
  go (total + 2) (init scenes) threads 0

def toEntries (tbl : List (Nat × Nat × Option Rat × Option Rat)) : List Entry :=
  tbl.filterMap (fun (f, t, a, _) => a.map (fun a => { det := f, tid := t, w := AssignX.quantise a }))

def picksOf (st : Tracker.St) (recs : List IRec) : List Pick :=
  recs.map (fun r => if st.live.any (fun t => t.id == r.id) then .cont r.id r.vt else .fresh r.id)

def recEq (m : Rec) (i : IRec) : Bool :=
  m.id == i.id && m.epoch == i.epoch && m.scene == i.scene && m.len == i.len && m.custom == i.custom &&
  m.tok == i.tok && m.visual == i.vt

/-- row-greedy reference for the flag "greedy differs" -/
def competition (es : List Entry) (thr : Int) : Bool :=
  let gated := es.filter (fun e => decide (thr ≤ e.w))
  gated.any (fun a => gated.any (fun b => a.tid == b.tid && a.det != b.det))

/-- second pass over the detections of a predict request: feature token ↦ feature vector -/
def scanFeatsDets : Nat → Nat → List String → Option (List (Nat × List Rat) × List String)
  | 0, _, ts => some ([], ts)
  | n+1, tok, _xc :: _yc :: _ang :: _asp :: _h :: _conf :: _cu :: _q :: nf :: rest => do
    let nf ← nf.toNat?
    if rest.length < nf then none else
    let vec := (rest.take nf).filterMap rat?
    let (more, rest') ← scanFeatsDets n (tok + 1) (rest.drop nf)
    pure ((if nf > 0 then [(tok + 1, vec)] else []) ++ more, rest')
  | _, _, _ => none

def scanFeats : Nat → Nat → List String → List (Nat × List Rat)
  | 0, _, _ => []
  | n+1, tok, sc :: k :: ts =>
    match k.toNat? with
    | some k => (match scanFeatsDets k tok ts with
      | some (fs, rest) => fs ++ scanFeats n (tok + k) rest
      | none => [])
    | none => let _ := sc; []
  | _, _, _ => []

def vdot (a b : List Rat) : Rat := ((a.zip b).map (fun p => p.1 * p.2)).foldl (· + ·) 0
def vsq (a b : List Rat) : Rat := ((a.zip b).map (fun p => (p.1 - p.2) * (p.1 - p.2))).foldl (· + ·) 0

/-- appearance distance of two feature vectors under the configured metric:
(within the threshold, the vote weight, within the guard band of the threshold) -/
def featVote (cosine : Bool) (thr : Rat) (a b : List Rat) : Bool × Rat × Bool :=
  if cosine then
    let na := vdot a a; let nb := vdot b b
    let c := if na * nb ≤ 0 then 0 else vdot a b / ratSqrt (na * nb)
    (decide (thr ≤ c), 1 - c, decide (rabs (c - thr) ≤ 1 / 5000))
  else
    let d2 := vsq a b
    (decide (d2 ≤ thr * thr), ratSqrt d2, decide (rabs (d2 - thr * thr) ≤ thr * thr / 2000))

/-- The appearance gate of `VisualMetric::metric`, evaluated by the model for one scene of a call and
compared with the implementation's distance table: a (detection, track) pair gets one feature vote
per stored feature of the track that is within the threshold — provided the detection's feature may
be used (area, quality, own-area share ≥ the *use* thresholds) and the track has collected at least
`visual_minimal_track_length` features. Returns (K: counts and weights agree, O: every vote of the
implementation is justified, flags). -/
def visGate (st : St) (vecs : List (Nat × List Rat)) (sc e : Nat) (ds : List Det) (gsec : List (Rat × Option Rat))
    (tbl : List (Nat × Nat × Option Rat × Option Rat)) : Bool × Bool × List String :=
  let useOk : List Bool := (ds.zip gsec).map (fun (d, (area, share)) =>
    VisualMetric.featureCanBeUsed st.minArea area d.quality st.qUse share st.ownUse)
  let tracks := st.st.live.filter (fun t => t.scene == sc && decide (e - t.lastUpd ≤ st.cfg.maxIdle))
  let vec (tok : Nat) : Option (List Rat) := (vecs.find? (fun p => p.1 == tok)).map (·.2)
  let rows : List (Nat × Nat × Nat × Nat × Bool × Bool × List Rat × List Rat) :=
    ((List.range ds.length).zip (ds.zip useOk)).flatMap (fun (i, d, u) =>
      tracks.map (fun t =>
        let votes : List (Bool × Rat × Bool) :=
          if !u || d.feat == 0 || t.vcount < st.minLen then [] else
          match vec d.feat with
          | none => []
          | some a => t.gallery.filterMap (fun g => if g.feat == 0 then none else (vec g.feat).map (featVote st.vCosine st.vThr a))
        let expW := (votes.filter (·.1)).map (·.2.1)
        let implW := tbl.filterMap (fun (f, tid, _, dd) => if f == i && tid == t.id then dd else none)
        (i, t.id, expW.length, implW.length, votes.any (·.2.2), u && d.feat != 0 && decide (st.minLen ≤ t.vcount), expW, implW)))
  let sortR (l : List Rat) : List Rat := l.mergeSort (fun a b => decide (a ≤ b))
  -- with spatio-temporal constraints a pair may be incompatible for geometric reasons the token model does not see:
  -- completeness is then demanded only of pairs the table mentions at all
  let mentioned (i t : Nat) : Bool := tbl.any (fun (f, tid, _, _) => f == i && tid == t)
  let k := rows.all (fun (i, t, ne, ni, band, _, ew, iw) =>
    band || (st.constrained && !mentioned i t) ||
    (ne == ni && ((sortR ew).zip (sortR iw)).all (fun (a, b) => close a b (1/2000) (1/5000))))
  -- soundness: a vote of the implementation needs a usable feature, a long enough track and a stored feature within (or at) the threshold
  let o := rows.all (fun (_, _, ne, ni, band, gateOk, _, _) => ni == 0 || (gateOk && (band || ni ≤ ne))) &&
    tbl.all (fun (f, tid, _, dd) => dd.isNone || rows.any (fun r => r.1 == f && r.2.1 == tid))
  (k, o,
   (if k && o then [] else [String.ofList (("gate-rows:" ++ ";".intercalate (rows.map (fun (i, t, ne, ni, band, g, ew, iw) =>
      s!"d{i}/t{t}/exp{ne}/impl{ni}/band{band}/gate{g}/{ew.map showRat}/{iw.map showRat}"))).toList.filter (fun c => c != ' ' && c != ','))]) ++
   flag (rows.any (fun r => r.2.2.1 > 0)) "appearance-votes" ++
   flag (rows.any (fun r => r.2.2.2.2.1)) "visual-threshold-guard-band" ++
   flag ((ds.zip useOk).any (fun (d, u) => d.feat != 0 && !u)) "feature-not-usable" ++
   flag (tracks.any (fun t => t.vcount < st.minLen)) "track-below-minimal-length" ++
   flag (rows.any (fun (_, _, ne, _, _, g, _, _) => g && ne == 0)) "all-features-over-threshold")

/-! ### exact ties between appearance vote weights
The best-fit voting sorts the claims by weight with a stable sort over a hash-map order, so among
claims of exactly equal weight any order may result. The model is deterministic given the order of
the distance table (stable sort over first-appearance order); the set of outcomes under ties is the
set of model outcomes over the orders of the table. The driver therefore re-reads the table in every
order of the tied claims (at most 4 tied claims per scene, else the base order only). -/
/-- the groups of claims (detection, track) with exactly equal weight (groups of at least two) -/
def tieGroups (cfg : Cfg) (ves : List VEntry) : List (List (Nat × Nat)) :=
  let cs := Voting.cands Nms.F32_MAX cfg.minVotes (featStream ves)
  let ws := (cs.map (·.weight)).eraseDups
  (ws.map (fun w => (cs.filter (fun c => c.weight == w)).map (fun c => (c.q - QBASE, c.w)))).filter (fun g => g.length ≥ 2)

def tieKeys (cfg : Cfg) (ves : List VEntry) : List (Nat × Nat) := (tieGroups cfg ves).flatMap id

def insertEverywhere {α : Type} (x : α) : List α → List (List α)
  | [] => [[x]]
  | y :: ys => (x :: y :: ys) :: (insertEverywhere x ys).map (y :: ·)

def permsOf {α : Type} : List α → List (List α)
  | [] => [[]]
  | x :: xs => (permsOf xs).flatMap (insertEverywhere x)

def cartesian {α : Type} : List (List α) → List (List α)
  | [] => [[]]
  | l :: rest => let r := cartesian rest; l.flatMap (fun x => r.map (x :: ·))

def tableVariants (cfg : Cfg) (ves : List VEntry) (picks : List Pick) : List (List VEntry) :=
  let groups := tieGroups cfg ves
  if groups.isEmpty then [ves] else
  let keys := groups.flatMap id
  let isTie (x : VEntry) : Bool := keys.contains (x.det, x.tid)
  let reorder (order : List (Nat × Nat)) : List VEntry :=
    order.flatMap (fun k => ves.filter (fun x => x.det == k.1 && x.tid == k.2)) ++ ves.filter (fun x => !isTie x)
  -- the order suggested by the implementation's own outcome: the claims it awarded first
  let awarded (k : Nat × Nat) : Bool := (picks.getD k.1 (.fresh 0)) == .cont k.2 true
  let takenTracks := (keys.filter awarded).map (·.2)
  -- then the claims on tracks that were awarded to somebody else (they lose whatever comes after), then the rest
  let guided := reorder (keys.filter awarded ++ keys.filter (fun k => !awarded k && takenTracks.contains k.2) ++
                         keys.filter (fun k => !awarded k && !takenTracks.contains k.2))
  if groups.any (fun g => g.length > 4) || groups.length > 3 then [guided, ves] else
  guided :: (cartesian (groups.map permsOf)).map (fun orders => reorder (orders.flatMap id))

def handleNew (st : St) (args : List String) : St × String :=
  match args with
  | kind :: sh :: _vsh :: hist :: mi :: rest =>
    match sh.toNat?, hist.toNat?, mi.toNat? with
    | some sh, some hist, some mi =>
      let (thr, ok) : Int × Bool := match rest with
        | "iou" :: t :: _ => ((rat? t).map AssignX.quantise |>.getD 0, true)
        | "maha" :: _ => (AssignX.quantise 1, true)
        | _ => (0, false)
      if !ok then (st, bad "method") else
      let batch := kind == "bsort" || kind == "bvisual"
      let visual := kind == "visual" || kind == "bvisual"
      -- `V euclid|cosine thr minVotes minLen maxObs qUse qCollect minArea ownUse ownCollect`
      let vsec := (afterMarker "V" rest).getD []
      let minVotes := (vsec.getD 2 "1").toNat?.getD 1
      let maxObs := (vsec.getD 4 "1").toNat?.getD 1
      let qCollect := (rat? (vsec.getD 6 "")).getD 0
      let minArea := (rat? (vsec.getD 7 "")).getD 0
      let ownCollect := (rat? (vsec.getD 9 "")).getD 0
      let vCosine := vsec.getD 0 "" == "cosine"
      let constrToks : List String := match rest.takeWhile (· != "V") with
        | "iou" :: _ :: _ :: _ :: r => r
        | "maha" :: _ :: _ :: r => r
        | _ => []
      let rec pairsOf : Nat → List String → List Constraints.Entry
        | 0, _ => []
        | k+1, g :: l :: r => (match g.toNat?, rat? l with
          | some g, some l => (g, l) :: pairsOf k r
          | _, _ => pairsOf k r)
        | _, _ => []
      let constr := (Constraints.addConstraints [] (pairsOf constrToks.length constrToks)).getD []
      let constrained := match rest.takeWhile (· != "V") with
        | "iou" :: _ :: _ :: n :: _ => n != "0"
        | "maha" :: _ :: n :: _ => n != "0"
        | _ => true
      let vThr := (rat? (vsec.getD 1 "")).getD 0
      let minLen := (vsec.getD 3 "1").toNat?.getD 1
      let qUse := (rat? (vsec.getD 5 "")).getD 0
      let ownUse := (rat? (vsec.getD 8 "")).getD 0
      ({ cfg := { maxIdle := mi, histLen := hist, batchIds := batch, thr := thr, visual := visual, maxObs := maxObs, minVotes := minVotes },
         st := {}, shards := sh, batch := batch, vshards := _vsh.toNat?.getD 1, visual := visual,
         qCollect := qCollect, minArea := minArea, ownCollect := ownCollect,
         vCosine := vCosine, vThr := vThr, minLen := minLen, qUse := qUse, ownUse := ownUse, constrained := constrained, constr := constr },
       res true true [] s!"thr={thr} visual={visual}")
    | _, _, _ => (st, bad "new args")
  | _ => (st, bad "new")

/-- The DP over subsets of tracks (`AssignX.bestDP`) is exponential in the number of distinct tracks of the table. An entry whose
weight is below the threshold is never part of an optimal assignment (leaving the detection unmatched is worth the threshold and
frees the track), so the DP — optimum and number of optima — is run on the entries with `w ≥ thr` only; a query that keeps no entry
contributes the threshold. `none` when even that table has more than 18 distinct tracks (the certificate alone then decides the
optimum, and tie analysis is skipped: flag `tie-analysis-skipped`). On small instances the result is cross-checked against the
exhaustive enumeration on every call. -/
def prunedDP (aes : List AssignX.Entry) (thr : Int) : Option (Int × Nat) :=
  let qs := AssignX.queries aes
  let eff : List AssignX.Entry := qs.flatMap (fun q =>
    (AssignX.tracks (aes.filter (fun e => e.q == q))).filterMap (fun t =>
      let w := AssignX.weightOf aes q t
      if w ≥ thr then some { q := q, t := t, w := w } else none))
  if (AssignX.tracks eff).length > 18 then none else
  let r := AssignX.bestDP eff thr
  let kept := AssignX.queries eff
  let dropped := (qs.filter (fun q => !kept.contains q)).length
  some (r.1 + thr * dropped, r.2)


def handlePredict (st : St) (args impl : List String) : St × String :=
  match args with
  | nsT :: rest =>
    match nsT.toNat? >>= (fun ns => parseScenes st.visual ns st.nextTok rest) with
    | some (scenes, tok', []) =>
      -- per scene: table and records from the implementation
      let vecs := st.featVecs ++ (if st.visual then scanFeats (nsT.toNat?.getD 0) st.nextTok rest else [])
      -- identical feature vectors are one feature: the executor cannot tell them apart either (first token wins)
      let canon (tok : Nat) : Nat :=
        if tok == 0 then 0 else
        match (vecs.find? (fun p => p.1 == tok)).map (·.2) with
        | some v => ((vecs.find? (fun p => p.2 == v)).map (·.1)).getD tok
        | none => tok
      let scenes := scenes.map (fun (sc, ds) => (sc, ds.map (fun d => { d with feat := canon d.feat })))
      let rec gather : List (Nat × List Det) → List String → List (Nat × List Det × List Entry × List IRec × List VEntry × (Bool × Bool × List String)) → Option (List (Nat × List Det × List Entry × List IRec × List VEntry × (Bool × Bool × List String)))
        | [], _, acc => some acc.reverse
        | (sc, ds) :: more, ts, acc =>
          let tblPart := if st.batch then afterMarker "Q" ts |>.bind (fun r => match r with
              | s :: r' => if s == toString sc then some r' else none | _ => none) else some ts
          match tblPart >>= tableAt with
          | none => none
          | some (tbl, afterTbl) =>
            -- records for this scene: search all `S sc R …` sections
            let rec findRecs : List String → Nat → Option (List IRec)
              | _, 0 => none
              | ts, fuel+1 => match afterMarker "S" ts with
                | none => none
                | some r => match recsAt ("S" :: r) with
                  | some (sc', rs, _) => if sc' == sc then some rs else findRecs r fuel
                  | none => findRecs r fuel
            match findRecs impl impl.length with
            | none => none
            | some rs =>
              if !st.visual then
                let geo := ((parseC afterTbl).map (·.1)).getD []
                let cOk := constrOk st.constr geo
                gather more (if st.batch then afterTbl else ts) ((sc, ds, toEntries tbl, rs, [],
                  (cOk, cOk, flag (!geo.isEmpty && !st.constr.isEmpty) "constraint-checked-pairs" ++ flag (constrNear st.constr geo) "constraint-near-limit" ++ flag (!cOk) "constraint-violated")) :: acc) else
              -- VisualSORT: per detection area / own-area share → the collect decision; entries with feature distances
              match parseG afterTbl with
              | none => none
              | some (gsec, afterG) =>
                let ds' := (ds.zip gsec).map (fun (d, (area, share)) =>
                  { d with collectOk := decide (st.minArea ≤ area) && decide (st.qCollect ≤ d.quality) &&
                      (match share with | some p => decide (st.ownCollect ≤ p) | none => true) })
                let ves : List VEntry := tbl.map (fun (f, t, a, dd) => { det := f, tid := t, w := a.map AssignX.quantise, f := dd })
                let decided := visualDecided st.cfg ves
                let geo := ((parseC afterG).map (·.1)).getD []
                let cOk := constrOk st.constr geo
                let vg0 := visGate st vecs sc (epochOf (awStep st.cfg st.st) sc + 1) ds' gsec tbl
                let vg := (vg0.1 && cOk, vg0.2.1 && cOk, vg0.2.2 ++ flag (!geo.isEmpty && !st.constr.isEmpty) "constraint-checked-pairs" ++
                  flag (constrNear st.constr geo) "constraint-near-limit" ++ flag (!cOk) "constraint-violated")
                gather more (if st.batch then afterG else ts) ((sc, ds', positionalRest decided ves, rs, ves, vg) :: acc)
      match gather scenes impl [] with
      | none => (st, bad "predict: cannot parse implementation answer")
      | some gs =>
        let st1 := awStep st.cfg st.st
        -- picks are read off the implementation's records against the live set before the scene's step;
        -- scenes of one batch never share tracks, so the live set after the countdown serves all of them
        let gsV := gs
        let gs := gsV.map (fun (sc, ds, es, rs, _, _) => (sc, ds, es, rs))
        let withPicks := gs.map (fun (sc, ds, es, rs) => (sc, ds, es, picksOf st1 rs, rs))
        let withPicksV := gsV.map (fun (sc, ds, _, rs, ves, _) => (sc, ds, ves, picksOf st1 rs))
        let vgK := gsV.all (fun (_, _, _, _, _, vg) => vg.1)
        let vgO := gsV.all (fun (_, _, _, _, _, vg) => vg.2.1)
        let vgFlags := (gsV.flatMap (fun (_, _, _, _, _, vg) => vg.2.2)).eraseDups
        let runV (wp : List (Nat × List Det × List VEntry × List Pick)) : Option (Tracker.St × List (Nat × List Rec)) :=
          if st.batch then predictBatchV st.cfg st.st wp
          else match wp with
            | [(sc, ds, ves, ps)] => (predictV st.cfg st.st sc ds ves ps).map (fun (s, r) => (s, [(sc, r)]))
            | _ => none
        let variantLists := withPicksV.map (fun (sc, ds, ves, ps) => (tableVariants st.cfg ves ps).map (fun v => (sc, ds, v, ps)))
        let nVariants := (variantLists.map List.length).foldl (· * ·) 1
        let combos := if nVariants ≤ 600 then cartesian variantLists else [withPicksV]
        let modelRes : Option (Tracker.St × List (Nat × List Rec)) :=
          if st.visual then combos.findSome? runV
          else if st.batch then predictBatch st.cfg st.st (withPicks.map (fun (sc, ds, es, ps, _) => (sc, ds, es, ps)))
          else match withPicks with
            | [(sc, ds, es, ps, _)] => (predict st.cfg st.st sc ds es ps).map (fun (s, r) => (s, [(sc, r)]))
            | _ => none
        let allRecs := gs.flatMap (fun (_, _, _, rs) => rs)
        let ids := allRecs.map (·.id)
        -- C01 oracle on the implementation's records
        let oLen := gs.all (fun (_, ds, _, rs) => rs.length == ds.length)
        let oEcho := gs.all (fun (sc, ds, _, rs) => (ds.zip rs).all (fun (d, r) => r.echo && r.tok == d.tok && r.custom == d.custom && r.scene == sc))
        let oDistinct := ids.eraseDups.length == ids.length
        let oFresh := allRecs.all (fun r => st1.live.any (fun t => t.id == r.id) || !(st.issued.contains r.id))
        let oEpoch := gs.all (fun (sc, _, _, rs) => rs.all (fun r => r.epoch == epochOf st1 sc + 1))
        let flags :=
          flag (gs.any (fun (_, ds, _, _) => ds.length ≥ 2)) "multi-det" ++
          flag (gs.any (fun (_, _, es, _) => competition es st.cfg.thr)) "competition" ++
          flag (allRecs.any (fun r => st1.live.any (fun t => t.id == r.id))) "continuation" ++
          flag (allRecs.any (fun r => !st1.live.any (fun t => t.id == r.id))) "new-track" ++
          flag (st.st.live.any (fun t => expired st.cfg st.st t)) "expired-uncollected" ++
          flag (st.st.awCounter == 0) "gc-runs" ++ flag (gs.length ≥ 2) "multi-scene-batch" ++
          flag (gs.any (fun (_, ds, _, _) => ds.isEmpty)) "empty-call" ++
          flag (allRecs.any (·.vt)) "visual-attachment" ++
          flag (gsV.any (fun (_, _, _, _, ves, _) => (visualDecided st.cfg ves).any (fun d => d.2.isNone))) "appearance-contest-lost" ++ vgFlags ++ flag (!vgK) "visual-gate-mismatch" ++
          flag (gsV.any (fun (_, _, es, _, ves, _) => !(visualDecided st.cfg ves).isEmpty && !es.isEmpty)) "appearance-and-positional" ++
          flag (st.st.live.any (fun t => t.gallery.length ≥ st.cfg.maxObs && st.cfg.visual)) "gallery-full" ++
          flag (gsV.any (fun (_, ds, _, _, _, _) => ds.any (fun d => d.feat != 0 && !d.collectOk))) "feature-not-collectable" ++
          flag ((st.st.live.map (·.scene)).eraseDups.length ≥ 2) "multi-scene-store" ++
          flag (nVariants > 1) "appearance-weight-tie" ++
          flag (gs.any (fun (_, _, es, _) => (prunedDP (es.map (fun x => { q := x.det + 1, t := x.tid, w := x.w })) st.cfg.thr).isNone)) "tie-analysis-skipped" ++
          flag (gs.any (fun (_, _, es, _) => !AssignX.small (es.map (fun x => { q := x.det + 1, t := x.tid, w := x.w })))) "large-assignment-certified"
        -- on small instances the dynamic programme (used for the number of optima) and the certified solver must
        -- agree with the exhaustive enumeration; on large ones the solver must produce a certificate the checker
        -- accepts (then `bestOf = best` by `AssignCert.bestOf_eq_best`; without one the model would fall back to
        -- the infeasible enumeration, which is reported as a machinery error instead) and the DP must agree with it
        let dpOk := gs.all (fun (_, _, es, _) =>
          let aes : List AssignX.Entry := es.map (fun x => { q := x.det + 1, t := x.tid, w := x.w })
          match prunedDP aes st.cfg.thr with
          | none => (AssignX.certified aes st.cfg.thr).isSome
          | some (v, c) =>
            if AssignX.small aes then
              (v == AssignX.best aes st.cfg.thr &&
               c == (AssignX.optimal aes st.cfg.thr).length &&
               AssignX.certified aes st.cfg.thr == some (AssignX.best aes st.cfg.thr))
            else AssignX.certified aes st.cfg.thr == some v)
        if !dpOk then (st, bad "assignment optimum: no accepted certificate on a large instance, or solver / DP / enumeration disagree") else
        match modelRes with
        | none =>
          -- the implementation's outcome is not an outcome of the model: the choice is not a valid
          -- (admissible, gated, one-to-one, maximum-weight, fresh-id) resolution for the distances at hand
          ({ st with nextTok := tok', featVecs := vecs }, res false false (flags ++ ["invalid-choice"])
            s!"choice not valid (table orders tried: {combos.length}; tie keys {withPicksV.map (fun (_, _, ves, _) => tieKeys st.cfg ves)}; decided {withPicksV.map (fun (_, _, ves, _) => visualDecided st.cfg ves)}): picks={withPicks.map (fun (p : Nat × List Det × List Entry × List Pick × List IRec) => (p.1, p.2.2.1.map (fun (e : Entry) => (e.det, e.tid, e.w)), repr p.2.2.2.1))}")
        | some (st', mrecs) =>
          let kRecs := gs.all (fun (sc, _, _, rs) => match mrecs.find? (fun p => p.1 == sc) with
            | some (_, mr) => mr.length == rs.length && (mr.zip rs).all (fun (m, i) => recEq m i)
            | none => false)
          let d := dumpState st.shards st' st.visual
          let kDump := d == implDump impl
          -- batch trackers: the logged protocol events must form a path of the protocol model
          let (trOk, trSteps, trWhy) : Bool × Nat × String :=
            match afterMarker "EV" impl with
            | some (nT :: rest) =>
              match nT.toNat? >>= (parseThreads · rest) with
              | some ths => validateTrace st.vshards ths
              | none => (false, 0, "unparsable trace")
            | _ => (true, 0, "")
          let flags := flags ++ flag (trSteps > 0) "trace-validated" ++
            flag (match afterMarker "EV" impl with | some ts => ts.contains "P" | none => false) "slow-consumer-probe"
          let kDump := kDump && trOk
          let d := if trOk then d else d ++ s!" TRACE-INVALID {trWhy}"
          let ties := gs.filterMap (fun (sc, _, es, _) =>
            let aes : List AssignX.Entry := es.map (fun x => { q := x.det + 1, t := x.tid, w := x.w })
            match prunedDP aes st.cfg.thr with
            | some (_, c) => if c > 1 then some sc else none
            | none => some sc) ++
            gsV.filterMap (fun (sc, _, _, _, ves, _) => if st.visual && !visualUnique st.cfg ves then some sc else none)
          ({ st with st := st', nextTok := tok', issued := (st.issued ++ ids).eraseDups, tieScenes := (st.tieScenes ++ ties).eraseDups, featVecs := vecs },
           res (kRecs && kDump && vgK) (oLen && oEcho && oDistinct && oFresh && oEpoch && kDump && vgO) flags
             s!"kRecs={kRecs} kDump={kDump} visGate=[{vgK},{vgO}] o=[{oLen},{oEcho},{oDistinct},{oFresh},{oEpoch}] model={d}")
    | _ => (st, bad "predict scenes")
  | _ => (st, bad "predict")

/-- `pipe delay nb (ns (scene n det*)*)*` — pipelined batches retrieved by another thread. No distance
tables can be taken (the store is being written while the next batch is submitted), so the choice is not
validated here: the oracle is the delivery contract (every batch delivers exactly one result per scene it
contains, one record per detection in order, echoing its box and custom id, ids distinct within a
result), the grouping is compared afterwards with the simple tracker (`cmp`). -/
def handlePipe (st : St) (args impl : List String) : St × String :=
  match args with
  | _delay :: nbT :: rest =>
    let rec batches : Nat → Nat → List String → Option (List (List (Nat × List Det)) × Nat × List String)
      | 0, tok, ts => some ([], tok, ts)
      | n+1, tok, nsT :: ts => do
        let ns ← nsT.toNat?
        let (sc, tok', ts') ← parseScenes st.visual ns tok ts
        let (more, tok'', ts'') ← batches n tok' ts'
        pure (sc :: more, tok'', ts'')
      | _, _, _ => none
    match nbT.toNat? >>= (fun nb => batches nb st.nextTok rest) with
    | some (bs, tok', []) =>
      -- implementation: `PIPE nb OV k ( B idx nres (S scene R n rec*)* )*`
      match impl with
      | "PIPE" :: nb' :: "OV" :: ov :: body =>
        let rec parseRes : Nat → List String → Option (List (Nat × List IRec) × List String)
          | 0, ts => some ([], ts)
          | n+1, ts => do
            let (sc, rs, ts') ← recsAt ts
            let (more, ts'') ← parseRes n ts'
            pure ((sc, rs) :: more, ts'')
        let rec parseB : Nat → List String → Option (List (Nat × List (Nat × List IRec)))
          | 0, [] => some []
          | 0, _ => none
          | n+1, "B" :: k :: m :: ts => do
            let k ← k.toNat?; let m ← m.toNat?
            let (rs, ts') ← parseRes m ts
            let more ← parseB n ts'
            pure ((k, rs) :: more)
          | _, _ => none
        match nb'.toNat? >>= (fun nb => parseB nb body) with
        | none => (st, bad "pipe: cannot parse implementation answer")
        | some got =>
          let oAll := got.length == bs.length && ((List.range bs.length).zip bs).all (fun (k, scenes) =>
            match got.find? (fun g => g.1 == k) with
            | none => false
            | some (_, rs) =>
              rs.length == scenes.length &&
              scenes.all (fun (sc, ds) =>
                match rs.filter (fun r => r.1 == sc) with
                | [(_, recs)] => recs.length == ds.length &&
                    (ds.zip recs).all (fun (d, r) => r.echo && r.tok == d.tok && r.custom == d.custom && r.scene == sc) &&
                    (recs.map (·.id)).eraseDups.length == recs.length
                | _ => false))
          let ovN := ov.toNat?.getD 0
          ({ st with nextTok := tok', desynced := true },
           res true oAll (["pipelined-batches"] ++ flag (ovN > 0) "pipeline-overlap" ++ flag (bs.any (fun b => b.length ≥ 2)) "multi-scene-batch")
             s!"batches={bs.length} overlaps={ovN} delivery={oAll}")
      | _ => (st, bad "pipe: unexpected implementation answer")
    | _ => (st, bad "pipe batches")
  | _ => (st, bad "pipe")

def handleOp (st : St) (op : String) (args impl : List String) : St × String :=
  let fin (st' : Tracker.St) (tok : String) (o : Bool) (flags : List String) (extra : St → St := id) : St × String :=
    let d := dumpState st.shards st' st.visual
    let implHead := joinSp (impl.takeWhile (· != "L"))
    let k := tok == implHead && d == implDump impl
    (extra { st with st := st' }, res k (o && k) flags s!"model={tok} {d}")
  match op, args with
  | "skip", [sc, n] =>
    match sc.toNat?, n.toNat? with
    | some sc, some n => fin (skip st.cfg st.st sc n) "OK" true (["skip"] ++ flag (n == 0) "skip-0")
    | _, _ => (st, bad "skip")
  | "wasted", [] =>
    let (st', ws) := wastedOp st.cfg st.st
    let ws := sortTrks ws
    let tok := joinSp (["H", toString ws.length] ++ ws.map (fun t =>
      joinSp [toString t.id, toString t.scene, toString t.lastUpd, toString t.len, showNats t.obsH]))
    -- oracle: handed out at most once, and expired when handed out
    let o := ws.all (fun t => !(st.handedSeen.contains t.id) && expired st.cfg st.st t)
    fin st' tok o (["wasted"] ++ flag (ws.length > 0) "handed-out" ++
      flag (st.st.live.any (fun t => expired st.cfg st.st t)) "expired-uncollected")
      (fun s => { s with handedSeen := s.handedSeen ++ ws.map (·.id) })
  | "idle", [sc] =>
    match sc.toNat? with
    | some sc =>
      let ids := (sortTrks (idle st.cfg st.st sc)).map (·.id)
      fin st.st ("I " ++ showNats ids) true (["idle"] ++ flag (ids.length > 0) "idle-nonempty" ++
        flag (st.st.live.any (fun t => t.scene == sc && expired st.cfg st.st t)) "expired-uncollected-in-scene")
    | none => (st, bad "idle")
  | "clearw", [] => fin (clearWasted st.st) "OK" true (["clear-wasted"] ++ flag (st.st.wasted.length > 0) "clear-nonempty")
  | "consumer", [_us] => (st, res true true ["consumer-delay"] "")
  | "setaw", [p] =>
    match p.toNat? with
    | some p => fin (setAutoWaste st.st p) "OK" true ["set-auto-waste"]
    | none => (st, bad "setaw")
  | "epoch", [sc] =>
    match sc.toNat? with
    | some sc => fin st.st s!"E {epochOf st.st sc}" true ["epoch"]
    | none => (st, bad "epoch")
  | _, _ => (st, bad "trk op")

def handle1 (st : St) (args impl : List String) : St × String :=
  if impl.head? == some "NO-TRACKER" then (st, bad "no tracker (case lost its `trk new` line)") else
  match args with
  | "new" :: a => handleNew st a
  | "pipe" :: a => handlePipe st a impl
  | _ => if st.desynced then (st, bad "slot was used for pipelined batches: only `new` and `cmp` are meaningful") else
  match args with
  | "predict" :: a => handlePredict st a impl
  | op :: a => handleOp st op a impl
  | _ => (st, bad "trk")

/-- several tracker instances side by side (for the hyper-properties C04–C06, C20) -/
structure Slots where
  slots : List St := [{}]
  cur : Nat := 0

def handle (ss : Slots) (args impl : List String) : Slots × String :=
  match args with
  | ["sel", k] =>
    match k.toNat? with
    | some k =>
      let slots := if ss.slots.length ≤ k then ss.slots ++ List.replicate (k + 1 - ss.slots.length) {} else ss.slots
      ({ slots := slots, cur := k }, res true true [] "")
    | none => (ss, bad "sel")
  | "sched" :: _ =>
    -- seeded worker delays: the model is schedule independent; the executor reports how many commands ran
    -- under the previous plan and how often consecutive commands ran on different shards
    let n := (impl.getD 1 "0").toNat?.getD 0
    let il := (impl.getD 2 "0").toNat?.getD 0
    (ss, res true true (["sched"] ++ flag (n > 0) "jittered-commands" ++ flag (il > 0) "shards-interleaved") s!"commands={n} interleavings={il}")
  | [op, a, b, sc] =>
    if op != "cmp" && op != "cmpids" then
      let st := ss.slots.getD ss.cur {}
      let (st', r) := handle1 st args impl
      ({ ss with slots := ss.slots.set ss.cur st' }, r)
    else
    match a.toNat?, b.toNat?, sc.toNat? with
    | some a, some b, some sc =>
      -- the two runs must report the same grouping (up to renaming of ids) unless an exact tie was
      -- resolved somewhere in one of them (both resolutions are then outcomes of the model)
      let tie := ((ss.slots.getD a {}).tieScenes.contains sc) || ((ss.slots.getD b {}).tieScenes.contains sc)
      let same := impl.head? == some "SAME"
      -- track ids come from one counter shared by all scenes of a tracker: an exact tie resolved in *another* scene may
      -- shift the ids issued in this one; the grouping of this scene (the log up to renaming of ids) must still agree
      let tieElsewhere := !(ss.slots.getD a {}).tieScenes.isEmpty || !(ss.slots.getD b {}).tieScenes.isEmpty
      let shifted := op == "cmpids" && !same && !tie && tieElsewhere && impl.getD 4 "" == "GSAME"
      (ss, res true (same || tie || shifted) (["compare-runs"] ++ flag (op == "cmpids") "compare-with-ids" ++ flag (!same) "runs-differ" ++ flag tie "tie-in-scene" ++
        flag shifted "ids-shifted-by-tie-in-other-scene" ++
        flag (same && (impl.getD 1 "0") != "0") "compared-nonempty") s!"same={same} tie={tie} shifted={shifted}")
    | _, _, _ => (ss, bad "cmp")
  | _ =>
    let st := ss.slots.getD ss.cur {}
    let (st', r) := handle1 st args impl
    ({ ss with slots := ss.slots.set ss.cur st' }, r)

end SimVerif.Driver.TrkD
