import SimVerif.Driver.Common
import SimVerif.Driver.Geom
import SimVerif.Model.OwnArea
namespace SimVerif.Driver.OwnD
open SimVerif.Wire SimVerif.Geom SimVerif.OwnArea SimVerif.Driver SimVerif.Driver.GeomD

def parseBoxes : Nat → List String → Option (List (UBox Rat) × List String)
  | 0, ts => some ([], ts)
  | n+1, ts => do
    let (u, rest) ← parseU ts
    let (more, rest') ← parseBoxes n rest
    pure (u :: more, rest')

structure IBox where
  c : Rat
  s : Rat
  poly : List P
  area : Rat
  own : Rat
  share : Rat

def parseImpl : Nat → List String → Option (List IBox)
  | 0, [] => some []
  | 0, _ => none
  | n+1, c :: s :: ts => do
    let c ← rat? c; let s ← rat? s
    let (vs, rest) ← parseRats 8 ts
    match vs, rest with
    | [a, b, cc, d, e, f, g, h], ar :: ow :: sh :: rest' => do
      let ar ← rat? ar; let ow ← rat? ow; let sh ← rat? sh
      let more ← parseImpl n rest'
      pure ({ c := c, s := s, poly := [(a, b), (cc, d), (e, f), (g, h)], area := ar, own := ow, share := sh } :: more)
    | _, _ => none
  | _, _ => none

def dflt : UBox Rat := { xc := 0, yc := 0, angle := none, aspect := 1, height := 1, conf := 1 }

def toABox (u : UBox Rat) : ABox :=
  let hw := u.height * u.aspect / 2
  let hh := u.height / 2
  { x0 := u.xc - hw, y0 := u.yc - hh, x1 := u.xc + hw, y1 := u.yc + hh }

/-- some point of `p` is covered by two of the others at once (the inclusion–exclusion goes to depth 2) -/
def multiCover (p : List P) (others : List (List P)) : Bool :=
  let cw := others.map clockwise
  let rec go : List (List P) → Bool
    | [] => false
    | q :: rest =>
      let c := shClip (clockwise p) q
      (polyArea c != 0 && rest.any (fun r => polyArea (shClip c r) != 0)) || go rest
  go cw

/-- `own n (xc yc angle|- aspect height)*` -/
def handle (args impl : List String) : String :=
  match args with
  | nT :: rest =>
    match nT.toNat? >>= (fun n => parseBoxes n rest) with
    | some (us, []) =>
      match impl with
      | "OWN" :: np :: ns :: body =>
        match parseImpl us.length body with
        | none => bad "own: cannot parse implementation answer"
        | some ibs =>
          let n := us.length
          let polys : List (List P) := (us.zip ibs).map (fun (u, ib) => vertices u ib.c ib.s)
          -- the polygons the implementation clips with are the model's polygons
          let kV := (us.zip (ibs.zip polys)).all (fun (u, ib, mp) =>
            let scale := rabs u.xc + rabs u.yc + u.height * u.aspect + u.height
            let tolv := scale / 1000000000000
            close (ib.c * ib.c + ib.s * ib.s) 1 (1/1000000000) 0 &&
            (u.angle.isSome || (ib.c == 1 && ib.s == 0)) &&
            (mp.zip ib.poly).all (fun (m, i) => decide (rabs (m.1 - i.1) ≤ tolv) && decide (rabs (m.2 - i.2) ≤ tolv)))
          let idx := List.range n
          let refs : List Rat := idx.map (fun i => ownRef (polys.getD i []) (polys.eraseIdx i))
          let aligned := us.all (fun u => u.angle.isNone)
          -- on axis-aligned sets the proved grid model and the inclusion–exclusion reference must agree exactly
          let grid : List Rat := if aligned then idx.map (fun i => own (toABox (us.getD i dflt)) ((us.eraseIdx i).map toABox)) else []
          if aligned && grid != refs then bad s!"own: grid model and inclusion–exclusion reference disagree: {grid.map showRat} vs {refs.map showRat}" else
          let rows := us.zip (ibs.zip refs)
          let kOwn := rows.all (fun (u, ib, r) => close ib.own r 0 (area u / 1000000 + 1 / 1000000000))
          let expShare (u : UBox Rat) (r : Rat) : Rat := shareOf r (area u)
          let kShare := rows.all (fun (u, ib, r) => decide (rabs (ib.share - expShare u r) ≤ 1 / 50000))
          let kArea := rows.all (fun (u, ib, _) => close ib.area (area u) (1/1000000) 0)
          let oCount := np == toString n && ns == toString n
          let oRange := ibs.all (fun ib => decide (0 ≤ ib.share) && decide (ib.share ≤ 1))
          -- the statement's special cases, on the implementation's answer
          let oIsolated := rows.all (fun (u, ib, r) => !(r == area u) || decide (1 - ib.share ≤ Gen.EPS / area u + 1 / 50000))
          let oCovered := rows.all (fun (_, ib, r) => !(r == 0) || decide (ib.share ≤ 1 / 50000))
          let identical := idx.any (fun i => idx.any (fun j => i < j && us.getD i dflt == us.getD j dflt))
          let flags :=
            flag (n ≥ 2) "multi-box" ++ flag (n ≥ 5) "many-boxes" ++ flag aligned "axis-aligned" ++ flag (!aligned) "rotated" ++
            flag (rows.any (fun (u, _, r) => r != area u && r != 0)) "partial-overlap" ++
            flag (n ≥ 2 && rows.any (fun (u, _, r) => r == area u)) "isolated-box" ++
            flag (rows.any (fun (_, _, r) => r == 0)) "covered-box" ++
            flag identical "identical-pair" ++
            flag (idx.any (fun i => multiCover (polys.getD i []) (polys.eraseIdx i))) "multi-cover" ++
            flag (aligned && n ≥ 2) "grid-cross-checked"
          res (kV && kOwn && kShare && kArea) (oCount && oRange && oIsolated && oCovered && kOwn && kShare)
            flags s!"k=[{kV},{kOwn},{kShare},{kArea}] o=[{oCount},{oRange},{oIsolated},{oCovered}] ref={refs.map showRat}"
      | _ => bad "own: unexpected implementation answer"
    | _ => bad "own boxes"
  | _ => bad "own"

end SimVerif.Driver.OwnD
