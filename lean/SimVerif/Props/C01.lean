import SimVerif.Lemmas.Tracker
import Mathlib.Tactic.Tauto
import Mathlib.Data.List.Nodup
/-!
# C01 — tracker output contract: one record per detection, distinct tracks per call, fresh ids

Model: `SimVerif.Tracker` (`predictScene` / `predict` / `predictBatch`). Every theorem is for every
distance table and **every valid choice** the association may make (so for whatever optimal solution
the solver returns), every configuration, and — through the invariant `IdsBelow` — every reachable state.
-/
namespace SimVerif.C01
open SimVerif.Tracker

/-- every id held anywhere by the tracker is at most the last id issued -/
structure IdsBelow (st : St) : Prop where
  live : ∀ t ∈ st.live, t.id ≤ st.nextId
  wasted : ∀ t ∈ st.wasted, t.id ≤ st.nextId
  handed : ∀ i ∈ st.handed, i ≤ st.nextId
  cleared : ∀ i ∈ st.cleared, i ≤ st.nextId

def freshIds (picks : List Pick) : List Nat :=
  picks.filterMap (fun p => match p with | .fresh id => some id | _ => none)

/-- the parts of a successful scene step -/
theorem predictScene_parts (cfg : Cfg) (st st' : St) (scene : Nat) (dets : List Det) (table : List Entry)
    (picks : List Pick) (lo hi : Nat) (recs : List Rec)
    (h : predictScene cfg st scene dets table picks lo hi = some (st', recs)) :
    validChoice cfg (setEpoch st scene (epochOf st scene + 1)) scene (epochOf st scene + 1) dets.length table picks = true ∧
    freshIdsOk cfg (setEpoch st scene (epochOf st scene + 1)) lo hi picks = true ∧
    applyPicks cfg scene (epochOf st scene + 1) dets picks (setEpoch st scene (epochOf st scene + 1)) = some (st', recs) := by
  unfold predictScene at h
  simp only at h
  split at h
  · rename_i hv
    simp only [Bool.and_eq_true] at hv
    exact ⟨hv.1, hv.2, h⟩
  · cases h

/-- **one record per detection, in submission order**, echoing the detection (token of its observed
box, custom object id) and carrying the scene's current epoch -/
theorem C01_len_echo (cfg : Cfg) (st st' : St) (scene : Nat) (dets : List Det) (table : List Entry)
    (picks : List Pick) (lo hi : Nat) (recs : List Rec)
    (h : predictScene cfg st scene dets table picks lo hi = some (st', recs)) :
    recs.length = dets.length ∧
    recs.map (·.tok) = dets.map (·.tok) ∧ recs.map (·.custom) = dets.map (·.custom) ∧
    (∀ r ∈ recs, r.epoch = epochOf st' scene) ∧ epochOf st' scene = epochOf st scene + 1 := by
  obtain ⟨_, _, ha⟩ := predictScene_parts cfg st st' scene dets table picks lo hi recs h
  obtain ⟨b1, _, _, b4, b5, b6, b7, _⟩ := applyPicks_spec cfg scene _ dets picks _ st' recs ha
  have he : epochOf st' scene = epochOf st scene + 1 := by
    unfold epochOf at *
    rw [b7]
    have := epochOf_setEpoch st scene (epochOf st scene + 1) scene
    unfold epochOf at this
    simpa using this
  exact ⟨b1, b4, b5, fun r hr => (b6 r hr).trans he.symm, he⟩

/-- the record ids are the ids the picks designate -/
theorem C01_ids (cfg : Cfg) (st st' : St) (scene : Nat) (dets : List Det) (table : List Entry)
    (picks : List Pick) (lo hi : Nat) (recs : List Rec)
    (h : predictScene cfg st scene dets table picks lo hi = some (st', recs)) :
    recs.map (·.id) = picks.map pickId := by
  obtain ⟨_, _, ha⟩ := predictScene_parts cfg st st' scene dets table picks lo hi recs h
  exact (applyPicks_spec cfg scene _ dets picks _ st' recs ha).2.2.1

/-- in a valid choice the continued tracks are pairwise distinct and live -/
theorem valid_conts (cfg : Cfg) (st : St) (scene e n : Nat) (table : List Entry) (picks : List Pick)
    (h : validChoice cfg st scene e n table picks = true) :
    ((picks.map contOf).filterMap id).Nodup ∧
    ∀ tid ∈ (picks.map contOf).filterMap id, ∃ t, findLive st tid = some t ∧ t.scene = scene ∧ e - t.lastUpd ≤ cfg.maxIdle := by
  unfold validChoice at h
  simp only [Bool.and_eq_true] at h
  obtain ⟨⟨⟨⟨hlen, htab⟩, hgate⟩, hnd⟩, _⟩ := h
  refine ⟨(nodupB_iff _).mp hnd, ?_⟩
  intro tid htid
  simp only [List.mem_filterMap, List.mem_map, id_eq, exists_eq_right] at htid
  obtain ⟨p, hp, hc⟩ := htid
  -- position of p among the picks
  obtain ⟨i, hi, hpi⟩ := List.getElem_of_mem hp
  have hlen' : picks.length = n := by simpa using hlen
  have hz : ((List.range n).zip (picks.map contOf)).all (fun (i, c) => match c with
      | some tid => table.any (fun x => x.det == i && x.tid == tid && decide (cfg.thr ≤ x.w))
      | none => true) = true := hgate
  rw [List.all_eq_true] at hz
  have hmem : (i, some tid) ∈ (List.range n).zip (picks.map contOf) := by
    rw [List.mem_iff_getElem]
    refine ⟨i, by simp [hlen']; omega, ?_⟩
    simp [List.getElem_zip, hpi, hc]
  have := hz _ hmem
  simp only [List.any_eq_true, Bool.and_eq_true, beq_iff_eq, decide_eq_true_eq] at this
  obtain ⟨x, hx, ⟨⟨_, hxt⟩, _⟩⟩ := this
  have hok := (List.all_eq_true.mp htab) x hx
  unfold entryOk at hok
  rw [hxt] at hok
  cases hf : findLive st tid with
  | none => simp [hf] at hok
  | some t =>
    simp only [hf, Bool.and_eq_true, beq_iff_eq, decide_eq_true_eq] at hok
    exact ⟨t, rfl, hok.1, hok.2⟩

theorem pickIds_split (picks : List Pick) :
    ∀ x, x ∈ picks.map pickId ↔ x ∈ (picks.map contOf).filterMap id ∨ x ∈ freshIds picks := by
  intro x
  induction picks with
  | nil => simp [freshIds]
  | cons p ps ih =>
    cases p with
    | cont tid vis =>
      simp only [freshIds] at ih ⊢
      simp only [List.map_cons, pickId, contOf, List.filterMap_cons, id_eq, List.mem_cons, ih]; tauto
    | fresh id =>
      simp only [freshIds] at ih ⊢
      simp only [List.map_cons, pickId, contOf, List.filterMap_cons, id_eq, List.mem_cons, ih]; tauto

theorem nodup_pickIds (picks : List Pick)
    (h1 : ((picks.map contOf).filterMap id).Nodup) (h2 : (freshIds picks).Nodup)
    (h3 : ∀ x ∈ (picks.map contOf).filterMap id, x ∉ freshIds picks) : (picks.map pickId).Nodup := by
  induction picks with
  | nil => simp
  | cons p ps ih =>
    cases p with
    | cont tid vis =>
      simp only [List.map_cons, contOf, List.filterMap_cons, id_eq, List.nodup_cons, freshIds, pickId] at h1 h2 h3 ⊢
      refine ⟨?_, ih h1.2 h2 (fun x hx => h3 x (List.mem_cons_of_mem _ hx))⟩
      intro hm
      rcases (pickIds_split ps tid).mp hm with h | h
      · exact h1.1 h
      · exact h3 tid List.mem_cons_self h
    | fresh id =>
      simp only [List.map_cons, contOf, List.filterMap_cons, id_eq, List.nodup_cons, freshIds, pickId] at h1 h2 h3 ⊢
      refine ⟨?_, ih h1 h2.2 (fun x hx => fun hf => h3 x hx (List.mem_cons_of_mem _ hf))⟩
      intro hm
      rcases (pickIds_split ps id).mp hm with h | h
      · exact h3 id h List.mem_cons_self
      · exact h2.1 h

/-- **no two detections of one call receive the same track id**, and **the id of a newly started
track is larger than every id the tracker has ever held** (simple trackers; `IdsBelow` holds in every
reachable state, see `C01_reachable`). -/
theorem C01_distinct_fresh (cfg : Cfg) (hb : cfg.batchIds = false) (st st' : St) (hinv : IdsBelow st)
    (scene : Nat) (dets : List Det) (table : List Entry) (picks : List Pick) (recs : List Rec)
    (h : predictScene cfg st scene dets table picks 0 0 = some (st', recs)) :
    (recs.map (·.id)).Nodup ∧ (∀ id ∈ freshIds picks, st.nextId < id) ∧ IdsBelow st' := by
  obtain ⟨hv, hf, ha⟩ := predictScene_parts cfg st st' scene dets table picks 0 0 recs h
  obtain ⟨hc1, hc2⟩ := valid_conts cfg _ scene _ _ table picks hv
  -- fresh ids are nextId+1, nextId+2, …
  have hfr : freshIds picks = (List.range (freshIds picks).length).map (fun i => st.nextId + 1 + i) := by
    unfold freshIdsOk at hf
    simp only [hb, Bool.false_eq_true, if_false, beq_iff_eq] at hf
    exact hf
  have hfgt : ∀ id ∈ freshIds picks, st.nextId < id := by
    intro id hid
    rw [hfr] at hid
    obtain ⟨i, _, rfl⟩ := List.mem_map.mp hid
    omega
  have hfnd : (freshIds picks).Nodup := by
    rw [hfr]
    refine List.Nodup.map_on ?_ List.nodup_range
    intro a _ b _ hab; omega
  have hsep : ∀ x ∈ (picks.map contOf).filterMap id, x ∉ freshIds picks := by
    intro x hx hxf
    obtain ⟨t, ht, _, _⟩ := hc2 x hx
    have h1 : t.id ≤ st.nextId := hinv.live t (findLive_mem _ _ _ ht)
    have h2 := findLive_id _ _ _ ht
    have := hfgt x hxf
    omega
  obtain ⟨_, _, b3, _, _, _, _, b8, b9, b10, b11, b12⟩ := applyPicks_spec cfg scene _ dets picks _ st' recs ha
  refine ⟨by rw [b3]; exact nodup_pickIds picks hc1 hfnd hsep, hfgt, ?_⟩
  -- the invariant after the call: nextId advanced by the number of fresh ids
  have hnext : st'.nextId = st.nextId + (freshIds picks).length := by
    have := applyPicks_nextId cfg scene _ dets picks _ st' recs ha
    simp only [hb, Bool.false_eq_true, if_false, freshCount_sum] at this
    exact this
  have hlive' : ∀ t ∈ st'.live, t.id ≤ st'.nextId := by
    intro t ht
    have hm : t.id ∈ st'.live.map (·.id) := List.mem_map_of_mem ht
    rw [b12] at hm
    rcases List.mem_append.mp hm with hm | hm
    · obtain ⟨t0, ht0, hid⟩ := List.mem_map.mp hm
      have := hinv.live t0 ht0
      omega
    · have hm' : t.id ∈ freshIds picks := hm
      rw [hfr] at hm'
      obtain ⟨i, hi, hid⟩ := List.mem_map.mp hm'
      have := List.mem_range.mp hi
      omega
  exact { live := hlive',
          wasted := fun t ht => by rw [b8] at ht; have := hinv.wasted t ht; omega,
          handed := fun i hi => by rw [b9] at hi; have := hinv.handed i hi; omega,
          cleared := fun i hi => by rw [b10] at hi; have := hinv.cleared i hi; omega }

/-- batch trackers: all ids drawn in one batch come from the batch's own range `(lo, hi]`, are pairwise
distinct within the call and differ from every live id; continued tracks are pairwise distinct -/
theorem C01_distinct_batch (cfg : Cfg) (hb : cfg.batchIds = true) (st st' : St)
    (scene : Nat) (dets : List Det) (table : List Entry) (picks : List Pick) (lo hi : Nat) (recs : List Rec)
    (h : predictScene cfg st scene dets table picks lo hi = some (st', recs)) :
    (recs.map (·.id)).Nodup ∧ (∀ id ∈ freshIds picks, lo < id ∧ id ≤ hi ∧ ∀ t ∈ st.live, t.id ≠ id) := by
  obtain ⟨hv, hf, ha⟩ := predictScene_parts cfg st st' scene dets table picks lo hi recs h
  obtain ⟨hc1, hc2⟩ := valid_conts cfg _ scene _ _ table picks hv
  unfold freshIdsOk at hf
  simp only [hb, if_true, Bool.and_eq_true, List.all_eq_true, decide_eq_true_eq, Bool.not_eq_true',
    List.any_eq_false, beq_iff_eq] at hf
  obtain ⟨hall, hnd⟩ := hf
  have hfnd : (freshIds picks).Nodup := (nodupB_iff _).mp hnd
  have hlive : (setEpoch st scene (epochOf st scene + 1)).live = st.live := rfl
  have hsep : ∀ x ∈ (picks.map contOf).filterMap id, x ∉ freshIds picks := by
    intro x hx hxf
    obtain ⟨t, ht, _, _⟩ := hc2 x hx
    have := (hall x hxf).2 t (findLive_mem _ _ _ ht)
    exact this (findLive_id _ _ _ ht)
  obtain ⟨_, _, b3, _⟩ := applyPicks_spec cfg scene _ dets picks _ st' recs ha
  refine ⟨by rw [b3]; exact nodup_pickIds picks hc1 hfnd hsep, ?_⟩
  intro id hid
  obtain ⟨⟨h1, h2⟩, h3⟩ := hall id hid
  exact ⟨h1, h2, fun t ht => by rw [← hlive] at ht; exact h3 t ht⟩

/-- `IdsBelow` holds initially and is preserved by the remaining operations -/
theorem C01_reachable (cfg : Cfg) (st : St) (h : IdsBelow st) :
    IdsBelow ({} : St) ∧ IdsBelow (collect cfg st) ∧ IdsBelow (awStep cfg st) ∧
    (∀ s n, IdsBelow (skip cfg st s n)) ∧ IdsBelow (wastedOp cfg st).1 ∧ IdsBelow (clearWasted st) ∧
    (∀ p, IdsBelow (setAutoWaste st p)) ∧ (∀ s e, IdsBelow (setEpoch st s e)) := by
  have hcollect : ∀ st : St, IdsBelow st → IdsBelow (collect cfg st) := by
    intro st h
    refine { live := fun t ht => h.live t (List.mem_filter.mp ht).1, wasted := ?_, handed := h.handed, cleared := h.cleared }
    intro t ht
    rcases List.mem_append.mp ht with ht | ht
    · exact h.wasted t ht
    · exact h.live t (List.mem_filter.mp ht).1
  have hset : ∀ (st : St) s e, IdsBelow st → IdsBelow (setEpoch st s e) :=
    fun st s e h => { live := h.live, wasted := h.wasted, handed := h.handed, cleared := h.cleared }
  refine ⟨?_, hcollect st h, ?_, ?_, ?_, ?_, ?_, fun s e => hset st s e h⟩
  · exact { live := by simp, wasted := by simp, handed := by simp, cleared := by simp }
  · unfold awStep
    split
    · have := hcollect st h
      exact { live := this.live, wasted := this.wasted, handed := this.handed, cleared := this.cleared }
    · exact { live := h.live, wasted := h.wasted, handed := h.handed, cleared := h.cleared }
  · intro s n; exact hcollect _ (hset st s _ h)
  · have hc := hcollect st h
    refine { live := hc.live, wasted := by simp [wastedOp], handed := ?_, cleared := hc.cleared }
    intro i hi
    simp only [wastedOp, List.mem_append, List.mem_map] at hi
    rcases hi with hi | ⟨t, ht, rfl⟩
    · exact hc.handed i hi
    · exact hc.wasted t ht
  · refine { live := h.live, wasted := by simp [clearWasted], handed := h.handed, cleared := ?_ }
    intro i hi
    simp only [clearWasted, List.mem_append, List.mem_map] at hi
    rcases hi with hi | ⟨t, ht, rfl⟩
    · exact h.cleared i hi
    · exact h.wasted t ht
  · intro p; exact { live := h.live, wasted := h.wasted, handed := h.handed, cleared := h.cleared }

/-! ### non-vacuity: a call with two detections competing for one track -/
private def cfg0 : Cfg := { maxIdle := 2, histLen := 3, batchIds := false, thr := 300000 }
private def st0 : St := { epochs := [(0, 1)], live := [(Trk.simple 1 0 1 1 none [1])], nextId := 1 }
example : (predictScene cfg0 st0 0 [(Det.simple 2 (none)), (Det.simple 3 (some 7))] [⟨0, 1, 500000⟩, ⟨1, 1, 800000⟩]
    [.fresh 2, .cont 1 false] 0 0).map (fun r => r.2.map (·.id)) = some [2, 1] := by decide +kernel
/-- the greedy choice (first detection takes the track) is rejected: it is not of maximum weight -/
example : predictScene cfg0 st0 0 [(Det.simple 2 (none)), (Det.simple 3 (some 7))] [⟨0, 1, 500000⟩, ⟨1, 1, 800000⟩]
    [.cont 1 false, .fresh 2] 0 0 = none := by decide +kernel

end SimVerif.C01
