import SimVerif.Gen.PyTable
import SimVerif.Gen.PySpec
/-!
# C18 — the Python bindings are a faithful projection of the Rust API

`Gen.pyTable` is regenerated from `/repo/src` on every run (one entry per method / function the
`similari` module exposes, its body classified in the wrapper calculus of `Model/PyBind.lean`);
`Gen.pySpec` is the hand-written specification (`/verif/spec/pyspec.json`).

* generic theorems, for every table and specification: what the wiring rule implies for the value a
  Python call returns;
* `C18_table`, `C18_complete`, `C18_no_extra`: the table generated from the current source satisfies
  the rule, exposes everything the specification lists and nothing else.
-/
namespace SimVerif.C18
open SimVerif.PyBind List

/-- **Getters return the field they name.** A well-wired getter either projects the wrapped value
on the field of the same name, or its body is on the reviewed list. -/
theorem C18_getter (sp : Spec) (e : Entry) (h : wellWired sp e = true) (hk : e.kind = .getter) :
    e.shape = .field [e.py] ∨ ∃ hsh, e.shape = .other hsh ∧ (e.cls, e.py, hsh) ∈ sp.reviewed := by
  unfold wellWired at h
  simp only [Bool.and_eq_true] at h
  obtain ⟨_, h⟩ := h
  cases hs : e.shape with
  | other hsh => rw [hs] at h; exact Or.inr ⟨hsh, rfl, by simpa using h⟩
  | field path =>
    rw [hs] at h
    simp only [hk] at h
    left
    have : path = [e.py] := by simpa using h
    rw [this]
  | setField path a => rw [hs] at h; simp [hk] at h
  | delegate c args => rw [hs] at h; simp [hk] at h

/-- **Setters write the field they name**, with their one argument. -/
theorem C18_setter (sp : Spec) (e : Entry) (h : wellWired sp e = true) (hk : e.kind = .setter) :
    (∃ a, e.params = [a] ∧ (e.shape = .setField [e.py] a ∨ e.shape = .delegate (S_SET ++ e.py) [.param a])) ∨
    ∃ hsh, e.shape = .other hsh ∧ (e.cls, e.py, hsh) ∈ sp.reviewed := by
  unfold wellWired at h
  simp only [Bool.and_eq_true] at h
  obtain ⟨_, h⟩ := h
  cases hs : e.shape with
  | other hsh => rw [hs] at h; exact Or.inr ⟨hsh, rfl, by simpa using h⟩
  | field path => rw [hs] at h; simp [hk] at h
  | setField path a =>
    rw [hs] at h
    simp only [hk, Bool.and_eq_true, beq_iff_eq] at h
    exact Or.inl ⟨a, h.2, Or.inl (by rw [h.1])⟩
  | delegate c args =>
    rw [hs] at h
    simp only [hk, Bool.and_eq_true, beq_iff_eq] at h
    obtain ⟨⟨hc, ha⟩, hl⟩ := h
    match hp : e.params, hl with
    | [a], _ =>
      refine Or.inl ⟨a, rfl, Or.inr ?_⟩
      rw [hc, ha, hp]; rfl

/-- **Delegating methods pass every parameter exactly once, in signature order, to the method of
the same name** (or to a reviewed alias); whatever else they pass is on the reviewed list. -/
theorem C18_delegate (sp : Spec) (e : Entry) (callee : Name) (args : List Arg)
    (h : wellWired sp e = true) (hs : e.shape = .delegate callee args) (hk : e.kind ≠ .setter) :
    args.filterMap paramOf = e.params ∧
    (∀ x ∈ args.filterMap extraOf, (e.cls, e.py, x) ∈ sp.extraArgs) ∧
    (callee = e.py ∨ callee ++ S_PY = e.py ∨ (e.kind = .new ∧ callee = S_NEW) ∨ (e.cls, e.py, callee) ∈ sp.aliases) := by
  unfold wellWired at h
  simp only [Bool.and_eq_true] at h
  obtain ⟨_, h⟩ := h
  rw [hs] at h
  cases hkk : e.kind <;> simp only [hkk] at h hk <;> try (first | cases h | exact absurd rfl hk)
  all_goals
    simp only [Bool.and_eq_true, calleeOk, argsOk, Bool.or_eq_true, beq_iff_eq, all_eq_true, contains_iff_mem, hkk] at h
    obtain ⟨hc, ha, hx⟩ := h
    refine ⟨ha, hx, ?_⟩
    rcases hc with ((h1 | h2) | h3) | h4
    · exact Or.inl h1
    · exact Or.inr (Or.inl h2)
    · first
        | exact Or.inr (Or.inr (Or.inl ⟨rfl, h3.2⟩))
        | (simp at h3)
    · exact Or.inr (Or.inr (Or.inr h4))

/-- the value computed by a well-wired delegating entry: the wrapped API's callee applied to the
parameters in signature order (interleaved only with reviewed constants) -/
theorem C18_denote {V : Type} (sp : Spec) (e : Entry) (callee : Name) (args : List Arg)
    (api : Name → List V → V) (env konst : Name → V)
    (h : wellWired sp e = true) (hs : e.shape = .delegate callee args) (hk : e.kind ≠ .setter) :
    denote api env konst e = some (api callee (evalArgs env konst args)) ∧
    (args.filterMap paramOf).map env = e.params.map env := by
  refine ⟨by simp [denote, hs], ?_⟩
  rw [(C18_delegate sp e callee args h hs hk).1]

/-- **Faithful projection**: if every getter of a class is well wired and none is merely
"reviewed", the Python view of an object of that class shows, under every name, the wrapped
value's field of that name. -/
theorem C18_projection {V : Type} (sp : Spec) (tbl : List Entry) (cls : Name) (obj : Name → V)
    (h : ∀ e ∈ tbl, wellWired sp e = true) :
    ∀ p ∈ pyView tbl cls obj, p.2 = obj p.1 := by
  intro p hp
  unfold pyView at hp
  obtain ⟨q, hq, rfl⟩ := mem_map.mp hp
  unfold getterMap at hq
  obtain ⟨e, he, hf⟩ := mem_filterMap.mp hq
  split at hf
  · rename_i hc
    simp only [Bool.and_eq_true, beq_iff_eq, decide_eq_true_eq] at hc
    have hk : e.kind = .getter := by
      have := hc.2
      simpa using this
    rcases C18_getter sp e (h e he) hk with hs | ⟨hsh, hs, _⟩
    · simp only [fieldOf, hs, Option.map_some, Option.some.injEq] at hf
      subst hf
      rfl
    · simp [fieldOf, hs] at hf
  · cases hf

/-! ### the table generated from the current source -/

/-- every exposed method and function of the current source is well wired against the specification -/
theorem C18_table : ∀ e ∈ Gen.pyTable, wellWired Gen.pySpec e = true := by
  decide +kernel

/-- everything the specification lists is exposed … -/
theorem C18_complete : ∀ x ∈ Gen.pySpec.exposed, ∃ e ∈ Gen.pyTable, (e.cls, e.py) = x := by
  decide +kernel

/-- … and nothing else is. -/
theorem C18_no_extra : ∀ e ∈ Gen.pyTable, (e.cls, e.py) ∈ Gen.pySpec.exposed := by
  decide +kernel

/-- so, for the current source, every Python getter of every class returns the field it names -/
theorem C18_current_projection {V : Type} (cls : Name) (obj : Name → V) :
    ∀ p ∈ pyView Gen.pyTable cls obj, p.2 = obj p.1 :=
  C18_projection Gen.pySpec Gen.pyTable cls obj C18_table

/-! ### non-vacuity: the rule rejects a getter wired to another field and a swapped argument order -/
example : wellWired Gen.pySpec
    { cls := [83], py := [101, 112, 111, 99, 104], kind := .getter, params := [], defaults := [],
      shape := .field [[108, 101, 110, 103, 116, 104]] } = false := by decide +kernel
example : wellWired Gen.pySpec
    { cls := [83], py := [102], kind := .method, params := [[97], [98]], defaults := [],
      shape := .delegate [102] [.param [98], .param [97]] } = false := by decide +kernel
example : wellWired Gen.pySpec
    { cls := [83], py := [102], kind := .method, params := [[97], [98]], defaults := [],
      shape := .delegate [102] [.param [97], .param [98]] } = true := by decide +kernel

end SimVerif.C18
