import SimVerif.Props.C14
import SimVerif.Tie.Nms
/-!
# C14 at source level

`SimVerif.Gen.L.nms` is `nms()` of `src/utils/nms.rs` as regenerated from the source on every run; `Tie/Nms.lean` proves it
equal to the model `Nms.nms`. The theorems of `Props/C14.lean` are restated here **for the generated function itself**, with
the coverage predicate the source computes, `intersection(a, b) / area(b) > nms_threshold`: these are statements about what
the code says now, for every `intersection` / `area`, every threshold and every input list.
-/
namespace SimVerif.C14
open SimVerif.Nms SimVerif.Tie SimVerif.Gen.L
variable {α : Type} (inter : NBox α → NBox α → Rat) (area : NBox α → Rat) (thr : Rat) (sthr : Option Rat) (l : List (Box α))

/-- the detections as the source receives them -/
def dets : List (NBox α × Option Rat) := l.map (fun b => (toN b, b.score))

/-- every returned box is an input box that passed the score / validity filter, and they come in decreasing rank order -/
theorem C14_source_subset_sorted :
    ∃ kept : List (Box α), Gen.L.nms inter area (dets l) thr sthr = kept.map toN ∧
      kept.Sublist (ranked sthr l) ∧ (∀ b ∈ kept, b ∈ l ∧ passes sthr b = true) ∧ kept.Pairwise (fun a b => rank b ≤ rank a) := by
  refine ⟨Nms.nms (covOf inter area thr) sthr l, tie_nms inter area thr sthr l, ?_⟩
  exact C14_subset_sorted (covOf inter area thr) sthr l

/-- the top-ranked candidate is always returned first -/
theorem C14_source_top_kept :
    (Gen.L.nms inter area (dets l) thr sthr).head? = ((ranked sthr l).head?).map toN := by
  unfold dets
  rw [tie_nms, List.head?_map, C14_top_kept]

/-- no returned box has more than the threshold fraction of its area covered by a returned box that precedes it -/
theorem C14_source_independent :
    ∃ kept : List (Box α), Gen.L.nms inter area (dets l) thr sthr = kept.map toN ∧
      kept.Pairwise (fun a b => ¬ (inter (toN a) (toN b) / area (toN b) > thr)) := by
  refine ⟨Nms.nms (covOf inter area thr) sthr l, tie_nms inter area thr sthr l, ?_⟩
  have := C14_independent (covOf inter area thr) sthr l
  refine this.imp ?_
  intro a b h
  simpa [covOf] using h

/-- every candidate that is not returned is covered beyond the threshold by a returned box of at least its rank -/
theorem C14_source_maximal (b : Box α) (hb : b ∈ ranked sthr l) (hn : b ∉ Nms.nms (covOf inter area thr) sthr l) :
    ∃ a, toN a ∈ Gen.L.nms inter area (dets l) thr sthr ∧ inter (toN a) (toN b) / area (toN b) > thr ∧ rank b ≤ rank a := by
  obtain ⟨a, ha, hc, hr⟩ := C14_maximal (covOf inter area thr) sthr l b hb hn
  refine ⟨a, ?_, by simpa [covOf] using hc, hr⟩
  unfold dets
  rw [tie_nms]
  exact List.mem_map_of_mem ha

end SimVerif.C14
