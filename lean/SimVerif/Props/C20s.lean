import SimVerif.Props.C20
import SimVerif.Tie.Constr
/-!
# C20 at source level

The constraint-table theorems restated for the **generated** `add_constraints` / `validate`
(`Gen.L.*`, regenerated from `src/trackers/spatio_temporal_constraints.rs` on every run; `Tie/Constr.lean`).
-/
namespace SimVerif.C20
open SimVerif.Constraints SimVerif.Tie SimVerif.Gen.L

/-- whatever sequence of `add_constraints` calls built the table, the table the source holds is strictly sorted by gap -/
theorem C20_source_sorted (cs new : List (Nat × Rat)) (hpos : new.all (fun e => decide (e.2 > 0)) = true)
    (calls : List (List Entry)) (hcs : build calls = some cs) :
    (add_constraints cs new).Pairwise (fun a b => a.1 < b.1) := by
  have h := tie_add_constraints cs new hpos
  have hb : build (new :: calls) = some (add_constraints cs new) := by
    simp only [build, hcs, h]
  exact (C20_table (new :: calls) _ hb).1

/-- admission by the source's `validate` is monotone in the distance -/
theorem C20_source_monotone (t : List (Nat × Rat)) (d : Nat) (x₁ x₂ : Rat) (h0 : 0 ≤ x₁) (h : x₁ ≤ x₂)
    (hv : constraints_validate t d x₂ = true) : constraints_validate t d x₁ = true := by
  have h1 := tie_constraints_validate t d x₁ (Rat.not_lt.mpr h0)
  have h2 := tie_constraints_validate t d x₂ (Rat.not_lt.mpr (Rat.le_trans h0 h))
  have := C20_monotone t d x₁ x₂ h0 h (by rw [h2, hv])
  rw [h1] at this
  exact Option.some.inj this

end SimVerif.C20
