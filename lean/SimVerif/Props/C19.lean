import SimVerif.Model.Geom
import Mathlib.Algebra.Order.Field.Basic
import Mathlib.Algebra.Order.Floor.Ring
import Mathlib.Tactic.Ring
import Mathlib.Tactic.FieldSimp
import Mathlib.Tactic.Linarith
import Mathlib.Tactic.LinearCombination
/-!
# C19 — box representations agree; box equality is a symmetric tolerance relation

Model: `SimVerif.Geom` (conversions, `vertices`, `ueq` / `beq`, `normalizeAngle` of src/utils/bbox.rs).
All theorems hold over every linear ordered field (so in particular over `ℚ` and `ℝ`).
-/
namespace SimVerif.C19
open SimVerif.Geom

variable {α : Type} [Field α] [LinearOrder α] [IsStrictOrderedRing α]

/-- ltwh → universal → ltwh returns the same box (the code divides by the height). -/
theorem C19_roundtrip (b : BBox α) (h : b.height ≠ 0) : toLtwh (toUniversal b) = some b := by
  cases b with
  | mk l t w hh c =>
    simp only [toUniversal, toLtwh, two, Option.some.injEq, BBox.mk.injEq, and_true, true_and] at h ⊢
    refine ⟨?_, ?_, ?_⟩
    · field_simp; ring
    · ring
    · field_simp

/-- … and universal → ltwh → universal returns the same unrotated box. -/
theorem C19_roundtrip' (u : UBox α) (h : u.height ≠ 0) (ha : u.angle = none) :
    (toLtwh u).map toUniversal = some u := by
  cases u with
  | mk xc yc ang asp hh c =>
    simp only at ha h
    subst ha
    simp only [toLtwh, toUniversal, two, Option.map_some, Option.some.injEq, UBox.mk.injEq, and_true, true_and]
    refine ⟨by ring, by ring, by field_simp⟩

/-- The polygon of a universal box is the `w × h` rectangle rotated by `(c, s)` about the centre:
vertex `k` is `centre + R(±w/2, ±h/2)`. -/
theorem C19_polygon_vertices (u : UBox α) (c s : α) :
    let w := u.height * u.aspect
    let h := u.height
    vertices u c s =
      [(u.xc + (c * (-w/2) - s * (h/2)), u.yc + (s * (-w/2) + c * (h/2))),
       (u.xc + (c * (w/2) - s * (h/2)), u.yc + (s * (w/2) + c * (h/2))),
       (u.xc + (c * (w/2) - s * (-h/2)), u.yc + (s * (w/2) + c * (-h/2))),
       (u.xc + (c * (-w/2) - s * (-h/2)), u.yc + (s * (-w/2) + c * (-h/2)))] := by
  simp only [vertices, two, List.cons.injEq, Prod.mk.injEq, and_true]
  refine ⟨⟨?_, ?_⟩, ⟨?_, ?_⟩, ⟨?_, ?_⟩, ⟨?_, ?_⟩⟩ <;> ring

/-- Shoelace: the polygon's (signed, doubled) area is `2·w·h·(c²+s²)`; with `c²+s²=1` and positive
size the unsigned area is the box area `w·h`. -/
theorem C19_polygon_area (u : UBox α) (c s : α) (hcs : c * c + s * s = 1)
    (hh : 0 ≤ u.height) (ha : 0 ≤ u.aspect) :
    polyArea (vertices u c s) = area u := by
  have h2 : shoelace2 (vertices u c s) = -(2 * (u.height * u.aspect * u.height)) := by
    simp only [shoelace2, shoelace2Aux, vertices, two]
    linear_combination (-(2 : α) * (u.height * u.aspect * u.height)) * hcs
  have hnn : 0 ≤ u.height * u.aspect * u.height := mul_nonneg (mul_nonneg hh ha) hh
  unfold polyArea absv area
  rw [h2]
  split
  · simp only [two]; ring
  · rename_i hneg
    have : u.height * u.aspect * u.height = 0 := by
      have : ¬ (-(2 * (u.height * u.aspect * u.height)) < 0) := hneg
      nlinarith
    simp [this]

/-- The vertex mean is the centre and every vertex lies at the bounding radius. -/
theorem C19_polygon_centre_radius (u : UBox α) (c s : α) (hcs : c * c + s * s = 1) :
    (((vertices u c s).map (·.1)).sum = 4 * u.xc ∧ ((vertices u c s).map (·.2)).sum = 4 * u.yc) ∧
    ∀ p ∈ vertices u c s, (p.1 - u.xc) * (p.1 - u.xc) + (p.2 - u.yc) * (p.2 - u.yc) = radiusSq u := by
  refine ⟨⟨?_, ?_⟩, ?_⟩
  · simp only [vertices, two, List.map_cons, List.map_nil, List.sum_cons, List.sum_nil]; ring
  · simp only [vertices, two, List.map_cons, List.map_nil, List.sum_cons, List.sum_nil]; ring
  · intro p hp
    simp only [vertices, two, List.mem_cons, List.not_mem_nil, or_false] at hp
    have key : ∀ (a b : α), (a * c - b * s) * (a * c - b * s) + (a * s + b * c) * (a * s + b * c) = a * a + b * b := by
      intro a b; linear_combination (a * a + b * b) * hcs
    simp only [radiusSq, two]
    rcases hp with rfl | rfl | rfl | rfl <;> simp only <;>
      [linear_combination key (-(u.height * u.aspect / (1 + 1))) (u.height / (1 + 1));
       linear_combination key (u.height * u.aspect / (1 + 1)) (u.height / (1 + 1));
       linear_combination key (u.height * u.aspect / (1 + 1)) (-(u.height / (1 + 1)));
       linear_combination key (-(u.height * u.aspect / (1 + 1))) (-(u.height / (1 + 1)))]

theorem absv_eq (x : α) : absv x = |x| := by
  unfold absv; split
  · rename_i h; exact (abs_of_neg h).symm
  · rename_i h; exact (abs_of_nonneg (not_lt.mp h)).symm

/-- Box equality is reflexive (`EPS > 0`) and symmetric. -/
theorem C19_eq_refl (eps : α) (he : 0 < eps) (a : UBox α) (b : BBox α) :
    ueq eps a a = true ∧ beq eps b b = true := by
  simp [ueq, beq, absv_eq, he]

theorem C19_eq_symm (eps : α) (a b : UBox α) (c d : BBox α) :
    ueq eps a b = ueq eps b a ∧ beq eps c d = beq eps d c := by
  simp only [ueq, beq, absv_eq]
  constructor <;> simp only [abs_sub_comm]

/-- Equality holds exactly when **every** coordinate — angle, aspect, height included — differs by
less than `EPS`: so it holds when all are within `EPS` and fails when any one is beyond it. -/
theorem C19_eq_iff (eps : α) (a b : UBox α) :
    ueq eps a b = true ↔
      |a.xc - b.xc| < eps ∧ |a.yc - b.yc| < eps ∧ |a.angle.getD 0 - b.angle.getD 0| < eps ∧
      |a.aspect - b.aspect| < eps ∧ |a.height - b.height| < eps := by
  simp only [ueq, absv_eq, Bool.and_eq_true, decide_eq_true_eq, and_assoc]

theorem C19_beq_iff (eps : α) (a b : BBox α) :
    beq eps a b = true ↔
      |a.left - b.left| < eps ∧ |a.top - b.top| < eps ∧ |a.width - b.width| < eps ∧
      |a.height - b.height| < eps ∧ |a.conf - b.conf| < eps := by
  simp only [beq, absv_eq, Bool.and_eq_true, decide_eq_true_eq, and_assoc]

theorem C19_eq_far (eps : α) (a b : UBox α)
    (h : eps < |a.xc - b.xc| ∨ eps < |a.yc - b.yc| ∨ eps < |a.angle.getD 0 - b.angle.getD 0| ∨
         eps < |a.aspect - b.aspect| ∨ eps < |a.height - b.height|) : ueq eps a b = false := by
  rw [Bool.eq_false_iff]
  intro hc
  obtain ⟨h1, h2, h3, h4, h5⟩ := (C19_eq_iff eps a b).mp hc
  rcases h with h | h | h | h | h <;> exact absurd h (not_lt.mpr (le_of_lt (by assumption)))

/-- Angle normalisation: the result lies in `[0, 2π)` and differs from the input by a whole number
of turns (for every positive `pix2`; `⌊·⌋` is the integer floor). -/
theorem C19_normalize [FloorRing α] (pix2 : α) (hp : 0 < pix2) (a : α) :
    let r := normalizeAngle (fun x => ((⌊x⌋ : ℤ) : α)) pix2 a
    0 ≤ r ∧ r < pix2 ∧ ∃ k : ℤ, a = r + k * pix2 := by
  have h1 : ((⌊a / pix2⌋ : ℤ) : α) ≤ a / pix2 := Int.floor_le _
  have h2 : a / pix2 < (⌊a / pix2⌋ : ℤ) + 1 := Int.lt_floor_add_one _
  have h1' : ((⌊a / pix2⌋ : ℤ) : α) * pix2 ≤ a := by
    have := mul_le_mul_of_nonneg_right h1 hp.le
    rwa [div_mul_cancel₀ _ hp.ne'] at this
  have h2' : a < (((⌊a / pix2⌋ : ℤ) : α) + 1) * pix2 := by
    have := mul_lt_mul_of_pos_right h2 hp
    rwa [div_mul_cancel₀ _ hp.ne'] at this
  simp only [normalizeAngle]
  have hnn : ¬ (a - ((⌊a / pix2⌋ : ℤ) : α) * pix2 < 0) := by linarith
  rw [if_neg hnn]
  refine ⟨by linarith, by linarith, ⌊a / pix2⌋, by ring⟩

/-! ### non-vacuity (over ℚ) -/
example : toLtwh (toUniversal ({ left := 1, top := 2, width := 10, height := 4, conf := 1 } : BBox ℚ))
    = some { left := 1, top := 2, width := 10, height := 4, conf := 1 } := C19_roundtrip _ (by norm_num)
example : ueq (1/100000 : ℚ) ⟨0, 0, none, 1, 2, 1⟩ ⟨0, 0, none, 1, 3, 1⟩ = false :=
  C19_eq_far _ _ _ (by norm_num)
example : (3/5 : ℚ) * (3/5) + (4/5) * (4/5) = 1 := by norm_num

end SimVerif.C19
