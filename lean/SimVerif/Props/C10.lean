import SimVerif.Lemmas.Store
import Mathlib.Data.List.Perm.Basic
import Mathlib.Data.List.Induction
import Mathlib.Algebra.BigOperators.Group.List.Basic
/-!
# C10 — distance queries are exact and schedule independent

Model: `SimVerif.Store.{distPair, queryOne, foreignDistances, ownedDistances}`. The sharded,
threaded execution is modelled as: every worker answers every candidate with one chunk computed
over its own shard; the caller concatenates the chunks **in whatever order they arrive**.
All theorems are for every callback family, every shard count and every arrival order.
-/
namespace SimVerif.C10
open SimVerif.Track SimVerif.Store List

variable {TA M OA U Q E : Type}

/-- the ok-results one stored track contributes to one candidate's query -/
def okPart (cb : Cb TA M OA U Q E) (cand : Track TA M OA) (cls : Nat) (ob : Bool) (other : Track TA M OA) : List DistOk :=
  match distPair cb cand other cls ob with
  | some (.ok d) => d
  | _ => []

/-- … and the entries it contributes to the error stream -/
def errPart (cb : Cb TA M OA U Q E) (cand : Track TA M OA) (cls : Nat) (ob : Bool) (other : Track TA M OA) : Nat :=
  match distPair cb cand other cls ob with
  | some (.error _) => 1
  | _ => 0

theorem queryOne_eq (cb : Cb TA M OA U Q E) (ts : List (Track TA M OA)) (cand : Track TA M OA) (cls : Nat) (ob : Bool) :
    queryOne cb ts cand cls ob = (ts.flatMap (okPart cb cand cls ob), (ts.map (errPart cb cand cls ob)).sum) := by
  unfold queryOne
  induction ts with
  | nil => rfl
  | cons t rest ih =>
    simp only [Prod.mk.injEq] at ih ⊢
    simp only [filterMap_cons, flatMap_cons, map_cons, sum_cons, okPart, errPart]
    cases h : distPair cb cand t cls ob with
    | none => simpa using ih
    | some r =>
      cases r with
      | ok d => simp only [flatMap_cons, filter_cons]; exact ⟨by rw [ih.1], by simpa using ih.2⟩
      | error e =>
        simp only [flatMap_cons, filter_cons, nil_append, if_true, length_cons]
        exact ⟨ih.1, by rw [ih.2]; omega⟩

/-- **Exactness.** A result belongs to a candidate's answer iff it is a postprocessed distance of
some stored track with a different id that is compatible with the candidate (and Ready when only
ready tracks are requested); never the candidate itself; incompatible tracks are dropped silently. -/
theorem C10_spec (cb : Cb TA M OA U Q E) (ts : List (Track TA M OA)) (cand : Track TA M OA) (cls : Nat) (ob : Bool)
    (d : DistOk) :
    d ∈ (queryOne cb ts cand cls ob).1 ↔
      ∃ other ∈ ts, other.id ≠ cand.id ∧ (ob = true → status cb other = .ok .ready) ∧
        ∃ ds, distances cb cand other cls = .ok ds ∧ d ∈ cb.postprocess cand.metric ds := by
  rw [queryOne_eq]
  simp only [mem_flatMap, okPart]
  constructor
  · rintro ⟨other, ho, hd⟩
    refine ⟨other, ho, ?_⟩
    unfold distPair at hd
    by_cases hid : cand.id == other.id
    · simp [hid] at hd
    · simp only [hid, Bool.false_eq_true, if_false] at hd
      have hne : other.id ≠ cand.id := fun e => hid (by simp [e])
      refine ⟨hne, ?_⟩
      cases ob with
      | false =>
        simp only [Bool.not_false, if_true] at hd
        refine ⟨by simp, ?_⟩
        cases hdist : distances cb cand other cls with
        | ok ds => simp only [hdist] at hd; exact ⟨ds, rfl, hd⟩
        | error e => cases e <;> simp [hdist] at hd
      | true =>
        simp only [Bool.not_true, Bool.false_eq_true, if_false] at hd
        cases hst : status cb other with
        | error e => simp [hst] at hd
        | ok st =>
          cases st <;> simp only [hst] at hd <;> try (simp at hd)
          refine ⟨fun _ => rfl, ?_⟩
          cases hdist : distances cb cand other cls with
          | ok ds => simp only [hdist] at hd; exact ⟨ds, rfl, hd⟩
          | error e => cases e <;> simp [hdist] at hd
  · rintro ⟨other, ho, hne, hst, ds, hds, hd⟩
    refine ⟨other, ho, ?_⟩
    unfold distPair
    have hid : (cand.id == other.id) = false := by simp; exact fun e => hne e.symm
    simp only [hid, Bool.false_eq_true, if_false, hds]
    cases ob with
    | false => simpa using hd
    | true => simp only [Bool.not_true, Bool.false_eq_true, if_false, hst rfl]; exact hd

/-- `foreign_track_distances` is the concatenation of the per-candidate answers -/
theorem foreign_eq (cb : Cb TA M OA U Q E) (s : Store TA M OA) (cands : List (Track TA M OA)) (cls : Nat) (ob : Bool) :
    foreignDistances cb s cands cls ob =
      (cands.flatMap (fun c => (Store.all s).flatMap (okPart cb c cls ob)),
       (cands.map (fun c => ((Store.all s).map (errPart cb c cls ob)).sum)).sum) := by
  unfold foreignDistances
  have key : ∀ (cs : List (Track TA M OA)) (acc : List DistOk × Nat),
      cs.foldl (fun acc c => let (d, e) := queryOne cb (Store.all s) c cls ob; (acc.1 ++ d, acc.2 + e)) acc =
        (acc.1 ++ cs.flatMap (fun c => (Store.all s).flatMap (okPart cb c cls ob)),
         acc.2 + (cs.map (fun c => ((Store.all s).map (errPart cb c cls ob)).sum)).sum) := by
    intro cs
    induction cs with
    | nil => intro acc; simp
    | cons c rest ih =>
      intro acc
      simp only [foldl_cons]
      rw [ih]
      simp only [queryOne_eq, flatMap_cons, map_cons, sum_cons, append_assoc, Nat.add_assoc]
  rw [key]; simp

/-- the chunk a worker sends for candidate `c`: computed over its own shard `k` only -/
def chunk (cb : Cb TA M OA U Q E) (s : Store TA M OA) (cls : Nat) (ob : Bool) (c : Track TA M OA) (k : Nat) :
    List DistOk × Nat :=
  queryOne cb ((getShard s k).map (·.2)) c cls ob

/-- what the caller collects when the chunks arrive in the order `arr` (pairs candidate × shard) -/
def collect (cb : Cb TA M OA U Q E) (s : Store TA M OA) (cls : Nat) (ob : Bool) (arr : List (Track TA M OA × Nat)) :
    List DistOk × Nat :=
  (arr.flatMap (fun p => (chunk cb s cls ob p.1 p.2).1), (arr.map (fun p => (chunk cb s cls ob p.1 p.2).2)).sum)

theorem sum_map_flatMap {α β : Type} (l : List α) (f : α → List β) (g : β → Nat) :
    ((l.flatMap f).map g).sum = (l.map (fun a => ((f a).map g).sum)).sum := by
  induction l with
  | nil => rfl
  | cons a l ih => simp only [flatMap_cons, map_append, sum_append, map_cons, sum_cons, ih]

theorem all_eq_range (s : Store TA M OA) (h : Shape s) :
    Store.all s = (List.range s.n).flatMap (fun k => (getShard s k).map (·.2)) := by
  unfold Store.all getShard
  rw [← h.len]
  generalize s.shards = shs
  induction shs using List.reverseRecOn with
  | nil => simp
  | append_singleton l a ih =>
    rw [length_append, length_singleton, range_succ, flatMap_append, flatMap_append]
    simp only [flatMap_cons, flatMap_nil, append_nil, getD_eq_getElem?_getD]
    congr 1
    · rw [ih]
      apply flatMap_congr
      intro k hk
      have hk' : k < l.length := mem_range.mp hk
      simp [getD_eq_getElem?_getD, getElem?_append_left hk']
    · simp

/-- **Schedule independence.** Whatever the number of shards and whatever the order in which the
workers' chunks arrive (each chunk exactly once), the collected results are a permutation of the
sequential specification and the error counts agree. -/
theorem C10_schedule_independent (cb : Cb TA M OA U Q E) (s : Store TA M OA) (h : Shape s)
    (cands : List (Track TA M OA)) (cls : Nat) (ob : Bool) (arr : List (Track TA M OA × Nat))
    (harr : arr ~ cands.flatMap (fun c => (List.range s.n).map (fun k => (c, k)))) :
    (collect cb s cls ob arr).1 ~ (foreignDistances cb s cands cls ob).1 ∧
    (collect cb s cls ob arr).2 = (foreignDistances cb s cands cls ob).2 := by
  rw [foreign_eq]
  unfold collect
  constructor
  · refine (Perm.flatMap_right _ harr).trans ?_
    rw [flatMap_assoc]
    apply Perm.of_eq
    apply flatMap_congr
    intro c _
    simp only [flatMap_map, chunk, queryOne_eq]
    rw [all_eq_range s h, flatMap_assoc]
    simp only [flatMap_map]
  · simp only
    rw [(harr.map _).sum_eq, sum_map_flatMap]
    congr 1
    apply map_congr_left
    intro c _
    simp only [map_map, Function.comp, chunk, queryOne_eq]
    rw [all_eq_range s h, sum_map_flatMap]
    simp only [map_map, Function.comp]
    rfl

/-- Same contents, different shard counts: the results are permutations of each other. -/
theorem C10_shard_count_independent (cb : Cb TA M OA U Q E) (s₁ s₂ : Store TA M OA) (hall : Store.all s₁ ~ Store.all s₂)
    (cands : List (Track TA M OA)) (cls : Nat) (ob : Bool) :
    (foreignDistances cb s₁ cands cls ob).1 ~ (foreignDistances cb s₂ cands cls ob).1 ∧
    (foreignDistances cb s₁ cands cls ob).2 = (foreignDistances cb s₂ cands cls ob).2 := by
  rw [foreign_eq, foreign_eq]
  constructor
  · apply Perm.flatMap_left
    intro c _
    exact Perm.flatMap_right _ hall
  · simp only
    congr 1
    apply map_congr_left
    intro c _
    exact (hall.map _).sum_eq

/-- Owned queries: the candidates are the stored tracks with the requested ids, each compared with
every other stored track — the other candidates included — on the **unchanged** store. -/
theorem C10_owned (cb : Cb TA M OA U Q E) (s : Store TA M OA) (ids : List Nat) (cls : Nat) (ob : Bool) :
    ownedDistances cb s ids cls ob = foreignDistances cb s (ids.filterMap (find s)) cls ob := rfl

/-! ### non-vacuity: two stored candidates in one shard are compared with one another -/
private def cbx : Cb Nat Nat Nat Unit Unit Unit where
  apply _ a := .ok a
  mergeA a _ := .ok a
  optimize m _ _ a obs _ _ := .ok (m, a, obs)
  compatible _ _ := true
  baked _ _ := .ok .ready
  metric _ _ x _ y := some (some ((x : Int) - y), none)
  postprocess _ v := v
  lookup _ _ _ _ := true

private def t1 : Track Nat Nat Nat := { id := 1, attrs := 0, obs := [(0, [5])], metric := 0, hist := [1] }
private def t2 : Track Nat Nat Nat := { id := 2, attrs := 0, obs := [(0, [7])], metric := 0, hist := [2] }
private def st : Store Nat Nat Nat := put (put (empty 1 0 0) 1 t1) 2 t2

example : ownedDistances cbx st [1, 2] 0 false =
    ([⟨1, 2, some (-2), none⟩, ⟨2, 1, some 2, none⟩], 0) := by decide +kernel

end SimVerif.C10
