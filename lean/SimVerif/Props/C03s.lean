import SimVerif.Props.C03
import SimVerif.Tie.Epoch
import SimVerif.Tie.AutoWaste
import SimVerif.Tie.Gc
/-!
# C03 at source level

The expiry rule and the epoch counters, for the functions generated from `src/trackers/epoch_db.rs`, and the collection
countdown generated from the four `predict` functions (`Tie/Epoch.lean`, `Tie/AutoWaste.lean`):

* a track is `Wasted` **exactly** when its scene's epoch exceeds its last update by more than `max_idle_epochs`;
* `next_epoch` (called once per `predict` of a scene, empty or not) adds one to that scene's epoch and to no other;
  `skip_epochs_for_scene(n)` adds `n` to that scene's epoch and to no other;
* the countdown only decides **when** `auto_waste` runs — it is the model's `awStep`, and `C03_gc_unobservable`
  (`Props/C03b/C03c`) shows that this timing cannot be observed.
-/
namespace SimVerif.C03
open SimVerif.Tracker SimVerif.Tie SimVerif.Gen.L

/-- exact expiry, for the generated `baked`: `Wasted` iff `last_updated + max_idle < current epoch of the scene` -/
theorem C03_source_expiry (cfg : Cfg) (st : St) (t : Trk) :
    epoch_baked (some st.epochs) cfg.maxIdle t.scene t.lastUpd = Status.wasted ↔
      t.lastUpd + cfg.maxIdle < epochOf st t.scene := by
  rw [tie_epoch_baked, ← C03_expiry]
  cases expired cfg st t <;> simp

/-- one `predict` of a scene followed by a `skip` of `n`: that scene's epoch has grown by exactly `1 + n`, every other scene's
epoch is what it was (source-level counters) -/
theorem C03_source_epochs (m : List (Nat × Nat)) (s n : Nat) :
    ∃ m1 m2, epoch_next (some m) s = (some (epochIn m s + 1), some m1) ∧ epoch_skip (some m1) s n = ((), some m2) ∧
      ∀ s', epochIn m2 s' = if s' = s then epochIn m s + 1 + n else epochIn m s' := by
  obtain ⟨m1, h1, e1⟩ := tie_epoch_next m s
  obtain ⟨m2, h2, e2⟩ := tie_epoch_skip m1 s n
  refine ⟨m1, m2, h1, h2, ?_⟩
  intro s'
  rw [e2 s']
  by_cases h : s' = s
  · subst h; simp [e1]
  · simp [h, e1]

/-- the countdown of the simple SORT tracker's `predict` is the model's `awStep` (and likewise for the other three trackers,
`Tie/AutoWaste.lean`): after `set_auto_waste p` the next `predict` collects and re-arms the counter with `p` -/
theorem C03_source_countdown_after_set (cfg : Cfg) (st : St) (p : Nat) :
    awResult (aw_sort (collect cfg) (setAutoWaste st p) (setAutoWaste st p).awCounter (setAutoWaste st p).awPeriod) =
      { collect cfg (setAutoWaste st p) with awCounter := p } := by
  rw [tie_aw_sort]
  simp [awStep, setAutoWaste]

/-- **collection at source level** (`TrackerAPI::auto_waste` as generated, on the list store): a live track stays in the main
store exactly when it is not expired, and what reaches the wasted store is what was there plus exactly the expired live tracks -/
theorem C03_source_auto_waste (cfg : Cfg) (st : St) (hnd : (st.live.map (·.id)).Nodup) :
    ∃ main wst, gc_auto_waste (findUsableM cfg) fetchTracksM addTrackG st st.live st.wasted = some (main, wst) ∧
      (∀ t, t ∈ main ↔ (t ∈ st.live ∧ expired cfg st t = false)) ∧
      (∀ t, t ∈ wst ↔ (t ∈ st.wasted ∨ (t ∈ st.live ∧ expired cfg st t = true))) := by
  refine ⟨_, _, tie_gc_auto_waste cfg st hnd, ?_, ?_⟩
  · intro t; simp [collect, List.mem_filter]
  · intro t; simp [collect, List.mem_append, List.mem_filter]

/-- **`wasted()` at source level**: it empties the wasted store and hands out only tracks that were already wasted or that were
live and expired -/
theorem C03_source_wasted (cfg : Cfg) (st : St) (hnd : (st.live.map (·.id)).Nodup)
    (hndw : (((collect cfg st).wasted).map (·.id)).Nodup) (hexp : ∀ t ∈ (collect cfg st).wasted, expired cfg st t = true) :
    ∃ main out, gc_wasted (findUsableM cfg) fetchTracksM addTrackG st st.live st.wasted = some ((main, []), out) ∧
      (∀ t ∈ out, t ∈ st.wasted ∨ (t ∈ st.live ∧ expired cfg st t = true)) := by
  refine ⟨_, _, tie_gc_wasted cfg st hnd hndw hexp, ?_⟩
  intro t ht
  simp only [wastedOp, collect, List.mem_append, List.mem_filter] at ht
  rcases ht with ht | ⟨ht, he⟩
  · exact Or.inl ht
  · exact Or.inr ⟨ht, he⟩

end SimVerif.C03
