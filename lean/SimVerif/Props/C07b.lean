import SimVerif.Model.Kalman
import Mathlib.Data.Matrix.Block
import Mathlib.Data.Matrix.ColumnRowPartitioned
import Mathlib.Data.Matrix.Diagonal
import Mathlib.Data.Matrix.Mul
import Mathlib.Tactic.Ring
import Mathlib.Tactic.FieldSimp
import Mathlib.Tactic.NormNum
/-!
# C07, part B — the matrix-level textbook filter is `n` independent per-coordinate filters

The code works with the `2n`-dimensional state `(positions, velocities)`, `F = [[1, dt·1], [0, 1]]` (`dt = 1`),
`H = [1 0]`, diagonal process and measurement noise. `Model/Kalman.lean` models one coordinate (`C1`:
means `p, v`, covariance `[[a, b], [b, d]]`). This file states the **standard linear Kalman filter at matrix
level** (Mathlib `Matrix`, index type `Fin n ⊕ Fin n`) and proves, for every `n`, that on a covariance whose
four `n×n` blocks are diagonal

* the textbook prediction `m ↦ F m`, `P ↦ F P Fᵀ + Q` is `predict1` in every coordinate,
* the innovation covariance `S = H P Hᵀ + R` is diagonal, the textbook gain is `K = P Hᵀ S⁻¹`, and the textbook
  update `m ↦ m + K (z − H m)`, `P ↦ P − K S Kᵀ` is `update1` in every coordinate,
* the squared Mahalanobis distance `(z − H m)ᵀ S⁻¹ (z − H m)` is the sum of the per-coordinate `dist1`,

so the block-diagonal pattern is an invariant (`initiate` produces it) and the filter *is* `n` independent
constant-velocity filters: the per-coordinate theorems of `Props/C07.lean` (closed form, SPD, stationarity)
are statements about the matrix filter.
-/
namespace SimVerif.C07
open SimVerif.Kalman Matrix

variable {α : Type} [Field α] {n : ℕ}

/-- mean vector of `n` coordinates: positions, then velocities -/
def toMean (cs : Fin n → C1 α) : Fin n ⊕ Fin n → α := Sum.elim (fun i => (cs i).p) (fun i => (cs i).v)

/-- covariance of `n` independent coordinates: four diagonal blocks -/
def toCov (cs : Fin n → C1 α) : Matrix (Fin n ⊕ Fin n) (Fin n ⊕ Fin n) α :=
  fromBlocks (diagonal fun i => (cs i).a) (diagonal fun i => (cs i).b)
             (diagonal fun i => (cs i).b) (diagonal fun i => (cs i).d)

/-- constant-velocity transition, `dt = 1` -/
def Fm : Matrix (Fin n ⊕ Fin n) (Fin n ⊕ Fin n) α := fromBlocks 1 1 0 1

/-- measurement matrix `[1 0]`: positions are observed -/
def Hm : Matrix (Fin n) (Fin n ⊕ Fin n) α := fromCols 1 0

/-- process noise `diag(qp, qv)` -/
def Qm (qp qv : Fin n → α) : Matrix (Fin n ⊕ Fin n) (Fin n ⊕ Fin n) α :=
  fromBlocks (diagonal qp) 0 0 (diagonal qv)

/-- **textbook prediction of the mean** -/
theorem C07_matrix_predict_mean (cs : Fin n → C1 α) (qp qv : Fin n → α) :
    (Fm : Matrix _ _ α) *ᵥ toMean cs = toMean (fun i => predict1 (cs i) (qp i) (qv i)) := by
  unfold Fm toMean
  rw [fromBlocks_mulVec]
  funext k
  cases k <;> simp [predict1]

/-- **textbook prediction of the covariance**: `F P Fᵀ + Q` -/
theorem C07_matrix_predict_cov (cs : Fin n → C1 α) (qp qv : Fin n → α) :
    (Fm : Matrix _ _ α) * toCov cs * Fmᵀ + Qm qp qv = toCov (fun i => predict1 (cs i) (qp i) (qv i)) := by
  unfold Fm toCov Qm
  rw [fromBlocks_transpose, fromBlocks_multiply, fromBlocks_multiply, fromBlocks_add]
  simp only [Matrix.one_mul, Matrix.zero_mul, Matrix.mul_one, Matrix.mul_zero, transpose_one, transpose_zero,
    add_zero, zero_add, diagonal_add, predict1]
  congr 1 <;> (ext i j; by_cases h : i = j <;> simp [diagonal, h] <;> ring)

/-- **innovation covariance** `S = H P Hᵀ + R` is diagonal with entries `aᵢ + rᵢ` -/
theorem C07_matrix_innovation (cs : Fin n → C1 α) (r : Fin n → α) :
    (Hm : Matrix _ _ α) * toCov cs * Hmᵀ + diagonal r = diagonal fun i => s1 (cs i) (r i) := by
  unfold Hm toCov
  rw [transpose_fromCols, fromCols_mul_fromBlocks, fromCols_mul_fromRows]
  simp only [Matrix.one_mul, Matrix.zero_mul, Matrix.mul_one, Matrix.mul_zero, transpose_one, transpose_zero,
    add_zero, diagonal_add, s1]

/-- the textbook gain `K = P Hᵀ S⁻¹`, given as the matrix with `K · S = P Hᵀ` -/
def Km (cs : Fin n → C1 α) (r : Fin n → α) : Matrix (Fin n ⊕ Fin n) (Fin n) α :=
  fromRows (diagonal fun i => (cs i).a / s1 (cs i) (r i)) (diagonal fun i => (cs i).b / s1 (cs i) (r i))

theorem C07_matrix_gain (cs : Fin n → C1 α) (r : Fin n → α) (hs : ∀ i, s1 (cs i) (r i) ≠ 0) :
    Km cs r * (diagonal fun i => s1 (cs i) (r i)) = toCov cs * (Hm : Matrix _ _ α)ᵀ := by
  unfold Km Hm toCov
  rw [transpose_fromCols, fromBlocks_mul_fromRows, fromRows_mul]
  simp only [transpose_one, transpose_zero, Matrix.mul_one, Matrix.mul_zero, add_zero, diagonal_mul_diagonal]
  congr 1 <;> (congr 1; funext i; field_simp [hs i])

/-- **textbook update of the mean** `m + K (z − H m)` -/
theorem C07_matrix_update_mean (cs : Fin n → C1 α) (r z : Fin n → α) :
    toMean cs + Km cs r *ᵥ (z - (Hm : Matrix _ _ α) *ᵥ toMean cs) = toMean (fun i => update1 (cs i) (r i) (z i)) := by
  unfold Km Hm toMean
  rw [fromRows_mulVec, fromCols_mulVec_sumElim]
  funext k
  cases k <;> simp [update1, Matrix.one_mulVec, Matrix.zero_mulVec, mulVec_diagonal, mul_comm]

theorem fromBlocks_sub' {l m o p : Type} (A A' : Matrix l m α) (B B' : Matrix l p α) (C C' : Matrix o m α) (D D' : Matrix o p α) :
    fromBlocks A B C D - fromBlocks A' B' C' D' = fromBlocks (A - A') (B - B') (C - C') (D - D') := by
  ext (i | i) (j | j) <;> simp

/-- **textbook update of the covariance** `P − K S Kᵀ` -/
theorem C07_matrix_update_cov (cs : Fin n → C1 α) (r z : Fin n → α) :
    toCov cs - Km cs r * (diagonal fun i => s1 (cs i) (r i)) * (Km cs r)ᵀ =
      toCov (fun i => update1 (cs i) (r i) (z i)) := by
  unfold Km toCov
  rw [transpose_fromRows, fromRows_mul, fromRows_mul_fromCols]
  simp only [diagonal_transpose, diagonal_mul_diagonal, fromBlocks_sub', diagonal_sub, update1]
  congr 1 <;> (congr 1; funext i; ring)

/-- **squared Mahalanobis distance** of a measurement from the projected state -/
theorem C07_matrix_distance (cs : Fin n → C1 α) (r z : Fin n → α) :
    (z - (Hm : Matrix _ _ α) *ᵥ toMean cs) ⬝ᵥ
      ((diagonal fun i => (s1 (cs i) (r i))⁻¹) *ᵥ (z - (Hm : Matrix _ _ α) *ᵥ toMean cs)) =
      ∑ i, dist1 (cs i) (r i) (z i) := by
  unfold Hm toMean
  rw [fromCols_mulVec_sumElim]
  simp only [Matrix.one_mulVec, Matrix.zero_mulVec, add_zero, mulVec_diagonal, dotProduct, Pi.sub_apply, dist1]
  apply Finset.sum_congr rfl
  intro i _
  rw [div_eq_mul_inv]; ring

/-- with non-zero innovation variances `diag(1/sᵢ)` is the inverse of `S` -/
theorem C07_matrix_innovation_inv (cs : Fin n → C1 α) (r : Fin n → α) (hs : ∀ i, s1 (cs i) (r i) ≠ 0) :
    (diagonal fun i => s1 (cs i) (r i)) * (diagonal fun i => (s1 (cs i) (r i))⁻¹) = (1 : Matrix (Fin n) (Fin n) α) := by
  rw [diagonal_mul_diagonal]
  have : (fun i => s1 (cs i) (r i) * (s1 (cs i) (r i))⁻¹) = fun _ => (1 : α) := by
    funext i; exact mul_inv_cancel₀ (hs i)
  rw [this, diagonal_one]

/-- `initiate`: measured positions, zero velocities, diagonal covariance — four diagonal blocks with `b = 0` -/
theorem C07_matrix_init (z sp sv : Fin n → α) :
    toMean (fun i => init1 (z i) (sp i) (sv i)) = Sum.elim z (fun _ => 0) ∧
    toCov (fun i => init1 (z i) (sp i) (sv i)) =
      fromBlocks (diagonal fun i => sp i * sp i) 0 0 (diagonal fun i => sv i * sv i) := by
  constructor
  · rfl
  · unfold toCov init1
    simp only [diagonal_zero]

/-- **the block-diagonal pattern is an invariant, and the matrix filter is `n` independent filters**: starting from
`initiate`, any sequence of textbook predictions and updates keeps the state of the form `(toMean cs, toCov cs)`,
where `cs` evolves by `predict1` / `update1` coordinate-wise -/
inductive Step (α : Type) (n : ℕ) where
  | predict (qp qv : Fin n → α)
  | update (r z : Fin n → α)

def stepC (cs : Fin n → C1 α) : Step α n → (Fin n → C1 α)
  | .predict qp qv => fun i => predict1 (cs i) (qp i) (qv i)
  | .update r z => fun i => update1 (cs i) (r i) (z i)

/-- the textbook matrix step on an arbitrary `(m, P)` (the gain is any `K` with `K S = P Hᵀ`; supplied here by `Km`
of the coordinates, justified by `C07_matrix_gain`) -/
def stepM (cs : Fin n → C1 α) (mP : (Fin n ⊕ Fin n → α) × Matrix (Fin n ⊕ Fin n) (Fin n ⊕ Fin n) α) :
    Step α n → (Fin n ⊕ Fin n → α) × Matrix (Fin n ⊕ Fin n) (Fin n ⊕ Fin n) α
  | .predict qp qv => ((Fm : Matrix _ _ α) *ᵥ mP.1, Fm * mP.2 * Fmᵀ + Qm qp qv)
  | .update r z => (mP.1 + Km cs r *ᵥ (z - (Hm : Matrix _ _ α) *ᵥ mP.1),
                    mP.2 - Km cs r * ((Hm : Matrix _ _ α) * mP.2 * Hmᵀ + diagonal r) * (Km cs r)ᵀ)

theorem C07_blockdiag_inv (cs : Fin n → C1 α) (steps : List (Step α n)) :
    (steps.foldl (fun (st : (Fin n → C1 α) × ((Fin n ⊕ Fin n → α) × Matrix (Fin n ⊕ Fin n) (Fin n ⊕ Fin n) α)) s =>
        (stepC st.1 s, stepM st.1 st.2 s)) (cs, (toMean cs, toCov cs))).2 =
    (toMean (steps.foldl stepC cs), toCov (steps.foldl stepC cs)) := by
  induction steps generalizing cs with
  | nil => rfl
  | cons s rest ih =>
    simp only [List.foldl_cons]
    have hstep : stepM cs (toMean cs, toCov cs) s = (toMean (stepC cs s), toCov (stepC cs s)) := by
      cases s with
      | predict qp qv =>
        simp only [stepM, stepC, C07_matrix_predict_mean cs qp qv, C07_matrix_predict_cov]
      | update r z =>
        simp only [stepM, stepC, C07_matrix_innovation, C07_matrix_update_mean, C07_matrix_update_cov cs r z]
    rw [hstep]
    exact ih (stepC cs s)

/-- non-vacuity: after `initiate` with positive standard deviations and positive measurement noise the innovation
variance is non-zero, so the hypotheses of the gain / inverse theorems are met -/
example : s1 (init1 (3 : ℚ) 2 1) 1 ≠ 0 := by norm_num [s1, init1]

end SimVerif.C07
