import SimVerif.Props.Ren
import SimVerif.Lemmas.HistC04
import SimVerif.Lemmas.HistC06
/-!
# Whole histories up to renaming of track ids: scene isolation (C04) and batch refines simple (C06)
Model: `SimVerif.Tracker`; one-step machinery: `Props/Ren.lean`; helper lemmas: `Lemmas/HistC04.lean`, `Lemmas/HistC06.lean`.
-/
namespace SimVerif.Hist
open SimVerif.Tracker SimVerif.Ren List

/-- one `predict` call: scene, detections, the distance table of the call, the choice -/
structure Job where
  scene : Nat
  dets : List Det
  table : List Entry
  picks : List Pick

def Job.ren (ρ : Nat → Nat) (j : Job) : Job :=
  { j with table := j.table.map (renEntry ρ), picks := j.picks.map (renPick ρ) }

/-- a simple SORT tracker serving a sequence of calls; the answers, call by call -/
def runSimple (cfg : Cfg) : St → List Job → Option (St × List (List Rec))
  | st, [] => some (st, [])
  | st, j :: js =>
    match predict cfg st j.scene j.dets j.table j.picks with
    | none => none
    | some (st', r) =>
      match runSimple cfg st' js with
      | none => none
      | some (st'', rs) => some (st'', r :: rs)

/-- a batch SORT tracker serving a sequence of batches; per batch the answers in the order of its jobs -/
def runBatch (cfg : Cfg) : St → List (List Job) → Option (St × List (List (List Rec)))
  | st, [] => some (st, [])
  | st, b :: bs =>
    match predictBatch cfg st (b.map (fun j => (j.scene, j.dets, j.table, j.picks))) with
    | none => none
    | some (st', out) =>
      match runBatch cfg st' bs with
      | none => none
      | some (st'', outs) => some (st'', out.map (·.2) :: outs)

/-- the answers to the calls of scene `s` -/
def answersOf (s : Nat) : List Job → List (List Rec) → List (List Rec)
  | j :: js, r :: rs => if j.scene = s then r :: answersOf s js rs else answersOf s js rs
  | _, _ => []

/-! ### helper lemmas for `C04_projection` -/
section C04
open SimVerif.C01

/-- the fresh ids of the calls of scene `s`, in order -/
def freshOf (s : Nat) : List Job → List Nat
  | [] => []
  | j :: js => if j.scene = s then Ren.freshIds j.picks ++ freshOf s js else freshOf s js

theorem runSimple_cons (cfg : Cfg) (st : St) (j : Job) (js : List Job) (a : St) (recs : List (List Rec))
    (h : runSimple cfg st (j :: js) = some (a, recs)) :
    ∃ st' r rs, predict cfg st j.scene j.dets j.table j.picks = some (st', r) ∧
      runSimple cfg st' js = some (a, rs) ∧ recs = r :: rs := by
  simp only [runSimple] at h
  cases h1 : predict cfg st j.scene j.dets j.table j.picks with
  | none => simp [h1] at h
  | some x =>
    obtain ⟨st', r⟩ := x
    simp only [h1] at h
    cases h2 : runSimple cfg st' js with
    | none => simp [h2] at h
    | some y =>
      obtain ⟨st'', rs⟩ := y
      simp only [h2, Option.some.injEq, Prod.mk.injEq] at h
      exact ⟨st', r, rs, rfl, by rw [h2, h.1], h.2.symm⟩

theorem runSimple_cons_eq (cfg : Cfg) (st st' : St) (j : Job) (js : List Job) (a : St) (r : List Rec)
    (rs : List (List Rec)) (h1 : predict cfg st j.scene j.dets j.table j.picks = some (st', r))
    (h2 : runSimple cfg st' js = some (a, rs)) : runSimple cfg st (j :: js) = some (a, r :: rs) := by
  simp only [runSimple, h1, h2]

theorem range_split (ρ : Nat → Nat) (f g : List Nat) (n : Nat)
    (h : (f ++ g).map ρ = (List.range (f ++ g).length).map (fun i => n + 1 + i)) :
    f.map ρ = (List.range f.length).map (fun i => n + 1 + i) ∧
    g.map ρ = (List.range g.length).map (fun i => (n + f.length) + 1 + i) := by
  rw [map_append, length_append, range_add, map_append, map_map] at h
  obtain ⟨h1, h2⟩ := append_inj h (by simp)
  refine ⟨h1, ?_⟩
  rw [h2]
  apply map_congr_left
  intro i _
  simp only [Function.comp]
  omega

/-- the induction over the rest of the history: `a₀`, `b₀` are the states of the two trackers after a
prefix; the next ids of B are the `ρ`-images of the fresh ids scene `s` still gets in A -/
theorem proj_aux (cfg : Cfg) (hb : cfg.batchIds = false) (s : Nat) (ρ : Nat → Nat) (hρ : Function.Injective ρ) :
    ∀ (js : List Job) (a₀ b₀ a : St) (recs : List (List Rec)),
      Rel cfg cfg ρ (fun x => x == s) a₀ b₀ → IdsBelow a₀ → IdsBelow b₀ →
      (freshOf s js).map ρ = (List.range (freshOf s js).length).map (fun i => b₀.nextId + 1 + i) →
      runSimple cfg a₀ js = some (a, recs) →
      ∃ b, runSimple cfg b₀ ((js.filter (fun j => j.scene == s)).map (Job.ren ρ)) =
        some (b, (answersOf s js recs).map (List.map (renRec ρ))) := by
  intro js
  induction js with
  | nil =>
    intro a₀ b₀ a recs _ _ _ _ h
    simp only [runSimple, Option.some.injEq, Prod.mk.injEq] at h
    obtain ⟨_, h2⟩ := h
    subst h2
    exact ⟨b₀, rfl⟩
  | cons j js ih =>
    intro a₀ b₀ a recs hrel hia hib hmap h
    obtain ⟨a₁, r, rs, h1, h2, hr⟩ := runSimple_cons cfg a₀ j js a recs h
    subst hr
    by_cases hj : j.scene = s
    · have hsel : (fun x => x == s) j.scene = true := by simp [hj]
      have hfo : freshOf s (j :: js) = Ren.freshIds j.picks ++ freshOf s js := by simp [freshOf, hj]
      rw [hfo] at hmap
      obtain ⟨hm1, hm2⟩ := range_split ρ _ _ _ hmap
      obtain ⟨b₁, hB, hrel', hia', hib', hnb⟩ := predict_sel cfg hb ρ hρ _ a₀ b₀ hrel hia hib j.scene hsel
        j.dets j.table j.picks a₁ r h1 hm1
      rw [← hnb] at hm2
      obtain ⟨b, hb2⟩ := ih a₁ b₁ a rs hrel' hia' hib' hm2 h2
      refine ⟨b, ?_⟩
      have hfil : (j :: js).filter (fun j => j.scene == s) = j :: js.filter (fun j => j.scene == s) := by
        rw [filter_cons, if_pos (by simp [hj])]
      have hans : answersOf s (j :: js) (r :: rs) = r :: answersOf s js rs := by simp [answersOf, hj]
      rw [hfil, hans, map_cons, map_cons]
      exact runSimple_cons_eq cfg b₀ b₁ (Job.ren ρ j) _ b _ _ hB hb2
    · have hsel : (fun x => x == s) j.scene = false := by simp [hj]
      have hfo : freshOf s (j :: js) = freshOf s js := by simp [freshOf, hj]
      rw [hfo] at hmap
      obtain ⟨hrel', hia'⟩ := predict_other cfg hb ρ hρ _ a₀ b₀ hrel hia j.scene hsel j.dets j.table j.picks a₁ r h1
      obtain ⟨b, hb2⟩ := ih a₁ b₀ a rs hrel' hia' hib hmap h2
      refine ⟨b, ?_⟩
      have hfil : (j :: js).filter (fun j => j.scene == s) = js.filter (fun j => j.scene == s) := by
        rw [filter_cons, if_neg (by simp [hj])]
      have hans : answersOf s (j :: js) (r :: rs) = answersOf s js rs := by simp [answersOf, hj]
      rw [hfil, hans]
      exact hb2

/-- the fresh ids a successful history gives to scene `s` are new and pairwise different -/
theorem run_fresh (cfg : Cfg) (hb : cfg.batchIds = false) (s : Nat) :
    ∀ (js : List Job) (a₀ a : St) (recs : List (List Rec)),
      IdsBelow a₀ → (a₀.live.map (·.id)).Nodup → runSimple cfg a₀ js = some (a, recs) →
      (∀ id ∈ freshOf s js, a₀.nextId < id) ∧ (freshOf s js).Nodup := by
  intro js
  induction js with
  | nil => intro a₀ a recs _ _ _; simp [freshOf]
  | cons j js ih =>
    intro a₀ a recs hia hnd h
    obtain ⟨a₁, r, rs, h1, h2, _⟩ := runSimple_cons cfg a₀ j js a recs h
    obtain ⟨hia', hnd', hn, hfr⟩ := predict_facts cfg hb a₀ a₁ hia hnd j.scene j.dets j.table j.picks r h1
    obtain ⟨ih1, ih2⟩ := ih a₁ a rs hia' hnd' h2
    by_cases hj : j.scene = s
    · have hfo : freshOf s (j :: js) = Ren.freshIds j.picks ++ freshOf s js := by simp [freshOf, hj]
      have hlo : ∀ id ∈ Ren.freshIds j.picks, a₀.nextId < id ∧ id ≤ a₁.nextId := by
        intro id hid
        rw [hfr] at hid
        obtain ⟨i, hi, rfl⟩ := mem_map.mp hid
        have := mem_range.mp hi
        omega
      rw [hfo]
      refine ⟨?_, ?_⟩
      · intro id hid
        rcases mem_append.mp hid with hid | hid
        · exact (hlo id hid).1
        · have := ih1 id hid; omega
      · rw [nodup_append]
        refine ⟨?_, ih2, ?_⟩
        · rw [hfr]
          refine Nodup.map_on ?_ nodup_range
          intro x _ y _ hxy; omega
        · intro x hx y hy hxy
          subst hxy
          have := (hlo x hx).2
          have := ih1 x hy
          omega
    · have hfo : freshOf s (j :: js) = freshOf s js := by simp [freshOf, hj]
      rw [hfo]
      exact ⟨fun id hid => by have := ih1 id hid; omega, ih2⟩

/-- the renaming: the `i`-th fresh id of scene `s` becomes `i + 1`, every other id is moved out of the way -/
def rho (F : List Nat) (id : Nat) : Nat := if id ∈ F then 1 + F.idxOf id else F.length + 1 + id

theorem rho_inj (F : List Nat) : Function.Injective (rho F) := by
  intro x y h
  unfold rho at h
  split at h <;> split at h
  · rename_i hx hy
    exact (idxOf_inj hx).mp (by omega)
  · rename_i hx hy
    have := idxOf_lt_length_of_mem hx
    omega
  · rename_i hx hy
    have := idxOf_lt_length_of_mem hy
    omega
  · omega

theorem rho_map (F : List Nat) (hF : F.Nodup) :
    F.map (rho F) = (List.range F.length).map (fun i => 0 + 1 + i) := by
  apply ext_getElem
  · simp
  · intro i h1 h2
    have hi : i < F.length := by simpa using h1
    simp only [getElem_map, getElem_range]
    unfold rho
    rw [if_pos (getElem_mem hi), hF.idxOf_getElem i hi]

theorem rel_empty (cfg : Cfg) (ρ : Nat → Nat) (sel : Nat → Bool) : Rel cfg cfg ρ sel {} {} where
  epochs := fun _ _ => rfl
  tracks := rfl
  nodupA := nodup_nil
  nodupB := nodup_nil
  inj := fun x hx => by cases hx

end C04

/-- **C04 — scene isolation over whole histories.** Whatever a simple SORT tracker answers to the
calls of scene `s` in an interleaved history (from the empty tracker), a tracker that is given only
the calls of scene `s` answers too, up to a renaming `ρ` of track ids that is injective on the ids
the history uses: the grouping of the scene's detections into tracks, and the epochs, lengths,
boxes (tokens) and custom ids reported, are the same. -/
theorem C04_projection (cfg : Cfg) (hb : cfg.batchIds = false) (s : Nat) (jobs : List Job)
    (a : St) (recs : List (List Rec)) (h : runSimple cfg {} jobs = some (a, recs)) :
    ∃ (ρ : Nat → Nat) (b : St),
      (∀ x y, x ≤ a.nextId → y ≤ a.nextId → ρ x = ρ y → x = y) ∧
      runSimple cfg {} ((jobs.filter (fun j => j.scene == s)).map (Job.ren ρ)) =
        some (b, (answersOf s jobs recs).map (List.map (renRec ρ))) := by
  have hI0 : C01.IdsBelow ({} : St) := (C01.C01_reachable cfg {} ⟨by simp, by simp, by simp, by simp⟩).1
  obtain ⟨_, hF⟩ := run_fresh cfg hb s jobs {} a recs hI0 nodup_nil h
  obtain ⟨b, hb'⟩ := proj_aux cfg hb s (rho (freshOf s jobs)) (rho_inj _) jobs {} {} a recs
    (rel_empty cfg _ _) hI0 hI0 (rho_map _ hF) h
  exact ⟨rho (freshOf s jobs), b, fun x y _ _ hxy => rho_inj _ hxy, hb'⟩

section C06
open SimVerif.HistC06

/-- the fresh ids a list of jobs draws, in processing order -/
def jobsFresh (js : List Job) : List Nat := (js.map (fun j => freshIds j.picks)).flatten

theorem jobsFresh_cons (j : Job) (js : List Job) : jobsFresh (j :: js) = freshIds j.picks ++ jobsFresh js := rfl

theorem jobsFresh_append (l₁ l₂ : List Job) : jobsFresh (l₁ ++ l₂) = jobsFresh l₁ ++ jobsFresh l₂ := by
  unfold jobsFresh
  rw [map_append, flatten_append]

theorem runSimple_cons_eq_b (cfg : Cfg) (j : Job) (js : List Job) (b b' b'' : St) (r : List Rec) (rs : List (List Rec))
    (h1 : predict cfg b j.scene j.dets j.table j.picks = some (b', r))
    (h2 : runSimple cfg b' js = some (b'', rs)) : runSimple cfg b (j :: js) = some (b'', r :: rs) := by
  simp only [runSimple, h1, h2]

theorem runSimple_cons_inv (cfg : Cfg) (j : Job) (js : List Job) (b b'' : St) (out : List (List Rec))
    (h : runSimple cfg b (j :: js) = some (b'', out)) :
    ∃ b' r rs, predict cfg b j.scene j.dets j.table j.picks = some (b', r) ∧
      runSimple cfg b' js = some (b'', rs) ∧ out = r :: rs := by
  simp only [runSimple] at h
  cases hp : predict cfg b j.scene j.dets j.table j.picks with
  | none => simp [hp] at h
  | some x =>
    obtain ⟨b', r⟩ := x
    simp only [hp] at h
    cases hr : runSimple cfg b' js with
    | none => simp [hr] at h
    | some y =>
      obtain ⟨b2, rs⟩ := y
      simp only [hr, Option.some.injEq, Prod.mk.injEq] at h
      exact ⟨b', r, rs, rfl, by rw [← h.1]; exact hr, h.2.symm⟩

theorem runSimple_append (cfg : Cfg) (l₁ l₂ : List Job) (b b₁ b₂ : St) (r₁ r₂ : List (List Rec))
    (h1 : runSimple cfg b l₁ = some (b₁, r₁)) (h2 : runSimple cfg b₁ l₂ = some (b₂, r₂)) :
    runSimple cfg b (l₁ ++ l₂) = some (b₂, r₁ ++ r₂) := by
  induction l₁ generalizing b r₁ with
  | nil =>
    simp only [runSimple, Option.some.injEq, Prod.mk.injEq] at h1
    obtain ⟨e1, e2⟩ := h1
    subst e1; subst e2
    exact h2
  | cons j js ih =>
    obtain ⟨b', r, rs, hp, hr, ho⟩ := runSimple_cons_inv cfg j js b b₁ r₁ h1
    subst ho
    exact runSimple_cons_eq_b cfg j (js ++ l₂) b b' b₂ r (rs ++ r₂) hp (ih b' rs hr)

theorem runBatch_cons_inv (cfg : Cfg) (bt : List Job) (bs : List (List Job)) (a a'' : St)
    (outs : List (List (List Rec))) (h : runBatch cfg a (bt :: bs) = some (a'', outs)) :
    ∃ a' out outs', predictBatch cfg a (bt.map (fun j => (j.scene, j.dets, j.table, j.picks))) = some (a', out) ∧
      runBatch cfg a' bs = some (a'', outs') ∧ outs = out.map (·.2) :: outs' := by
  simp only [runBatch] at h
  cases hp : predictBatch cfg a (bt.map (fun j => (j.scene, j.dets, j.table, j.picks))) with
  | none => simp [hp] at h
  | some x =>
    obtain ⟨a', out⟩ := x
    simp only [hp] at h
    cases hr : runBatch cfg a' bs with
    | none => simp [hr] at h
    | some y =>
      obtain ⟨a2, outs'⟩ := y
      simp only [hr, Option.some.injEq, Prod.mk.injEq] at h
      exact ⟨a', out, outs', rfl, by rw [← h.1]; exact hr, h.2.symm⟩

/-- what `predictBatch` is made of -/
theorem predictBatch_inv (cfg : Cfg) (a a' : St) (scenes : List (Nat × List Det × List Entry × List Pick))
    (out : List (Nat × List Rec)) (h : predictBatch cfg a scenes = some (a', out)) :
    ∃ hi s, (awStep cfg a).nextId ≤ hi ∧ batchScenes cfg (awStep cfg a).nextId hi scenes (awStep cfg a) = some (s, out) ∧
      a' = { s with nextId := hi } := by
  unfold predictBatch at h
  simp only at h
  generalize hhi : (awStep cfg a).nextId + (scenes.map (fun s => s.2.1.length)).foldl (· + ·) 0 = hi at h
  have hle : (awStep cfg a).nextId ≤ hi := by omega
  cases hbs : batchScenes cfg (awStep cfg a).nextId hi scenes (awStep cfg a) with
  | none => rw [hbs] at h; cases h
  | some x =>
    obtain ⟨s, o⟩ := x
    rw [hbs] at h
    simp only [Option.map_some, Option.some.injEq, Prod.mk.injEq] at h
    obtain ⟨e1, e2⟩ := h
    subst e2
    exact ⟨hi, s, hle, hbs, e1.symm⟩

/-- the jobs of one batch, served by the batch tracker (A) and one by one by the simple tracker (B) -/
theorem scenes_sim (cb cs : Cfg) (hcb : cb.batchIds = true) (hcs : cs.batchIds = false) (hsame : SameButIds cb cs)
    (ρ : Nat → Nat) (hρ : ∀ x y, ρ x = ρ y → x = y) (lo hi : Nat) (js : List Job) (a b a' : St)
    (out : List (Nat × List Rec))
    (hrel : Rel cb cs ρ (fun _ => true) a b) (hib : C01.IdsBelow b)
    (hnum : Numbered ρ b.nextId (jobsFresh js))
    (h : batchScenes cb lo hi (js.map (fun j => (j.scene, j.dets, j.table, j.picks))) a = some (a', out)) :
    ∃ b', runSimple cs b (js.map (Job.ren ρ)) = some (b', (out.map (·.2)).map (List.map (renRec ρ))) ∧
      Rel cb cs ρ (fun _ => true) a' b' ∧ C01.IdsBelow b' ∧ b'.nextId = b.nextId + (jobsFresh js).length := by
  induction js generalizing a b out with
  | nil =>
    simp only [map_nil, batchScenes, Option.some.injEq, Prod.mk.injEq] at h
    obtain ⟨e1, e2⟩ := h
    subst e1; subst e2
    exact ⟨b, rfl, hrel, hib, rfl⟩
  | cons j js ih =>
    rw [map_cons] at h
    obtain ⟨a1, r, out', h1, h2, ho⟩ := C06.batchScenes_cons_inv cb lo hi _ _ a a' out h
    subst ho
    replace h1 : predictScene cb a j.scene j.dets j.table j.picks lo hi = some (a1, r) := h1
    rw [jobsFresh_cons] at hnum
    obtain ⟨hn1, hn2⟩ := numbered_append ρ _ _ _ hnum
    have hrel1 : Rel cb cs ρ (fun _ => true) a (awStep cs b) := (rel_collect cb cs ρ _ a b hrel).2.2.2
    have hib1 : C01.IdsBelow (awStep cs b) := (C01.C01_reachable cs b hib).2.2.1
    have hnx : (awStep cs b).nextId = b.nextId := awStep_nextId cs b
    have hnd1 := C06.scene_nodup cb hcb j.scene a a1 hrel.nodupA j.dets j.table j.picks lo hi r h1
    have hn1' : Numbered ρ (setEpoch (awStep cs b) j.scene (epochOf (awStep cs b) j.scene + 1)).nextId (freshIds j.picks) := by
      show Numbered ρ (awStep cs b).nextId _
      rw [hnx]; exact hn1
    obtain ⟨b1, hb1, hrel2⟩ := scene_job_rename cb cs hsame ρ (fun _ => true) a (awStep cs b) hrel1 j.scene rfl
      j.dets j.table j.picks lo hi 0 0 a1 r h1 hnd1
      (simple_fresh_ok cs hcs _ ρ j.picks 0 0 hn1')
      (fun x _ y _ hxy => hρ x y hxy)
      (fun id hid t ht hte => by
         have h3 := (numbered_gt ρ _ _ hn1 id hid).1
         have h4 := hib1.live t ht
         omega)
    obtain ⟨_, _, hib2⟩ := C01.C01_distinct_fresh cs hcs _ b1 hib1 j.scene j.dets _ _ _ hb1
    have hnx2 : b1.nextId = b.nextId + (freshIds j.picks).length := by
      have h5 := (C06.scene_fields cs j.scene _ b1 j.dets _ _ 0 0 _ hb1).2.2.2.2.2.1
      rw [h5, hnx]
      simp only [hcs, Bool.false_eq_true, if_false]
      rw [freshCount_sum]
      show _ + (freshIds (j.picks.map (renPick ρ))).length = _
      rw [freshIds_ren, length_map]
    obtain ⟨b2, hb2, hrel3, hib3, hnx3⟩ := ih a1 b1 out' hrel2 hib2 (by rw [hnx2]; exact hn2) h2
    refine ⟨b2, ?_, hrel3, hib3, ?_⟩
    · exact runSimple_cons_eq_b cs (Job.ren ρ j) (js.map (Job.ren ρ)) b b1 b2 _ _ hb1 hb2
    · rw [hnx3, hnx2, jobsFresh_cons, length_append]
      omega

/-- one batch -/
theorem batch_sim (cb cs : Cfg) (hcb : cb.batchIds = true) (hcs : cs.batchIds = false) (hsame : SameButIds cb cs)
    (ρ : Nat → Nat) (hρ : ∀ x y, ρ x = ρ y → x = y) (js : List Job) (a b a' : St)
    (out : List (Nat × List Rec))
    (hrel : Rel cb cs ρ (fun _ => true) a b) (hib : C01.IdsBelow b)
    (hnum : Numbered ρ b.nextId (jobsFresh js))
    (h : predictBatch cb a (js.map (fun j => (j.scene, j.dets, j.table, j.picks))) = some (a', out)) :
    ∃ b', runSimple cs b (js.map (Job.ren ρ)) = some (b', (out.map (·.2)).map (List.map (renRec ρ))) ∧
      Rel cb cs ρ (fun _ => true) a' b' ∧ C01.IdsBelow b' ∧ b'.nextId = b.nextId + (jobsFresh js).length := by
  obtain ⟨hi, s, _, hbs, ha'⟩ := predictBatch_inv cb a a' _ out h
  have hrel0 : Rel cb cs ρ (fun _ => true) (awStep cb a) b := (rel_collect cb cs ρ _ a b hrel).2.2.1
  obtain ⟨b', hb', hr, hib', hnx⟩ := scenes_sim cb cs hcb hcs hsame ρ hρ _ hi js _ b s out hrel0 hib hnum hbs
  subst ha'
  exact ⟨b', hb', ⟨hr.epochs, hr.tracks, hr.nodupA, hr.nodupB, hr.inj⟩, hib', hnx⟩

/-- a whole history -/
theorem run_sim (cb cs : Cfg) (hcb : cb.batchIds = true) (hcs : cs.batchIds = false) (hsame : SameButIds cb cs)
    (ρ : Nat → Nat) (hρ : ∀ x y, ρ x = ρ y → x = y) (batches : List (List Job)) (a b a' : St)
    (outs : List (List (List Rec)))
    (hrel : Rel cb cs ρ (fun _ => true) a b) (hib : C01.IdsBelow b)
    (hnum : Numbered ρ b.nextId (jobsFresh batches.flatten))
    (h : runBatch cb a batches = some (a', outs)) :
    ∃ b', runSimple cs b (batches.flatten.map (Job.ren ρ)) = some (b', outs.flatten.map (List.map (renRec ρ))) := by
  induction batches generalizing a b outs with
  | nil =>
    simp only [runBatch, Option.some.injEq, Prod.mk.injEq] at h
    obtain ⟨_, e2⟩ := h
    subst e2
    exact ⟨b, rfl⟩
  | cons bt bs ih =>
    obtain ⟨a1, out, outs', hp, hr, ho⟩ := runBatch_cons_inv cb bt bs a a' outs h
    subst ho
    rw [flatten_cons, jobsFresh_append] at hnum
    obtain ⟨hn1, hn2⟩ := numbered_append ρ _ _ _ hnum
    obtain ⟨b1, hb1, hrel1, hib1, hnx1⟩ := batch_sim cb cs hcb hcs hsame ρ hρ bt a b a1 out hrel hib hn1 hp
    obtain ⟨b2, hb2⟩ := ih a1 b1 outs' hrel1 hib1 (by rw [hnx1]; exact hn2) hr
    refine ⟨b2, ?_⟩
    rw [flatten_cons, map_append, flatten_cons, map_append]
    exact runSimple_append cs _ _ b b1 b2 _ _ hb1 hb2

/-- the fresh ids of the jobs of one batch: duplicate-free, from the batch's range, not live before -/
theorem scenes_fresh (cb : Cfg) (hcb : cb.batchIds = true) (lo hi : Nat) (js : List Job) (a a' : St)
    (out : List (Nat × List Rec))
    (h : batchScenes cb lo hi (js.map (fun j => (j.scene, j.dets, j.table, j.picks))) a = some (a', out)) :
    (jobsFresh js).Nodup ∧ (∀ id ∈ jobsFresh js, lo < id ∧ id ≤ hi ∧ id ∉ a.live.map (·.id)) ∧
      a'.live.map (·.id) = a.live.map (·.id) ++ jobsFresh js := by
  induction js generalizing a out with
  | nil =>
    simp only [map_nil, batchScenes, Option.some.injEq, Prod.mk.injEq] at h
    obtain ⟨e1, _⟩ := h
    subst e1
    exact ⟨nodup_nil, fun id hid => absurd hid not_mem_nil, (append_nil _).symm⟩
  | cons j js ih =>
    rw [map_cons] at h
    obtain ⟨a1, r, out', h1, h2, _⟩ := C06.batchScenes_cons_inv cb lo hi _ _ a a' out h
    replace h1 : predictScene cb a j.scene j.dets j.table j.picks lo hi = some (a1, r) := h1
    obtain ⟨f1, f2⟩ := C06.scene_fresh cb hcb j.scene a a1 j.dets j.table j.picks lo hi r h1
    have hids : a1.live.map (·.id) = a.live.map (·.id) ++ freshIds j.picks :=
      (C06.scene_fields cb j.scene a a1 j.dets j.table j.picks lo hi r h1).2.2.2.2.2.2
    obtain ⟨g1, g2, g3⟩ := ih a1 out' h2
    rw [jobsFresh_cons]
    refine ⟨?_, ?_, ?_⟩
    · rw [nodup_append]
      refine ⟨f2, g1, ?_⟩
      intro x hx y hy hxy
      subst hxy
      exact (g2 x hy).2.2 (by rw [hids]; exact mem_append_right _ hx)
    · intro id hid
      rcases mem_append.mp hid with hid | hid
      · exact f1 id hid
      · obtain ⟨k1, k2, k3⟩ := g2 id hid
        exact ⟨k1, k2, fun hm => k3 (by rw [hids]; exact mem_append_left _ hm)⟩
    · rw [g3, hids, append_assoc]

/-- all the fresh ids of a batch history are pairwise distinct (and beyond the counter at the start) -/
theorem run_fresh_b (cb : Cfg) (hcb : cb.batchIds = true) (batches : List (List Job)) (a a' : St)
    (outs : List (List (List Rec))) (hlive : ∀ t ∈ a.live, t.id ≤ a.nextId)
    (h : runBatch cb a batches = some (a', outs)) :
    (jobsFresh batches.flatten).Nodup ∧ ∀ id ∈ jobsFresh batches.flatten, a.nextId < id := by
  induction batches generalizing a outs with
  | nil => exact ⟨nodup_nil, fun id hid => absurd hid not_mem_nil⟩
  | cons bt bs ih =>
    obtain ⟨a1, out, outs', hp, hr, _⟩ := runBatch_cons_inv cb bt bs a a' outs h
    obtain ⟨hi, s, hle, hbs, ha1⟩ := predictBatch_inv cb a a1 _ out hp
    obtain ⟨f1, f2, f3⟩ := scenes_fresh cb hcb _ hi bt _ s out hbs
    have hnx : (awStep cb a).nextId = a.nextId := awStep_nextId cb a
    have hlive1 : ∀ t ∈ a1.live, t.id ≤ a1.nextId := by
      intro t ht
      subst ha1
      show t.id ≤ hi
      have hm : t.id ∈ s.live.map (·.id) := mem_map_of_mem ht
      rw [f3] at hm
      rcases mem_append.mp hm with hm | hm
      · obtain ⟨t0, ht0, e⟩ := mem_map.mp hm
        have := hlive t0 (awStep_live_sub cb a t0 ht0)
        omega
      · exact (f2 _ hm).2.1
    obtain ⟨g1, g2⟩ := ih a1 outs' hlive1 hr
    have hn1 : a1.nextId = hi := by subst ha1; rfl
    rw [flatten_cons, jobsFresh_append]
    refine ⟨?_, ?_⟩
    · rw [nodup_append]
      refine ⟨f1, g1, ?_⟩
      intro x hx y hy hxy
      subst hxy
      have := (f2 x hx).2.1
      have := g2 x hy
      omega
    · intro id hid
      rcases mem_append.mp hid with hid | hid
      · have := (f2 id hid).1
        omega
      · have := g2 id hid
        omega

end C06

/-- **C06 — a batch tracker refines the simple tracker.** Whatever a batch SORT tracker answers to a
sequence of batches (each with distinct scenes), the simple tracker configured alike answers to the
same calls served one by one, up to a renaming `ρ` of track ids that is injective on the ids the
batch tracker issued. -/
theorem C06_refines_simple (cb cs : Cfg) (hcb : cb.batchIds = true) (hcs : cs.batchIds = false)
    (hsame : SameButIds cb cs) (batches : List (List Job))
    (hd : ∀ b ∈ batches, (b.map (·.scene)).Nodup)
    (a : St) (outs : List (List (List Rec))) (h : runBatch cb {} batches = some (a, outs)) :
    ∃ (ρ : Nat → Nat) (b : St),
      (∀ x y, x ≤ a.nextId → y ≤ a.nextId → ρ x = ρ y → x = y) ∧
      runSimple cs {} (batches.flatten.map (Job.ren ρ)) =
        some (b, outs.flatten.map (List.map (renRec ρ))) := by
  have _ := hd
  obtain ⟨hF, _⟩ := run_fresh_b cb hcb batches {} a outs (fun t ht => absurd ht not_mem_nil) h
  have hρ := HistC06.numbering_inj (jobsFresh batches.flatten)
  have hrel : Rel cb cs (HistC06.numbering (jobsFresh batches.flatten)) (fun _ => true) {} {} :=
    ⟨fun _ _ => rfl, rfl, nodup_nil, nodup_nil, fun x hx => absurd hx not_mem_nil⟩
  have hib : C01.IdsBelow ({} : St) :=
    { live := by simp, wasted := by simp, handed := by simp, cleared := by simp }
  obtain ⟨b, hb⟩ := run_sim cb cs hcb hcs hsame _ hρ batches {} {} a outs hrel hib
    (HistC06.numbering_numbered _ hF) h
  exact ⟨_, b, fun x y _ _ hxy => hρ x y hxy, hb⟩

end SimVerif.Hist
