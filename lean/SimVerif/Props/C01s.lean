import SimVerif.Gen.LAttr
import SimVerif.Tie.Record
/-!
# C01 / C13 at source level: the record echoes the detection

For the functions generated from the source (`SortAttributes::update_history` / `VisualAttributes::update_history`, and the
record conversions): after a detection has been attached to a track, the record built from that track carries **that
detection's observed box and the box predicted for it** (the last entries of the bounded histories, whatever the history
bound), and the track length grew by exactly one.
-/
namespace SimVerif.C01
open SimVerif.Gen.L

theorem getLast_tail_snoc {β : Type} (l : List β) (x : β) (h : l ≠ []) : (List.tail (l ++ [x])).getLast? = some x := by
  cases l with
  | nil => exact absurd rfl h
  | cons a rest => simp

theorem getLast_snoc {β : Type} (l : List β) (x : β) : (l ++ [x]).getLast? = some x := by simp

/-- SORT: the record after an update echoes the observed and the predicted box of the update, and counts it -/
theorem C01_source_echo_sort {β ι : Type} (H len : Nat) (obs pred : List β) (ob pb : β) (hlen : obs.length = pred.length)
    (id : Nat) (cu : ι) (e s : Nat) :
    let u := sort_update_history H len obs pred ob pb
    let r := sort_track_of id cu e s u.1 u.2.1 u.2.2
    r.observed = some ob ∧ r.predicted = some pb ∧ r.length = len + 1 ∧ r.id = id ∧ r.epoch = e ∧ r.scene = s ∧ r.custom = cu := by
  intro u r
  simp only [r, u, sort_track_of, sort_update_history]
  by_cases hc : (decide (H > 0) && decide ((obs ++ [ob]).length > H)) = true
  · simp only [hc, if_true]
    have hne : obs ≠ [] := by
      intro h0; subst h0
      simp only [Bool.and_eq_true, decide_eq_true_eq, List.nil_append, List.length_singleton] at hc
      omega
    have hne' : pred ≠ [] := by
      intro h0; subst h0; simp at hlen; exact hne hlen
    exact ⟨getLast_tail_snoc obs ob hne, getLast_tail_snoc pred pb hne', by trivial⟩
  · have hc' : (decide (H > 0) && decide ((obs ++ [ob]).length > H)) = false := Bool.eq_false_iff.mpr hc
    simp only [hc', Bool.false_eq_true, if_false]
    exact ⟨getLast_snoc obs ob, getLast_snoc pred pb, by trivial⟩

/-- the bounded histories never exceed the bound (when one is set), and keep the newest entries -/
theorem C13_source_history_bound {β : Type} (H len : Nat) (obs pred : List β) (ob pb : β) (hH : 0 < H) (hb : obs.length ≤ H) :
    (sort_update_history H len obs pred ob pb).2.1.length ≤ H := by
  simp only [sort_update_history, List.length_append, List.length_singleton]
  by_cases hc : obs.length + 1 > H
  · simp [hH, hc]; omega
  · simp [hH, hc]; omega

end SimVerif.C01
