import SimVerif.Tie.VisVoting
import SimVerif.Tie.Voting
/-!
# C12 at source level

The cascade of `VisualVoting::winners`, for the function generated from `src/trackers/visual_sort/voting.rs` (`Tie/VisVoting.lean`):
appearance votes first — a detection with an entry in the BestFit result is decided there, with voting type Visual, and never
reaches the positional stage; a track named by the appearance stage is withheld from the positional stage; the positional stage
(SORT's voting) sees exactly the remaining distances that carry a positional weight, and its decisions carry voting type Positional.
(`BestFitVoting::winners` itself is tied to `Voting.bestfit` in `Tie/Voting.lean`: greatest weight wins, the loser falls back to itself.)
-/
namespace SimVerif.C12
open SimVerif.Voting SimVerif.Tie SimVerif.Gen.L

theorem mapGet_mapExtend_of_not_mem {β : Type} (l : List (Nat × β)) (m : List (Nat × β)) (q : Nat) (h : ∀ p ∈ l, p.1 ≠ q) :
    mapGet (mapExtend m l) q = mapGet m q := by
  unfold mapExtend
  induction l generalizing m with
  | nil => rfl
  | cons p rest ih =>
    rw [List.foldl_cons, ih _ (fun p' hp' => h p' (List.mem_cons_of_mem _ hp'))]
    rw [mapGet_mapSet]
    have : ¬ q = p.1 := fun hq => h p List.mem_cons_self hq.symm
    simp [this]

/-- what reaches the positional stage: no detection decided by appearance, no track named by appearance, only pairs with a
positional weight -/
theorem C12_source_positional_rest (fw : List (Nat × List Elt)) (ds : List VD) (e : VD) (he : e ∈ vvRemaining fw ds) :
    e ∈ ds ∧ (mapGet (vvFeature fw) e.frm) = none ∧ (vvExcluded fw).contains e.to = false ∧ e.attr.isSome = true := by
  unfold vvRemaining at he
  rw [List.mem_filter] at he
  obtain ⟨hm, hc⟩ := he
  simp only [Bool.and_eq_true, Bool.not_eq_true', Bool.or_eq_false_iff] at hc
  refine ⟨hm, ?_, hc.1.2, hc.2⟩
  cases h : mapGet (vvFeature fw) e.frm with
  | none => rfl
  | some v => rw [h] at hc; simp at hc

/-- a detection with an entry in the BestFit result is decided by appearance: the source returns for it the track of its first
BestFit entry with voting type Visual — provided the positional stage only answers for candidates it was given (which
`SortVoting` does: its rows are the candidates of its stream) -/
theorem C12_source_visual_first (bestfitFn : Rat → Nat → List VD → List (Nat × List Elt)) (sortVotingFn : Rat × Nat × Nat → List VD → List (Nat × List Nat))
    (thr maxF : Rat) (mv : Nat) (ds : List VD) (q : Nat) (v : List (Nat × Bool))
    (hkeys : ∀ cfg rem, ∀ p ∈ sortVotingFn cfg rem, ∃ e ∈ rem, e.frm = p.1)
    (hq : mapGet (vvFeature (bestfitFn maxF mv ds)) q = some v) :
    mapGet (visual_voting_winners bestfitFn sortVotingFn thr maxF mv ds) q = some v := by
  rw [tie_visual_voting_winners]
  unfold vvSpec
  simp only []
  rw [mapGet_mapExtend_of_not_mem _ _ q, hq]
  intro p hp hpq
  obtain ⟨p0, hp0, rfl⟩ := List.mem_map.mp hp
  obtain ⟨e, he, hfrm⟩ := hkeys _ _ p0 hp0
  have := (C12_source_positional_rest _ ds e he).2.1
  simp only at hpq
  rw [hfrm, hpq, hq] at this
  exact absurd this (by simp)

/-- the entries of the appearance stage say Visual, and name the first BestFit entry's track -/
theorem C12_source_visual_type (fw : List (Nat × List Elt)) (q : Nat) (v : List (Nat × Bool)) (h : mapGet (vvFeature fw) q = some v) :
    ∃ w : List Elt, v = [((w[0]!).w, true)] := by
  unfold vvFeature at h
  have := mapGet_mapValues (fun (w : List Elt) => [((w[0]!).w, true)]) fw q
  have hform : fw.map (fun p => (p.1, [((p.2[0]!).w, true)])) = fw.map (fun (p : Nat × List Elt) => (p.1, (fun (w : List Elt) => [((w[0]!).w, true)]) p.2)) := rfl
  rw [hform, this] at h
  cases hg : mapGet fw q with
  | none => rw [hg] at h; simp at h
  | some w => rw [hg] at h; exact ⟨w, by simpa using h.symm⟩

end SimVerif.C12
