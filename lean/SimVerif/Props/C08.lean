import SimVerif.Model.Geom
/-! # C08 — placeholder, theorems follow -/
namespace SimVerif.C08
theorem C08_placeholder : True := trivial
end SimVerif.C08
