import SimVerif.Model.Geom
import Mathlib.Algebra.Order.Field.Basic
import Mathlib.Analysis.Real.Sqrt
import Mathlib.Tactic.Ring
import Mathlib.Tactic.FieldSimp
import Mathlib.Tactic.Linarith
import Mathlib.Tactic.Positivity
import Mathlib.Tactic.NormNum
/-!
# C08 — oriented-box intersection and IoU; the distance pre-filter is sound

Part A: closed-form axis-aligned intersection / IoU laws and the too-far pre-filter, over any
linear ordered field (`C08_toofar_sqrtfree` over `ℝ`). Part B (rigid-motion invariance of the
Sutherland–Hodgman model, identical boxes) is in `SimVerif/Props/C08b.lean`.
`C08_full` — "the reported area is the measure of the set intersection for arbitrary rotated pairs" —
is NOT proved: see DESIGN.md; that clause is decided by comparison with an exact rational reference.
-/
namespace SimVerif.C08
open SimVerif.Geom
variable {α : Type} [Field α] [LinearOrder α] [IsStrictOrderedRing α]

/-- well-formed box: positive width and height -/
def Pos (b : BBox α) : Prop := 0 < b.width ∧ 0 < b.height

omit [Field α] [IsStrictOrderedRing α] in
theorem maxv_eq (a b : α) : maxv a b = max a b := by
  unfold maxv
  split_ifs with h
  · exact (max_eq_right h.le).symm
  · exact (max_eq_left (not_lt.mp h)).symm

omit [Field α] [IsStrictOrderedRing α] in
theorem minv_eq (a b : α) : minv a b = min a b := by
  unfold minv
  split_ifs with h
  · exact (min_eq_right h.le).symm
  · exact (min_eq_left (not_lt.mp h)).symm

omit [IsStrictOrderedRing α] in
/-- `aabbInter` in `max`/`min` form -/
theorem aabbInter_eq (l r : BBox α) :
    aabbInter l r =
      if 0 < min (l.left + l.width) (r.left + r.width) - max l.left r.left ∧
         0 < min (l.top + l.height) (r.top + r.height) - max l.top r.top then
        (min (l.left + l.width) (r.left + r.width) - max l.left r.left) *
        (min (l.top + l.height) (r.top + r.height) - max l.top r.top)
      else 0 := by
  simp only [aabbInter, maxv_eq, minv_eq]

theorem C08_aabb_nonneg (l r : BBox α) : 0 ≤ aabbInter l r := by
  rw [aabbInter_eq]
  split_ifs with h
  · exact (mul_pos h.1 h.2).le
  · exact le_rfl

theorem C08_aabb_le_area (l r : BBox α) (hl : Pos l) (hr : Pos r) :
    aabbInter l r ≤ l.width * l.height ∧ aabbInter l r ≤ r.width * r.height := by
  obtain ⟨hlw, hlh⟩ := hl
  obtain ⟨hrw, hrh⟩ := hr
  rw [aabbInter_eq]
  split_ifs with h
  · obtain ⟨hw, hh⟩ := h
    have w1 : min (l.left + l.width) (r.left + r.width) - max l.left r.left ≤ l.width := by
      have := min_le_left (l.left + l.width) (r.left + r.width)
      have := le_max_left l.left r.left
      linarith
    have w2 : min (l.left + l.width) (r.left + r.width) - max l.left r.left ≤ r.width := by
      have := min_le_right (l.left + l.width) (r.left + r.width)
      have := le_max_right l.left r.left
      linarith
    have h1 : min (l.top + l.height) (r.top + r.height) - max l.top r.top ≤ l.height := by
      have := min_le_left (l.top + l.height) (r.top + r.height)
      have := le_max_left l.top r.top
      linarith
    have h2 : min (l.top + l.height) (r.top + r.height) - max l.top r.top ≤ r.height := by
      have := min_le_right (l.top + l.height) (r.top + r.height)
      have := le_max_right l.top r.top
      linarith
    exact ⟨mul_le_mul w1 h1 hh.le hlw.le, mul_le_mul w2 h2 hh.le hrw.le⟩
  · exact ⟨(mul_pos hlw hlh).le, (mul_pos hrw hrh).le⟩

omit [IsStrictOrderedRing α] in
theorem C08_aabb_symm (l r : BBox α) : aabbInter l r = aabbInter r l := by
  rw [aabbInter_eq, aabbInter_eq, max_comm l.left, max_comm l.top,
    min_comm (l.left + l.width), min_comm (l.top + l.height)]

/-- the intersection is 0 exactly when the open interiors are disjoint -/
theorem C08_aabb_zero_iff (l r : BBox α) :
    aabbInter l r = 0 ↔
      ¬ (max l.left r.left < min (l.left + l.width) (r.left + r.width) ∧
         max l.top r.top < min (l.top + l.height) (r.top + r.height)) := by
  rw [aabbInter_eq]
  simp only [sub_pos]
  split_ifs with h
  · constructor
    · intro h0
      exact absurd h0 (mul_pos (sub_pos.mpr h.1) (sub_pos.mpr h.2)).ne'
    · intro hn
      exact absurd h hn
  · exact ⟨fun _ => h, fun _ => rfl⟩

theorem C08_aabb_identical (b : BBox α) (hb : Pos b) :
    aabbInter b b = b.width * b.height ∧ aabbIou b b = 1 := by
  obtain ⟨hw, hh⟩ := hb
  have hi : aabbInter b b = b.width * b.height := by
    rw [aabbInter_eq]
    simp only [max_self, min_self, add_sub_cancel_left]
    rw [if_pos ⟨hw, hh⟩]
  refine ⟨hi, ?_⟩
  unfold aabbIou
  simp only [hi]
  have : b.height * b.width + b.height * b.width - b.width * b.height = b.width * b.height := by
    ring
  rw [this]
  exact div_self (mul_pos hw hh).ne'

theorem C08_aabb_iou_range (l r : BBox α) (hl : Pos l) (hr : Pos r) :
    0 ≤ aabbIou l r ∧ aabbIou l r ≤ 1 := by
  obtain ⟨h1, h2⟩ := C08_aabb_le_area l r hl hr
  have h0 := C08_aabb_nonneg l r
  have hA : 0 < l.width * l.height := mul_pos hl.1 hl.2
  unfold aabbIou
  simp only
  have hden : 0 < l.height * l.width + r.height * r.width - aabbInter l r := by
    nlinarith
  constructor
  · exact div_nonneg h0 hden.le
  · rw [div_le_one hden]
    nlinarith

omit [IsStrictOrderedRing α] in
theorem C08_aabb_iou_symm (l r : BBox α) : aabbIou l r = aabbIou r l := by
  unfold aabbIou
  simp only
  rw [C08_aabb_symm l r, add_comm (l.height * l.width)]

def shift (dx dy : α) (b : BBox α) : BBox α := { b with left := b.left + dx, top := b.top + dy }

theorem C08_aabb_translate (l r : BBox α) (dx dy : α) :
    aabbInter (shift dx dy l) (shift dx dy r) = aabbInter l r := by
  rw [aabbInter_eq, aabbInter_eq]
  simp only [shift]
  have e1 : l.left + dx + l.width = (l.left + l.width) + dx := by ring
  have e2 : r.left + dx + r.width = (r.left + r.width) + dx := by ring
  have e3 : l.top + dy + l.height = (l.top + l.height) + dy := by ring
  have e4 : r.top + dy + r.height = (r.top + r.height) + dy := by ring
  simp only [e1, e2, e3, e4, max_add_add_right, min_add_add_right, add_sub_add_right_eq_sub]

/-- Soundness of the pre-filter over any ordered field (no square roots needed): if some point `p`
lies within the bounding circle of both boxes (in particular any common point of the two
rectangles), the pair is not rejected. -/
theorem C08_toofar_sound (l r : UBox α) (px py : α)
    (hl : (px - l.xc) * (px - l.xc) + (py - l.yc) * (py - l.yc) ≤ radiusSq l)
    (hr : (px - r.xc) * (px - r.xc) + (py - r.yc) * (py - r.yc) ≤ radiusSq r) :
    tooFar l r = false := by
  unfold tooFar
  simp only [Bool.and_eq_false_iff, decide_eq_false_iff_not]
  generalize radiusSq l = A at *
  generalize radiusSq r = B at *
  by_contra hcon
  rw [not_or, not_not, not_not] at hcon
  obtain ⟨he, h4⟩ := hcon
  -- u = p - centre_l, v = p - centre_r
  set ux := px - l.xc with hux
  set uy := py - l.yc with huy
  set vx := px - r.xc with hvx
  set vy := py - r.yc with hvy
  have hx : l.xc - r.xc = vx - ux := by rw [hux, hvx]; ring
  have hy : l.yc - r.yc = vy - uy := by rw [huy, hvy]; ring
  rw [hx, hy] at he h4
  have hU : 0 ≤ ux * ux + uy * uy := add_nonneg (mul_self_nonneg _) (mul_self_nonneg _)
  have hV : 0 ≤ vx * vx + vy * vy := add_nonneg (mul_self_nonneg _) (mul_self_nonneg _)
  have hA : 0 ≤ A := hU.trans hl
  have hB : 0 ≤ B := hV.trans hr
  set e := (vx - ux) * (vx - ux) + (vy - uy) * (vy - uy) - A - B with he_def
  set t := -(two * (ux * vx + uy * vy)) with ht
  have het : e ≤ t := by
    have : e = (ux * ux + uy * uy - A) + (vx * vx + vy * vy - B) + t := by
      rw [he_def, ht]; unfold two; ring
    linarith
  have hee : e * e ≤ t * t := mul_le_mul het het he.le (he.le.trans het)
  have hcs : t * t ≤ two * two * ((ux * ux + uy * uy) * (vx * vx + vy * vy)) := by
    have : two * two * ((ux * ux + uy * uy) * (vx * vx + vy * vy)) - t * t
        = two * two * ((ux * vy - uy * vx) * (ux * vy - uy * vx)) := by
      rw [ht]; ring
    have h22 : (0 : α) ≤ two * two := mul_self_nonneg _
    have := mul_nonneg h22 (mul_self_nonneg (ux * vy - uy * vx))
    linarith
  have hAB : (ux * ux + uy * uy) * (vx * vx + vy * vy) ≤ A * B :=
    mul_le_mul hl hr hV hA
  have h22 : (0 : α) ≤ two * two := mul_self_nonneg _
  have := mul_le_mul_of_nonneg_left hAB h22
  have h5 : two * two * A * B = two * two * (A * B) := by ring
  linarith

theorem radiusSq_nonneg (u : UBox α) : 0 ≤ radiusSq u := by
  unfold radiusSq
  exact add_nonneg (mul_self_nonneg _) (mul_self_nonneg _)

/-- every point of the (rotated) rectangle lies within the bounding circle:
`centre + R(x, y)` with `|x| ≤ w/2`, `|y| ≤ h/2`, `c² + s² = 1` -/
theorem C08_rect_in_circle (u : UBox α) (c s x y : α) (hcs : c * c + s * s = 1)
    (hx : |x| ≤ u.aspect * u.height / two) (hy : |y| ≤ u.height / two) :
    let px := u.xc + (c * x - s * y)
    let py := u.yc + (s * x + c * y)
    (px - u.xc) * (px - u.xc) + (py - u.yc) * (py - u.yc) ≤ radiusSq u := by
  intro px py
  unfold radiusSq
  simp only [px, py]
  generalize u.aspect * u.height / two = hw at *
  generalize u.height / two = hh at *
  have hxx : x * x ≤ hw * hw := by
    rw [← abs_mul_abs_self x]
    exact mul_le_mul hx hx (abs_nonneg _) ((abs_nonneg _).trans hx)
  have hyy : y * y ≤ hh * hh := by
    rw [← abs_mul_abs_self y]
    exact mul_le_mul hy hy (abs_nonneg _) ((abs_nonneg _).trans hy)
  have : (u.xc + (c * x - s * y) - u.xc) * (u.xc + (c * x - s * y) - u.xc) +
      (u.yc + (s * x + c * y) - u.yc) * (u.yc + (s * x + c * y) - u.yc)
      = (c * c + s * s) * (x * x + y * y) := by ring
  rw [this, hcs, one_mul]
  exact add_le_add hxx hyy

/-- over ℝ the decidable sqrt-free form is the code's test `x² + y² > (r₁ + r₂)²` with
`rᵢ = √(radiusSq ·)` -/
theorem C08_toofar_sqrtfree (l r : UBox ℝ) :
    tooFar l r = true ↔
      (l.xc - r.xc) * (l.xc - r.xc) + (l.yc - r.yc) * (l.yc - r.yc) >
        (Real.sqrt (radiusSq l) + Real.sqrt (radiusSq r)) * (Real.sqrt (radiusSq l) + Real.sqrt (radiusSq r)) := by
  have hA := radiusSq_nonneg l
  have hB := radiusSq_nonneg r
  unfold tooFar
  simp only [Bool.and_eq_true, decide_eq_true_eq, gt_iff_lt]
  generalize radiusSq l = A at *
  generalize radiusSq r = B at *
  generalize (l.xc - r.xc) * (l.xc - r.xc) + (l.yc - r.yc) * (l.yc - r.yc) = D
  have ha := Real.sqrt_nonneg A
  have hb := Real.sqrt_nonneg B
  have haa := Real.mul_self_sqrt hA
  have hbb := Real.mul_self_sqrt hB
  set a := Real.sqrt A
  set b := Real.sqrt B
  have h2 : (two : ℝ) = 2 := by unfold two; norm_num
  rw [h2, ← haa, ← hbb]
  have hab : 0 ≤ a * b := mul_nonneg ha hb
  constructor
  · rintro ⟨he, h4⟩
    have h4' : (2 * (a * b)) * (2 * (a * b)) <
        (D - a * a - b * b) * (D - a * a - b * b) := by nlinarith
    have := lt_of_mul_self_lt_mul_self₀ he.le h4'
    nlinarith
  · intro h
    have he : 2 * (a * b) < D - a * a - b * b := by nlinarith
    refine ⟨by linarith, ?_⟩
    have := mul_self_lt_mul_self (by positivity) he
    nlinarith

end SimVerif.C08
