import SimVerif.Props.C03b
import SimVerif.Props.C06b
import SimVerif.Props.C12
import SimVerif.Lemmas.TrackerGCBatch
/-!
# C03 — GC timing is unobservable: VisualSORT and the batch trackers
Model: `SimVerif.Tracker`. Helper lemmas: `SimVerif/Lemmas/TrackerGCBatch.lean`.

`Props/C03b.lean` proves, for the simple SORT tracker, that two histories that differ only in their
`set_auto_waste` calls are indistinguishable (`Equiv`, `step_equiv`, `C03_gc_unobservable`). This
file extends the one-call theorem to the other three trackers: VisualSORT (`predictV`), batch SORT
(`predictBatch`) and batch VisualSORT (`predictBatchV`).
-/
namespace SimVerif.C03
open SimVerif.Tracker List

/-- VisualSORT, simple tracker: one `predict` from indistinguishable states -/
theorem predictV_equiv (cfg : Cfg) (hb : cfg.batchIds = false) (a b : St) (h : Equiv cfg a b)
    (scene : Nat) (dets : List Det) (table : List VEntry) (picks : List Pick) :
    (predictV cfg a scene dets table picks = none ∧ predictV cfg b scene dets table picks = none) ∨
    ∃ a' b' recs, predictV cfg a scene dets table picks = some (a', recs) ∧
      predictV cfg b scene dets table picks = some (b', recs) ∧ Equiv cfg a' b' := by
  exact both_of_sim _ _ (Equiv cfg)
    (fun a' r ha => equiv_predictV cfg hb a b h scene dets table picks a' r ha)
    (fun b' r hb' => by
      obtain ⟨a', ha', he⟩ := equiv_predictV cfg hb b a h.symm scene dets table picks b' r hb'
      exact ⟨a', ha', he.symm⟩)

/-- batch SORT: one batch from indistinguishable states -/
theorem predictBatch_equiv (cfg : Cfg) (hb : cfg.batchIds = true) (a b : St) (h : Equiv cfg a b)
    (scenes : List (Nat × List Det × List Entry × List Pick)) :
    (predictBatch cfg a scenes = none ∧ predictBatch cfg b scenes = none) ∨
    ∃ a' b' out, predictBatch cfg a scenes = some (a', out) ∧
      predictBatch cfg b scenes = some (b', out) ∧ Equiv cfg a' b' := by
  exact both_of_sim _ _ (Equiv cfg)
    (fun a' r ha => equiv_predictBatch cfg hb a b h scenes a' r ha)
    (fun b' r hb' => by
      obtain ⟨a', ha', he⟩ := equiv_predictBatch cfg hb b a h.symm scenes b' r hb'
      exact ⟨a', ha', he.symm⟩)

/-- batch VisualSORT: one batch from indistinguishable states -/
theorem predictBatchV_equiv (cfg : Cfg) (hb : cfg.batchIds = true) (a b : St) (h : Equiv cfg a b)
    (scenes : List (Nat × List Det × List VEntry × List Pick)) :
    (predictBatchV cfg a scenes = none ∧ predictBatchV cfg b scenes = none) ∨
    ∃ a' b' out, predictBatchV cfg a scenes = some (a', out) ∧
      predictBatchV cfg b scenes = some (b', out) ∧ Equiv cfg a' b' := by
  exact both_of_sim _ _ (Equiv cfg)
    (fun a' r ha => equiv_predictBatchV cfg hb a b h scenes a' r ha)
    (fun b' r hb' => by
      obtain ⟨a', ha', he⟩ := equiv_predictBatchV cfg hb b a h.symm scenes b' r hb'
      exact ⟨a', ha', he.symm⟩)

end SimVerif.C03
