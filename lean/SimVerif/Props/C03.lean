import SimVerif.Model.Tracker
namespace SimVerif.C03
theorem C03_placeholder : True := trivial
end SimVerif.C03
